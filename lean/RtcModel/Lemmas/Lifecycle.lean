/- Frame lemmas for `RtcModel.Lifecycle` (C17): which building block touches which field. -/
import RtcModel.Lifecycle
namespace RtcModel.Lifecycle

/-! ### field frames of the small building blocks -/

section frames
variable (s : St) (r : Reason) (p : PeerSt)

@[simp] theorem setReasonIfNone_peer : (setReasonIfNone s r).peer = s.peer := by unfold setReasonIfNone; split <;> rfl
@[simp] theorem setReasonIfNone_sig : (setReasonIfNone s r).sig = s.sig := by unfold setReasonIfNone; split <;> rfl
@[simp] theorem setReasonIfNone_chans : (setReasonIfNone s r).chans = s.chans := by unfold setReasonIfNone; split <;> rfl
@[simp] theorem setReasonIfNone_drv : (setReasonIfNone s r).drv = s.drv := by unfold setReasonIfNone; split <;> rfl
@[simp] theorem setReasonIfNone_sctp : (setReasonIfNone s r).sctp = s.sctp := by unfold setReasonIfNone; split <;> rfl
@[simp] theorem setReasonIfNone_appGone : (setReasonIfNone s r).appGone = s.appGone := by unfold setReasonIfNone; split <;> rfl
theorem setReasonIfNone_keeps (x : Reason) (h : s.reason = some r) : (setReasonIfNone s x).reason = some r := by
  simp [setReasonIfNone, h]
theorem setReasonIfNone_isSome : (setReasonIfNone s r).reason.isSome = true := by
  unfold setReasonIfNone; split <;> simp_all

@[simp] theorem setPeer_reason : (setPeer s p).reason = s.reason := by unfold setPeer; split <;> rfl
@[simp] theorem setPeer_sig : (setPeer s p).sig = s.sig := by unfold setPeer; split <;> rfl
@[simp] theorem setPeer_chans : (setPeer s p).chans = s.chans := by unfold setPeer; split <;> rfl
@[simp] theorem setPeer_drv : (setPeer s p).drv = s.drv := by unfold setPeer; split <;> rfl
@[simp] theorem setPeer_sctp : (setPeer s p).sctp = s.sctp := by unfold setPeer; split <;> rfl
@[simp] theorem setPeer_appGone : (setPeer s p).appGone = s.appGone := by unfold setPeer; split <;> rfl
theorem setPeer_closed (h : s.peer = .closed) : (setPeer s p).peer = .closed := by simp [setPeer, h]
theorem setPeer_peer : (setPeer s p).peer = .closed ∨ (setPeer s p).peer = p := by
  unfold setPeer; split <;> simp_all

@[simp] theorem sctpEnd_reason : (sctpEnd s).reason = s.reason := rfl
@[simp] theorem sctpEnd_peer : (sctpEnd s).peer = s.peer := rfl
@[simp] theorem sctpEnd_sig : (sctpEnd s).sig = s.sig := rfl
@[simp] theorem sctpEnd_drv : (sctpEnd s).drv = s.drv := rfl
@[simp] theorem sctpEnd_appGone : (sctpEnd s).appGone = s.appGone := rfl
@[simp] theorem abortLoops_reason : (abortLoops s).reason = s.reason := by unfold abortLoops; split <;> rfl
@[simp] theorem abortLoops_peer : (abortLoops s).peer = s.peer := by unfold abortLoops; split <;> rfl
@[simp] theorem abortLoops_sig : (abortLoops s).sig = s.sig := by unfold abortLoops; split <;> rfl
@[simp] theorem abortLoops_drv : (abortLoops s).drv = s.drv := by unfold abortLoops; split <;> rfl
@[simp] theorem abortLoops_appGone : (abortLoops s).appGone = s.appGone := by unfold abortLoops; split <;> rfl
@[simp] theorem abortLoops_held : (abortLoops s).held = s.held := by unfold abortLoops; split <;> rfl
@[simp] theorem abortLoops_close : (abortLoops s).close = s.close := by unfold abortLoops; split <;> rfl
@[simp] theorem abortLoops_ice : (abortLoops s).ice = s.ice := by unfold abortLoops; split <;> rfl

@[simp] theorem markGone_reason : (markGone s).reason = s.reason := by unfold markGone; split <;> rfl
@[simp] theorem markGone_sig : (markGone s).sig = s.sig := by unfold markGone; split <;> rfl
@[simp] theorem markGone_chans : (markGone s).chans = s.chans := by unfold markGone; split <;> rfl
theorem markGone_closed (h : s.peer = .closed) : (markGone s).peer = .closed := by simp [markGone, h]

@[simp] theorem propagate_chans : (propagate s).chans = s.chans := by
  unfold propagate; split
  · split
    · split <;> simp
    · rfl
  · rfl
@[simp] theorem propagate_sig : (propagate s).sig = s.sig := by
  unfold propagate; split
  · split
    · split <;> simp
    · rfl
  · rfl
theorem propagate_keeps (h : s.reason = some r) : (propagate s).reason = some r := by
  unfold propagate; split
  · split
    · split
      · simp [setReasonIfNone_keeps s r _ h]
      · exact h
    · exact h
  · exact h
theorem propagate_closed (h : s.peer = .closed) : (propagate s).peer = .closed := by
  unfold propagate; split
  · split
    · split
      · exact markGone_closed _ (by simp [h])
      · exact h
    · exact h
  · exact h

@[simp] theorem failExit_reason : (failExit s).reason = s.reason := by simp [failExit]
@[simp] theorem failExit_sig : (failExit s).sig = s.sig := by simp [failExit]
@[simp] theorem failExit_drv : (failExit s).drv = .done := by simp [failExit]
theorem failExit_closed (h : s.peer = .closed) : (failExit s).peer = .closed := by simp [failExit, setPeer, h]
theorem failExit_chans : (failExit s).chans = s.chans.map closeChan := by simp [failExit]

theorem teardown_peer : (teardown s r).peer = .closed := by unfold teardown; split <;> simp_all
theorem teardown_keeps (x : Reason) (h : s.reason = some r) : (teardown s x).reason = some r := by
  unfold teardown; split
  · exact h
  · simp [setReasonIfNone, h]
theorem teardown_sig (h : s.sig = .closed) : (teardown s r).sig = .closed := by
  unfold teardown; split <;> simp_all
@[simp] theorem teardown_drv : (teardown s r).drv = s.drv := by unfold teardown; split <;> simp
@[simp] theorem teardown_appGone : (teardown s r).appGone = s.appGone := by unfold teardown; split <;> simp

theorem dropAll_peer : (dropAll s).peer = .closed := by simp [dropAll, teardown_peer]
theorem dropAll_keeps (h : s.reason = some r) : (dropAll s).reason = some r := by
  simp [dropAll]; exact teardown_keeps s r _ h
theorem dropAll_sig (h : s.sig = .closed) : (dropAll s).sig = .closed := by
  simp [dropAll]; exact teardown_sig s _ h
@[simp] theorem dropAll_drv : (dropAll s).drv = .done := by simp [dropAll]

theorem release_keeps (h : s.reason = some r) : (release s).reason = some r := by
  unfold release; split
  · exact dropAll_keeps s r h
  · exact h
theorem release_closed (h : s.peer = .closed) : (release s).peer = .closed := by
  unfold release; split
  · exact dropAll_peer s
  · exact h
theorem release_sig (h : s.sig = .closed) : (release s).sig = .closed := by
  unfold release; split
  · exact dropAll_sig s h
  · exact h

theorem topDown_keeps (h : s.reason = some r) : (topDown s).reason = some r := by
  unfold topDown; split
  · simp [setReasonIfNone, h]
  · split
    · simp only []
      exact teardown_keeps _ r _ (setReasonIfNone_keeps s r _ h)
    · exact h
theorem topDown_closed (h : s.peer = .closed) : (topDown s).peer = .closed := by
  unfold topDown; split
  · simp [failExit, setPeer, h]
  · split
    · simp [teardown_peer]
    · exact h
theorem topDown_sig (h : s.sig = .closed) : (topDown s).sig = .closed := by
  unfold topDown; split
  · simp [h]
  · split
    · simp only []
      exact teardown_sig _ _ (by simp [h])
    · exact h

@[simp] theorem beginStart_reason : (beginStart s).reason = s.reason := rfl
@[simp] theorem beginStart_peer : (beginStart s).peer = s.peer := rfl
@[simp] theorem beginStart_sig : (beginStart s).sig = s.sig := rfl
@[simp] theorem beginStart_chans : (beginStart s).chans = s.chans := rfl
@[simp] theorem topConnected_reason : (topConnected s).reason = s.reason := by
  unfold topConnected; split <;> split <;> rfl
@[simp] theorem topConnected_peer : (topConnected s).peer = s.peer := by
  unfold topConnected; split <;> split <;> rfl
@[simp] theorem topConnected_sig : (topConnected s).sig = s.sig := by
  unfold topConnected; split <;> split <;> rfl
@[simp] theorem topConnected_chans : (topConnected s).chans = s.chans := by
  unfold topConnected; split <;> split <;> rfl

theorem closeA_keeps (a : Reason) (h : s.reason = some r) : (closeA s a).reason = some r := by
  unfold closeA; split
  · exact h
  · simp [setReasonIfNone, h]
theorem closeA_closed (a : Reason) (h : s.peer = .closed) : (closeA s a).peer = .closed := by
  simp [closeA, h]
theorem closeA_sig (a : Reason) (h : s.sig = .closed) : (closeA s a).sig = .closed := by
  unfold closeA; split <;> simp [h]
@[simp] theorem closeA_chans (a : Reason) : (closeA s a).chans = s.chans := by unfold closeA; split <;> simp
@[simp] theorem closeA_drv (a : Reason) : (closeA s a).drv = s.drv := by unfold closeA; split <;> simp
@[simp] theorem closeB_reason : (closeB s).reason = s.reason := rfl
@[simp] theorem closeC_reason : (closeC s).reason = s.reason := by simp [closeC]
theorem closeB_chans : (closeB s).chans = s.chans.map closeChan := rfl

end frames

/-! ### channels: every block either leaves the list alone or maps `closeChan` over it -/

/-- the only two things the connection's own teardown paths ever do to the channel list -/
def ChansStep (old new : List Chan) : Prop := new = old ∨ new = old.map closeChan

theorem closeChan_idem (c : Chan) : closeChan (closeChan c) = closeChan c := by
  unfold closeChan; split <;> simp_all

theorem map_closeChan_idem (l : List Chan) : (l.map closeChan).map closeChan = l.map closeChan := by
  simp [List.map_map, Function.comp_def, closeChan_idem]

theorem ChansStep.refl (a : List Chan) : ChansStep a a := Or.inl rfl

theorem ChansStep.trans {a b c : List Chan} (h1 : ChansStep a b) (h2 : ChansStep b c) : ChansStep a c := by
  rcases h1 with h1 | h1 <;> rcases h2 with h2 | h2 <;> subst h1 <;> subst h2
  · left; rfl
  · right; rfl
  · right; rfl
  · right; exact map_closeChan_idem a

theorem sctpEnd_chans' (s t : St) (h : t.chans = s.chans) : ChansStep s.chans (sctpEnd t).chans := by
  right; simp [sctpEnd, h]
theorem abortLoops_chans' (s t : St) (h : ChansStep s.chans t.chans) : ChansStep s.chans (abortLoops t).chans := by
  unfold abortLoops; split
  · exact h.trans (Or.inr rfl)
  · exact h
theorem teardown_chans' (s t : St) (a : Reason) (h : ChansStep s.chans t.chans) : ChansStep s.chans (teardown t a).chans := by
  unfold teardown; split
  · exact h
  · exact h.trans (Or.inr rfl)
theorem dropAll_chans' (s t : St) (h : ChansStep s.chans t.chans) : ChansStep s.chans (dropAll t).chans := by
  unfold dropAll
  exact abortLoops_chans' s _ (by simpa using teardown_chans' s t .dropped h)
theorem release_chans' (s t : St) (h : ChansStep s.chans t.chans) : ChansStep s.chans (release t).chans := by
  unfold release; split
  · exact dropAll_chans' s t h
  · exact h
theorem topDown_chans' (s t : St) (h : ChansStep s.chans t.chans) : ChansStep s.chans (topDown t).chans := by
  unfold topDown; split
  · have : ChansStep s.chans (t.chans.map closeChan) := h.trans (Or.inr rfl)
    simpa [failExit] using this
  · split
    · simpa using teardown_chans' s (setReasonIfNone t .iceDisconnected) .iceDisconnected (by simpa using h)
    · exact h

theorem closeC_chans_step (s : St) : ChansStep s.chans (closeC s).chans := by
  unfold closeC; exact Or.inl rfl

theorem ChansStep.all_closed {a b : List Chan} (h : ChansStep a b) (ha : ∀ c ∈ a, c.closed = true) : ∀ c ∈ b, c.closed = true := by
  rcases h with e | e
  · rw [e]; exact ha
  · rw [e]; intro c hc
    simp only [List.mem_map] at hc
    obtain ⟨c0, h0, rfl⟩ := hc
    simp [closeChan, ha c0 h0]

/-- per action other than the raw `close_data_channel`: the channel list is left alone or closed-once over -/
theorem apply_chans (s : St) (a : Act) (hne : ∀ i, a ≠ .closeChannel i) : ChansStep s.chans (apply s a).chans := by
  cases a with
  | closeChannel i => exact absurd rfl (hne i)
  | callClose arg => simp only [apply]; left; simp
  | closeStep => simp only [apply]; split; exact Or.inr rfl; exact closeC_chans_step s
  | appDrop => simp only [apply]; split; exact Or.inl rfl; exact dropAll_chans' s _ (Or.inl rfl)
  | peerAbort => exact sctpEnd_chans' s _ rfl
  | peerShutdownAck => exact sctpEnd_chans' s _ rfl
  | peerShutdown => exact sctpEnd_chans' s _ rfl
  | hbTimeout => exact sctpEnd_chans' s _ rfl
  | drvTop =>
    simp only [apply]; split
    · left; simp
    · split
      · exact topDown_chans' s s (.refl _)
      · exact Or.inl rfl
  | drvRole => exact Or.inl rfl
  | drvDescs => simp only [apply]; split <;> exact Or.inl rfl
  | drvStart =>
    simp only [apply]; split
    · split
      · split
        · exact release_chans' s _ (Or.inl rfl)
        · exact release_chans' s _ (Or.inl rfl)
      · exact release_chans' s _ (by right; simp [failExit])
    · split
      · split
        · exact release_chans' s _ (abortLoops_chans' s _ (Or.inl rfl))
        · exact release_chans' s _ (Or.inl rfl)
      · exact release_chans' s _ (abortLoops_chans' s _ (by right; simp [failExit]))
  | drvLoops =>
    simp only [apply]
    have h1 : ChansStep s.chans (abortLoops (propagate s)).chans := abortLoops_chans' s _ (by left; simp)
    split
    · exact topDown_chans' s _ h1
    · exact h1
  | drvIce =>
    simp only [apply]; split
    · exact topDown_chans' s _ (abortLoops_chans' s s (.refl _))
    · split
      · split
        · left; simp
        · split
          · left; simp
          · exact Or.inl rfl
      · exact Or.inl rfl
  | drvDtls =>
    simp only [apply]; split
    · exact abortLoops_chans' s _ (by right; simp)
    · exact Or.inl rfl
  | drvGrace =>
    simp only [apply]
    exact abortLoops_chans' s _ (by right; simp)
  | sctpDtls =>
    simp only [apply]; split
    · split
      · exact Or.inl rfl
      · exact sctpEnd_chans' s _ rfl
    · exact sctpEnd_chans' s _ rfl
  | sctpClose => exact sctpEnd_chans' s _ rfl
  | _ => exact Or.inl rfl

/-- per action: a reason that is set stays -/
theorem apply_reason_keeps (s : St) (a : Act) (r : Reason) (h : s.reason = some r) : (apply s a).reason = some r := by
  cases a with
  | callClose arg => exact closeA_keeps s r arg h
  | closeStep => simp only [apply]; split <;> simp [h]
  | appDrop => simp only [apply]; split; exact h; exact dropAll_keeps _ r h
  | drvTop =>
    simp only [apply]; split
    · simp [h]
    · split
      · exact topDown_keeps s r h
      · exact h
  | drvRole => simp [apply, h]
  | drvDescs => simp only [apply]; split <;> exact h
  | drvStart =>
    simp only [apply]; split
    · split
      · split
        · exact release_keeps _ r h
        · exact release_keeps _ r h
      · exact release_keeps _ r (by simp [setReasonIfNone, h])
    · split
      · split
        · exact release_keeps _ r (by simp [h])
        · exact release_keeps _ r h
      · exact release_keeps _ r (by simp [setReasonIfNone, h])
  | drvLoops =>
    simp only [apply]
    have h1 : (abortLoops (propagate s)).reason = some r := by simp [propagate_keeps s r h]
    split
    · exact topDown_keeps _ r h1
    · exact h1
  | drvIce =>
    simp only [apply]; split
    · exact topDown_keeps _ r (by simp [h])
    · split
      · split
        · simp [h]
        · split
          · simp [h]
          · exact h
      · exact h
  | drvDtls =>
    simp only [apply]; split
    · simp [setReasonIfNone, h]
    · exact h
  | drvGrace => simp [apply, setReasonIfNone, h]
  | sctpDtls =>
    simp only [apply]; split
    · split <;> simp [h]
    · simp [h]
  | peerAbort => simp [apply, h]
  | peerShutdownAck => simp [apply, h]
  | peerShutdown => simp [apply, h]
  | hbTimeout => simp [apply, h]
  | sctpClose => simp [apply, h]
  | _ => exact h

/-- per action: `Closed` is final (fix 0e0d29e) -/
theorem apply_peer_closed (s : St) (a : Act) (h : s.peer = .closed) : (apply s a).peer = .closed := by
  cases a with
  | callClose arg => exact closeA_closed s arg h
  | closeStep => simp only [apply]; split <;> simp [closeB, closeC, h]
  | appDrop => simp only [apply]; split; exact h; exact dropAll_peer _
  | drvTop =>
    simp only [apply]; split
    · simp [h]
    · split
      · exact topDown_closed s h
      · exact h
  | drvRole => simp [apply, h]
  | drvDescs => simp only [apply]; split <;> exact h
  | drvStart =>
    simp only [apply]; split
    · split
      · exact release_closed _ h
      · exact release_closed _ (failExit_closed _ (by simp [h]))
    · split
      · exact release_closed _ (by simp [h])
      · exact release_closed _ (by simp [failExit_closed _ (show (setReasonIfNone s .dtlsFailed).peer = .closed by simp [h])])
  | drvLoops =>
    simp only [apply]
    have h1 : (abortLoops (propagate s)).peer = .closed := by simp [propagate_closed s h]
    split
    · exact topDown_closed _ h1
    · exact h1
  | drvIce =>
    simp only [apply]; split
    · exact topDown_closed _ (by simp [h])
    · split
      · split
        · simp [setPeer, h]
        · split
          · simp [setPeer, h]
          · exact h
      · exact h
  | drvDtls =>
    simp only [apply]; split
    · simp [setPeer, h]
    · exact h
  | drvGrace => simp [apply, setPeer, h]
  | sctpDtls =>
    simp only [apply]; split
    · split <;> simp [h]
    · simp [h]
  | peerAbort => simp [apply, h]
  | peerShutdownAck => simp [apply, h]
  | peerShutdown => simp [apply, h]
  | hbTimeout => simp [apply, h]
  | sctpClose => simp [apply, h]
  | _ => exact h

/-- per action: signaling `Closed` is final -/
theorem apply_sig_closed (s : St) (a : Act) (h : s.sig = .closed) : (apply s a).sig = .closed := by
  cases a with
  | callClose arg => exact closeA_sig s arg h
  | closeStep => simp only [apply]; split <;> simp [closeB, closeC, h]
  | appDrop => simp only [apply]; split; exact h; exact dropAll_sig _ h
  | drvTop =>
    simp only [apply]; split
    · simp [h]
    · split
      · exact topDown_sig s h
      · exact h
  | drvRole => simp [apply, h]
  | drvDescs => simp only [apply]; split <;> exact h
  | drvStart =>
    simp only [apply]; split
    · split
      · split
        · exact release_sig _ h
        · exact release_sig _ h
      · exact release_sig _ (by simp [h])
    · split
      · split
        · exact release_sig _ (by simp [h])
        · exact release_sig _ h
      · exact release_sig _ (by simp [h])
  | drvLoops =>
    simp only [apply]
    have h1 : (abortLoops (propagate s)).sig = .closed := by simp [h]
    split
    · exact topDown_sig _ h1
    · exact h1
  | drvIce =>
    simp only [apply]; split
    · exact topDown_sig _ (by simp [h])
    · split
      · split
        · simp [h]
        · split
          · simp [h]
          · exact h
      · exact h
  | drvDtls =>
    simp only [apply]; split
    · simp [h]
    · exact h
  | drvGrace => simp [apply, h]
  | sctpDtls =>
    simp only [apply]; split
    · split <;> simp [h]
    · simp [h]
  | peerAbort => simp [apply, h]
  | peerShutdownAck => simp [apply, h]
  | peerShutdown => simp [apply, h]
  | hbTimeout => simp [apply, h]
  | sctpClose => simp [apply, h]
  | _ => exact h

/-! ### terminal -/

theorem terminal_iff (s : St) : terminal s = true ↔
    (s.peer = .disconnected ∨ s.peer = .failed ∨ s.peer = .closed) ∧ ∃ r, s.reason = some r := by
  unfold terminal
  cases s.reason <;> simp [or_assoc]

/-- a state that differs only in fields other than `peer` / `reason` is terminal iff the original is -/
theorem terminal_congr (s t : St) (hp : t.peer = s.peer) (hr : t.reason = s.reason) : terminal t = terminal s := by
  simp [terminal, hp, hr]

/-- with the driving loop gone and a terminal state, one step of any actor keeps both -/
theorem step_done_terminal (s : St) (a : Act) (ht : terminal s = true) (hd : s.drv = .done) :
    terminal (step s a) = true ∧ (step s a).drv = .done := by
  obtain ⟨hp, r, hr⟩ := (terminal_iff s).mp ht
  unfold step
  by_cases hen : enabled s a = true
  · simp only [hen, if_true]
    cases a with
    | callClose arg =>
      refine ⟨?_, by simp [apply, hd]⟩
      rw [terminal_iff]
      refine ⟨?_, r, closeA_keeps s r arg hr⟩
      simp only [apply]; unfold closeA; split
      · simpa using hp
      · simp
    | closeStep =>
      simp only [apply]; split
      · exact ⟨(terminal_congr s _ rfl rfl).trans ht, hd⟩
      · exact ⟨(terminal_congr s _ (by simp [closeC]) (by simp [closeC])).trans ht, by simp [closeC, hd]⟩
    | appDrop =>
      simp only [apply]; split
      · exact ⟨(terminal_congr s _ rfl rfl).trans ht, hd⟩
      · refine ⟨?_, by simp⟩
        rw [terminal_iff]
        exact ⟨Or.inr (Or.inr (dropAll_peer _)), r, dropAll_keeps _ r hr⟩
    | closeChannel i => exact ⟨(terminal_congr s _ rfl rfl).trans ht, hd⟩
    | senderBlocks => exact ⟨(terminal_congr s _ rfl rfl).trans ht, hd⟩
    | peerAbort => exact ⟨(terminal_congr s _ rfl rfl).trans ht, hd⟩
    | peerShutdownAck => exact ⟨(terminal_congr s _ rfl rfl).trans ht, hd⟩
    | peerShutdown => exact ⟨(terminal_congr s _ rfl rfl).trans ht, hd⟩
    | hbTimeout => exact ⟨(terminal_congr s _ rfl rfl).trans ht, hd⟩
    | peerCloseNotify => exact ⟨(terminal_congr s _ rfl rfl).trans ht, hd⟩
    | dtlsFail => exact ⟨(terminal_congr s _ rfl rfl).trans ht, hd⟩
    | iceFail => exact ⟨(terminal_congr s _ rfl rfl).trans ht, hd⟩
    | iceStop => exact ⟨(terminal_congr s _ rfl rfl).trans ht, hd⟩
    | iceDisconnect => exact ⟨(terminal_congr s _ rfl rfl).trans ht, hd⟩
    | iceRecover => exact ⟨(terminal_congr s _ rfl rfl).trans ht, hd⟩
    | iceConnect => exact ⟨(terminal_congr s _ rfl rfl).trans ht, hd⟩
    | dtlsConnect => exact ⟨(terminal_congr s _ rfl rfl).trans ht, hd⟩
    | roleSet => exact ⟨(terminal_congr s _ rfl rfl).trans ht, hd⟩
    | descsSet => exact ⟨(terminal_congr s _ rfl rfl).trans ht, hd⟩
    | dtlsExit => exact ⟨(terminal_congr s _ rfl rfl).trans ht, hd⟩
    | dtlsSock => exact ⟨(terminal_congr s _ rfl rfl).trans ht, hd⟩
    | dtlsTimeout => exact ⟨(terminal_congr s _ rfl rfl).trans ht, hd⟩
    | drvTop => simp [enabled, hd] at hen
    | drvRole => simp [enabled, hd] at hen
    | drvDescs => simp [enabled, hd] at hen
    | drvStart => simp [enabled, hd] at hen
    | drvLoops => simp [enabled, hd] at hen
    | drvIce => simp [enabled, hd] at hen
    | drvDtls => simp [enabled, hd] at hen
    | drvGrace => simp [enabled, hd] at hen
    | sctpDtls => simp [enabled, hd] at hen
    | sctpClose => simp [enabled, hd] at hen
  · simp only [hen]; exact ⟨ht, hd⟩

/-! ### certificates: a finite set closed under a set of actions contains every reachable state -/

/-- `V` contains the image of each of its members under each action of `acts` -/
def closedUnder (acts : List Act) (V : List St) : Bool :=
  V.all (fun s => acts.all (fun a => V.contains (step s a)))

theorem closedUnder_sound (acts : List Act) (V : List St) (hcl : closedUnder acts V = true)
    (s : St) (hs : s ∈ V) (as : List Act) (has : ∀ a ∈ as, a ∈ acts) : run s as ∈ V := by
  induction as generalizing s with
  | nil => exact hs
  | cons a rest ih =>
    simp only [run, List.foldl_cons]
    have : step s a ∈ V := by
      unfold closedUnder at hcl
      rw [List.all_eq_true] at hcl
      have h1 := hcl s hs
      rw [List.all_eq_true] at h1
      have h2 := h1 a (has a (by simp))
      simpa using h2
    exact ih (step s a) this (fun b hb => has b (by simp [hb]))

/-- one round of the closure computation: only the frontier (the states found in the previous round) is
expanded; returns (all states, newest first; new frontier) -/
def expandFrontier (acts : List Act) (V F : List St) : List St × List St :=
  F.foldl (fun acc s => acts.foldl (fun acc a =>
    let t := step s a
    if acc.1.contains t then acc else (t :: acc.1, t :: acc.2)) acc) (V, [])

/-- worklist closure (if the fuel runs out before the frontier is empty the certificate check
`closedUnder` fails, so a too small fuel is never unsound). Newest states first. -/
def closureW (acts : List Act) : Nat → List St → List St → List St
  | 0, V, _ => V
  | n + 1, V, F =>
    if F.isEmpty then V
    else
      let r := expandFrontier acts V F
      closureW acts n r.1 r.2

def closure (acts : List Act) (n : Nat) (V : List St) : List St := closureW acts n V V

end RtcModel.Lifecycle
