/- Helper lemmas for the demux model (`RtcModel/Demux.lean`). -/
import RtcModel.Demux
namespace RtcModel.Demux

/-! ### association lists -/
section assoc
variable {α : Type} [DecidableEq α]

theorem lookup_mem (k : α) (m : List (α × Lid)) (l : Lid) (h : lookup k m = some l) : (k, l) ∈ m := by
  induction m with
  | nil => simp [lookup] at h
  | cons e r ih =>
    obtain ⟨k', v⟩ := e
    by_cases hk : k' = k
    · simp [lookup, hk] at h; simp [hk, h]
    · simp [lookup, hk] at h; simp [ih h]

theorem mem_insert (k : α) (v : Lid) (m : List (α × Lid)) (e : α × Lid) (h : e ∈ insert k v m) :
    e = (k, v) ∨ e ∈ m := by
  simp only [insert, List.mem_cons, List.mem_filter] at h
  rcases h with h | h
  · exact Or.inl h
  · exact Or.inr h.1

theorem mem_remove (k : α) (m : List (α × Lid)) (e : α × Lid) (h : e ∈ remove k m) : e ∈ m := by
  simp only [remove, List.mem_filter] at h; exact h.1

omit [DecidableEq α] in
theorem mem_retainOpen (c : List Lid) (m : List (α × Lid)) (e : α × Lid) (h : e ∈ retainOpen c m) : e ∈ m := by
  simp only [retainOpen, List.mem_filter] at h; exact h.1

omit [DecidableEq α] in
theorem mem_dropLid (l : Lid) (m : List (α × Lid)) (e : α × Lid) (h : e ∈ dropLid l m) : e ∈ m ∧ e.2 ≠ l := by
  simp only [dropLid, List.mem_filter] at h; exact ⟨h.1, by simpa using h.2⟩

theorem lookup_insert_same (k : α) (v : Lid) (m : List (α × Lid)) : lookup k (insert k v m) = some v := by
  simp [insert, lookup]

end assoc

/-! ### the unique-owner loop -/

/-- declarative reading of "unambiguous": there is at least one matching route and all matching
routes belong to the same listener -/
def UniqueOwner (rs : List Route) (l : Lid) : Prop := rs ≠ [] ∧ ∀ rt ∈ rs, rt.lid = l

theorem uniqueOwner_unique (rs : List Route) (a b : Lid) (ha : UniqueOwner rs a) (hb : UniqueOwner rs b) : a = b := by
  obtain ⟨hne, h1⟩ := ha
  cases rs with
  | nil => exact absurd rfl hne
  | cons rt rest => exact (h1 rt (by simp)).symm.trans (hb.2 rt (by simp))

theorem run_append (r : Reg) (a b : List Op) : run r (a ++ b) = run (run r a) b := by
  induction a generalizing r with
  | nil => rfl
  | cons o os ih => simp [run, ih]

theorem uniqueLoop_some_start (l : Lid) (rs : List Route) :
    (uniqueLoop (some l) rs = some l ∧ ∀ rt ∈ rs, rt.lid = l) ∨
    (uniqueLoop (some l) rs = none ∧ ∃ rt ∈ rs, rt.lid ≠ l) := by
  induction rs with
  | nil => left; simp [uniqueLoop]
  | cons rt rest ih =>
    by_cases h : l = rt.lid
    · simp only [uniqueLoop, h, if_true]
      rcases (h ▸ ih) with ⟨h1, h2⟩ | ⟨h1, h2⟩
      · left; exact ⟨h1, by intro x hx; simp at hx; rcases hx with rfl | hx; rfl; exact h2 x hx⟩
      · right; obtain ⟨x, hx, hne⟩ := h2; exact ⟨h1, x, by simp [hx], hne⟩
    · right
      refine ⟨by simp [uniqueLoop, h], rt, by simp, fun e => h e.symm⟩

/-- the loop of `unique_by_pt` / `single_provisional` computes exactly the unique owner -/
theorem uniqueLoop_iff (rs : List Route) (l : Lid) : uniqueLoop none rs = some l ↔ UniqueOwner rs l := by
  cases rs with
  | nil => simp [uniqueLoop, UniqueOwner]
  | cons rt rest =>
    simp only [uniqueLoop, UniqueOwner]
    rcases uniqueLoop_some_start rt.lid rest with ⟨h1, h2⟩ | ⟨h1, h2⟩
    · rw [h1]
      constructor
      · intro h; simp at h; subst h
        exact ⟨by simp, by intro x hx; simp at hx; rcases hx with rfl | hx; rfl; exact h2 x hx⟩
      · intro ⟨_, h⟩; have := h rt (by simp); simp [this]
    · rw [h1]
      constructor
      · intro h; simp at h
      · intro ⟨_, h⟩
        obtain ⟨x, hx, hne⟩ := h2
        have e1 := h rt (by simp)
        have e2 := h x (by simp [hx])
        exact absurd (e2.trans e1.symm) hne

theorem uniqueLoop_none_iff (rs : List Route) : uniqueLoop none rs = none ↔ ¬ ∃ l, UniqueOwner rs l := by
  constructor
  · intro h ⟨l, hl⟩; rw [(uniqueLoop_iff rs l).2 hl] at h; simp at h
  · intro h
    cases hu : uniqueLoop none rs with
    | none => rfl
    | some l => exact absurd ⟨l, (uniqueLoop_iff rs l).1 hu⟩ h

theorem uniqueLoop_mem (rs : List Route) (l : Lid) (h : uniqueLoop none rs = some l) : ∃ rt ∈ rs, rt.lid = l := by
  obtain ⟨hne, hall⟩ := (uniqueLoop_iff rs l).1 h
  cases rs with
  | nil => exact absurd rfl hne
  | cons rt rest => exact ⟨rt, by simp, hall rt (by simp)⟩

/-! ### registry frame facts -/

@[simp] theorem bindSsrc_closed (r : Reg) (s : Nat) (l : Lid) : (bindSsrc r s l).closed = r.closed := rfl
@[simp] theorem bindSsrc_byMid (r : Reg) (s : Nat) (l : Lid) : (bindSsrc r s l).byMid = r.byMid := rfl
@[simp] theorem bindSsrc_byRid (r : Reg) (s : Nat) (l : Lid) : (bindSsrc r s l).byRid = r.byRid := rfl
@[simp] theorem bindSsrc_routes (r : Reg) (s : Nat) (l : Lid) : (bindSsrc r s l).routes = r.routes := rfl

@[simp] theorem bindFromPacket_closed (r : Reg) (s : Nat) (l : Lid) : (bindFromPacket r s l).closed = r.closed := by
  unfold bindFromPacket; split <;> rfl
@[simp] theorem bindFromPacket_byMid (r : Reg) (s : Nat) (l : Lid) : (bindFromPacket r s l).byMid = r.byMid := by
  unfold bindFromPacket; split <;> rfl
@[simp] theorem bindFromPacket_byRid (r : Reg) (s : Nat) (l : Lid) : (bindFromPacket r s l).byRid = r.byRid := by
  unfold bindFromPacket; split <;> rfl
@[simp] theorem bindFromPacket_routes (r : Reg) (s : Nat) (l : Lid) : (bindFromPacket r s l).routes = r.routes := by
  unfold bindFromPacket; split <;> rfl

theorem bindFromPacket_mem (r : Reg) (s : Nat) (l : Lid) (e : Nat × Lid)
    (h : e ∈ (bindFromPacket r s l).bySsrc) : e = (s, l) ∨ e ∈ r.bySsrc := by
  unfold bindFromPacket at h
  split at h
  · rcases mem_insert _ _ _ _ h with he | he
    · exact Or.inl he
    · exact Or.inr (mem_retainOpen _ _ _ he)
  · rcases mem_insert _ _ _ _ h with he | he
    · exact Or.inl he
    · exact Or.inr he

theorem bindFromPacket_lookup (r : Reg) (s : Nat) (l : Lid) : lookup s (bindFromPacket r s l).bySsrc = some l := by
  unfold bindFromPacket; split <;> exact lookup_insert_same _ _ _

@[simp] theorem afterSelect_closed (r : Reg) (s : Nat) (l : Lid) (b : Bool) : (afterSelect r s l b).closed = r.closed := by
  cases b <;> simp [afterSelect]

theorem afterSelect_mem (r : Reg) (s : Nat) (l : Lid) (b : Bool) (e : Nat × Lid)
    (h : e ∈ (afterSelect r s l b).bySsrc) : e ∈ r.bySsrc ∨ (b = true ∧ e = (s, l)) := by
  cases b
  · exact Or.inl h
  · simp only [afterSelect, if_true] at h
    rcases bindFromPacket_mem _ _ _ _ h with he | he
    · exact Or.inr ⟨rfl, he⟩
    · exact Or.inl he

theorem deliver_mem (r1 : Reg) (s : Nat) (l : Lid) (v : Via) (f : Bool) (e : Nat × Lid)
    (h : e ∈ (deliver r1 s l v f).1.bySsrc) : e ∈ r1.bySsrc := by
  unfold deliver at h
  split at h
  · simp only [removeSender] at h
    exact mem_remove _ _ _ (mem_dropLid _ _ _ h).1
  · split at h <;> exact h

theorem deliver_delivered (r1 : Reg) (s : Nat) (l l' : Lid) (v v' : Via) (f : Bool)
    (h : (deliver r1 s l v f).2 = .delivered l' v') : r1.isClosed l = false ∧ f = false ∧ l' = l ∧ v' = v := by
  unfold deliver at h
  split at h
  · simp at h
  · rename_i hc
    split at h
    · simp at h
    · rename_i hf
      simp at h
      exact ⟨by simpa using hc, by simpa using hf, h.1.symm, h.2.symm⟩

/-- a full channel costs the packet and nothing else -/
theorem deliver_fullOut (r1 : Reg) (s : Nat) (l l' : Lid) (v v' : Via) (f : Bool)
    (h : (deliver r1 s l v f).2 = .fullOut l' v') :
    r1.isClosed l = false ∧ f = true ∧ l' = l ∧ v' = v ∧ (deliver r1 s l v f).1 = r1 := by
  unfold deliver at h ⊢
  split at h
  · simp at h
  · rename_i hc
    split at h
    · rename_i hf
      simp at h
      simp [hc, hf, h.1.symm, h.2.symm]
    · simp at h

theorem deliver_closedOut (r1 : Reg) (s : Nat) (l l' : Lid) (v v' : Via) (f : Bool)
    (h : (deliver r1 s l v f).2 = .closedOut l' v') :
    l' = l ∧ (deliver r1 s l v f).1 = removeSender { r1 with bySsrc := remove s r1.bySsrc } l := by
  unfold deliver at h ⊢
  split at h
  · rename_i hc
    simp at h
    simp [hc, h.1.symm]
  · split at h <;> simp at h

/-- a listener is known to the registry in some role -/
def Registered (r : Reg) (l : Lid) : Prop :=
  (∃ k, (k, l) ∈ r.bySsrc) ∨ (∃ k, (k, l) ∈ r.byRid) ∨ (∃ k, (k, l) ∈ r.byMid) ∨ (∃ rt ∈ r.routes, rt.lid = l)

theorem stageRid_mem (r : Reg) (p : Pkt) (l : Lid) (h : stageRid r p = some l) : ∃ k, (k, l) ∈ r.byRid := by
  unfold stageRid at h
  split at h
  · split at h
    · exact ⟨_, lookup_mem _ _ _ h⟩
    · simp at h
  · simp at h

theorem stageMid_mem (r : Reg) (p : Pkt) (l : Lid) (h : stageMid r p = some l) : ∃ k, (k, l) ∈ r.byMid := by
  unfold stageMid at h
  split at h
  · split at h
    · exact ⟨_, lookup_mem _ _ _ h⟩
    · simp at h
  · simp at h

theorem lateStages_registered (r : Reg) (p : Pkt) (l : Lid) (v : Via) (b : Bool)
    (h : lateStages r p = some (l, v, b)) : Registered r l := by
  unfold lateStages at h
  split at h
  · rename_i l' hs; simp at h; obtain ⟨rfl, _, _⟩ := h
    exact Or.inl ⟨_, lookup_mem _ _ _ hs⟩
  · split at h
    · rename_i l' hs; simp at h; obtain ⟨rfl, _, _⟩ := h
      obtain ⟨rt, hrt, hl⟩ := uniqueLoop_mem _ _ hs
      exact Or.inr (Or.inr (Or.inr ⟨rt, (List.mem_filter.1 hrt).1, hl⟩))
    · split at h
      · simp at h
      · split at h
        · rename_i l' hs; simp at h; obtain ⟨rfl, _, _⟩ := h
          obtain ⟨rt, hrt, hl⟩ := uniqueLoop_mem _ _ hs
          exact Or.inr (Or.inr (Or.inr ⟨rt, (List.mem_filter.1 hrt).1, hl⟩))
        · simp at h

/-- what `select` returns, stage by stage -/
theorem select_cases (r : Reg) (p : Pkt) (l : Lid) (v : Via) (b : Bool) (h : select r p = some (l, v, b)) :
    (stageRid r p = some l ∧ v = .rid ∧ b = true) ∨
    (stageRid r p = none ∧ stageMid r p = some l ∧ v = .mid ∧ b = true) ∨
    (stageRid r p = none ∧ stageMid r p = none ∧ lateStages r p = some (l, v, b) ∧ vetoed r p l = false) := by
  unfold select at h
  split at h
  · rename_i l' hs; simp at h; obtain ⟨rfl, rfl, rfl⟩ := h; exact Or.inl ⟨hs, rfl, rfl⟩
  · rename_i hr
    split at h
    · rename_i l' hs; simp at h; obtain ⟨rfl, rfl, rfl⟩ := h; exact Or.inr (Or.inl ⟨hr, hs, rfl, rfl⟩)
    · rename_i hm
      split at h
      · rename_i l' v' b' hl
        by_cases hv : vetoed r p l' = true
        · simp [hv] at h
        · simp [hv] at h; obtain ⟨rfl, rfl, rfl⟩ := h
          exact Or.inr (Or.inr ⟨hr, hm, hl, by simpa using hv⟩)
      · simp at h

/-- every stage of `select` returns a listener the registry knows -/
theorem select_registered (r : Reg) (p : Pkt) (l : Lid) (v : Via) (b : Bool)
    (h : select r p = some (l, v, b)) : Registered r l := by
  rcases select_cases r p l v b h with ⟨hs, _, _⟩ | ⟨_, hs, _, _⟩ | ⟨_, _, hs, _⟩
  · exact Or.inr (Or.inl (stageRid_mem r p _ hs))
  · exact Or.inr (Or.inr (Or.inl (stageMid_mem r p _ hs)))
  · exact lateStages_registered r p l v b hs

end RtcModel.Demux
