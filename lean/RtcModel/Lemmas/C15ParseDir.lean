/- C15 — the PARSE direction against the independent RFC readers of `C15Spec.lean`: every datagram a reader accepts
as one packet of a type is parsed by the stack's parser to the packet the reader returns. Core Lean only. -/
import RtcModel.Lemmas.C15Spec

namespace RtcModel.C15.Rfc
open RtcModel.C15 RtcModel.Generated

theorem excons {bs : Bytes} {n : Nat} (h : n + 1 ≤ bs.length) : ∃ a rest, bs = a :: rest ∧ n ≤ rest.length := by
  cases bs with
  | nil => simp at h
  | cons a r => exact ⟨a, r, rfl, by simpa using h⟩

/-- framing, parse direction: a datagram that the RFC reader sees as ONE packet of type `pt` (version 2, no padding,
length field = the datagram) is handed by `parse_rtcp_packets` to the per-type parser as: type `pt`, count/format
field, and everything behind the 4-octet header; and nothing else is returned -/
theorem parseCompound_framed (bs : Bytes) (pt : Nat) (h : framed bs pt) :
    parseCompound bs =
      match parseOne pt (hdr bs).count (bs.drop 4) with
      | .error e => .error e
      | .ok none => .ok []
      | .ok (some p) => .ok [p] := by
  obtain ⟨hv, hp, hpt, hl⟩ := h
  have h4 : 3 + 1 ≤ bs.length := by omega
  obtain ⟨a0, bs, rfl, h3⟩ := excons h4
  obtain ⟨a1, bs, rfl, h2⟩ := excons (n := 2) h3
  obtain ⟨a2, bs, rfl, h1⟩ := excons (n := 1) h2
  obtain ⟨a3, rest, rfl, h0⟩ := excons (n := 0) h1
  · simp only [hdr, o8, o16, List.drop_zero, List.drop_succ_cons, List.length_cons] at hv hp hpt hl ⊢
    have h0 := a0.toNat_lt
    have hp' : a0.toNat / 32 % 2 = 0 := by
      by_cases hq : a0.toNat / 32 % 2 = 1
      · simp [hq] at hp
      · omega
    rw [parseCompound]
    rw [if_neg (by rw [c15RtpVersion_val]; omega)]
    have hrd : (rd16 a2 a3).toNat * 4 = rest.length := by rw [rd16_toNat]; omega
    have hpb : (a0.toNat / 32 % 2 == 1) = false := by simp [hp']
    simp only [hrd, hpb, Bool.false_eq_true, if_false, Bool.false_and, Nat.sub_zero, List.take_length, List.drop_length]
    rw [if_neg (by omega), hpt]
    cases parseOne pt (a0.toNat % 32) rest with
    | error e => rfl
    | ok o => cases o <;> simp [parseCompound]

theorem parseBlock_reportBlock (bs : Bytes) (h : 24 ≤ bs.length) : parseBlock bs = some (reportBlock bs 0) := by
  have h_24 : 23 + 1 ≤ bs.length := h
  obtain ⟨s0, bs, rfl, h_23⟩ := excons (n := 23) h_24
  obtain ⟨s1, bs, rfl, h_22⟩ := excons (n := 22) h_23
  obtain ⟨s2, bs, rfl, h_21⟩ := excons (n := 21) h_22
  obtain ⟨s3, bs, rfl, h_20⟩ := excons (n := 20) h_21
  obtain ⟨fl, bs, rfl, h_19⟩ := excons (n := 19) h_20
  obtain ⟨l0, bs, rfl, h_18⟩ := excons (n := 18) h_19
  obtain ⟨l1, bs, rfl, h_17⟩ := excons (n := 17) h_18
  obtain ⟨l2, bs, rfl, h_16⟩ := excons (n := 16) h_17
  obtain ⟨h0, bs, rfl, h_15⟩ := excons (n := 15) h_16
  obtain ⟨h1, bs, rfl, h_14⟩ := excons (n := 14) h_15
  obtain ⟨h2, bs, rfl, h_13⟩ := excons (n := 13) h_14
  obtain ⟨h3, bs, rfl, h_12⟩ := excons (n := 12) h_13
  obtain ⟨j0, bs, rfl, h_11⟩ := excons (n := 11) h_12
  obtain ⟨j1, bs, rfl, h_10⟩ := excons (n := 10) h_11
  obtain ⟨j2, bs, rfl, h_9⟩ := excons (n := 9) h_10
  obtain ⟨j3, bs, rfl, h_8⟩ := excons (n := 8) h_9
  obtain ⟨a0, bs, rfl, h_7⟩ := excons (n := 7) h_8
  obtain ⟨a1, bs, rfl, h_6⟩ := excons (n := 6) h_7
  obtain ⟨a2, bs, rfl, h_5⟩ := excons (n := 5) h_6
  obtain ⟨a3, bs, rfl, h_4⟩ := excons (n := 4) h_5
  obtain ⟨d0, bs, rfl, h_3⟩ := excons (n := 3) h_4
  obtain ⟨d1, bs, rfl, h_2⟩ := excons (n := 2) h_3
  obtain ⟨d2, bs, rfl, h_1⟩ := excons (n := 1) h_2
  obtain ⟨d3, bs, rfl, h_0⟩ := excons (n := 0) h_1
  · simp [parseBlock, reportBlock, w32, o32, w8, o8, o24, s24, rd32, rd24n]

theorem reportBlocks_succ (bs : Bytes) (off n : Nat) :
    reportBlocks bs off (n + 1) = reportBlock bs off :: reportBlocks bs (off + 24) n := by
  simp only [reportBlocks, List.range_succ_eq_map, List.map_cons, List.map_map, Nat.mul_zero, Nat.add_zero]
  congr 1
  apply List.map_congr_left
  intro i _
  simp only [Function.comp]
  congr 1; omega

theorem reportBlocks_drop (bs : Bytes) (k off n : Nat) : reportBlocks bs (k + off) n = reportBlocks (bs.drop k) off n := by
  simp only [reportBlocks]
  apply List.map_congr_left
  intro i _
  rw [Nat.add_assoc, reportBlock_shift bs, reportBlock_shift (bs.drop k), List.drop_drop]

theorem parseBlocks_reportBlocks : ∀ (n : Nat) (bs : Bytes), 24 * n ≤ bs.length →
    parseBlocks n bs = .ok (reportBlocks bs 0 n) := by
  intro n
  induction n with
  | zero => intro bs _; simp [parseBlocks, reportBlocks]
  | succ n ih =>
    intro bs h
    simp only [parseBlocks]
    rw [if_neg (by omega), parseBlock_reportBlock bs (by omega)]
    simp only
    rw [ih (bs.drop 24) (by simp; omega), reportBlocks_succ]
    have := reportBlocks_drop bs 24 0 n
    simp only [Nat.add_zero] at this
    rw [Nat.zero_add, this]

/-- parse direction, RR -/
theorem parse_of_readRr (bs : Bytes) (p : Rtcp) (h : readRr bs = some p) : parseCompound bs = .ok [p] := by
  unfold readRr at h
  split at h
  · next hc =>
    injection h with h; subst h
    obtain ⟨hf, hlen⟩ := hc
    rw [parseCompound_framed bs 201 hf]
    have h201 := parseOne_rr (hdr bs).count (bs.drop 4)
    rw [c15RtcpRr_val] at h201
    rw [h201]
    have h8_8 : 7 + 1 ≤ bs.length := by omega
    obtain ⟨a0, bs, rfl, h8_7⟩ := excons (n := 7) h8_8
    obtain ⟨a1, bs, rfl, h8_6⟩ := excons (n := 6) h8_7
    obtain ⟨a2, bs, rfl, h8_5⟩ := excons (n := 5) h8_6
    obtain ⟨a3, bs, rfl, h8_4⟩ := excons (n := 4) h8_5
    obtain ⟨s0, bs, rfl, h8_3⟩ := excons (n := 3) h8_4
    obtain ⟨s1, bs, rfl, h8_2⟩ := excons (n := 2) h8_3
    obtain ⟨s2, bs, rfl, h8_1⟩ := excons (n := 1) h8_2
    obtain ⟨s3, bs, rfl, h8_0⟩ := excons (n := 0) h8_1
    · rename Bytes => rest
      simp only [List.drop_succ_cons, List.drop_zero, parseRr]
      simp only [List.length_cons] at hlen
      rw [parseBlocks_reportBlocks _ rest (by omega)]
      have hb := reportBlocks_drop (a0 :: a1 :: a2 :: a3 :: s0 :: s1 :: s2 :: s3 :: rest) 8 0
      simp only [Nat.add_zero, List.drop_succ_cons, List.drop_zero] at hb
      simp [Except.map, hb, w32, o32, rd32]
  · cases h

/-- parse direction, SR -/
theorem parse_of_readSr (bs : Bytes) (p : Rtcp) (h : readSr bs = some p) : parseCompound bs = .ok [p] := by
  unfold readSr at h
  split at h
  · next hc =>
    injection h with h; subst h
    obtain ⟨hf, hlen⟩ := hc
    rw [parseCompound_framed bs 200 hf]
    have h200 := parseOne_sr (hdr bs).count (bs.drop 4)
    rw [c15RtcpSr_val] at h200
    rw [h200]
    have h28_28 : 27 + 1 ≤ bs.length := by omega
    obtain ⟨a0, bs, rfl, h28_27⟩ := excons (n := 27) h28_28
    obtain ⟨a1, bs, rfl, h28_26⟩ := excons (n := 26) h28_27
    obtain ⟨a2, bs, rfl, h28_25⟩ := excons (n := 25) h28_26
    obtain ⟨a3, bs, rfl, h28_24⟩ := excons (n := 24) h28_25
    obtain ⟨s0, bs, rfl, h28_23⟩ := excons (n := 23) h28_24
    obtain ⟨s1, bs, rfl, h28_22⟩ := excons (n := 22) h28_23
    obtain ⟨s2, bs, rfl, h28_21⟩ := excons (n := 21) h28_22
    obtain ⟨s3, bs, rfl, h28_20⟩ := excons (n := 20) h28_21
    obtain ⟨m0, bs, rfl, h28_19⟩ := excons (n := 19) h28_20
    obtain ⟨m1, bs, rfl, h28_18⟩ := excons (n := 18) h28_19
    obtain ⟨m2, bs, rfl, h28_17⟩ := excons (n := 17) h28_18
    obtain ⟨m3, bs, rfl, h28_16⟩ := excons (n := 16) h28_17
    obtain ⟨l0, bs, rfl, h28_15⟩ := excons (n := 15) h28_16
    obtain ⟨l1, bs, rfl, h28_14⟩ := excons (n := 14) h28_15
    obtain ⟨l2, bs, rfl, h28_13⟩ := excons (n := 13) h28_14
    obtain ⟨l3, bs, rfl, h28_12⟩ := excons (n := 12) h28_13
    obtain ⟨t0, bs, rfl, h28_11⟩ := excons (n := 11) h28_12
    obtain ⟨t1, bs, rfl, h28_10⟩ := excons (n := 10) h28_11
    obtain ⟨t2, bs, rfl, h28_9⟩ := excons (n := 9) h28_10
    obtain ⟨t3, bs, rfl, h28_8⟩ := excons (n := 8) h28_9
    obtain ⟨p0, bs, rfl, h28_7⟩ := excons (n := 7) h28_8
    obtain ⟨p1, bs, rfl, h28_6⟩ := excons (n := 6) h28_7
    obtain ⟨p2, bs, rfl, h28_5⟩ := excons (n := 5) h28_6
    obtain ⟨p3, bs, rfl, h28_4⟩ := excons (n := 4) h28_5
    obtain ⟨o0, bs, rfl, h28_3⟩ := excons (n := 3) h28_4
    obtain ⟨o1, bs, rfl, h28_2⟩ := excons (n := 2) h28_3
    obtain ⟨o2, bs, rfl, h28_1⟩ := excons (n := 1) h28_2
    obtain ⟨o3, bs, rfl, h28_0⟩ := excons (n := 0) h28_1
    · rename Bytes => rest
      simp only [List.drop_succ_cons, List.drop_zero, parseSr]
      simp only [List.length_cons] at hlen
      rw [parseBlocks_reportBlocks _ rest (by omega)]
      have hb := reportBlocks_drop (a0 :: a1 :: a2 :: a3 :: s0 :: s1 :: s2 :: s3 :: m0 :: m1 :: m2 :: m3 :: l0 :: l1 :: l2 :: l3 :: t0 :: t1 :: t2 :: t3 ::
        p0 :: p1 :: p2 :: p3 :: o0 :: o1 :: o2 :: o3 :: rest) 28 0
      simp only [Nat.add_zero, List.drop_succ_cons, List.drop_zero] at hb
      simp [Except.map, hb, w32, o32, rd32]
  · cases h


theorem list_len12 {bs : Bytes} (h : bs.length = 12) :
    ∃ a0 a1 a2 a3 a4 a5 a6 a7 a8 a9 a10 a11, bs = [a0, a1, a2, a3, a4, a5, a6, a7, a8, a9, a10, a11] := by
  match bs, h with
  | [a0, a1, a2, a3, a4, a5, a6, a7, a8, a9, a10, a11], _ => exact ⟨_, _, _, _, _, _, _, _, _, _, _, _, rfl⟩

/-- parse direction, PLI: every datagram the independent RFC reader accepts as a PLI is parsed by the stack to
the same packet -/
theorem parse_of_readPli (bs : Bytes) (p : Rtcp) (h : readPli bs = some p) : parseCompound bs = .ok [p] := by
  unfold readPli at h
  split at h
  · next hc =>
    injection h with h; subst h
    obtain ⟨⟨hv, hp, hpt, hl⟩, hcnt, h12⟩ := hc
    obtain ⟨a0, a1, a2, a3, a4, a5, a6, a7, a8, a9, a10, a11, rfl⟩ := list_len12 h12
    simp only [hdr, o8, o16, List.drop_zero, List.drop_succ_cons, List.length_cons, List.length_nil] at hv hp hpt hl hcnt
    have h0 := a0.toNat_lt; have h2 := a2.toNat_lt; have h3 := a3.toNat_lt
    have hp' : a0.toNat / 32 % 2 = 0 := by
      by_cases hq : a0.toNat / 32 % 2 = 1
      · simp [hq] at hp
      · omega
    have hlw : a2.toNat * 256 + a3.toNat = 2 := by omega
    rw [parseCompound]
    rw [if_neg (by rw [c15RtpVersion_val]; omega)]
    have hrd : (rd16 a2 a3).toNat * 4 = 8 := by rw [rd16_toNat]; omega
    simp only [hrd, List.length_cons, List.length_nil]
    have hpb : (a0.toNat / 32 % 2 == 1) = false := by simp [hp']
    rw [hpb]
    simp only [Bool.false_eq_true, if_false, Bool.false_and, Nat.sub_zero, List.take_succ_cons, List.take_zero,
      List.drop_succ_cons, List.drop_zero]
    rw [if_neg (by omega)]
    rw [hcnt, hpt]
    have : parseOne 206 1 [a4, a5, a6, a7, a8, a9, a10, a11] = .ok (some (.pli (rd32 a4 a5 a6 a7) (rd32 a8 a9 a10 a11))) := by
      have := parseOne_pli [a4, a5, a6, a7, a8, a9, a10, a11]
      rw [c15RtcpPsfb_val, c15FmtPli_val] at this
      rw [this]; rfl
    rw [this]
    simp only [parseCompound]
    simp [w32, o32, rd32]
  · cases h


/-! ### FIR -/

theorem firEntry_shift (bs : Bytes) (k i : Nat) : firEntry bs (k + i) = firEntry (bs.drop k) i := by
  simp only [firEntry, w32_shift, Nat.add_assoc, w8_shift]

theorem range_succ_map_shift {β : Type} (f : Nat → β) (n : Nat) :
    (List.range (n + 1)).map f = f 0 :: (List.range n).map (fun i => f (i + 1)) := by
  simp [List.range_succ_eq_map, List.map_map, Function.comp]

theorem firEntries_read : ∀ (n : Nat) (rest : Bytes), rest.length = 8 * n →
    firEntries rest = (List.range n).map fun i => firEntry rest (8 * i) := by
  intro n
  induction n with
  | zero => intro rest h; have : rest = [] := List.length_eq_zero_iff.mp (by omega); subst this; simp [firEntries]
  | succ n ih =>
    intro rest h
    have h_8 : 7 + 1 ≤ rest.length := by omega
    obtain ⟨s0, bs, rfl, h_7⟩ := excons (n := 7) h_8
    obtain ⟨s1, bs, rfl, h_6⟩ := excons (n := 6) h_7
    obtain ⟨s2, bs, rfl, h_5⟩ := excons (n := 5) h_6
    obtain ⟨s3, bs, rfl, h_4⟩ := excons (n := 4) h_5
    obtain ⟨q, bs, rfl, h_3⟩ := excons (n := 3) h_4
    obtain ⟨r0, bs, rfl, h_2⟩ := excons (n := 2) h_3
    obtain ⟨r1, bs, rfl, h_1⟩ := excons (n := 1) h_2
    obtain ⟨r2, bs, rfl, h_0⟩ := excons (n := 0) h_1
    simp only [List.length_cons] at h
    rw [firEntries, ih bs (by omega), range_succ_map_shift]
    congr 1
    · simp [firEntry, w32, o32, w8, o8, rd32]

/-- parse direction, FIR -/
theorem parse_of_readFir (bs : Bytes) (p : Rtcp) (h : readFir bs = some p) : parseCompound bs = .ok [p] := by
  unfold readFir at h
  simp only at h
  split at h
  · next hc =>
    injection h with h; subst h
    obtain ⟨hf, hcnt, h12, hlen, _, _⟩ := hc
    rw [parseCompound_framed bs 206 hf, hcnt]
    have h206 := parseOne_fir (bs.drop 4)
    rw [c15RtcpPsfb_val, c15FmtFir_val] at h206
    rw [h206]
    generalize hn : (bs.length - 12) / 8 = n at hlen ⊢
    have h_12 : 11 + 1 ≤ bs.length := by omega
    obtain ⟨a0, bs, rfl, h_11⟩ := excons (n := 11) h_12
    obtain ⟨a1, bs, rfl, h_10⟩ := excons (n := 10) h_11
    obtain ⟨a2, bs, rfl, h_9⟩ := excons (n := 9) h_10
    obtain ⟨a3, bs, rfl, h_8⟩ := excons (n := 8) h_9
    obtain ⟨s0, bs, rfl, h_7⟩ := excons (n := 7) h_8
    obtain ⟨s1, bs, rfl, h_6⟩ := excons (n := 6) h_7
    obtain ⟨s2, bs, rfl, h_5⟩ := excons (n := 5) h_6
    obtain ⟨s3, bs, rfl, h_4⟩ := excons (n := 4) h_5
    obtain ⟨m0, bs, rfl, h_3⟩ := excons (n := 3) h_4
    obtain ⟨m1, bs, rfl, h_2⟩ := excons (n := 2) h_3
    obtain ⟨m2, bs, rfl, h_1⟩ := excons (n := 1) h_2
    obtain ⟨m3, rest, rfl, h_0⟩ := excons (n := 0) h_1
    simp only [List.length_cons] at hlen
    simp only [List.drop_succ_cons, List.drop_zero, parseFir]
    rw [firEntries_read n rest (by omega)]
    have hs : ∀ i, firEntry (a0 :: a1 :: a2 :: a3 :: s0 :: s1 :: s2 :: s3 :: m0 :: m1 :: m2 :: m3 :: rest) (12 + 8 * i) = firEntry rest (8 * i) := by
      intro i
      have := firEntry_shift (a0 :: a1 :: a2 :: a3 :: s0 :: s1 :: s2 :: s3 :: m0 :: m1 :: m2 :: m3 :: rest) 12 (8 * i)
      simpa using this
    simp [Except.map, hs, w32, o32, rd32]
  · cases h

/-! ### NACK -/

theorem be16_rd16 (a b : UInt8) : be16 (rd16 a b) = [a, b] := by
  have ha := a.toNat_lt; have hb := b.toNat_lt
  have hN : (rd16 a b).toNat = a.toNat * 256 + b.toNat := rd16_toNat a b
  simp only [be16, hN]
  have h1 : (a.toNat * 256 + b.toNat) / 256 = a.toNat := by omega
  have h2 : (a.toNat * 256 + b.toNat) % 256 = b.toNat := by omega
  rw [h1, h2]; simp

theorem be16n_rd16 (a b : UInt8) : be16n (rd16 a b).toNat = [a, b] := by
  have ha := a.toNat_lt; have hb := b.toNat_lt
  have hN : (rd16 a b).toNat = a.toNat * 256 + b.toNat := rd16_toNat a b
  simp only [be16n, hN]
  have h1 : (a.toNat * 256 + b.toNat) / 256 % 256 = a.toNat := by omega
  have h2 : (a.toNat * 256 + b.toNat) % 256 = b.toNat := by omega
  rw [h1, h2]; simp

theorem nackPairs_bytes : ∀ (n : Nat) (rest : Bytes), rest.length = 4 * n →
    (nackPairs rest).flatMap pairBytes = rest ∧ ∀ p ∈ nackPairs rest, p.2 < 65536 := by
  intro n
  induction n with
  | zero => intro rest h; have : rest = [] := List.length_eq_zero_iff.mp (by omega); subst this; simp [nackPairs]
  | succ n ih =>
    intro rest h
    have h_4 : 3 + 1 ≤ rest.length := by omega
    obtain ⟨p0, bs, rfl, h_3⟩ := excons (n := 3) h_4
    obtain ⟨p1, bs, rfl, h_2⟩ := excons (n := 2) h_3
    obtain ⟨b0, bs, rfl, h_1⟩ := excons (n := 1) h_2
    obtain ⟨b1, bs, rfl, h_0⟩ := excons (n := 0) h_1
    simp only [List.length_cons] at h
    obtain ⟨i1, i2⟩ := ih bs (by omega)
    simp only [nackPairs, List.flatMap_cons, pairBytes, be16_rd16, be16n_rd16, i1]
    refine ⟨rfl, ?_⟩
    intro p hp
    rcases List.mem_cons.mp hp with rfl | hp
    · exact (rd16 b0 b1).toNat_lt
    · exact i2 p hp

/-- parse direction, generic NACK: a datagram the RFC reader sees as a NACK of `sender` for `media` is parsed to a
NACK packet with these SSRCs whose list holds exactly the sequence numbers the FCI denotes -/
theorem parse_of_isNack (bs : Bytes) (s m : UInt32) (h : isNack bs s m) :
    ∃ lost, parseCompound bs = .ok [.nack s m lost] ∧ ∀ x, x ∈ lost ↔ nackDenotes bs x := by
  obtain ⟨hf, hcnt, h12, hs, hm⟩ := h
  have hl := hf.2.2.2
  rw [parseCompound_framed bs 205 hf, hcnt]
  have h205 := parseOne_nack (bs.drop 4)
  rw [c15RtcpRtpfb_val, c15FmtNack_val] at h205
  rw [h205]
  have h_12 : 11 + 1 ≤ bs.length := by omega
  obtain ⟨a0, bs, rfl, h_11⟩ := excons (n := 11) h_12
  obtain ⟨a1, bs, rfl, h_10⟩ := excons (n := 10) h_11
  obtain ⟨a2, bs, rfl, h_9⟩ := excons (n := 9) h_10
  obtain ⟨a3, bs, rfl, h_8⟩ := excons (n := 8) h_9
  obtain ⟨s0, bs, rfl, h_7⟩ := excons (n := 7) h_8
  obtain ⟨s1, bs, rfl, h_6⟩ := excons (n := 6) h_7
  obtain ⟨s2, bs, rfl, h_5⟩ := excons (n := 5) h_6
  obtain ⟨s3, bs, rfl, h_4⟩ := excons (n := 4) h_5
  obtain ⟨m0, bs, rfl, h_3⟩ := excons (n := 3) h_4
  obtain ⟨m1, bs, rfl, h_2⟩ := excons (n := 2) h_3
  obtain ⟨m2, bs, rfl, h_1⟩ := excons (n := 1) h_2
  obtain ⟨m3, rest, rfl, h_0⟩ := excons (n := 0) h_1
  simp only [List.length_cons] at hl
  have hs' : rd32 s0 s1 s2 s3 = s := by rw [← hs]; simp [w32, o32, rd32]
  have hm' : rd32 m0 m1 m2 m3 = m := by rw [← hm]; simp [w32, o32, rd32]
  simp only [List.drop_succ_cons, List.drop_zero, parseNack, Except.map, hs', hm']
  refine ⟨_, rfl, ?_⟩
  intro x
  obtain ⟨hb, hlt⟩ := nackPairs_bytes ((hdr (a0 :: a1 :: a2 :: a3 :: s0 :: s1 :: s2 :: s3 :: m0 :: m1 :: m2 :: m3 :: rest)).lengthWords - 2) rest (by omega)
  have := nack_denotes [a0, a1, a2, a3, s0, s1, s2, s3, m0, m1, m2, m3] rfl (nackPairs rest) hlt x
  rw [hb] at this
  exact this.symm


/-! ### TWCC (without RTCP padding; with padding the packet reaches the TWCC parser stripped — `parseCompound_withPadding`) -/

theorem parse_of_readTwcc (bs : Bytes) (p : Rtcp) (hp : (hdr bs).padding = false) (h : readTwcc bs = some p) :
    parseCompound bs = .ok [p] := by
  unfold readTwcc at h
  simp only [hp, Bool.false_eq_true, if_false, Nat.add_zero, Nat.sub_zero] at h
  split at h
  · next hc =>
    injection h with h; subst h
    obtain ⟨hv, hpt, hcnt, hl, h20, _⟩ := hc
    rw [parseCompound_framed bs 205 ⟨hv, hp, hpt, hl⟩, hcnt]
    have h205 := parseOne_twcc (bs.drop 4)
    rw [c15RtcpRtpfb_val, c15FmtTwcc_val] at h205
    rw [h205]
    have h_20 : 19 + 1 ≤ bs.length := h20
    obtain ⟨a0, bs, rfl, h_19⟩ := excons (n := 19) h_20
    obtain ⟨a1, bs, rfl, h_18⟩ := excons (n := 18) h_19
    obtain ⟨a2, bs, rfl, h_17⟩ := excons (n := 17) h_18
    obtain ⟨a3, bs, rfl, h_16⟩ := excons (n := 16) h_17
    obtain ⟨s0, bs, rfl, h_15⟩ := excons (n := 15) h_16
    obtain ⟨s1, bs, rfl, h_14⟩ := excons (n := 14) h_15
    obtain ⟨s2, bs, rfl, h_13⟩ := excons (n := 13) h_14
    obtain ⟨s3, bs, rfl, h_12⟩ := excons (n := 12) h_13
    obtain ⟨m0, bs, rfl, h_11⟩ := excons (n := 11) h_12
    obtain ⟨m1, bs, rfl, h_10⟩ := excons (n := 10) h_11
    obtain ⟨m2, bs, rfl, h_9⟩ := excons (n := 9) h_10
    obtain ⟨m3, bs, rfl, h_8⟩ := excons (n := 8) h_9
    obtain ⟨b0, bs, rfl, h_7⟩ := excons (n := 7) h_8
    obtain ⟨b1, bs, rfl, h_6⟩ := excons (n := 6) h_7
    obtain ⟨c0, bs, rfl, h_5⟩ := excons (n := 5) h_6
    obtain ⟨c1, bs, rfl, h_4⟩ := excons (n := 4) h_5
    obtain ⟨r0, bs, rfl, h_3⟩ := excons (n := 3) h_4
    obtain ⟨r1, bs, rfl, h_2⟩ := excons (n := 2) h_3
    obtain ⟨r2, bs, rfl, h_1⟩ := excons (n := 1) h_2
    obtain ⟨f, rest, rfl, h_0⟩ := excons (n := 0) h_1
    simp [parseTwcc, Except.map, w32, o32, w16, o16, w8, o8, o24, rd32, rd16]
  · cases h

/-! ### BYE -/

theorem ssrcs_succ (bs : Bytes) (off n : Nat) : ssrcs bs off (n + 1) = w32 bs off :: ssrcs bs (off + 4) n := by
  simp only [ssrcs, range_succ_map_shift, Nat.mul_zero, Nat.add_zero]
  congr 1
  apply List.map_congr_left
  intro i _
  congr 1; omega

theorem readU32s_ssrcs : ∀ (n : Nat) (body : Bytes), 4 * n ≤ body.length →
    readU32s n body = (ssrcs body 0 n, body.drop (4 * n)) := by
  intro n
  induction n with
  | zero => intro body _; simp [readU32s, ssrcs]
  | succ n ih =>
    intro body h
    have h_4 : 3 + 1 ≤ body.length := by omega
    obtain ⟨a, bs, rfl, h_3⟩ := excons (n := 3) h_4
    obtain ⟨b, bs, rfl, h_2⟩ := excons (n := 2) h_3
    obtain ⟨c, bs, rfl, h_1⟩ := excons (n := 1) h_2
    obtain ⟨d, rest, rfl, h_0⟩ := excons (n := 0) h_1
    simp only [List.length_cons] at h
    simp only [readU32s, ih rest (by omega), ssrcs_succ]
    have hsh := ssrcs_shift (a :: b :: c :: d :: rest) 4 0 n
    simp only [Nat.add_zero, List.drop_succ_cons, List.drop_zero] at hsh
    have hd : List.drop (4 * (n + 1)) (a :: b :: c :: d :: rest) = List.drop (4 * n) rest := by
      rw [show 4 * (n + 1) = 4 * n + 1 + 1 + 1 + 1 from by omega]; rfl
    rw [Nat.zero_add, hsh, hd]
    simp [w32, o32, rd32]

/-- parse direction, BYE: the sources the RFC reader sees, and its reason octets read as text (`from_utf8_lossy`) -/
theorem parse_of_readBye (bs : Bytes) (ss : List UInt32) (r : Option Bytes) (h : readBye bs = some (ss, r)) :
    parseCompound bs = .ok [.bye ss (r.map lossy)] := by
  unfold readBye at h
  simp only at h
  split at h
  · next hc =>
    obtain ⟨hf, hlen⟩ := hc
    rw [parseCompound_framed bs 203 hf]
    have h203 := parseOne_bye (hdr bs).count (bs.drop 4)
    rw [c15RtcpBye_val] at h203
    rw [h203]
    generalize hsc : (hdr bs).count = sc at h hlen ⊢
    have hbl : (bs.drop 4).length = bs.length - 4 := by simp
    have hru := readU32s_ssrcs sc (bs.drop 4) (by omega)
    have hsh := ssrcs_shift bs 4 0 sc
    simp only [Nat.add_zero] at hsh
    have hdd : (bs.drop 4).drop (4 * sc) = bs.drop (4 + 4 * sc) := by rw [List.drop_drop]
    unfold parseBye
    rw [if_neg (by omega)]
    simp only [hru, ← hsh, hdd]
    split at h
    · next he =>
      injection h with h
      simp only [Prod.mk.injEq] at h
      obtain ⟨rfl, rfl⟩ := h
      have : bs.drop (4 + 4 * sc) = [] := List.drop_eq_nil_of_le (by omega)
      rw [this]; rfl
    · next hne =>
      split at h
      · next hfit =>
        injection h with h
        simp only [Prod.mk.injEq] at h
        obtain ⟨rfl, rfl⟩ := h
        have hlt : 4 + 4 * sc < bs.length := by omega
        have hcons : bs.drop (4 + 4 * sc) = bs[4 + 4 * sc] :: bs.drop (4 + 4 * sc + 1) := List.drop_eq_getElem_cons hlt
        have ho8 : o8 bs (4 + 4 * sc) = (bs[4 + 4 * sc]).toNat := by simp only [o8]; rw [hcons]
        rw [hcons]
        simp only [Except.map]
        rw [ho8] at hfit ⊢
        rw [if_neg (by simp; omega)]
        rfl
      · cases h
  · cases h


/-! ### REMB -/

/-- parse direction, REMB (the wire value `mantissa · 2^exp` is what the stack returns whenever it fits the `u64`) -/
theorem parse_of_readRemb (bs : Bytes) (s : UInt32) (br : Nat) (ss : List UInt32) (h : readRemb bs = some (.remb s br ss))
    (hbr : br < 2 ^ 64) : parseCompound bs = .ok [.remb s br ss] := by
  unfold readRemb at h
  simp only at h
  split at h
  · next hc =>
    injection h with h
    obtain ⟨hf, hcnt, hlen, _, htag⟩ := hc
    rw [parseCompound_framed bs 206 hf, hcnt]
    have h206 := parseOne_remb (bs.drop 4)
    rw [c15RtcpPsfb_val, c15FmtApp_val] at h206
    rw [h206]
    have h_20 : 19 + 1 ≤ bs.length := by omega
    obtain ⟨a0, bs, rfl, h_19⟩ := excons (n := 19) h_20
    obtain ⟨a1, bs, rfl, h_18⟩ := excons (n := 18) h_19
    obtain ⟨a2, bs, rfl, h_17⟩ := excons (n := 17) h_18
    obtain ⟨a3, bs, rfl, h_16⟩ := excons (n := 16) h_17
    obtain ⟨s0, bs, rfl, h_15⟩ := excons (n := 15) h_16
    obtain ⟨s1, bs, rfl, h_14⟩ := excons (n := 14) h_15
    obtain ⟨s2, bs, rfl, h_13⟩ := excons (n := 13) h_14
    obtain ⟨s3, bs, rfl, h_12⟩ := excons (n := 12) h_13
    obtain ⟨m0, bs, rfl, h_11⟩ := excons (n := 11) h_12
    obtain ⟨m1, bs, rfl, h_10⟩ := excons (n := 10) h_11
    obtain ⟨m2, bs, rfl, h_9⟩ := excons (n := 9) h_10
    obtain ⟨m3, bs, rfl, h_8⟩ := excons (n := 8) h_9
    obtain ⟨t0, bs, rfl, h_7⟩ := excons (n := 7) h_8
    obtain ⟨t1, bs, rfl, h_6⟩ := excons (n := 6) h_7
    obtain ⟨t2, bs, rfl, h_5⟩ := excons (n := 5) h_6
    obtain ⟨t3, bs, rfl, h_4⟩ := excons (n := 4) h_5
    obtain ⟨n, bs, rfl, h_3⟩ := excons (n := 3) h_4
    obtain ⟨x, bs, rfl, h_2⟩ := excons (n := 2) h_3
    obtain ⟨y, bs, rfl, h_1⟩ := excons (n := 1) h_2
    obtain ⟨z, rest, rfl, h_0⟩ := excons (n := 0) h_1
    simp only [o8, o24, o32, List.drop_succ_cons, List.drop_zero, List.length_cons] at h hlen htag
    have e0 := t0.toNat_lt; have e1 := t1.toNat_lt; have e2 := t2.toNat_lt; have e3 := t3.toNat_lt
    have g0 : t0 = 0x52 := UInt8.toNat_inj.mp (by show t0.toNat = 0x52; omega)
    have g1 : t1 = 0x45 := UInt8.toNat_inj.mp (by show t1.toNat = 0x45; omega)
    have g2 : t2 = 0x4D := UInt8.toNat_inj.mp (by show t2.toNat = 0x4D; omega)
    have g3 : t3 = 0x42 := UInt8.toNat_inj.mp (by show t3.toNat = 0x42; omega)
    subst g0 g1 g2 g3
    simp only [List.drop_succ_cons, List.drop_zero, parseRemb]
    rw [if_neg (fun hne => hne rfl)]
    rw [if_neg (by omega)]
    have hru := readU32s_ssrcs n.toNat rest (by omega)
    have hsh := ssrcs_shift (a0 :: a1 :: a2 :: a3 :: s0 :: s1 :: s2 :: s3 :: m0 :: m1 :: m2 :: m3 :: 0x52 :: 0x45 :: 0x4D :: 0x42 :: n :: x :: y :: z :: rest) 20 0 n.toNat
    simp only [Nat.add_zero, List.drop_succ_cons, List.drop_zero] at hsh
    have hx := x.toNat_lt; have hy := y.toNat_lt; have hz := z.toNat_lt
    have hman : (x.toNat * 65536 + y.toNat * 256 + z.toNat) % 262144 = x.toNat % 4 * 65536 + y.toNat * 256 + z.toNat := by omega
    simp only [Rtcp.remb.injEq] at h
    obtain ⟨h1, h2, h3⟩ := h
    rw [hman] at h2
    rw [hru, ← hsh, h3, h2, Nat.mod_eq_of_lt hbr, ← h1]
    simp [Except.map, w32, o32, rd32]
  · cases h

end RtcModel.C15.Rfc
