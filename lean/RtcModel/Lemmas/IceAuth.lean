/-
Frame lemmas for the inbound-STUN model (`RtcModel/IceAuth.lean`): which fields each block of
`handle_stun_request` can touch. Core Lean only.
-/
import RtcModel.IceAuth

namespace RtcModel.IceAuth
open RtcModel.Stun RtcModel.IcePrio RtcModel.C16Bytes

/-! ### learn -/
@[simp] theorem learn_pending (s : St) (k : Sock) (a : Addr) : (learn s k a).pending = s.pending := by
  unfold learn; split <;> rfl
@[simp] theorem learn_role (s : St) (k : Sock) (a : Addr) : (learn s k a).role = s.role := by
  unfold learn; split <;> rfl
@[simp] theorem learn_locals (s : St) (k : Sock) (a : Addr) : (learn s k a).locals = s.locals := by
  unfold learn; split <;> rfl
@[simp] theorem learn_latching (s : St) (k : Sock) (a : Addr) : (learn s k a).latching = s.latching := by
  unfold learn; split <;> rfl
@[simp] theorem learn_selected (s : St) (k : Sock) (a : Addr) : (learn s k a).selected = s.selected := by
  unfold learn; split <;> rfl
@[simp] theorem learn_nominated (s : St) (k : Sock) (a : Addr) : (learn s k a).nominated = s.nominated := by
  unfold learn; split <;> rfl
@[simp] theorem learn_state (s : St) (k : Sock) (a : Addr) : (learn s k a).state = s.state := by
  unfold learn; split <;> rfl
theorem learn_remotes (s : St) (k : Sock) (a : Addr) :
    (learn s k a).remotes = if s.remotes.any (fun c => c.address = a) then s.remotes else s.remotes ++ [prflxCand k a] := by
  unfold learn; split <;> simp_all
theorem learn_known (s : St) (k : Sock) (a : Addr) (h : s.remotes.any (fun c => c.address = a) = true) :
    learn s k a = s := by
  unfold learn; simp [h]

/-! ### latch -/
@[simp] theorem latch_pending (s : St) (a : Addr) : (latch s a).pending = s.pending := by
  unfold latch; repeat' split
  all_goals rfl
@[simp] theorem latch_role (s : St) (a : Addr) : (latch s a).role = s.role := by
  unfold latch; repeat' split
  all_goals rfl
@[simp] theorem latch_locals (s : St) (a : Addr) : (latch s a).locals = s.locals := by
  unfold latch; repeat' split
  all_goals rfl
@[simp] theorem latch_latching (s : St) (a : Addr) : (latch s a).latching = s.latching := by
  unfold latch; repeat' split
  all_goals rfl
@[simp] theorem latch_remotes (s : St) (a : Addr) : (latch s a).remotes = s.remotes := by
  unfold latch; repeat' split
  all_goals rfl
@[simp] theorem latch_nominated (s : St) (a : Addr) : (latch s a).nominated = s.nominated := by
  unfold latch; repeat' split
  all_goals rfl
@[simp] theorem latch_state (s : St) (a : Addr) : (latch s a).state = s.state := by
  unfold latch; repeat' split
  all_goals rfl
theorem latch_off (s : St) (a : Addr) (h : s.latching = false) : latch s a = s := by
  unfold latch; simp [h]

/-! ### withPairConnected -/
@[simp] theorem wpc_pending (s : St) (p : Option Pair) : (withPairConnected s p).pending = s.pending := by
  cases p <;> rfl
@[simp] theorem wpc_role (s : St) (p : Option Pair) : (withPairConnected s p).role = s.role := by
  cases p <;> rfl
@[simp] theorem wpc_locals (s : St) (p : Option Pair) : (withPairConnected s p).locals = s.locals := by
  cases p <;> rfl
@[simp] theorem wpc_latching (s : St) (p : Option Pair) : (withPairConnected s p).latching = s.latching := by
  cases p <;> rfl
@[simp] theorem wpc_remotes (s : St) (p : Option Pair) : (withPairConnected s p).remotes = s.remotes := by
  cases p <;> rfl

/-! ### tcpNominate -/
@[simp] theorem tcpNominate_pending (s : St) (k : Sock) (a : Addr) : (tcpNominate s k a).pending = s.pending := by
  unfold tcpNominate; repeat' split
  all_goals simp
@[simp] theorem tcpNominate_role (s : St) (k : Sock) (a : Addr) : (tcpNominate s k a).role = s.role := by
  unfold tcpNominate; repeat' split
  all_goals simp
@[simp] theorem tcpNominate_locals (s : St) (k : Sock) (a : Addr) : (tcpNominate s k a).locals = s.locals := by
  unfold tcpNominate; repeat' split
  all_goals simp
@[simp] theorem tcpNominate_latching (s : St) (k : Sock) (a : Addr) : (tcpNominate s k a).latching = s.latching := by
  unfold tcpNominate; repeat' split
  all_goals simp
@[simp] theorem tcpNominate_remotes (s : St) (k : Sock) (a : Addr) : (tcpNominate s k a).remotes = s.remotes := by
  unfold tcpNominate; repeat' split
  all_goals simp
theorem tcpNominate_id (s : St) (k : Sock) (a : Addr)
    (h : s.role = .controlling ∨ k.isTcpStream = false ∨ s.nominated.isSome = true) : tcpNominate s k a = s := by
  unfold tcpNominate
  rcases h with h | h | h
  · simp [h]
  · by_cases hr : s.role ≠ .controlled <;> simp [hr, h]
  · by_cases hr : s.role ≠ .controlled
    · simp [hr]
    · by_cases hk : k.isTcpStream = true <;> simp [hr, hk, h]

/-! ### useCandidate -/
@[simp] theorem useCandidate_pending (s : St) (k : Sock) (a : Addr) : (useCandidate s k a).pending = s.pending := by
  unfold useCandidate; repeat' split
  all_goals rfl
@[simp] theorem useCandidate_role (s : St) (k : Sock) (a : Addr) : (useCandidate s k a).role = s.role := by
  unfold useCandidate; repeat' split
  all_goals rfl
@[simp] theorem useCandidate_locals (s : St) (k : Sock) (a : Addr) : (useCandidate s k a).locals = s.locals := by
  unfold useCandidate; repeat' split
  all_goals rfl
@[simp] theorem useCandidate_latching (s : St) (k : Sock) (a : Addr) : (useCandidate s k a).latching = s.latching := by
  unfold useCandidate; repeat' split
  all_goals rfl
@[simp] theorem useCandidate_remotes (s : St) (k : Sock) (a : Addr) : (useCandidate s k a).remotes = s.remotes := by
  unfold useCandidate; repeat' split
  all_goals rfl
theorem useCandidate_id (s : St) (k : Sock) (a : Addr) (h : s.role = .controlling ∨ k.isTcpStream = true) :
    useCandidate s k a = s := by
  unfold useCandidate
  rcases h with h | h
  · simp [h]
  · by_cases hr : s.role ≠ .controlled <;> simp [hr, h]

/-! ### handleAuthenticated / handleRequest -/
@[simp] theorem handleAuthenticated_pending (s : St) (k : Sock) (a : Addr) (r : Req) :
    (handleAuthenticated s k a r).pending = s.pending := by
  unfold handleAuthenticated; split <;> simp
@[simp] theorem handleAuthenticated_role (s : St) (k : Sock) (a : Addr) (r : Req) :
    (handleAuthenticated s k a r).role = s.role := by
  unfold handleAuthenticated; split <;> simp
@[simp] theorem handleAuthenticated_locals (s : St) (k : Sock) (a : Addr) (r : Req) :
    (handleAuthenticated s k a r).locals = s.locals := by
  unfold handleAuthenticated; split <;> simp
@[simp] theorem handleAuthenticated_latching (s : St) (k : Sock) (a : Addr) (r : Req) :
    (handleAuthenticated s k a r).latching = s.latching := by
  unfold handleAuthenticated; split <;> simp
theorem handleAuthenticated_remotes (s : St) (k : Sock) (a : Addr) (r : Req) :
    (handleAuthenticated s k a r).remotes = (learn s k a).remotes := by
  unfold handleAuthenticated; split <;> simp

@[simp] theorem handleRequest_pending (s : St) (k : Sock) (a : Addr) (r : Req) :
    (handleRequest s k a r).pending = s.pending := by
  unfold handleRequest; split <;> simp
@[simp] theorem handleRequest_role (s : St) (k : Sock) (a : Addr) (r : Req) :
    (handleRequest s k a r).role = s.role := by
  unfold handleRequest; split <;> simp
@[simp] theorem handleRequest_locals (s : St) (k : Sock) (a : Addr) (r : Req) :
    (handleRequest s k a r).locals = s.locals := by
  unfold handleRequest; split <;> simp
@[simp] theorem handleRequest_latching (s : St) (k : Sock) (a : Addr) (r : Req) :
    (handleRequest s k a r).latching = s.latching := by
  unfold handleRequest; split <;> simp
theorem handleRequest_unauth (s : St) (k : Sock) (a : Addr) (r : Req) (hw : s.webrtc = true) (hr : r.accepted = false) :
    handleRequest s k a r = s := by
  simp [handleRequest, hw, hr]
theorem handleRequest_auth (s : St) (k : Sock) (a : Addr) (r : Req) (h : s.webrtc = false ∨ r.accepted = true) :
    handleRequest s k a r = handleAuthenticated s k a r := by
  rcases h with h | h <;> simp [handleRequest, h]

end RtcModel.IceAuth
