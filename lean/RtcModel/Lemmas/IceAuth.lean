/-
Frame lemmas for the inbound-STUN model (`RtcModel/IceAuth.lean`): which fields each block of
`handle_stun_request` / `run_keepalive_tick` can touch. Core Lean only.
-/
import RtcModel.IceAuth

namespace RtcModel.IceAuth
open RtcModel.Stun RtcModel.IcePrio RtcModel.C16Bytes

/-- the fields no inbound request block ever writes -/
def St.frame (s : St) :=
  (s.pending, s.role, s.locals, s.latching, s.webrtc, s.now, s.hasRemoteParams, s.discThreshold, s.connTimeout)

/-! ### publish -/
@[simp] theorem publish_frame (s : St) (p : Pair) (k : Sock) : (publish s p k).frame = s.frame := by
  unfold publish; repeat' split
  all_goals rfl
@[simp] theorem publish_remotes (s : St) (p : Pair) (k : Sock) : (publish s p k).remotes = s.remotes := by
  unfold publish; repeat' split
  all_goals rfl
@[simp] theorem publish_selected (s : St) (p : Pair) (k : Sock) : (publish s p k).selected = s.selected := by
  unfold publish; repeat' split
  all_goals rfl
@[simp] theorem publish_nominated (s : St) (p : Pair) (k : Sock) : (publish s p k).nominated = s.nominated := by
  unfold publish; repeat' split
  all_goals rfl
@[simp] theorem publish_state (s : St) (p : Pair) (k : Sock) : (publish s p k).state = s.state := by
  unfold publish; repeat' split
  all_goals rfl
@[simp] theorem publish_lastRx (s : St) (p : Pair) (k : Sock) : (publish s p k).lastRx = s.lastRx := by
  unfold publish; repeat' split
  all_goals rfl

/-! ### learn -/
@[simp] theorem learn_frame (s : St) (k : Sock) (a : Addr) (q : Option Nat) : (learn s k a q).frame = s.frame := by
  unfold learn; split <;> rfl
@[simp] theorem learn_selected (s : St) (k : Sock) (a : Addr) (q : Option Nat) : (learn s k a q).selected = s.selected := by
  unfold learn; split <;> rfl
@[simp] theorem learn_nominated (s : St) (k : Sock) (a : Addr) (q : Option Nat) : (learn s k a q).nominated = s.nominated := by
  unfold learn; split <;> rfl
@[simp] theorem learn_state (s : St) (k : Sock) (a : Addr) (q : Option Nat) : (learn s k a q).state = s.state := by
  unfold learn; split <;> rfl
@[simp] theorem learn_lastRx (s : St) (k : Sock) (a : Addr) (q : Option Nat) : (learn s k a q).lastRx = s.lastRx := by
  unfold learn; split <;> rfl
@[simp] theorem learn_selSock (s : St) (k : Sock) (a : Addr) (q : Option Nat) : (learn s k a q).selSock = s.selSock := by
  unfold learn; split <;> rfl
theorem learn_remotes (s : St) (k : Sock) (a : Addr) (q : Option Nat) :
    (learn s k a q).remotes = if s.remotes.any (fun c => c.address = a) then s.remotes else s.remotes ++ [prflxCand k a q] := by
  unfold learn; split <;> simp_all
theorem learn_known (s : St) (k : Sock) (a : Addr) (q : Option Nat) (h : s.remotes.any (fun c => c.address = a) = true) :
    learn s k a q = s := by
  unfold learn; simp [h]

/-! ### latch -/
@[simp] theorem latch_frame (s : St) (k : Sock) (a : Addr) : (latch s k a).frame = s.frame := by
  unfold latch; repeat' split
  all_goals simp [St.frame]
  all_goals (have := publish_frame { s with selected := some { loc := (‹Pair›).loc, rem := { (‹Pair›).rem with address := a } } } { loc := (‹Pair›).loc, rem := { (‹Pair›).rem with address := a } } k; simpa [St.frame] using this)
@[simp] theorem latch_remotes (s : St) (k : Sock) (a : Addr) : (latch s k a).remotes = s.remotes := by
  unfold latch; repeat' split
  all_goals simp
@[simp] theorem latch_nominated (s : St) (k : Sock) (a : Addr) : (latch s k a).nominated = s.nominated := by
  unfold latch; repeat' split
  all_goals simp
@[simp] theorem latch_state (s : St) (k : Sock) (a : Addr) : (latch s k a).state = s.state := by
  unfold latch; repeat' split
  all_goals simp
@[simp] theorem latch_lastRx (s : St) (k : Sock) (a : Addr) : (latch s k a).lastRx = s.lastRx := by
  unfold latch; repeat' split
  all_goals simp
theorem latch_off (s : St) (k : Sock) (a : Addr) (h : s.latching = false) : latch s k a = s := by
  unfold latch; simp [h]

/-! ### withPairConnected -/
@[simp] theorem wpc_frame (s : St) (p : Option Pair) : (withPairConnected s p).frame = s.frame := by
  cases p <;> rfl
@[simp] theorem wpc_remotes (s : St) (p : Option Pair) : (withPairConnected s p).remotes = s.remotes := by
  cases p <;> rfl
@[simp] theorem wpc_lastRx (s : St) (p : Option Pair) : (withPairConnected s p).lastRx = s.lastRx := by
  cases p <;> rfl

/-! ### tcpNominate -/
@[simp] theorem tcpNominate_frame (s : St) (k : Sock) (a : Addr) : (tcpNominate s k a).frame = s.frame := by
  unfold tcpNominate; repeat' split
  all_goals first | rfl | (have := wpc_frame s (tcpPair s k a); simpa [St.frame] using this)
@[simp] theorem tcpNominate_remotes (s : St) (k : Sock) (a : Addr) : (tcpNominate s k a).remotes = s.remotes := by
  unfold tcpNominate; repeat' split
  all_goals simp
@[simp] theorem tcpNominate_lastRx (s : St) (k : Sock) (a : Addr) : (tcpNominate s k a).lastRx = s.lastRx := by
  unfold tcpNominate; repeat' split
  all_goals simp
theorem tcpNominate_id (s : St) (k : Sock) (a : Addr)
    (h : s.role = .controlling ∨ k.isTcpStream = false) : tcpNominate s k a = s := by
  unfold tcpNominate
  rcases h with h | h
  · simp [h]
  · by_cases hr : s.role ≠ .controlled <;> simp [hr, h]

/-! ### useCandidate -/
@[simp] theorem useCandidate_frame (s : St) (k : Sock) (a : Addr) : (useCandidate s k a).frame = s.frame := by
  unfold useCandidate; repeat' split
  all_goals first | rfl | (simp only [St.frame]; simp)
  all_goals (have := publish_frame { s with selected := some ‹Pair› } ‹Pair› k; simpa [St.frame] using this)
@[simp] theorem useCandidate_remotes (s : St) (k : Sock) (a : Addr) : (useCandidate s k a).remotes = s.remotes := by
  unfold useCandidate; repeat' split
  all_goals simp
@[simp] theorem useCandidate_lastRx (s : St) (k : Sock) (a : Addr) : (useCandidate s k a).lastRx = s.lastRx := by
  unfold useCandidate; repeat' split
  all_goals simp
theorem useCandidate_id (s : St) (k : Sock) (a : Addr) (h : s.role = .controlling ∨ k.isTcpStream = true) :
    useCandidate s k a = s := by
  unfold useCandidate
  rcases h with h | h
  · simp [h]
  · by_cases hr : s.role ≠ .controlled <;> simp [hr, h]

/-! ### handleAuthenticated / handleRequest -/
@[simp] theorem handleAuthenticated_frame (s : St) (k : Sock) (a : Addr) (r : Req) :
    (handleAuthenticated s k a r).frame = s.frame := by
  unfold handleAuthenticated; split <;> simp
theorem handleAuthenticated_remotes (s : St) (k : Sock) (a : Addr) (r : Req) :
    (handleAuthenticated s k a r).remotes = (learn s k a r.priority).remotes := by
  unfold handleAuthenticated; split <;> simp
@[simp] theorem handleAuthenticated_lastRx (s : St) (k : Sock) (a : Addr) (r : Req) :
    (handleAuthenticated s k a r).lastRx = s.lastRx := by
  unfold handleAuthenticated; split <;> simp

@[simp] theorem handleRequest_frame (s : St) (k : Sock) (a : Addr) (r : Req) :
    (handleRequest s k a r).frame = s.frame := by
  unfold handleRequest; split
  · rw [handleAuthenticated_frame]; rfl
  · rfl
theorem handleRequest_unauth (s : St) (k : Sock) (a : Addr) (r : Req) (hw : s.webrtc = true) (hr : r.accepted = false) :
    handleRequest s k a r = s := by
  simp [handleRequest, hw, hr]
theorem handleRequest_auth (s : St) (k : Sock) (a : Addr) (r : Req) (h : s.webrtc = false ∨ r.accepted = true) :
    handleRequest s k a r = handleAuthenticated { s with lastRx := s.now } k a r := by
  rcases h with h | h <;> simp [handleRequest, h]

/-- projections of the frame, as rewriting rules -/
theorem frame_pending {s t : St} (h : s.frame = t.frame) : s.pending = t.pending := congrArg (·.1) h
theorem frame_role {s t : St} (h : s.frame = t.frame) : s.role = t.role := congrArg (·.2.1) h
theorem frame_locals {s t : St} (h : s.frame = t.frame) : s.locals = t.locals := congrArg (·.2.2.1) h
theorem frame_latching {s t : St} (h : s.frame = t.frame) : s.latching = t.latching := congrArg (·.2.2.2.1) h
theorem frame_webrtc {s t : St} (h : s.frame = t.frame) : s.webrtc = t.webrtc := congrArg (·.2.2.2.2.1) h
theorem frame_now {s t : St} (h : s.frame = t.frame) : s.now = t.now := congrArg (·.2.2.2.2.2.1) h

@[simp] theorem handleRequest_pending (s : St) (k : Sock) (a : Addr) (r : Req) :
    (handleRequest s k a r).pending = s.pending := frame_pending (handleRequest_frame s k a r)
@[simp] theorem handleRequest_role (s : St) (k : Sock) (a : Addr) (r : Req) :
    (handleRequest s k a r).role = s.role := frame_role (handleRequest_frame s k a r)
@[simp] theorem handleRequest_locals (s : St) (k : Sock) (a : Addr) (r : Req) :
    (handleRequest s k a r).locals = s.locals := frame_locals (handleRequest_frame s k a r)
@[simp] theorem handleRequest_webrtc (s : St) (k : Sock) (a : Addr) (r : Req) :
    (handleRequest s k a r).webrtc = s.webrtc := frame_webrtc (handleRequest_frame s k a r)

/-! ### tick -/
@[simp] theorem tickState_webrtc (s : St) : (tickState s).webrtc = s.webrtc := rfl
@[simp] theorem tick_webrtc (s : St) (tx : Bytes) : (tick s tx).1.webrtc = s.webrtc := rfl

end RtcModel.IceAuth

namespace RtcModel.IceAuth
open RtcModel.Stun RtcModel.IcePrio RtcModel.C16Bytes

/-! ### monotonicity of what an accepted request can do -/

theorem tcpNominate_nominated_mono (x : St) (k : Sock) (a : Addr) :
    (tcpNominate x k a).nominated = x.nominated ∨ (tcpNominate x k a).nominated = some true := by
  unfold tcpNominate; repeat' split
  all_goals simp
theorem useCandidate_nominated_mono (x : St) (k : Sock) (a : Addr) :
    (useCandidate x k a).nominated = x.nominated ∨ (useCandidate x k a).nominated = some true := by
  unfold useCandidate; repeat' split
  all_goals simp
theorem toConnected_mono (st : IceState) : toConnected st = st ∨ toConnected st = .connected := by
  unfold toConnected; split <;> simp [*]
theorem tcpNominate_state_mono (x : St) (k : Sock) (a : Addr) :
    (tcpNominate x k a).state = x.state ∨ (tcpNominate x k a).state = .connected := by
  unfold tcpNominate withPairConnected; repeat' split
  all_goals first | exact toConnected_mono _ | simp
theorem useCandidate_state_mono (x : St) (k : Sock) (a : Addr) :
    (useCandidate x k a).state = x.state ∨ (useCandidate x k a).state = .connected := by
  unfold useCandidate; repeat' split
  all_goals first | simp; done | (simp only [publish_state]; exact toConnected_mono _)

theorem handleAuthenticated_nominated_mono (s : St) (k : Sock) (a : Addr) (r : Req) :
    (handleAuthenticated s k a r).nominated = s.nominated ∨ (handleAuthenticated s k a r).nominated = some true := by
  unfold handleAuthenticated
  have e : (latch (learn s k a r.priority) k a).nominated = s.nominated := by simp
  split
  · rcases useCandidate_nominated_mono (tcpNominate (latch (learn s k a r.priority) k a) k a) k a with h | h
    · rcases tcpNominate_nominated_mono (latch (learn s k a r.priority) k a) k a with h' | h'
      · left; rw [h, h', e]
      · right; rw [h, h']
    · right; exact h
  · rcases tcpNominate_nominated_mono (latch (learn s k a r.priority) k a) k a with h' | h'
    · left; rw [h', e]
    · right; exact h'

theorem handleAuthenticated_state_mono (s : St) (k : Sock) (a : Addr) (r : Req) :
    (handleAuthenticated s k a r).state = s.state ∨ (handleAuthenticated s k a r).state = .connected := by
  unfold handleAuthenticated
  have e : (latch (learn s k a r.priority) k a).state = s.state := by simp
  split
  · rcases useCandidate_state_mono (tcpNominate (latch (learn s k a r.priority) k a) k a) k a with h | h
    · rcases tcpNominate_state_mono (latch (learn s k a r.priority) k a) k a with h' | h'
      · left; rw [h, h', e]
      · right; rw [h, h']
    · right; exact h
  · rcases tcpNominate_state_mono (latch (learn s k a r.priority) k a) k a with h' | h'
    · left; rw [h', e]
    · right; exact h'

theorem handleAuthenticated_controlling (s : St) (k : Sock) (a : Addr) (r : Req) (hr : s.role = .controlling)
    (hl : s.latching = false) : handleAuthenticated s k a r = learn s k a r.priority := by
  unfold handleAuthenticated
  have hl' : (learn s k a r.priority).latching = false := by rw [frame_latching (learn_frame s k a r.priority)]; exact hl
  simp only
  rw [latch_off _ _ _ hl']
  have hr' : (learn s k a r.priority).role = .controlling := by rw [frame_role (learn_frame s k a r.priority)]; exact hr
  rw [tcpNominate_id _ _ _ (Or.inl hr'), useCandidate_id _ _ _ (Or.inl hr')]
  simp

end RtcModel.IceAuth

namespace RtcModel.IceAuth
open RtcModel.Stun RtcModel.IcePrio RtcModel.C16Bytes

/-- one datagram: pending only shrinks, a delivered id was pending and is consumed, `Nodup` is kept -/
theorem step_pending_subset (s : St) (sock : Sock) (src : Addr) (i : Inp) :
    (∀ t, t ∈ (step s sock src i).1.pending → t ∈ s.pending) ∧
    (∀ tx, (step s sock src i).2.delivered = some tx → tx ∈ s.pending ∧ tx ∉ (step s sock src i).1.pending) ∧
    (s.pending.Nodup → (step s sock src i).1.pending.Nodup) := by
  cases i with
  | response tx e =>
    by_cases h : tx ∈ s.pending
    · simp only [step, handleResponse, h, ↓reduceIte]
      refine ⟨fun t ht => (List.mem_filter.mp ht).1, ?_, fun hn => hn.filter _⟩
      intro tx' htx'
      simp only [Option.some.injEq] at htx'
      subst htx'
      exact ⟨h, by simp [List.mem_filter]⟩
    · simp [step, handleResponse, h]
  | request r => simp [step]
  | empty | undecodable => simp [step]
  | data | indication => simp only [step]; split <;> simp


/-- lemma: the transport mode never changes -/
theorem hstep_webrtc (s : St) (e : HEv) : (hstep s e).webrtc = s.webrtc := by
  cases e with
  | pkt sock src i =>
    cases i with
    | request r => simp [hstep, step]
    | response tx er => simp only [hstep, step, handleResponse]; split <;> rfl
    | data | indication => simp only [hstep, step]; split <;> rfl
    | undecodable | empty => rfl
  | tick tx => rfl
  | advance t => rfl


theorem classify_request_accepted (P : Prims) (ufrag pwd b : Bytes) (r : Req)
    (h : classify P ufrag pwd b = .request r) : r.accepted = codeAuth P ufrag pwd b := by
  unfold classify at h
  split at h
  · cases h
  · split at h
    · split at h
      · split at h
        · cases h; rfl
        all_goals cases h
      · cases h
    · cases h


end RtcModel.IceAuth
