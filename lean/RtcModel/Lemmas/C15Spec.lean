/- C15 — the encoder meets the independent RFC readers of `C15Spec.lean`. Core Lean only. -/
import RtcModel.C15Spec
import RtcModel.Lemmas.C15Rtcp

namespace RtcModel.C15.Rfc
open RtcModel.C15 RtcModel.Generated

/-! ### moving a reader along the datagram -/

theorem o8_shift (bs : Bytes) (k i : Nat) : o8 bs (k + i) = o8 (bs.drop k) i := by simp [o8, List.drop_drop, Nat.add_comm]
theorem o16_shift (bs : Bytes) (k i : Nat) : o16 bs (k + i) = o16 (bs.drop k) i := by simp [o16, List.drop_drop, Nat.add_comm]
theorem o24_shift (bs : Bytes) (k i : Nat) : o24 bs (k + i) = o24 (bs.drop k) i := by simp [o24, List.drop_drop, Nat.add_comm]
theorem o32_shift (bs : Bytes) (k i : Nat) : o32 bs (k + i) = o32 (bs.drop k) i := by simp [o32, List.drop_drop, Nat.add_comm]
theorem w32_shift (bs : Bytes) (k i : Nat) : w32 bs (k + i) = w32 (bs.drop k) i := by simp [w32, o32_shift]
theorem w16_shift (bs : Bytes) (k i : Nat) : w16 bs (k + i) = w16 (bs.drop k) i := by simp [w16, o16_shift]
theorem w8_shift (bs : Bytes) (k i : Nat) : w8 bs (k + i) = w8 (bs.drop k) i := by simp [w8, o8_shift]

theorem w32_be32 (x : UInt32) (rest : Bytes) : w32 (be32 x ++ rest) 0 = x := by
  have := x.toNat_lt
  simp only [w32, o32, be32, List.drop_zero, List.cons_append, List.nil_append, u8_toNat]
  apply UInt32.toNat_inj.mp
  simp; omega

theorem w16_be16 (x : UInt16) (rest : Bytes) : w16 (be16 x ++ rest) 0 = x := by
  have := x.toNat_lt
  simp only [w16, o16, be16, List.drop_zero, List.cons_append, List.nil_append, u8_toNat]
  apply UInt16.toNat_inj.mp
  simp; omega

theorem w8_cons (b : UInt8) (rest : Bytes) : w8 (b :: rest) 0 = b := by simp [w8, o8]

theorem w32_skip4 (x : UInt32) (R : Bytes) (n : Nat) : w32 (be32 x ++ R) (n + 4) = w32 R n := by
  rw [Nat.add_comm, w32_shift]; simp [List.drop_left' (be32_length x)]
theorem w16_skip4 (x : UInt32) (R : Bytes) (n : Nat) : w16 (be32 x ++ R) (n + 4) = w16 R n := by
  rw [Nat.add_comm, w16_shift]; simp [List.drop_left' (be32_length x)]
theorem w8_skip4 (x : UInt32) (R : Bytes) (n : Nat) : w8 (be32 x ++ R) (n + 4) = w8 R n := by
  rw [Nat.add_comm, w8_shift]; simp [List.drop_left' (be32_length x)]
theorem o8_skip4 (x : UInt32) (R : Bytes) (n : Nat) : o8 (be32 x ++ R) (n + 4) = o8 R n := by
  rw [Nat.add_comm, o8_shift]; simp [List.drop_left' (be32_length x)]
theorem o24_skip4 (x : UInt32) (R : Bytes) (n : Nat) : o24 (be32 x ++ R) (n + 4) = o24 R n := by
  rw [Nat.add_comm, o24_shift]; simp [List.drop_left' (be32_length x)]
theorem o32_skip4 (x : UInt32) (R : Bytes) (n : Nat) : o32 (be32 x ++ R) (n + 4) = o32 R n := by
  rw [Nat.add_comm, o32_shift]; simp [List.drop_left' (be32_length x)]
theorem w16_skip2 (x : UInt16) (R : Bytes) (n : Nat) : w16 (be16 x ++ R) (n + 2) = w16 R n := by
  rw [Nat.add_comm, w16_shift]; simp [List.drop_left' (be16_length x)]
theorem o24_skip2 (x : UInt16) (R : Bytes) (n : Nat) : o24 (be16 x ++ R) (n + 2) = o24 R n := by
  rw [Nat.add_comm, o24_shift]; simp [List.drop_left' (be16_length x)]
theorem w8_skip2 (x : UInt16) (R : Bytes) (n : Nat) : w8 (be16 x ++ R) (n + 2) = w8 R n := by
  rw [Nat.add_comm, w8_shift]; simp [List.drop_left' (be16_length x)]

/-- reading a field that sits behind a prefix of known length -/
theorem w32_after (pre : Bytes) (x : UInt32) (rest : Bytes) (i : Nat) (h : pre.length = i) :
    w32 (pre ++ (be32 x ++ rest)) i = x := by
  subst h
  have := w32_shift (pre ++ (be32 x ++ rest)) pre.length 0
  simp only [Nat.add_zero, List.drop_left] at this
  rw [this, w32_be32]

theorem map_range_eq {α β : Type} (l : List α) (f : Nat → β) (g : α → β)
    (h : ∀ (i : Nat) (hi : i < l.length), f i = g l[i]) : (List.range l.length).map f = l.map g := by
  apply List.ext_getElem
  · simp
  · intro i h1 h2
    simp only [List.getElem_map, List.getElem_range]
    exact h i (by simpa using h2)

/-- fixed-width records: dropping `w·i` octets of the concatenation lands on record `i` -/
theorem drop_flatMap_fixed {α : Type} (f : α → Bytes) (w : Nat) (hw : ∀ a, (f a).length = w) :
    ∀ (l : List α) (i : Nat), (l.flatMap f).drop (w * i) = (l.drop i).flatMap f := by
  intro l
  induction l with
  | nil => intro i; simp
  | cons a as ih =>
    intro i
    cases i with
    | zero => simp
    | succ j =>
      simp only [List.flatMap_cons, List.drop_succ_cons]
      have : w * (j + 1) = (f a).length + w * j := by rw [hw a]; simp [Nat.mul_succ, Nat.add_comm]
      rw [this, ← List.drop_drop, List.drop_left, ih j]

/-! ### the common header written by `write_rtcp_packet` -/

theorem writeRtcp_shape (fmt pt : Nat) (body : Bytes) (hf : fmt < 32) (hpt : pt < 256)
    (hal : body.length % 4 = 0) (hfit : fits body = true) :
    hdr (writeRtcp fmt pt body) = ⟨2, false, fmt, pt, body.length / 4⟩ ∧
    (writeRtcp fmt pt body).length = 4 + body.length ∧ (writeRtcp fmt pt body).drop 4 = body := by
  have hp : pad4 body.length = 0 := pad4_zero hal
  have hl := fits_len hfit
  have hw : writeRtcp fmt pt body = u8 (128 + fmt) :: u8 pt :: u8 (body.length / 4 / 256 % 256) :: u8 (body.length / 4 % 256) :: body := by
    simp [writeRtcp, c15RtcpCountMask_eq, c15RtpVersion_eq, hp, be16n, Nat.mod_eq_of_lt hf]
  rw [hw]
  refine ⟨?_, by simp; omega, by simp⟩
  simp only [hdr, o8, o16, List.drop_zero, List.drop_succ_cons, u8_toNat, Hdr.mk.injEq, decide_eq_false_iff_not]
  refine ⟨by omega, by omega, by omega, by omega, by omega⟩

theorem framed_writeRtcp (fmt pt : Nat) (body : Bytes) (hf : fmt < 32) (hpt : pt < 256)
    (hal : body.length % 4 = 0) (hfit : fits body = true) : framed (writeRtcp fmt pt body) pt := by
  obtain ⟨h1, h2, _⟩ := writeRtcp_shape fmt pt body hf hpt hal hfit
  unfold framed
  rw [h1, h2]
  simp only [true_and]
  omega

/-! ### SR / RR -/

theorem reportBlock_shift (bs : Bytes) (k : Nat) : reportBlock bs k = reportBlock (bs.drop k) 0 := by
  simp only [reportBlock, Nat.zero_add, w32_shift bs k, w8_shift bs k, o24_shift bs k]
  have h0 := w32_shift bs k 0
  simp only [Nat.add_zero] at h0
  rw [h0]

theorem reportBlock_blockBytes (b : ReportBlock) (rest : Bytes) : reportBlock (blockBytes b ++ rest) 0 = canonBlock b := by
  obtain ⟨ssrc, fl, lost, hseq, jit, lsr, dlsr⟩ := b
  have h1 := ssrc.toNat_lt; have h2 := hseq.toNat_lt; have h3 := jit.toNat_lt; have h4 := lsr.toNat_lt; have h5 := dlsr.toNat_lt
  simp only [reportBlock, blockBytes, lossLim_eq, be32, be24n, List.cons_append, List.nil_append, w32, w8, o32, o24, o8, s24,
    List.drop_zero, List.drop_succ_cons, Nat.zero_add, u8_toNat, canonBlock, clampLost, ReportBlock.mk.injEq]
  refine ⟨?_, by simp, ?_, ?_, ?_, ?_, ?_⟩
  · apply UInt32.toNat_inj.mp; simp; omega
  · split <;> split <;> (try split) <;> omega
  · apply UInt32.toNat_inj.mp; simp; omega
  · apply UInt32.toNat_inj.mp; simp; omega
  · apply UInt32.toNat_inj.mp; simp; omega
  · apply UInt32.toNat_inj.mp; simp; omega

theorem reportBlocks_flatMap (pre : Bytes) (bl : List ReportBlock) (off : Nat) (hoff : pre.length = off) :
    reportBlocks (pre ++ bl.flatMap blockBytes) off bl.length = bl.map canonBlock := by
  subst hoff
  unfold reportBlocks
  apply map_range_eq
  intro i hi
  rw [reportBlock_shift, ← List.drop_drop, List.drop_left,
    drop_flatMap_fixed blockBytes 24 blockBytes_length bl i, List.drop_eq_getElem_cons hi, List.flatMap_cons,
    reportBlock_blockBytes]

theorem rfc_sr (s m l t pc oc : UInt32) (bl : List ReportBlock) (bs : Bytes)
    (h : marshalOne (.sr s m l t pc oc bl) = .ok bs) :
    readSr bs = some (.sr s m l t pc oc (bl.map canonBlock)) := by
  have hMax := c15RtcpMaxCount_eq
  simp only [marshalOne] at h
  by_cases hc : bl.length > c15RtcpMaxCount
  · rw [if_pos hc] at h; cases h
  · rw [if_neg hc] at h
    obtain ⟨hfit, rfl⟩ := emit_ok h
    have hmod : bl.length % 256 = bl.length := by omega
    rw [hmod, c15RtcpSr_val]
    generalize hB : be32 s ++ be32 m ++ be32 l ++ be32 t ++ be32 pc ++ be32 oc ++ bl.flatMap blockBytes = body at hfit
    have hl : body.length = 24 + 24 * bl.length := by
      rw [← hB]; simp only [List.length_append, be32_length, flatMap_blockBytes_length]
    obtain ⟨h1, h2, h3⟩ := writeRtcp_shape bl.length 200 body (by omega) (by omega) (by omega) hfit
    have hfr := framed_writeRtcp bl.length 200 body (by omega) (by omega) (by omega) hfit
    have hw : ∀ i, w32 (writeRtcp bl.length 200 body) (4 + i) = w32 body i := fun i => by rw [w32_shift, h3]
    unfold readSr
    rw [if_pos ⟨hfr, by rw [h1, h2]; simp only; omega⟩, h1]
    simp only
    have e4 := hw 0; have e8 := hw 4; have e12 := hw 8; have e16 := hw 12; have e20 := hw 16; have e24 := hw 20
    simp only [Nat.add_zero] at e4
    have hrb : reportBlocks (writeRtcp bl.length 200 body) 28 bl.length = bl.map canonBlock := by
      unfold reportBlocks
      have : ∀ i, reportBlock (writeRtcp bl.length 200 body) (28 + 24 * i) = reportBlock body (24 + 24 * i) := by
        intro i
        rw [reportBlock_shift, reportBlock_shift body]
        have : 28 + 24 * i = 4 + (24 + 24 * i) := by omega
        rw [this, ← List.drop_drop, h3]
      simp only [this]
      have := reportBlocks_flatMap (be32 s ++ be32 m ++ be32 l ++ be32 t ++ be32 pc ++ be32 oc) bl 24 (by simp)
      unfold reportBlocks at this
      rw [← hB]; simpa [List.append_assoc] using this
    rw [e4, e8, e12, e16, e20, e24, hrb, ← hB]
    simp only [List.append_assoc]
    simp only [w32_skip4, w32_be32]

theorem rfc_rr (s : UInt32) (bl : List ReportBlock) (bs : Bytes) (h : marshalOne (.rr s bl) = .ok bs) :
    readRr bs = some (.rr s (bl.map canonBlock)) := by
  have hMax := c15RtcpMaxCount_eq
  simp only [marshalOne] at h
  by_cases hc : bl.length > c15RtcpMaxCount
  · rw [if_pos hc] at h; cases h
  · rw [if_neg hc] at h
    obtain ⟨hfit, rfl⟩ := emit_ok h
    have hmod : bl.length % 256 = bl.length := by omega
    rw [hmod, c15RtcpRr_val]
    generalize hB : be32 s ++ bl.flatMap blockBytes = body at hfit
    have hl : body.length = 4 + 24 * bl.length := by
      rw [← hB]; simp only [List.length_append, be32_length, flatMap_blockBytes_length]
    obtain ⟨h1, h2, h3⟩ := writeRtcp_shape bl.length 201 body (by omega) (by omega) (by omega) hfit
    have hfr := framed_writeRtcp bl.length 201 body (by omega) (by omega) (by omega) hfit
    unfold readRr
    rw [if_pos ⟨hfr, by rw [h1, h2]; simp only; omega⟩, h1]
    simp only
    have e4 : w32 (writeRtcp bl.length 201 body) 4 = w32 body 0 := by
      have := w32_shift (writeRtcp bl.length 201 body) 4 0; simpa [h3] using this
    have hrb : reportBlocks (writeRtcp bl.length 201 body) 8 bl.length = bl.map canonBlock := by
      unfold reportBlocks
      have : ∀ i, reportBlock (writeRtcp bl.length 201 body) (8 + 24 * i) = reportBlock body (4 + 24 * i) := by
        intro i
        rw [reportBlock_shift, reportBlock_shift body]
        have : 8 + 24 * i = 4 + (4 + 24 * i) := by omega
        rw [this, ← List.drop_drop, h3]
      simp only [this]
      have := reportBlocks_flatMap (be32 s) bl 4 (by simp)
      unfold reportBlocks at this
      rw [← hB]; exact this
    rw [e4, hrb, ← hB, w32_be32]

/-! ### PLI, FIR -/

theorem rfc_pli (s m : UInt32) (bs : Bytes) (h : marshalOne (.pli s m) = .ok bs) : readPli bs = some (.pli s m) := by
  simp only [marshalOne] at h
  obtain ⟨hfit, rfl⟩ := emit_ok h
  rw [c15FmtPli_val, c15RtcpPsfb_val]
  obtain ⟨h1, h2, h3⟩ := writeRtcp_shape 1 206 (be32 s ++ be32 m) (by omega) (by omega) (by simp) hfit
  have hfr := framed_writeRtcp 1 206 (be32 s ++ be32 m) (by omega) (by omega) (by simp) hfit
  unfold readPli
  rw [if_pos ⟨hfr, by rw [h1], by rw [h2]; simp⟩]
  have e4 : w32 (writeRtcp 1 206 (be32 s ++ be32 m)) 4 = w32 (be32 s ++ be32 m) 0 := by
    have := w32_shift (writeRtcp 1 206 (be32 s ++ be32 m)) 4 0; simpa [h3] using this
  have e8 : w32 (writeRtcp 1 206 (be32 s ++ be32 m)) 8 = w32 (be32 s ++ be32 m) 4 := by
    have := w32_shift (writeRtcp 1 206 (be32 s ++ be32 m)) 4 4; simpa [h3] using this
  rw [e4, e8]
  have : w32 (be32 s ++ be32 m) 4 = m := by
    have := w32_skip4 s (be32 m) 0; simp only [Nat.zero_add] at this; rw [this]
    have := w32_be32 m []; simpa using this
  rw [w32_be32, this]

theorem firEnc_length (r : FirReq) : (firEnc r).length = 8 := by simp [firEnc]

theorem firEntry_firEnc (r : FirReq) (R : Bytes) : firEntry (firEnc r ++ R) 0 = r ∧ o24 (firEnc r ++ R) 5 = 0 := by
  obtain ⟨a, q⟩ := r
  have := a.toNat_lt
  simp only [firEntry, firEnc, be32, List.cons_append, List.nil_append, w32, w8, o32, o8, o24, List.drop_zero,
    List.drop_succ_cons, Nat.zero_add, u8_toNat, FirReq.mk.injEq]
  refine ⟨⟨?_, by simp⟩, by simp⟩
  apply UInt32.toNat_inj.mp; simp; omega

theorem rfc_fir (s : UInt32) (rq : List FirReq) (bs : Bytes) (h : marshalOne (.fir s rq) = .ok bs) :
    readFir bs = some (.fir s rq) := by
  simp only [marshalOne] at h
  obtain ⟨hfit, rfl⟩ := emit_ok h
  rw [c15FmtFir_val, c15RtcpPsfb_val, firBody_eq] at *
  generalize hB : be32 s ++ be32 0 ++ rq.flatMap firEnc = body at hfit
  have hl : body.length = 8 + 8 * rq.length := by
    rw [← hB]; simp only [List.length_append, be32_length, flatMap_firEnc_length]
  obtain ⟨h1, h2, h3⟩ := writeRtcp_shape 4 206 body (by omega) (by omega) (by omega) hfit
  have hfr := framed_writeRtcp 4 206 body (by omega) (by omega) (by omega) hfit
  have hn : ((writeRtcp 4 206 body).length - 12) / 8 = rq.length := by rw [h2]; omega
  have hdrop : ∀ i, (writeRtcp 4 206 body).drop (12 + 8 * i) = (rq.drop i).flatMap firEnc := by
    intro i
    have : 12 + 8 * i = 4 + (8 + 8 * i) := by omega
    rw [this, ← List.drop_drop, h3, ← hB]
    have : (be32 s ++ be32 0 ++ rq.flatMap firEnc).drop (8 + 8 * i) = (rq.flatMap firEnc).drop (8 * i) := by
      rw [show 8 + 8 * i = (be32 s ++ be32 0).length + 8 * i by simp, List.drop_append]
      simp
    rw [this, drop_flatMap_fixed firEnc 8 firEnc_length]
  have hent : ∀ (i : Nat) (hi : i < rq.length), firEntry (writeRtcp 4 206 body) (12 + 8 * i) = rq[i] ∧
      o24 (writeRtcp 4 206 body) (12 + 8 * i + 5) = 0 := by
    intro i hi
    have e1 : firEntry (writeRtcp 4 206 body) (12 + 8 * i) = firEntry ((writeRtcp 4 206 body).drop (12 + 8 * i)) 0 := by
      simp only [firEntry, Nat.zero_add, w8_shift]
      have := w32_shift (writeRtcp 4 206 body) (12 + 8 * i) 0
      simp only [Nat.add_zero] at this; rw [this]
    rw [e1, o24_shift, hdrop i, List.drop_eq_getElem_cons hi, List.flatMap_cons]
    exact firEntry_firEnc rq[i] ((rq.drop (i + 1)).flatMap firEnc)
  unfold readFir
  simp only [hn]
  have e4 : w32 (writeRtcp 4 206 body) 4 = s := by
    have := w32_shift (writeRtcp 4 206 body) 4 0
    simp only [Nat.add_zero, h3] at this
    rw [this, ← hB, List.append_assoc, w32_be32]
  have e8 : o32 (writeRtcp 4 206 body) 8 = 0 := by
    have := o32_shift (writeRtcp 4 206 body) 4 4
    simp only [h3] at this
    rw [show (8 : Nat) = 4 + 4 from rfl, this, ← hB, List.append_assoc]
    have := o32_skip4 s (be32 0 ++ rq.flatMap firEnc) 0
    simp only [Nat.zero_add] at this
    rw [this]; simp [o32, be32, u8]
  rw [if_pos ⟨hfr, by rw [h1], by rw [h2]; omega, by rw [h2]; omega, e8, fun i hi => (hent i hi).2⟩, e4]
  congr 2
  have := map_range_eq rq (fun i => firEntry (writeRtcp 4 206 body) (12 + 8 * i)) id
    (fun i hi => by rw [(hent i hi).1]; rfl)
  simpa using this

end RtcModel.C15.Rfc
