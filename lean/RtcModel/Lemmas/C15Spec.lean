/- C15 — the encoder meets the independent RFC readers of `C15Spec.lean`. Core Lean only. -/
import RtcModel.C15Spec
import RtcModel.Lemmas.C15Rtcp
import RtcModel.Lemmas.C15Rtp

namespace RtcModel.C15.Rfc
open RtcModel.C15 RtcModel.Generated

/-! ### moving a reader along the datagram -/

theorem o8_shift (bs : Bytes) (k i : Nat) : o8 bs (k + i) = o8 (bs.drop k) i := by simp [o8, List.drop_drop, Nat.add_comm]
theorem o16_shift (bs : Bytes) (k i : Nat) : o16 bs (k + i) = o16 (bs.drop k) i := by simp [o16, List.drop_drop, Nat.add_comm]
theorem o24_shift (bs : Bytes) (k i : Nat) : o24 bs (k + i) = o24 (bs.drop k) i := by simp [o24, List.drop_drop, Nat.add_comm]
theorem o32_shift (bs : Bytes) (k i : Nat) : o32 bs (k + i) = o32 (bs.drop k) i := by simp [o32, List.drop_drop, Nat.add_comm]
theorem w32_shift (bs : Bytes) (k i : Nat) : w32 bs (k + i) = w32 (bs.drop k) i := by simp [w32, o32_shift]
theorem w16_shift (bs : Bytes) (k i : Nat) : w16 bs (k + i) = w16 (bs.drop k) i := by simp [w16, o16_shift]
theorem w8_shift (bs : Bytes) (k i : Nat) : w8 bs (k + i) = w8 (bs.drop k) i := by simp [w8, o8_shift]

theorem w32_be32 (x : UInt32) (rest : Bytes) : w32 (be32 x ++ rest) 0 = x := by
  have := x.toNat_lt
  simp only [w32, o32, be32, List.drop_zero, List.cons_append, List.nil_append, u8_toNat]
  apply UInt32.toNat_inj.mp
  simp; omega

theorem w16_be16 (x : UInt16) (rest : Bytes) : w16 (be16 x ++ rest) 0 = x := by
  have := x.toNat_lt
  simp only [w16, o16, be16, List.drop_zero, List.cons_append, List.nil_append, u8_toNat]
  apply UInt16.toNat_inj.mp
  simp; omega

theorem w8_cons (b : UInt8) (rest : Bytes) : w8 (b :: rest) 0 = b := by simp [w8, o8]

theorem w32_skip4 (x : UInt32) (R : Bytes) (n : Nat) : w32 (be32 x ++ R) (n + 4) = w32 R n := by
  rw [Nat.add_comm, w32_shift]; simp [List.drop_left' (be32_length x)]
theorem w16_skip4 (x : UInt32) (R : Bytes) (n : Nat) : w16 (be32 x ++ R) (n + 4) = w16 R n := by
  rw [Nat.add_comm, w16_shift]; simp [List.drop_left' (be32_length x)]
theorem w8_skip4 (x : UInt32) (R : Bytes) (n : Nat) : w8 (be32 x ++ R) (n + 4) = w8 R n := by
  rw [Nat.add_comm, w8_shift]; simp [List.drop_left' (be32_length x)]
theorem o8_skip4 (x : UInt32) (R : Bytes) (n : Nat) : o8 (be32 x ++ R) (n + 4) = o8 R n := by
  rw [Nat.add_comm, o8_shift]; simp [List.drop_left' (be32_length x)]
theorem o24_skip4 (x : UInt32) (R : Bytes) (n : Nat) : o24 (be32 x ++ R) (n + 4) = o24 R n := by
  rw [Nat.add_comm, o24_shift]; simp [List.drop_left' (be32_length x)]
theorem o32_skip4 (x : UInt32) (R : Bytes) (n : Nat) : o32 (be32 x ++ R) (n + 4) = o32 R n := by
  rw [Nat.add_comm, o32_shift]; simp [List.drop_left' (be32_length x)]
theorem w16_skip2 (x : UInt16) (R : Bytes) (n : Nat) : w16 (be16 x ++ R) (n + 2) = w16 R n := by
  rw [Nat.add_comm, w16_shift]; simp [List.drop_left' (be16_length x)]
theorem o24_skip2 (x : UInt16) (R : Bytes) (n : Nat) : o24 (be16 x ++ R) (n + 2) = o24 R n := by
  rw [Nat.add_comm, o24_shift]; simp [List.drop_left' (be16_length x)]
theorem w8_skip2 (x : UInt16) (R : Bytes) (n : Nat) : w8 (be16 x ++ R) (n + 2) = w8 R n := by
  rw [Nat.add_comm, w8_shift]; simp [List.drop_left' (be16_length x)]

/-- reading a field that sits behind a prefix of known length -/
theorem w32_after (pre : Bytes) (x : UInt32) (rest : Bytes) (i : Nat) (h : pre.length = i) :
    w32 (pre ++ (be32 x ++ rest)) i = x := by
  subst h
  have := w32_shift (pre ++ (be32 x ++ rest)) pre.length 0
  simp only [Nat.add_zero, List.drop_left] at this
  rw [this, w32_be32]

theorem map_range_eq {α β : Type} (l : List α) (f : Nat → β) (g : α → β)
    (h : ∀ (i : Nat) (hi : i < l.length), f i = g l[i]) : (List.range l.length).map f = l.map g := by
  apply List.ext_getElem
  · simp
  · intro i h1 h2
    simp only [List.getElem_map, List.getElem_range]
    exact h i (by simpa using h2)

/-- fixed-width records: dropping `w·i` octets of the concatenation lands on record `i` -/
theorem drop_flatMap_fixed {α : Type} (f : α → Bytes) (w : Nat) (hw : ∀ a, (f a).length = w) :
    ∀ (l : List α) (i : Nat), (l.flatMap f).drop (w * i) = (l.drop i).flatMap f := by
  intro l
  induction l with
  | nil => intro i; simp
  | cons a as ih =>
    intro i
    cases i with
    | zero => simp
    | succ j =>
      simp only [List.flatMap_cons, List.drop_succ_cons]
      have : w * (j + 1) = (f a).length + w * j := by rw [hw a]; simp [Nat.mul_succ, Nat.add_comm]
      rw [this, ← List.drop_drop, List.drop_left, ih j]

/-! ### the common header written by `write_rtcp_packet` -/

theorem writeRtcp_aligned (fmt pt : Nat) (body : Bytes) (hf : fmt < 32) (hal : body.length % 4 = 0) :
    writeRtcp fmt pt body =
      u8 (128 + fmt) :: u8 pt :: u8 (body.length / 4 / 256 % 256) :: u8 (body.length / 4 % 256) :: body := by
  simp [writeRtcp, c15RtcpCountMask_eq, c15RtpVersion_eq, pad4_zero hal, be16n, Nat.mod_eq_of_lt hf]

theorem writeRtcp_shape (fmt pt : Nat) (body : Bytes) (hf : fmt < 32) (hpt : pt < 256)
    (hal : body.length % 4 = 0) (hfit : fits body = true) :
    hdr (writeRtcp fmt pt body) = ⟨2, false, fmt, pt, body.length / 4⟩ ∧
    (writeRtcp fmt pt body).length = 4 + body.length ∧ (writeRtcp fmt pt body).drop 4 = body := by
  have hp : pad4 body.length = 0 := pad4_zero hal
  have hl := fits_len hfit
  have hw : writeRtcp fmt pt body = u8 (128 + fmt) :: u8 pt :: u8 (body.length / 4 / 256 % 256) :: u8 (body.length / 4 % 256) :: body := by
    simp [writeRtcp, c15RtcpCountMask_eq, c15RtpVersion_eq, hp, be16n, Nat.mod_eq_of_lt hf]
  rw [hw]
  refine ⟨?_, by simp; omega, by simp⟩
  simp only [hdr, o8, o16, List.drop_zero, List.drop_succ_cons, u8_toNat, Hdr.mk.injEq, decide_eq_false_iff_not]
  refine ⟨by omega, by omega, by omega, by omega, by omega⟩

theorem framed_writeRtcp (fmt pt : Nat) (body : Bytes) (hf : fmt < 32) (hpt : pt < 256)
    (hal : body.length % 4 = 0) (hfit : fits body = true) : framed (writeRtcp fmt pt body) pt := by
  obtain ⟨h1, h2, _⟩ := writeRtcp_shape fmt pt body hf hpt hal hfit
  unfold framed
  rw [h1, h2]
  simp only [true_and]
  omega

/-! ### SR / RR -/

theorem reportBlock_shift (bs : Bytes) (k : Nat) : reportBlock bs k = reportBlock (bs.drop k) 0 := by
  simp only [reportBlock, Nat.zero_add, w32_shift bs k, w8_shift bs k, o24_shift bs k]
  have h0 := w32_shift bs k 0
  simp only [Nat.add_zero] at h0
  rw [h0]

theorem reportBlock_blockBytes (b : ReportBlock) (rest : Bytes) : reportBlock (blockBytes b ++ rest) 0 = canonBlock b := by
  obtain ⟨ssrc, fl, lost, hseq, jit, lsr, dlsr⟩ := b
  have h1 := ssrc.toNat_lt; have h2 := hseq.toNat_lt; have h3 := jit.toNat_lt; have h4 := lsr.toNat_lt; have h5 := dlsr.toNat_lt
  simp only [reportBlock, blockBytes, lossLim_eq, be32, be24n, List.cons_append, List.nil_append, w32, w8, o32, o24, o8, s24,
    List.drop_zero, List.drop_succ_cons, Nat.zero_add, u8_toNat, canonBlock, clampLost, ReportBlock.mk.injEq]
  refine ⟨?_, by simp, ?_, ?_, ?_, ?_, ?_⟩
  · apply UInt32.toNat_inj.mp; simp; omega
  · split <;> split <;> (try split) <;> omega
  · apply UInt32.toNat_inj.mp; simp; omega
  · apply UInt32.toNat_inj.mp; simp; omega
  · apply UInt32.toNat_inj.mp; simp; omega
  · apply UInt32.toNat_inj.mp; simp; omega

theorem reportBlocks_flatMap (pre : Bytes) (bl : List ReportBlock) (off : Nat) (hoff : pre.length = off) :
    reportBlocks (pre ++ bl.flatMap blockBytes) off bl.length = bl.map canonBlock := by
  subst hoff
  unfold reportBlocks
  apply map_range_eq
  intro i hi
  rw [reportBlock_shift, ← List.drop_drop, List.drop_left,
    drop_flatMap_fixed blockBytes 24 blockBytes_length bl i, List.drop_eq_getElem_cons hi, List.flatMap_cons,
    reportBlock_blockBytes]

theorem rfc_sr (s m l t pc oc : UInt32) (bl : List ReportBlock) (bs : Bytes)
    (h : marshalOne (.sr s m l t pc oc bl) = .ok bs) :
    readSr bs = some (.sr s m l t pc oc (bl.map canonBlock)) := by
  have hMax := c15RtcpMaxCount_eq
  simp only [marshalOne] at h
  by_cases hc : bl.length > c15RtcpMaxCount
  · rw [if_pos hc] at h; cases h
  · rw [if_neg hc] at h
    obtain ⟨hfit, rfl⟩ := emit_ok h
    have hmod : bl.length % 256 = bl.length := by omega
    rw [hmod, c15RtcpSr_val]
    generalize hB : be32 s ++ be32 m ++ be32 l ++ be32 t ++ be32 pc ++ be32 oc ++ bl.flatMap blockBytes = body at hfit
    have hl : body.length = 24 + 24 * bl.length := by
      rw [← hB]; simp only [List.length_append, be32_length, flatMap_blockBytes_length]
    obtain ⟨h1, h2, h3⟩ := writeRtcp_shape bl.length 200 body (by omega) (by omega) (by omega) hfit
    have hfr := framed_writeRtcp bl.length 200 body (by omega) (by omega) (by omega) hfit
    have hw : ∀ i, w32 (writeRtcp bl.length 200 body) (4 + i) = w32 body i := fun i => by rw [w32_shift, h3]
    unfold readSr
    rw [if_pos ⟨hfr, by rw [h1, h2]; simp only; omega⟩, h1]
    simp only
    have e4 := hw 0; have e8 := hw 4; have e12 := hw 8; have e16 := hw 12; have e20 := hw 16; have e24 := hw 20
    simp only [Nat.add_zero] at e4
    have hrb : reportBlocks (writeRtcp bl.length 200 body) 28 bl.length = bl.map canonBlock := by
      unfold reportBlocks
      have : ∀ i, reportBlock (writeRtcp bl.length 200 body) (28 + 24 * i) = reportBlock body (24 + 24 * i) := by
        intro i
        rw [reportBlock_shift, reportBlock_shift body]
        have : 28 + 24 * i = 4 + (24 + 24 * i) := by omega
        rw [this, ← List.drop_drop, h3]
      simp only [this]
      have := reportBlocks_flatMap (be32 s ++ be32 m ++ be32 l ++ be32 t ++ be32 pc ++ be32 oc) bl 24 (by simp)
      unfold reportBlocks at this
      rw [← hB]; simpa [List.append_assoc] using this
    rw [e4, e8, e12, e16, e20, e24, hrb, ← hB]
    simp only [List.append_assoc]
    simp only [w32_skip4, w32_be32]

theorem rfc_rr (s : UInt32) (bl : List ReportBlock) (bs : Bytes) (h : marshalOne (.rr s bl) = .ok bs) :
    readRr bs = some (.rr s (bl.map canonBlock)) := by
  have hMax := c15RtcpMaxCount_eq
  simp only [marshalOne] at h
  by_cases hc : bl.length > c15RtcpMaxCount
  · rw [if_pos hc] at h; cases h
  · rw [if_neg hc] at h
    obtain ⟨hfit, rfl⟩ := emit_ok h
    have hmod : bl.length % 256 = bl.length := by omega
    rw [hmod, c15RtcpRr_val]
    generalize hB : be32 s ++ bl.flatMap blockBytes = body at hfit
    have hl : body.length = 4 + 24 * bl.length := by
      rw [← hB]; simp only [List.length_append, be32_length, flatMap_blockBytes_length]
    obtain ⟨h1, h2, h3⟩ := writeRtcp_shape bl.length 201 body (by omega) (by omega) (by omega) hfit
    have hfr := framed_writeRtcp bl.length 201 body (by omega) (by omega) (by omega) hfit
    unfold readRr
    rw [if_pos ⟨hfr, by rw [h1, h2]; simp only; omega⟩, h1]
    simp only
    have e4 : w32 (writeRtcp bl.length 201 body) 4 = w32 body 0 := by
      have := w32_shift (writeRtcp bl.length 201 body) 4 0; simpa [h3] using this
    have hrb : reportBlocks (writeRtcp bl.length 201 body) 8 bl.length = bl.map canonBlock := by
      unfold reportBlocks
      have : ∀ i, reportBlock (writeRtcp bl.length 201 body) (8 + 24 * i) = reportBlock body (4 + 24 * i) := by
        intro i
        rw [reportBlock_shift, reportBlock_shift body]
        have : 8 + 24 * i = 4 + (4 + 24 * i) := by omega
        rw [this, ← List.drop_drop, h3]
      simp only [this]
      have := reportBlocks_flatMap (be32 s) bl 4 (by simp)
      unfold reportBlocks at this
      rw [← hB]; exact this
    rw [e4, hrb, ← hB, w32_be32]

/-! ### PLI, FIR -/

theorem rfc_pli (s m : UInt32) (bs : Bytes) (h : marshalOne (.pli s m) = .ok bs) : readPli bs = some (.pli s m) := by
  simp only [marshalOne] at h
  obtain ⟨hfit, rfl⟩ := emit_ok h
  rw [c15FmtPli_val, c15RtcpPsfb_val]
  obtain ⟨h1, h2, h3⟩ := writeRtcp_shape 1 206 (be32 s ++ be32 m) (by omega) (by omega) (by simp) hfit
  have hfr := framed_writeRtcp 1 206 (be32 s ++ be32 m) (by omega) (by omega) (by simp) hfit
  unfold readPli
  rw [if_pos ⟨hfr, by rw [h1], by rw [h2]; simp⟩]
  have e4 : w32 (writeRtcp 1 206 (be32 s ++ be32 m)) 4 = w32 (be32 s ++ be32 m) 0 := by
    have := w32_shift (writeRtcp 1 206 (be32 s ++ be32 m)) 4 0; simpa [h3] using this
  have e8 : w32 (writeRtcp 1 206 (be32 s ++ be32 m)) 8 = w32 (be32 s ++ be32 m) 4 := by
    have := w32_shift (writeRtcp 1 206 (be32 s ++ be32 m)) 4 4; simpa [h3] using this
  rw [e4, e8]
  have : w32 (be32 s ++ be32 m) 4 = m := by
    have := w32_skip4 s (be32 m) 0; simp only [Nat.zero_add] at this; rw [this]
    have := w32_be32 m []; simpa using this
  rw [w32_be32, this]

theorem firEnc_length (r : FirReq) : (firEnc r).length = 8 := by simp [firEnc]

theorem firEntry_firEnc (r : FirReq) (R : Bytes) : firEntry (firEnc r ++ R) 0 = r ∧ o24 (firEnc r ++ R) 5 = 0 := by
  obtain ⟨a, q⟩ := r
  have := a.toNat_lt
  simp only [firEntry, firEnc, be32, List.cons_append, List.nil_append, w32, w8, o32, o8, o24, List.drop_zero,
    List.drop_succ_cons, Nat.zero_add, u8_toNat, FirReq.mk.injEq]
  refine ⟨⟨?_, by simp⟩, by simp⟩
  apply UInt32.toNat_inj.mp; simp; omega

theorem rfc_fir (s : UInt32) (rq : List FirReq) (bs : Bytes) (h : marshalOne (.fir s rq) = .ok bs) :
    readFir bs = some (.fir s rq) := by
  simp only [marshalOne] at h
  obtain ⟨hfit, rfl⟩ := emit_ok h
  rw [c15FmtFir_val, c15RtcpPsfb_val, firBody_eq] at *
  generalize hB : be32 s ++ be32 0 ++ rq.flatMap firEnc = body at hfit
  have hl : body.length = 8 + 8 * rq.length := by
    rw [← hB]; simp only [List.length_append, be32_length, flatMap_firEnc_length]
  obtain ⟨h1, h2, h3⟩ := writeRtcp_shape 4 206 body (by omega) (by omega) (by omega) hfit
  have hfr := framed_writeRtcp 4 206 body (by omega) (by omega) (by omega) hfit
  have hn : ((writeRtcp 4 206 body).length - 12) / 8 = rq.length := by rw [h2]; omega
  have hdrop : ∀ i, (writeRtcp 4 206 body).drop (12 + 8 * i) = (rq.drop i).flatMap firEnc := by
    intro i
    have : 12 + 8 * i = 4 + (8 + 8 * i) := by omega
    rw [this, ← List.drop_drop, h3, ← hB]
    have : (be32 s ++ be32 0 ++ rq.flatMap firEnc).drop (8 + 8 * i) = (rq.flatMap firEnc).drop (8 * i) := by
      rw [show 8 + 8 * i = (be32 s ++ be32 0).length + 8 * i by simp, List.drop_append]
      simp
    rw [this, drop_flatMap_fixed firEnc 8 firEnc_length]
  have hent : ∀ (i : Nat) (hi : i < rq.length), firEntry (writeRtcp 4 206 body) (12 + 8 * i) = rq[i] ∧
      o24 (writeRtcp 4 206 body) (12 + 8 * i + 5) = 0 := by
    intro i hi
    have e1 : firEntry (writeRtcp 4 206 body) (12 + 8 * i) = firEntry ((writeRtcp 4 206 body).drop (12 + 8 * i)) 0 := by
      simp only [firEntry, Nat.zero_add, w8_shift]
      have := w32_shift (writeRtcp 4 206 body) (12 + 8 * i) 0
      simp only [Nat.add_zero] at this; rw [this]
    rw [e1, o24_shift, hdrop i, List.drop_eq_getElem_cons hi, List.flatMap_cons]
    exact firEntry_firEnc rq[i] ((rq.drop (i + 1)).flatMap firEnc)
  unfold readFir
  simp only [hn]
  have e4 : w32 (writeRtcp 4 206 body) 4 = s := by
    have := w32_shift (writeRtcp 4 206 body) 4 0
    simp only [Nat.add_zero, h3] at this
    rw [this, ← hB, List.append_assoc, w32_be32]
  have e8 : o32 (writeRtcp 4 206 body) 8 = 0 := by
    have := o32_shift (writeRtcp 4 206 body) 4 4
    simp only [h3] at this
    rw [show (8 : Nat) = 4 + 4 from rfl, this, ← hB, List.append_assoc]
    have := o32_skip4 s (be32 0 ++ rq.flatMap firEnc) 0
    simp only [Nat.zero_add] at this
    rw [this]; simp [o32, be32, u8]
  rw [if_pos ⟨hfr, by rw [h1], by rw [h2]; omega, by rw [h2]; omega, e8, fun i hi => (hent i hi).2⟩, e4]
  congr 2
  have := map_range_eq rq (fun i => firEntry (writeRtcp 4 206 body) (12 + 8 * i)) id
    (fun i hi => by rw [(hent i hi).1]; rfl)
  simpa using this

/-! ### SSRC lists, REMB -/

theorem drop_pre (pre X : Bytes) (k : Nat) : (pre ++ X).drop (pre.length + k) = X.drop k := by
  induction pre with
  | nil => simp
  | cons a as ih => simpa [Nat.succ_add] using ih

theorem ssrcs_be32s (pre : Bytes) (ss : List UInt32) (off : Nat) (hoff : pre.length = off) :
    ssrcs (pre ++ be32s ss) off ss.length = ss := by
  subst hoff
  unfold ssrcs
  have := map_range_eq ss (fun i => w32 (pre ++ be32s ss) (pre.length + 4 * i)) id (fun i hi => by
    have h0 := w32_shift (pre ++ be32s ss) (pre.length + 4 * i) 0
    simp only [Nat.add_zero] at h0
    rw [h0, drop_pre]
    simp only [be32s]
    rw [drop_flatMap_fixed be32 4 be32_length ss i, List.drop_eq_getElem_cons hi, List.flatMap_cons, w32_be32]; rfl)
  simpa using this

theorem ssrcs_be32s_tail (pre : Bytes) (ss : List UInt32) (tail : Bytes) (off : Nat) (hoff : pre.length = off) :
    ssrcs (pre ++ (be32s ss ++ tail)) off ss.length = ss := by
  subst hoff
  unfold ssrcs
  have := map_range_eq ss (fun i => w32 (pre ++ (be32s ss ++ tail)) (pre.length + 4 * i)) id (fun i hi => by
    have h0 := w32_shift (pre ++ (be32s ss ++ tail)) (pre.length + 4 * i) 0
    simp only [Nat.add_zero] at h0
    rw [h0, drop_pre, List.drop_append_of_le_length (by simp; omega)]
    simp only [be32s]
    rw [drop_flatMap_fixed be32 4 be32_length ss i, List.drop_eq_getElem_cons hi, List.flatMap_cons,
      List.append_assoc, w32_be32]; rfl)
  simpa using this

theorem ssrcs_shift (bs : Bytes) (k off n : Nat) : ssrcs bs (k + off) n = ssrcs (bs.drop k) off n := by
  unfold ssrcs
  congr 1; funext i
  rw [Nat.add_assoc, w32_shift]

theorem rfc_remb (s : UInt32) (br : Nat) (ss : List UInt32) (hb : br < 2 ^ 64) (bs : Bytes)
    (h : marshalOne (.remb s br ss) = .ok bs) : readRemb bs = some (.remb s (rembCanon br) ss) := by
  have h255 := c15RembMaxSsrcs_eq
  simp only [marshalOne] at h
  by_cases hc : ss.length > c15RembMaxSsrcs
  · rw [if_pos hc] at h; cases h
  · rw [if_neg hc] at h
    obtain ⟨hfit, rfl⟩ := emit_ok h
    rw [c15FmtApp_val, c15RtcpPsfb_val]
    have hn := rembNorm_spec 64 46 br 0 (by simpa using hb) (by omega)
    have hle := (rembNorm_le 64 br 0).1
    have hcan : rembCanon br = (rembNorm 64 br 0).1 * 2 ^ (rembNorm 64 br 0).2 := by
      unfold rembCanon; simp only [Nat.sub_zero] at hle; exact Nat.mod_eq_of_lt (by omega)
    generalize hme : rembNorm 64 br 0 = me at hn hle hcan
    obtain ⟨m, e⟩ := me
    simp only [Nat.sub_zero] at hn hle hcan
    have hl : (rembBody s br ss).length = 16 + 4 * ss.length := by
      simp only [rembBody, rembTag, List.length_append, be32_length, be32s_length, List.length_cons, List.length_nil]
    have hfr := framed_writeRtcp 15 206 _ (by omega) (by omega) (by omega) hfit
    obtain ⟨h1, h2, _⟩ := writeRtcp_shape 15 206 _ (by omega) (by omega) (by omega) hfit
    -- the datagram, octet by octet
    have hbs : writeRtcp 15 206 (rembBody s br ss) =
        [u8 143, u8 206, u8 ((16 + 4 * ss.length) / 4 / 256 % 256), u8 ((16 + 4 * ss.length) / 4 % 256),
         u8 (s.toNat / 16777216), u8 (s.toNat / 65536 % 256), u8 (s.toNat / 256 % 256), u8 (s.toNat % 256),
         0, 0, 0, 0, 0x52, 0x45, 0x4D, 0x42,
         u8 ss.length, u8 (e * 4 + m / 65536), u8 (m / 256 % 256), u8 (m % 256)] ++ be32s ss := by
      have hm : m % 4294967296 = m := Nat.mod_eq_of_lt (by omega)
      have e1 : ss.length % 256 = ss.length := by omega
      have e2 : e % (c15RembExpMask + 1) * 4 % 256 + m / 65536 % 4 = e * 4 + m / 65536 := by
        rw [c15RembExpMask_eq]; omega
      have hz : be32 (0 : UInt32) = [0, 0, 0, 0] := by decide
      rw [writeRtcp_aligned 15 206 _ (by omega) (by omega), hl]
      simp only [rembBody, hme, hm, e1, e2, hz, rembTag, List.cons_append, List.nil_append, List.append_assoc, Nat.reduceAdd]
      simp only [be32, List.cons_append, List.nil_append]
    generalize writeRtcp 15 206 (rembBody s br ss) = bs at *
    subst hbs
    have hs := s.toNat_lt
    unfold readRemb
    have f16 : o8 ([u8 143, u8 206, u8 ((16 + 4 * ss.length) / 4 / 256 % 256), u8 ((16 + 4 * ss.length) / 4 % 256),
         u8 (s.toNat / 16777216), u8 (s.toNat / 65536 % 256), u8 (s.toNat / 256 % 256), u8 (s.toNat % 256),
         0, 0, 0, 0, 0x52, 0x45, 0x4D, 0x42,
         u8 ss.length, u8 (e * 4 + m / 65536), u8 (m / 256 % 256), u8 (m % 256)] ++ be32s ss) 16 = ss.length := by
      simp [o8]; omega
    simp only [f16]
    rw [if_pos ⟨hfr, by rw [h1], by rw [h2, hl]; omega, by simp [o32], by simp [o32]⟩]
    have fss := ssrcs_be32s [u8 143, u8 206, u8 ((16 + 4 * ss.length) / 4 / 256 % 256), u8 ((16 + 4 * ss.length) / 4 % 256),
         u8 (s.toNat / 16777216), u8 (s.toNat / 65536 % 256), u8 (s.toNat / 256 % 256), u8 (s.toNat % 256),
         0, 0, 0, 0, 0x52, 0x45, 0x4D, 0x42,
         u8 ss.length, u8 (e * 4 + m / 65536), u8 (m / 256 % 256), u8 (m % 256)] ss 20 rfl
    rw [fss, hcan]
    have fw : w32 ([u8 143, u8 206, u8 ((16 + 4 * ss.length) / 4 / 256 % 256), u8 ((16 + 4 * ss.length) / 4 % 256),
         u8 (s.toNat / 16777216), u8 (s.toNat / 65536 % 256), u8 (s.toNat / 256 % 256), u8 (s.toNat % 256),
         0, 0, 0, 0, 0x52, 0x45, 0x4D, 0x42,
         u8 ss.length, u8 (e * 4 + m / 65536), u8 (m / 256 % 256), u8 (m % 256)] ++ be32s ss) 4 = s := by
      apply UInt32.toNat_inj.mp
      simp [w32, o32]; omega
    have fm : o24 ([u8 143, u8 206, u8 ((16 + 4 * ss.length) / 4 / 256 % 256), u8 ((16 + 4 * ss.length) / 4 % 256),
         u8 (s.toNat / 16777216), u8 (s.toNat / 65536 % 256), u8 (s.toNat / 256 % 256), u8 (s.toNat % 256),
         0, 0, 0, 0, 0x52, 0x45, 0x4D, 0x42,
         u8 ss.length, u8 (e * 4 + m / 65536), u8 (m / 256 % 256), u8 (m % 256)] ++ be32s ss) 17 % 262144 = m := by
      simp [o24]; omega
    have fe : o8 ([u8 143, u8 206, u8 ((16 + 4 * ss.length) / 4 / 256 % 256), u8 ((16 + 4 * ss.length) / 4 % 256),
         u8 (s.toNat / 16777216), u8 (s.toNat / 65536 % 256), u8 (s.toNat / 256 % 256), u8 (s.toNat % 256),
         0, 0, 0, 0, 0x52, 0x45, 0x4D, 0x42,
         u8 ss.length, u8 (e * 4 + m / 65536), u8 (m / 256 % 256), u8 (m % 256)] ++ be32s ss) 17 / 4 = e := by
      simp [o8]; omega
    rw [fw, fm, fe]

/-! ### SDES: the builder's output is the RFC 3550 §6.5 grammar -/

theorem sdesChunk_eq (c : SdesChunk) (h : ∀ i ∈ c.items, i.text.length ≤ 255) : sdesChunk c = chunkEnc c := by
  have hi : c.items.flatMap sdesItem = c.items.flatMap itemBytes := by
    have : ∀ (l : List SdesItem), (∀ i ∈ l, i.text.length ≤ 255) → l.flatMap sdesItem = l.flatMap itemBytes := by
      intro l
      induction l with
      | nil => intro _; rfl
      | cons x xs ih =>
        intro hl
        have hx := hl x (List.mem_cons_self ..)
        simp only [List.flatMap_cons, ih (fun i hi => hl i (List.mem_cons_of_mem _ hi)), sdesItem, itemBytes, u8,
          Nat.mod_eq_of_lt (show x.text.length < 256 by omega)]
    exact this c.items h
  simp only [sdesChunk, chunkEnc, chunkCore, hi, List.length_append, List.length_cons, List.length_nil, List.append_assoc]
  congr 2
  have : (4 - ((be32 c.ssrc).length + (c.items.flatMap itemBytes).length) % 4) =
      pad4 ((be32 c.ssrc).length + ((c.items.flatMap itemBytes).length + (0 + 1))) + 1 := by unfold pad4; omega
  rw [this, List.replicate_succ]; rfl

theorem rfc_sdes (cs : List SdesChunk) (bs : Bytes) (h : marshalOne (.sdes cs) = .ok bs) : isSdes bs cs := by
  have hMax := c15RtcpMaxCount_eq
  simp only [marshalOne] at h
  by_cases hc : cs.length > c15RtcpMaxCount
  · rw [if_pos hc] at h; cases h
  · rw [if_neg hc] at h
    cases hie : sdesItemErr cs with
    | some e => rw [hie] at h; cases h
    | none =>
      rw [hie] at h
      obtain ⟨hfit, rfl⟩ := emit_ok h
      have hmod : cs.length % 256 = cs.length := by omega
      rw [hmod, c15RtcpSdes_val]
      have hal := sdesBody_length_mod cs
      obtain ⟨h1, h2, h3⟩ := writeRtcp_shape cs.length 202 _ (by omega) (by omega) hal hfit
      refine ⟨framed_writeRtcp cs.length 202 _ (by omega) (by omega) hal hfit, by rw [h1], ?_⟩
      rw [h3, sdesBody_eq cs [] rfl, List.nil_append]
      have hi := sdesItemErr_none hie
      have : ∀ (l : List SdesChunk), (∀ c ∈ l, ∀ i ∈ c.items, i.text.length ≤ 255) → l.flatMap chunkEnc = l.flatMap sdesChunk := by
        intro l
        induction l with
        | nil => intro _; rfl
        | cons x xs ih =>
          intro hl
          simp only [List.flatMap_cons, ih (fun c hc => hl c (List.mem_cons_of_mem _ hc)),
            sdesChunk_eq x (hl x (List.mem_cons_self ..))]
      exact this cs (fun c hc i hi' => (hi c hc i hi').2)

/-! ### NACK: the FCI denotes exactly the set of lost sequence numbers -/

theorem w16_pairs (pre : Bytes) (ps : List (UInt16 × Nat)) (hps : ∀ p ∈ ps, p.2 < 65536) (k : Nat) (hk : k < ps.length) :
    w16 (pre ++ ps.flatMap pairBytes) (pre.length + 4 * k) = ps[k].1 ∧
    o16 (pre ++ ps.flatMap pairBytes) (pre.length + 4 * k + 2) = ps[k].2 := by
  have hd : (pre ++ ps.flatMap pairBytes).drop (pre.length + 4 * k) = pairBytes ps[k] ++ (ps.drop (k + 1)).flatMap pairBytes := by
    rw [drop_pre, drop_flatMap_fixed pairBytes 4 (fun p => by simp [pairBytes]) ps k, List.drop_eq_getElem_cons hk,
      List.flatMap_cons]
  have h0 := w16_shift (pre ++ ps.flatMap pairBytes) (pre.length + 4 * k) 0
  have h2 := o16_shift (pre ++ ps.flatMap pairBytes) (pre.length + 4 * k) 2
  simp only [Nat.add_zero] at h0
  rw [h0, h2, hd]
  have hb := hps ps[k] (List.getElem_mem hk)
  generalize ps[k] = p at hb ⊢
  obtain ⟨pid, blp⟩ := p
  simp only at hb
  have := pid.toNat_lt
  refine ⟨?_, ?_⟩
  · simp only [pairBytes, List.append_assoc]; exact w16_be16 pid _
  · simp [o16, pairBytes, be16, be16n]; omega

theorem mem_unpack_iff (x : UInt16) : ∀ (qs : List (UInt16 × Nat)), x ∈ unpackNack qs ↔
    ∃ k, ∃ (hk : k < qs.length), x = qs[k].1 ∨ InBlp qs[k].1 qs[k].2 x := by
  intro qs
  induction qs with
  | nil => simp [unpackNack]
  | cons q qs ih =>
    obtain ⟨pid, blp⟩ := q
    simp only [unpackNack, List.mem_cons, List.mem_append, mem_blpSeqs16, ih]
    constructor
    · rintro (h | h | ⟨k, hk, h⟩)
      · exact ⟨0, by simp, Or.inl h⟩
      · exact ⟨0, by simp, Or.inr h⟩
      · exact ⟨k + 1, by simpa using hk, by simpa using h⟩
    · rintro ⟨k, hk, h⟩
      cases k with
      | zero => rcases h with h | h; exact Or.inl h; exact Or.inr (Or.inl h)
      | succ j => exact Or.inr (Or.inr ⟨j, by simpa using hk, by simpa using h⟩)

theorem bit_iff_testBit (n i : Nat) : n / 2 ^ i % 2 = 1 ↔ n.testBit i = true := by
  rw [Nat.testBit, Nat.shiftRight_eq_div_pow]
  simp [Nat.and_comm, Nat.and_one_is_mod]

theorem nack_denotes (pre : Bytes) (hpre : pre.length = 12) (ps : List (UInt16 × Nat)) (hps : ∀ p ∈ ps, p.2 < 65536)
    (x : UInt16) : nackDenotes (pre ++ ps.flatMap pairBytes) x ↔ x ∈ unpackNack ps := by
  have hlen : (pre ++ ps.flatMap pairBytes).length = 12 + 4 * ps.length := by
    rw [List.length_append, hpre, flatMap_pairBytes_length]
  rw [mem_unpack_iff x ps]
  unfold nackDenotes
  constructor
  · rintro ⟨k, hk, hx⟩
    have hk' : k < ps.length := by rw [hlen] at hk; omega
    have hw := w16_pairs pre ps hps k hk'
    rw [hpre] at hw
    refine ⟨k, hk', ?_⟩
    rw [hw.1] at hx
    rcases hx with hx | ⟨i, hi, hbit, hx⟩
    · exact Or.inl hx
    · right
      rw [hw.2] at hbit
      exact ⟨i, hi, (bit_iff_testBit _ _).mp hbit, hx⟩
  · rintro ⟨k, hk', hx⟩
    have hw := w16_pairs pre ps hps k hk'
    rw [hpre] at hw
    refine ⟨k, by rw [hlen]; omega, ?_⟩
    rw [hw.1]
    rcases hx with hx | ⟨i, hi, hbit, hx⟩
    · exact Or.inl hx
    · right
      exact ⟨i, hi, by rw [hw.2]; exact (bit_iff_testBit _ _).mpr hbit, hx⟩

theorem rfc_nack (s m : UInt32) (lost : List UInt16) (bs : Bytes) (h : marshalOne (.nack s m lost) = .ok bs) :
    isNack bs s m ∧ ∀ x, nackDenotes bs x ↔ x ∈ lost := by
  simp only [marshalOne] at h
  cases he : lost.isEmpty with
  | true => simp [he] at h
  | false =>
    simp only [he, Bool.false_eq_true, if_false] at h
    obtain ⟨hfit, rfl⟩ := emit_ok h
    rw [c15FmtNack_val, c15RtcpRtpfb_val]
    have hps : ∀ p ∈ packNack lost, p.2 < 65536 := packSorted_blp_lt _ _ rfl
    have hmem : ∀ x, x ∈ unpackNack (packNack lost) ↔ x ∈ lost := fun x =>
      (mem_unpack_packSorted x _ _ rfl).trans (mem_sortDedup x lost)
    generalize hB : be32 s ++ be32 m ++ (packNack lost).flatMap pairBytes = body at hfit
    have hl : body.length = 8 + 4 * (packNack lost).length := by
      rw [← hB]; simp only [List.length_append, be32_length, flatMap_pairBytes_length]
    have hal : body.length % 4 = 0 := by omega
    obtain ⟨h1, h2, h3⟩ := writeRtcp_shape 1 205 body (by omega) (by omega) hal hfit
    have hfr := framed_writeRtcp 1 205 body (by omega) (by omega) hal hfit
    constructor
    · refine ⟨hfr, by rw [h1], by rw [h2]; omega, ?_, ?_⟩
      · have := w32_shift (writeRtcp 1 205 body) 4 0
        simp only [Nat.add_zero, h3] at this
        rw [this, ← hB, List.append_assoc, w32_be32]
      · have := w32_shift (writeRtcp 1 205 body) 4 4
        simp only [h3] at this
        rw [show (8 : Nat) = 4 + 4 from rfl, this, ← hB, List.append_assoc]
        have := w32_skip4 s (be32 m ++ (packNack lost).flatMap pairBytes) 0
        simp only [Nat.zero_add] at this
        rw [this, w32_be32]
    · intro x
      rw [← hmem x]
      have hsplit : writeRtcp 1 205 body = ((writeRtcp 1 205 body).take 4 ++ be32 s ++ be32 m) ++ (packNack lost).flatMap pairBytes := by
        have := (List.take_append_drop 4 (writeRtcp 1 205 body)).symm
        rw [h3] at this
        rw [List.append_assoc, List.append_assoc, ← List.append_assoc (be32 s), hB]
        exact this
      rw [hsplit]
      exact nack_denotes _ (by simp [List.length_take, h2]) _ hps x

/-! ### BYE -/

theorem fits_padded {b : Bytes} (h : fits b = true) : fits (padded b) = true := by
  have h4 := padded_length_mod b
  simp only [fits, decide_eq_true_eq] at h ⊢
  have : (padded b).length = b.length + pad4 b.length := by simp [padded]
  rw [pad4_zero h4]; omega

theorem writeRtcp_padded (fmt pt : Nat) (body : Bytes) : writeRtcp fmt pt body = writeRtcp fmt pt (padded body) := by
  have h4 := padded_length_mod body
  simp only [writeRtcp, pad4_zero h4, List.replicate_zero, List.append_nil]
  rfl

theorem rfc_bye (ss : List UInt32) (r : Option Bytes) (bs : Bytes) (h : marshalOne (.bye ss r) = .ok bs) :
    readBye bs = some (ss, r.map fun x => x.take (byeCut x (min x.length c15ByeMaxReason))) := by
  have hMax := c15RtcpMaxCount_eq
  have h255 := c15ByeMaxReason_eq
  simp only [marshalOne] at h
  by_cases hc : ss.length > c15RtcpMaxCount
  · rw [if_pos hc] at h; cases h
  · rw [if_neg hc] at h
    obtain ⟨hfit, rfl⟩ := emit_ok h
    have hmod : ss.length % 256 = ss.length := by omega
    rw [hmod, c15RtcpBye_val, writeRtcp_padded]
    have hal := padded_length_mod (byeBody ss r)
    obtain ⟨h1, h2, h3⟩ := writeRtcp_shape ss.length 203 _ (by omega) (by omega) hal (fits_padded hfit)
    have hfr := framed_writeRtcp ss.length 203 _ (by omega) (by omega) hal (fits_padded hfit)
    generalize writeRtcp ss.length 203 (padded (byeBody ss r)) = bs at *
    have hss : ∀ (tail : Bytes), bs.drop 4 = be32s ss ++ tail → ssrcs bs 4 ss.length = ss := by
      intro tail ht
      have := ssrcs_shift bs 4 0 ss.length
      simp only [Nat.add_zero] at this
      rw [this, ht]
      have := ssrcs_be32s_tail [] ss tail 0 rfl
      simpa using this
    unfold readBye
    rw [h1]
    simp only
    cases r with
    | none =>
      have hb : padded (byeBody ss none) = be32s ss := by
        have : (byeBody ss none).length % 4 = 0 := by
          simp only [byeBody, List.length_append, be32s_length, List.length_nil]; omega
        rw [padded_of_aligned this]; simp [byeBody]
      rw [hb] at h2 h3
      have hlen : bs.length = 4 + 4 * ss.length := by rw [h2, be32s_length]
      rw [if_pos ⟨hfr, by omega⟩, if_pos hlen, hss [] (by rw [h3]; simp)]
      rfl
    | some x =>
      have hk := byeCut_le x (min x.length c15ByeMaxReason)
      generalize hkd : byeCut x (min x.length c15ByeMaxReason) = k at hk
      have hb : padded (byeBody ss (some x)) = be32s ss ++ (u8 k :: (x.take k ++ List.replicate (pad4 (byeBody ss (some x)).length) 0)) := by
        simp only [padded, byeBody, hkd, List.append_assoc, List.cons_append]
      rw [hb] at h2 h3
      have hkx : (x.take k).length = k := by simp [List.length_take]; omega
      have hlen : bs.length = 4 + 4 * ss.length + 1 + k + pad4 (byeBody ss (some x)).length := by
        rw [h2]; simp only [List.length_append, be32s_length, List.length_cons, hkx, List.length_replicate]; omega
      rw [if_pos ⟨hfr, by omega⟩, if_neg (by omega)]
      have ho : o8 bs (4 + 4 * ss.length) = k := by
        have := o8_shift bs 4 (4 * ss.length)
        rw [this, h3]
        have := o8_shift (be32s ss ++ (u8 k :: (x.take k ++ List.replicate (pad4 (byeBody ss (some x)).length) 0))) (4 * ss.length) 0
        simp only [Nat.add_zero] at this
        rw [this, show 4 * ss.length = (be32s ss).length + 0 by simp, drop_pre]
        simp [o8]; omega
      simp only [ho]
      rw [if_pos (by omega), hss _ h3]
      congr 2
      have : bs.drop (4 + 4 * ss.length + 1) = x.take k ++ List.replicate (pad4 (byeBody ss (some x)).length) 0 := by
        rw [show 4 + 4 * ss.length + 1 = 4 + (4 * ss.length + 1) by omega, ← List.drop_drop, h3,
          show 4 * ss.length + 1 = (be32s ss).length + 1 by simp, drop_pre]
        simp
      rw [this, List.take_append_of_le_length (by omega), List.take_of_length_le (by omega)]
      simp only [Option.map, hkd]

/-! ### TWCC -/

/-- the fixed part of a TWCC body, read at its RFC offsets (relative to the body) -/
theorem twcc_fields (s m : UInt32) (b c : UInt16) (r : UInt32) (f : UInt8) (pl Z : Bytes) :
    let B := twccBody s m b c r f pl ++ Z
    w32 B 0 = s ∧ w32 B 4 = m ∧ w16 B 8 = b ∧ w16 B 10 = c ∧
      UInt32.ofNat (o24 B 12) = UInt32.ofNat (r.toNat % 16777216) ∧ w8 B 15 = f ∧
      B.drop 16 = pl ++ Z := by
  intro B
  have hB : B = be32 s ++ (be32 m ++ (be16 b ++ (be16 c ++ (be24n (r.toNat % 16777216) ++ (f :: (pl ++ Z)))))) := by
    simp [B, twccBody, List.append_assoc]
  rw [hB]
  refine ⟨w32_be32 s _, ?_, ?_, ?_, ?_, ?_, ?_⟩
  · have := w32_skip4 s (be32 m ++ (be16 b ++ (be16 c ++ (be24n (r.toNat % 16777216) ++ (f :: (pl ++ Z)))))) 0
    simp only [Nat.zero_add] at this; rw [this, w32_be32]
  · rw [show (8 : Nat) = 4 + 4 from rfl, w16_skip4, show (4 : Nat) = 0 + 4 from rfl, w16_skip4, w16_be16]
  · rw [show (10 : Nat) = 6 + 4 from rfl, w16_skip4, show (6 : Nat) = 2 + 4 from rfl, w16_skip4,
      show (2 : Nat) = 0 + 2 from rfl, w16_skip2, w16_be16]
  · rw [show (12 : Nat) = 8 + 4 from rfl, o24_skip4, show (8 : Nat) = 4 + 4 from rfl, o24_skip4,
      show (4 : Nat) = 2 + 2 from rfl, o24_skip2, show (2 : Nat) = 0 + 2 from rfl, o24_skip2]
    congr 1
    simp [o24, be24n]; omega
  · rw [show (15 : Nat) = 11 + 4 from rfl, w8_skip4, show (11 : Nat) = 7 + 4 from rfl, w8_skip4,
      show (7 : Nat) = 5 + 2 from rfl, w8_skip2, show (5 : Nat) = 3 + 2 from rfl, w8_skip2]
    simp [w8, o8, be24n]
  · simp [be32, be16, be24n]

theorem rfc_twcc (s m : UInt32) (b c : UInt16) (r : UInt32) (f : UInt8) (pl : Bytes) (bs : Bytes)
    (h : marshalOne (.twcc s m b c r f pl) = .ok bs) :
    readTwcc bs = some (.twcc s m b c (UInt32.ofNat (r.toNat % 16777216)) f pl) := by
  simp only [marshalOne] at h
  unfold twccEmit at h
  cases hf : fits (twccPadded (twccBody s m b c r f pl)) with
  | false => rw [hf] at h; simp at h
  | true =>
    rw [hf] at h; simp only [if_true] at h
    injection h with h; subst h
    have hl : (twccBody s m b c r f pl).length = 16 + pl.length := by simp [twccBody]; omega
    unfold twccWire
    by_cases hp : pad4 (twccBody s m b c r f pl).length = 0
    · -- aligned: no padding
      have hpd : twccPadded (twccBody s m b c r f pl) = twccBody s m b c r f pl := by simp [twccPadded, hp]
      rw [hpd] at hf
      rw [if_pos hp, c15FmtTwcc_val, c15RtcpRtpfb_val]
      have hal : (twccBody s m b c r f pl).length % 4 = 0 := by unfold pad4 at hp; omega
      obtain ⟨h1, h2, h3⟩ := writeRtcp_shape 15 205 _ (by omega) (by omega) hal hf
      obtain ⟨f1, f2, f3, f4, f5, f6, f7⟩ := twcc_fields s m b c r f pl []
      simp only [List.append_nil] at f1 f2 f3 f4 f5 f6 f7
      generalize writeRtcp 15 205 (twccBody s m b c r f pl) = bs at *
      unfold readTwcc
      rw [h1]
      simp only [Bool.false_eq_true, if_false, Nat.add_zero, Nat.sub_zero]
      rw [if_pos ⟨by trivial, by trivial, by trivial, by rw [h2]; omega, by rw [h2]; omega, by intro hh; cases hh⟩]
      have e : ∀ i, bs.drop (4 + i) = (twccBody s m b c r f pl).drop i := fun i => by rw [← List.drop_drop, h3]
      rw [show (4 : Nat) = 4 + 0 from rfl, w32_shift, show (8 : Nat) = 4 + 4 from rfl, w32_shift,
        show (12 : Nat) = 4 + 8 from rfl, w16_shift, show (14 : Nat) = 4 + 10 from rfl, w16_shift,
        show (16 : Nat) = 4 + 12 from rfl, o24_shift, show (19 : Nat) = 4 + 15 from rfl, w8_shift,
        show (20 : Nat) = 4 + 16 from rfl, e 16, h3, f1, f2, f3, f4, f5, f6, f7, h2,
        List.take_of_length_le (by omega)]
    · -- RTCP padding: P bit and count
      rw [if_neg hp]
      have hp3 := pad4_lt (twccBody s m b c r f pl).length
      have hal := pad4_aligned (twccBody s m b c r f pl).length
      generalize hk : pad4 (twccBody s m b c r f pl).length = k at hp hp3 hal
      have hpd : twccPadded (twccBody s m b c r f pl) = twccBody s m b c r f pl ++ (List.replicate (k - 1) 0 ++ [u8 k]) := by
        simp [twccPadded, hk, hp, List.append_assoc]
      rw [hpd] at hf ⊢
      have hZ : (List.replicate (k - 1) 0 ++ [u8 k] : Bytes).length = k := by simp; omega
      have hBl : (twccBody s m b c r f pl ++ (List.replicate (k - 1) 0 ++ [u8 k])).length = 16 + pl.length + k := by
        rw [List.length_append, hl, hZ]
      rw [c15FmtTwcc_val, c15RtcpRtpfb_val, writeRtcp_aligned 15 205 _ (by omega) (by omega)]
      simp only
      obtain ⟨f1, f2, f3, f4, f5, f6, f7⟩ := twcc_fields s m b c r f pl (List.replicate (k - 1) 0 ++ [u8 k])
      generalize hBd : twccBody s m b c r f pl ++ (List.replicate (k - 1) 0 ++ [u8 k]) = B at *
      have hfl := fits_len hf
      have hB4 : B.length % 4 = 0 := by omega
      have hb0 : (u8 (128 + 15) ||| 32).toNat = 175 := by simp [u8]
      unfold readTwcc
      have hh : hdr ((u8 (128 + 15) ||| 32) :: u8 205 :: u8 (B.length / 4 / 256 % 256) :: u8 (B.length / 4 % 256) :: B) =
          ⟨2, true, 15, 205, B.length / 4⟩ := by
        simp only [hdr, o8, o16, List.drop_zero, List.drop_succ_cons, hb0, u8_toNat, Hdr.mk.injEq,
          decide_eq_true_eq]
        refine ⟨trivial, trivial, trivial, trivial, by omega⟩
      rw [hh]
      simp only [if_true, List.length_cons]
      have hlast : o8 ((u8 (128 + 15) ||| 32) :: u8 205 :: u8 (B.length / 4 / 256 % 256) :: u8 (B.length / 4 % 256) :: B)
          (B.length + 1 + 1 + 1 + 1 - 1) = k := by
        have h1 : B.length + 1 + 1 + 1 + 1 - 1 = 4 + (B.length - 1) := by omega
        rw [h1, o8_shift]
        simp only [List.drop_succ_cons, List.drop_zero]
        have h2 : B = (twccBody s m b c r f pl ++ List.replicate (k - 1) 0) ++ [u8 k] := by
          rw [← hBd]; simp [List.append_assoc]
        have h3 : B.length - 1 = (twccBody s m b c r f pl ++ List.replicate (k - 1) 0).length := by
          rw [hBl]; simp only [List.length_append, List.length_replicate, hl]; omega
        have h4 := o8_shift B (B.length - 1) 0
        simp only [Nat.add_zero] at h4
        rw [h4, h3]
        conv => lhs; rw [h2, List.drop_left]
        simp [o8]; omega
      rw [hlast]
      rw [if_pos ⟨by trivial, by trivial, by trivial, by omega, by omega, fun _ => by omega⟩]
      have e : ∀ i, ((u8 (128 + 15) ||| 32) :: u8 205 :: u8 (B.length / 4 / 256 % 256) :: u8 (B.length / 4 % 256) :: B).drop (4 + i) = B.drop i := by
        intro i; rw [← List.drop_drop]; rfl
      have h3 := e 0
      simp only [Nat.add_zero, List.drop_zero] at h3
      rw [show (4 : Nat) = 4 + 0 from rfl, w32_shift, show (8 : Nat) = 4 + 4 from rfl, w32_shift,
        show (12 : Nat) = 4 + 8 from rfl, w16_shift, show (14 : Nat) = 4 + 10 from rfl, w16_shift,
        show (16 : Nat) = 4 + 12 from rfl, o24_shift, show (19 : Nat) = 4 + 15 from rfl, w8_shift,
        show (20 : Nat) = 4 + 16 from rfl, e 16]
      simp only [Nat.add_zero] at h3 ⊢
      rw [h3, f1, f2, f3, f4, f5, f6, f7]
      congr 2
      rw [List.take_append_of_le_length (by omega), List.take_of_length_le (by omega)]

/-! ### RTP -/

theorem rfc_rtp (p : Packet) (w : p.hdr.WF) (bs : Bytes) (h : marshalPacket p = .ok bs) : readRtp bs = some p := by
  obtain ⟨hd, payload, pad⟩ := p
  obtain ⟨m, pt, seq, ts, ssrc, csrcs, ext⟩ := hd
  have hpt : pt.toNat < 128 := w.pt
  have hcs : csrcs.length ≤ 15 := w.csrcs
  simp only [marshalPacket, validate_ok_of_wf w, Except.ok.injEq] at h
  subst h
  simp only [writeHeader, c15CsrcMask_eq, c15PtMask_eq]
  generalize hb0 : 128 + (if (pad != 0) = true then 32 else 0) + (if ext.isSome = true then 16 else 0) + csrcs.length % (15 + 1) = b0
  generalize hb1 : pt.toNat % (127 + 1) + (if m = true then 128 else 0) = b1
  have hb0l : b0 < 256 := by rw [← hb0]; split <;> split <;> omega
  have hb1l : b1 < 256 := by rw [← hb1]; split <;> omega
  -- the datagram: 12 fixed octets, CSRCs, extension block, payload and padding
  generalize hP : (u8 b0 :: u8 b1 :: (be16 seq ++ be32 ts ++ be32 ssrc) : Bytes) = P12
  have hPl : P12.length = 12 := by rw [← hP]; simp
  generalize hT : payload ++ List.replicate pad.toNat pad = T
  have hbs : (u8 b0 :: u8 b1 :: (be16 seq ++ be32 ts ++ be32 ssrc ++ be32s csrcs ++ extBytes ext)) ++ payload ++
      List.replicate pad.toNat pad = P12 ++ (be32s csrcs ++ (extBytes ext ++ T)) := by
    rw [← hP, ← hT]; simp [List.append_assoc]
  rw [hbs]
  generalize hbsd : P12 ++ (be32s csrcs ++ (extBytes ext ++ T)) = bs
  have f0 : o8 bs 0 = b0 := by rw [← hbsd, ← hP]; simp [o8]; omega
  have f1 : o8 bs 1 = b1 := by rw [← hbsd, ← hP]; simp [o8]; omega
  have fseq : w16 bs 2 = seq := by
    rw [← hbsd, ← hP]
    have := w16_shift (u8 b0 :: u8 b1 :: (be16 seq ++ be32 ts ++ be32 ssrc) ++ (be32s csrcs ++ (extBytes ext ++ T))) 2 0
    simp only [Nat.add_zero] at this
    rw [this]; simp only [List.cons_append, List.drop_succ_cons, List.drop_zero, List.append_assoc]; exact w16_be16 seq _
  have fts : w32 bs 4 = ts := by
    rw [← hbsd, ← hP]
    have := w32_shift (u8 b0 :: u8 b1 :: (be16 seq ++ be32 ts ++ be32 ssrc) ++ (be32s csrcs ++ (extBytes ext ++ T))) 4 0
    simp only [Nat.add_zero] at this
    rw [this]; simp only [be16, List.cons_append, List.nil_append, List.drop_succ_cons, List.drop_zero, List.append_assoc]
    exact w32_be32 ts _
  have fss : w32 bs 8 = ssrc := by
    rw [← hbsd, ← hP]
    have := w32_shift (u8 b0 :: u8 b1 :: (be16 seq ++ be32 ts ++ be32 ssrc) ++ (be32s csrcs ++ (extBytes ext ++ T))) 4 4
    rw [show (8 : Nat) = 4 + 4 from rfl, this]
    simp only [be16, List.cons_append, List.nil_append, List.drop_succ_cons, List.drop_zero, List.append_assoc]
    have := w32_skip4 ts (be32 ssrc ++ (be32s csrcs ++ (extBytes ext ++ T))) 0
    simp only [Nat.zero_add] at this
    rw [this, w32_be32]
  have fcs : ssrcs bs 12 csrcs.length = csrcs := by rw [← hbsd]; exact ssrcs_be32s_tail P12 csrcs _ 12 hPl
  have hdropE : bs.drop (12 + 4 * csrcs.length) = extBytes ext ++ T := by
    rw [← hbsd, show 12 + 4 * csrcs.length = P12.length + (be32s csrcs).length by simp [hPl],
      ← List.append_assoc, List.drop_left' (by simp)]
  have hlen : bs.length = 12 + 4 * csrcs.length + (extBytes ext).length + T.length := by
    rw [← hbsd]; simp only [List.length_append, hPl, be32s_length]; omega
  have hTl : T.length = payload.length + pad.toNat := by rw [← hT]; simp
  have hcc : b0 % 16 = csrcs.length := by rw [← hb0]; split <;> split <;> omega
  have hx : (b0 / 16 % 2 = 1) = (ext.isSome = true) := by
    rw [← hb0]; cases ext.isSome <;> simp <;> split <;> omega
  have hp : (b0 / 32 % 2 = 1) = ((pad != 0) = true) := by
    rw [← hb0]; cases (pad != 0) <;> simp <;> split <;> omega
  have hv : b0 / 64 = 2 := by rw [← hb0]; split <;> split <;> omega
  have hm : (b1 / 128 = 1) = (m = true) := by rw [← hb1]; cases m <;> simp <;> omega
  have hpt' : UInt8.ofNat (b1 % 128) = pt := by
    have : b1 % 128 = pt.toNat := by rw [← hb1]; split <;> omega
    rw [this]; simp
  unfold readRtp
  simp only [f0, f1, hcc, hx, hp, hv, hm, fseq, fts, fss, fcs]
  have hpadlast : pad ≠ 0 → o8 bs (bs.length - 1) = pad.toNat := by
    intro hne
    have hpos : 0 < pad.toNat := by
      rcases Nat.eq_zero_or_pos pad.toNat with h0 | h0
      · exact absurd (UInt8.toNat_inj.mp (by simpa using h0)) hne
      · exact h0
    have h1 := o8_shift bs (bs.length - 1) 0
    simp only [Nat.add_zero] at h1
    rw [h1, ← hbsd, ← hT]
    obtain ⟨k, hk⟩ : ∃ k, pad.toNat = k + 1 := ⟨pad.toNat - 1, by omega⟩
    rw [hk, List.replicate_succ']
    have hh : P12 ++ (be32s csrcs ++ (extBytes ext ++ (payload ++ (List.replicate k pad ++ [pad])))) =
        (P12 ++ (be32s csrcs ++ (extBytes ext ++ (payload ++ List.replicate k pad)))) ++ [pad] := by simp [List.append_assoc]
    rw [hh, List.length_append, List.length_singleton, Nat.add_sub_cancel, List.drop_left]
    simp [o8, hk]
  cases ext with
  | none =>
    simp only [Option.isSome_none, Bool.false_eq_true, if_false, Nat.add_zero] at hdropE hlen ⊢
    simp only [extBytes, List.nil_append, List.length_nil, Nat.add_zero] at hdropE hlen
    by_cases hz : pad = 0
    · subst hz
      have : ((0 : UInt8) != 0) = false := by decide
      simp only [this, Bool.false_eq_true, if_false, Nat.add_zero, Nat.sub_zero]
      rw [if_pos ⟨trivial, by omega, by intro hh; cases hh⟩, hdropE]
      have : T = payload := by rw [← hT]; simp
      rw [this, List.take_of_length_le (by rw [hlen, hTl]; simp)]
      simp [hpt']
    · have hne : (pad != 0) = true := by simp [hz]
      have hl := hpadlast hz
      have hpos : 0 < pad.toNat := by
        rcases Nat.eq_zero_or_pos pad.toNat with h0 | h0
        · exact absurd (UInt8.toNat_inj.mp (by simpa using h0)) hz
        · exact h0
      simp only [hne, if_true, hl]
      rw [if_pos ⟨trivial, by omega, by intro _; omega⟩, hdropE]
      have : (T.take (bs.length - (12 + 4 * csrcs.length) - pad.toNat)) = payload := by
        rw [← hT, List.take_append_of_le_length (by omega), List.take_of_length_le (by omega)]
      rw [this]
      simp [hpt']
  | some e =>
    have hal := w.extAligned e rfl
    have hwd := w.extWords e rfl
    simp only [Option.isSome_some, if_true] at hdropE hlen ⊢
    have hE : extBytes (some e) = be16 e.profile ++ (be16n (e.data.length / 4) ++ e.data) := by simp [extBytes]
    rw [hE] at hdropE hlen
    have hElen : (be16 e.profile ++ (be16n (e.data.length / 4) ++ e.data)).length = 4 + e.data.length := by simp; omega
    rw [hElen] at hlen
    have fprof : w16 bs (12 + 4 * csrcs.length) = e.profile := by
      have := w16_shift bs (12 + 4 * csrcs.length) 0
      simp only [Nat.add_zero] at this
      rw [this, hdropE, List.append_assoc]; exact w16_be16 _ _
    have flen : o16 bs (12 + 4 * csrcs.length + 2) = e.data.length / 4 := by
      rw [o16_shift, hdropE]
      simp [o16, be16, be16n]; omega
    have hdropD : bs.drop (12 + 4 * csrcs.length + 4) = e.data ++ T := by
      rw [← List.drop_drop, hdropE]; simp [be16, be16n]
    simp only [fprof, flen]
    have h4 : 4 + 4 * (e.data.length / 4) - 4 = e.data.length := by omega
    have h5 : 12 + 4 * csrcs.length + (4 + 4 * (e.data.length / 4)) = 12 + 4 * csrcs.length + 4 + e.data.length := by omega
    rw [h4, h5, hdropD]
    have hdropT : bs.drop (12 + 4 * csrcs.length + 4 + e.data.length) = T := by
      rw [← List.drop_drop, hdropD, List.drop_left]
    by_cases hz : pad = 0
    · subst hz
      have : ((0 : UInt8) != 0) = false := by decide
      simp only [this, Bool.false_eq_true, if_false, Nat.add_zero, Nat.sub_zero]
      rw [if_pos ⟨trivial, by omega, by intro hh; cases hh⟩, hdropT]
      have hTp : T = payload := by rw [← hT]; simp
      have hTl0 : T.length = payload.length := by rw [hTp]
      rw [List.take_left' rfl, List.take_of_length_le (by omega), hTp]
      simp [hpt']
    · have hne : (pad != 0) = true := by simp [hz]
      have hl := hpadlast hz
      have hpos : 0 < pad.toNat := by
        rcases Nat.eq_zero_or_pos pad.toNat with h0 | h0
        · exact absurd (UInt8.toNat_inj.mp (by simpa using h0)) hz
        · exact h0
      simp only [hne, if_true, hl]
      rw [if_pos ⟨trivial, by omega, by intro _; omega⟩, hdropT, List.take_left' rfl]
      have : (T.take (bs.length - (12 + 4 * csrcs.length + 4 + e.data.length) - pad.toNat)) = payload := by
        rw [← hT, List.take_append_of_le_length (by omega), List.take_of_length_le (by omega)]
      rw [this]
      simp [hpt']

/-! ### RTCP padding on received packets -/

/-- a packet that carries RTCP padding is handed to the per-type parser WITHOUT the padding, whatever
its type and format (SR, RR, SDES, BYE, every feedback format) -/
theorem parseCompound_withPadding (fmt pt : Nat) (body z rest : Bytes) (hf : fmt < 32) (hpt : pt < 256)
    (hz : z.length < 255) (hal : (body.length + z.length + 1) % 4 = 0)
    (hlen : body.length + z.length + 1 < 262144) :
    parseCompound (withPadding fmt pt body z ++ rest) =
      match parseOne pt fmt body with
      | .error e => .error e
      | .ok o =>
        match parseCompound rest with
        | .error e => .error e
        | .ok ps => .ok (match o with | some p => p :: ps | none => ps) := by
  unfold withPadding
  rw [show (2 * 64 : Nat) = c15RtpVersion * 64 from by rw [c15RtpVersion_val]]
  generalize hk : z.length + 1 = k
  generalize hBd : body ++ z ++ [u8 k] = B
  have hBl : B.length = body.length + k := by rw [← hBd]; simp; omega
  have hBl' : body.length + z.length + 1 = B.length := by omega
  rw [hBl']
  have hB4 : B.length % 4 = 0 := by omega
  simp only [be16n, List.cons_append, List.nil_append]
  rw [parseCompound]
  have hv : (u8 (c15RtpVersion * 64 + 32 + fmt % 32)).toNat = 160 + fmt := by
    rw [u8_toNat, c15RtpVersion_val]; omega
  have hl : (rd16 (u8 (B.length / 4 / 256 % 256)) (u8 (B.length / 4 % 256))).toNat * 4 = B.length := by
    rw [rd16_be16n]; omega
  have hptn : (u8 pt).toNat = pt := u8_toNat_lt hpt
  rw [if_neg (by rw [hv, c15RtpVersion_val]; omega)]
  simp only [hv, hl, hptn]
  have h2 : ((160 + fmt) / 32 % 2 == 1) = true := by
    have : (160 + fmt) / 32 % 2 = 1 := by omega
    simp [this]
  have h3 : (160 + fmt) % 32 = fmt := by omega
  rw [h2, h3]
  simp only [if_true, List.length_append, Bool.true_and]
  rw [if_neg (by omega)]
  simp only [List.take_left']
  have hlast : B.getLast? = some (u8 k) := by rw [← hBd]; simp
  have hkn : (u8 k).toNat = k := u8_toNat_lt (by omega)
  simp only [hlast, Option.getD_some, hkn]
  have hcond : (decide (k = 0) || decide (k > B.length)) = false := by
    have h1 : ¬ k = 0 := by omega
    have h2 : ¬ k > B.length := by omega
    simp [h1, h2]
  rw [hcond]
  simp only [Bool.false_eq_true, if_false]
  have htake : B.take (B.length - k) = body := by
    have : B.length - k = body.length := by omega
    rw [this, ← hBd, List.append_assoc, List.take_left' rfl]
  rw [htake, List.drop_left']
  · cases parseOne pt fmt body with
    | error e => rfl
    | ok o =>
      cases parseCompound rest with
      | error e => rfl
      | ok ps => cases o <;> rfl
  · rfl

/-- hence padding is transparent: the padded packet parses exactly like the same packet without padding -/
theorem parseCompound_padding_transparent (fmt pt : Nat) (body z rest : Bytes) (hf : fmt < 32) (hpt : pt < 256)
    (hz : z.length < 255) (hb : body.length % 4 = 0) (hal : (z.length + 1) % 4 = 0)
    (hlen : body.length + z.length + 1 < 262144) :
    parseCompound (withPadding fmt pt body z ++ rest) = parseCompound (writeRtcp fmt pt body ++ rest) := by
  rw [parseCompound_withPadding fmt pt body z rest hf hpt hz (by omega) hlen,
    parseCompound_writeRtcp fmt pt body rest hf hpt (by omega), padded_of_aligned hb]
  cases parseOne pt fmt body with
  | error e => rfl
  | ok o =>
    cases parseCompound rest with
    | error e => rfl
    | ok ps => cases o <;> rfl

end RtcModel.C15.Rfc
