/- C07 — WP proofs for `RtcModel.C07Rtp` (helper lemmas; the property theorems are in Theorems/C07.lean). -/
import RtcModel.C07Rtp
namespace RtcModel.C07.Rtp
open RtcModel.C07 RtcModel.Generated

theorem extParse_safe {B : Nat} {e : Bool} {Q b n} (hn : n ≤ B)
    (h : ∀ r b', b'.rem ≤ b.rem → r.data.size ≤ b.rem → Q r b' n) :
    safe (· ≤ B) (extParse e) Q b n := by
  unfold extParse
  cur_auto
  · apply h
    · omega
    · simp only [Buf.size_rest]; omega
  · apply h
    · omega
    · simp
attribute [local irreducible] extParse

theorem headerParse_safe {B : Nat} {Q b n} (hB : n + 60 ≤ B)
    (h : ∀ r b' n', b'.rem ≤ b.rem → r.1.ext.data.size ≤ b.rem → n' ≤ n + 60 → Q r b' n') :
    safe (· ≤ B) headerParse Q b n := by
  unfold headerParse
  simp only [c07RtpMinHeader_val]
  cur_auto
  apply extParse_safe (by omega)
  intro r b' h1 h2
  cur_auto
  apply h <;> (try simp only) <;> omega
attribute [local irreducible] headerParse

theorem packetParseBytes_safe {B : Nat} {Q b n} (hB : n + 60 ≤ B)
    (h : ∀ r b' n', r.payloadLen + r.paddingLen ≤ b.rem → r.hdr.ext.data.size ≤ b.rem → n' ≤ n + 60 → Q r b' n') :
    safe (· ≤ B) packetParseBytes Q b n := by
  unfold packetParseBytes
  cur_auto
  apply headerParse_safe hB
  intro r b' n' h1 h2 h3
  cur_auto
  all_goals (apply h <;> (try simp only) <;> omega)
attribute [local irreducible] packetParseBytes

theorem packetParse_safe (b : Buf) :
    safe (· ≤ b.rem + 60) packetParse (fun _ _ n' => n' ≤ b.rem + 60) b 0 := by
  unfold packetParse
  cur_auto
  apply packetParseBytes_safe (by omega)
  intro r b' n' _ _ h3; omega

/-! ### get_extension / set_extension / marshal -/

theorem getExtension_safe (e : Ext) (id : Nat) (b : Buf) (n : Nat) :
    safe (· ≤ n) (getExtension e id) (fun _ _ n' => n' = n) b n := by
  unfold getExtension
  cur_auto
  · apply safe_loop (fun _ _ n' => n' = n) (fun s _ => e.data.size - s)
    · intro s b' n' hn
      unfold getExt1Body
      cur_auto
    · rfl
    · omega
  · apply safe_loop (fun _ _ n' => n' = n) (fun s _ => e.data.size - s)
    · intro s b' n' hn
      unfold getExt2Body
      cur_auto
    · rfl
    · omega

theorem setExtension_safe (e : Ext) (id : Nat) (data : Array UInt8) (b : Buf) (n : Nat) :
    safe (· ≤ n + 10 * e.data.size + 200) (setExtension e id data)
      (fun _ _ n' => n' ≤ n + 10 * e.data.size + 200) b n := by
  unfold setExtension
  have hds : (if e.present = true then e.data else #[]).size ≤ e.data.size := by split <;> simp
  generalize (if e.present = true then e.data else #[]) = d at hds ⊢
  cur_auto
  rename_i hid hlen hprof
  apply safe_loop (fun s _ n' => n' = n + (d.size + data.size + 1 + 4) ∧
      s.out.size ≤ 9 * s.offset ∧ s.offset ≤ d.size + 17)
    (fun s _ => d.size - s.offset)
  · intro s b' n' hinv
    unfold setExtBody
    cur_auto
    all_goals (try simp only [Array.size_append, Array.size_push] at *)
    all_goals (try omega)
    all_goals (split <;> (try simp only [Array.size_append, Array.size_push] at *) <;> omega)
  · simp
  · simp

theorem writeTo_safe {B : Nat} (ncsrc : Nat) (hasExt : Bool) (extLen : Nat) {Q b n} (hn : n ≤ B)
    (hb : b.rem = encodedHdrLen ncsrc hasExt extLen) (h : ∀ b', Q () b' n) :
    safe (· ≤ B) (writeTo ncsrc hasExt extLen) Q b n := by
  unfold writeTo
  unfold encodedHdrLen at hb
  cases hasExt <;> simp only [Bool.false_eq_true, if_false, if_true] at hb ⊢
  · cur_auto
    apply safe_loop (fun i b' n' => n' = n ∧ i ≤ ncsrc ∧ b'.rem = 4 * (ncsrc - i)) (fun i _ => ncsrc - i)
    · intro i b' n' hinv
      obtain ⟨h1, _, _⟩ := hinv; subst h1
      cur_auto
      exact h _
    · omega
    · omega
  · cur_auto
    apply safe_loop (fun i b' n' => n' = n ∧ i ≤ ncsrc ∧ b'.rem = 4 * (ncsrc - i) + (4 + extLen)) (fun i _ => ncsrc - i)
    · intro i b' n' hinv
      obtain ⟨h1, _, _⟩ := hinv; subst h1
      cur_auto
      exact h _
    · omega
    · omega

attribute [local irreducible] writeTo

theorem marshal_safe (pt ncsrc : Nat) (hasExt : Bool) (extLen payloadLen paddingLen : Nat) (b : Buf) (n : Nat) :
    safe (· ≤ n + (encodedHdrLen ncsrc hasExt extLen + payloadLen + paddingLen))
      (marshal pt ncsrc hasExt extLen payloadLen paddingLen)
      (fun r _ n' => r = encodedHdrLen ncsrc hasExt extLen + payloadLen + paddingLen ∧ n' = n + r) b n := by
  unfold marshal
  cur_auto
  apply writeTo_safe _ _ _ (by omega) (by simp [Buf.rem])
  intro b'
  cur_auto

/-! ### RTCP -/

theorem reportBlocks_safe {B : Nat} (fmt : Nat) (body : Array UInt8) (o0 : Nat) {Q b n} (hn : n ≤ B)
    (ho : o0 ≤ body.size) (h : ∀ r, o0 + 24 * fmt ≤ body.size → Q r b n) :
    safe (· ≤ B) (loopM (reportBlocksBody fmt body) (fmt + 1) (0, o0, 7)) Q b n := by
  apply safe_loop (fun s b' n' => b' = b ∧ n' = n ∧ s.1 ≤ fmt ∧ s.2.1 = o0 + 24 * s.1 ∧ s.2.1 ≤ body.size)
    (fun s _ => fmt - s.1)
  · intro s b' n' hinv
    unfold reportBlocksBody
    obtain ⟨hb, hn', h1, h2, h3⟩ := hinv
    subst hb hn'
    cur_auto
    apply h; omega
  · exact ⟨rfl, rfl, by domega, by domega, by domega⟩
  · domega

theorem parseSenderReport_safe {B : Nat} (fmt : Nat) (body : Array UInt8) {Q b n} (hf : fmt < 32)
    (hn : n + 1024 ≤ B) (h : ∀ r n', n' ≤ n + 2 * body.size → Q r b n') :
    safe (· ≤ B) (parseSenderReport fmt body) Q b n := by
  unfold parseSenderReport szReportBlock
  cur_auto
  apply reportBlocks_safe _ _ _ (by omega) (by omega)
  intro r hr
  cur_auto
  apply h; omega

theorem parseReceiverReport_safe {B : Nat} (fmt : Nat) (body : Array UInt8) {Q b n} (hf : fmt < 32)
    (hn : n + 1024 ≤ B) (h : ∀ r n', n' ≤ n + 2 * body.size → Q r b n') :
    safe (· ≤ B) (parseReceiverReport fmt body) Q b n := by
  unfold parseReceiverReport szReportBlock
  cur_auto
  apply reportBlocks_safe _ _ _ (by omega) (by omega)
  intro r hr
  cur_auto
  apply h; omega

theorem sdesSkipPad_safe {B : Nat} (len o0 : Nat) {Q b n} (hn : n ≤ B) (ho : o0 ≤ len)
    (h : ∀ o, o0 ≤ o → o ≤ len → Q o b n) :
    safe (· ≤ B) (loopM (sdesSkipPad len) 4 o0) Q b n := by
  apply safe_loop (fun o b' n' => b' = b ∧ n' = n ∧ o0 ≤ o ∧ o ≤ len) (fun o _ => (4 - o % 4) % 4)
  · intro o b' n' hinv
    obtain ⟨hb, hn', h1, h2⟩ := hinv
    subst hb hn'
    unfold sdesSkipPad
    cur_auto
    all_goals (apply h <;> omega)
  · exact ⟨rfl, rfl, by omega, by omega⟩
  · domega

/-- SDES item loop: allocation grows by at most 16 per consumed byte -/
theorem sdesItems_safe {B : Nat} (body : Array UInt8) (s0 : Nat × Nat × Nat) {Q b n}
    (hn : n + 16 * (body.size - s0.1) ≤ B) (ho : s0.1 ≤ body.size)
    (h : ∀ r n', s0.1 ≤ r.1 → r.1 ≤ body.size → n' + 16 * (body.size - r.1) ≤ n + 16 * (body.size - s0.1) → Q r b n') :
    safe (· ≤ B) (loopM (sdesItemsBody body) (body.size + 1) s0) Q b n := by
  apply safe_loop (fun s b' n' => b' = b ∧ s0.1 ≤ s.1 ∧ s.1 ≤ body.size ∧
      n' + 16 * (body.size - s.1) ≤ n + 16 * (body.size - s0.1))
    (fun s _ => body.size - s.1)
  · intro s b' n' hinv
    obtain ⟨hb, h1, h2, h3⟩ := hinv
    subst hb
    unfold sdesItemsBody szSdesItem
    cur_auto
    · apply h <;> domega
    · apply sdesSkipPad_safe _ _ (by omega) (by omega)
      intro o ho1 ho2
      cur_auto
      apply h <;> domega
  · refine ⟨rfl, by omega, ho, by omega⟩
  · domega

theorem parseSdes_safe {B : Nat} (count : Nat) (body : Array UInt8) {Q b n} (hc : count < 32)
    (hn : n + 1024 + 16 * body.size ≤ B) (h : ∀ r n', n' ≤ n + 24 * body.size → Q r b n') :
    safe (· ≤ B) (parseSdes count body) Q b n := by
  unfold parseSdes szSdesChunk
  cur_auto
  apply safe_loop (fun s b' n' => b' = b ∧ s.1 ≤ count ∧ 4 * s.1 ≤ s.2.1 ∧ s.2.1 ≤ body.size ∧
      n' + 16 * (body.size - s.2.1) ≤ n + count * 32 + 16 * body.size)
    (fun s _ => count - s.1)
  · intro s b' n' hinv
    obtain ⟨hb, h1, h2, h3, h4⟩ := hinv
    subst hb
    unfold sdesChunksBody
    cur_auto
    · apply h; omega
    · apply sdesItems_safe _ _ (by domega) (by domega)
      intro r n'' hr1 hr2 hr3
      dsimp only at hr1 hr3
      cur_auto
  · refine ⟨rfl, by omega, by omega, by domega, by domega⟩
  · domega

theorem parseGoodbye_safe {B : Nat} (count : Nat) (body : Array UInt8) {Q b n} (hc : count < 32)
    (hn : n + 1024 ≤ B) (h : ∀ r n', n' ≤ n + 4 * body.size → Q r b n') :
    safe (· ≤ B) (parseGoodbye count body) Q b n := by
  unfold parseGoodbye
  cur_auto
  apply safe_loop (fun s b' n' => b' = b ∧ n' = n + count * 4 ∧ s.1 ≤ count ∧ s.2.1 = 4 * s.1 ∧ s.2.1 ≤ body.size)
    (fun s _ => count - s.1)
  · intro s b' n' hinv
    obtain ⟨hb, hn', h1, h2, h3⟩ := hinv
    subst hb hn'
    unfold byeSourcesBody
    cur_auto
    all_goals (apply h; omega)
  · refine ⟨rfl, rfl, by omega, rfl, by domega⟩
  · domega

theorem parsePsfbCommon_safe {B : Nat} (body : Array UInt8) {Q b n}
    (hn : n ≤ B) (h : ∀ r, Q r b n) : safe (· ≤ B) (parsePsfbCommon body) Q b n := by
  unfold parsePsfbCommon
  cur_auto
  apply h

theorem parseFir_safe {B : Nat} (body : Array UInt8) {Q b n}
    (hn : n + body.size ≤ B) (h : ∀ r n', n' ≤ n + body.size → Q r b n') :
    safe (· ≤ B) (parseFir body) Q b n := by
  unfold parseFir
  cur_auto
  apply safe_loop (fun s b' n' => b' = b ∧ 8 ≤ s.1 ∧ s.1 ≤ body.size ∧ n' + 8 ≤ n + s.1)
    (fun s _ => body.size - s.1)
  · intro s b' n' hinv
    obtain ⟨hb, h1, h2, h3⟩ := hinv
    subst hb
    unfold firBody
    cur_auto
    apply h; omega
  · refine ⟨rfl, by omega, by domega, by omega⟩
  · domega

theorem parseNack_safe {B : Nat} (body : Array UInt8) {Q b n}
    (hn : n + 9 * body.size ≤ B) (h : ∀ r n', n' ≤ n + 9 * body.size → Q r b n') :
    safe (· ≤ B) (parseNack body) Q b n := by
  unfold parseNack
  cur_auto
  apply safe_loop (fun s b' n' => b' = b ∧ 8 ≤ s.1 ∧ s.1 ≤ body.size ∧ n' ≤ n + 9 * s.1)
    (fun s _ => body.size - s.1)
  · intro s b' n' hinv
    obtain ⟨hb, h1, h2, h3⟩ := hinv
    subst hb
    unfold nackBody
    cur_auto
    apply h; omega
  · refine ⟨rfl, by omega, by domega, by omega⟩
  · domega

theorem rembLoop_safe {B : Nat} (num : Nat) (body : Array UInt8) {Q b n} (hn : n ≤ B)
    (h : ∀ r, 16 + 4 * num ≤ body.size → Q r b n) (hb : 16 ≤ body.size) :
    safe (· ≤ B) (loopM (rembBody num body) (num + 1) (0, 16, 0)) Q b n := by
  apply safe_loop (fun s b' n' => b' = b ∧ n' = n ∧ s.1 ≤ num ∧ s.2.1 = 16 + 4 * s.1 ∧ s.2.1 ≤ body.size)
    (fun s _ => num - s.1)
  · intro s b' n' hinv
    obtain ⟨hb, hn', h1, h2, h3⟩ := hinv
    subst hb hn'
    unfold rembBody
    cur_auto
    apply h; omega
  · exact ⟨rfl, rfl, by domega, by domega, by domega⟩
  · domega

theorem parseRemb_safe {B : Nat} (body : Array UInt8) {Q b n}
    (hn : n + 1024 ≤ B) (h : ∀ r n', n' ≤ n + body.size → Q r b n') :
    safe (· ≤ B) (parseRemb body) Q b n := by
  unfold parseRemb
  cur_auto
  apply rembLoop_safe _ _ (by omega) _ (by omega)
  intro r hr
  cur_auto
  apply h; omega

theorem parseTwcc_safe {B : Nat} (body : Array UInt8) {Q b n}
    (hn : n + body.size ≤ B) (h : ∀ r n', n' ≤ n + body.size → Q r b n') :
    safe (· ≤ B) (parseTwcc body) Q b n := by
  unfold parseTwcc
  cur_auto
  apply h; omega

attribute [local irreducible] parseSenderReport parseReceiverReport parseSdes parseGoodbye parsePsfbCommon
  parseFir parseNack parseRemb parseTwcc

theorem parseSub_safe {B : Nat} (pt fmt : Nat) (body : Array UInt8) {Q b n} (hf : fmt < 32)
    (hn : n + 1024 + 24 * body.size ≤ B) (h : ∀ r n', n' ≤ n + 24 * body.size → Q r b n') :
    safe (· ≤ B) (parseSub pt fmt body) Q b n := by
  unfold parseSub
  cur_auto
  · apply parseSenderReport_safe _ _ hf (by omega); intro r n' hr; apply h; omega
  · apply parseReceiverReport_safe _ _ hf (by omega); intro r n' hr; apply h; omega
  · apply parseSdes_safe _ _ hf (by omega); intro r n' hr; apply h; omega
  · apply parseGoodbye_safe _ _ hf (by omega); intro r n' hr; apply h; omega
  · apply parseNack_safe _ (by omega); intro r n' hr; apply h; omega
  · apply parseTwcc_safe _ (by omega); intro r n' hr; apply h; omega
  · apply parsePsfbCommon_safe _ (by omega); intro r; apply h; omega
  · apply parseFir_safe _ (by omega); intro r n' hr; apply h; omega
  · apply parseRemb_safe _ (by omega); intro r n' hr; apply h; omega
  · apply h; omega

attribute [local irreducible] parseSub

theorem parseRtcp_safe (raw : Array UInt8) (b : Buf) :
    safe (· ≤ 40 * raw.size + 1280) (parseRtcp raw) (fun _ _ n' => n' ≤ 40 * raw.size + 1280) b 0 := by
  unfold parseRtcp szRtcpPacket
  simp only [c07RtcpVecCap_val]
  cur_auto
  apply safe_loop (fun s _ n' => s.1 ≤ raw.size ∧ n' ≤ 256 + 40 * s.1) (fun s _ => raw.size - s.1)
  · intro s b' n' hinv
    obtain ⟨h1, h2⟩ := hinv
    unfold compoundBody szRtcpPacket
    cur_auto
    all_goals (apply parseSub_safe _ _ _ (by omega) (by omega); intro r n'' hr; cur_auto)
  · domega
  · domega

end RtcModel.C07.Rtp
