/- C07 — invariants of the jitter-buffer model (`RtcModel.Jitter`): the buffer stays within its capacity and its keys
stay strictly ascending (a faithful `BTreeMap`) over every history of pushes, pops and resets. -/
import RtcModel.Jitter
namespace RtcModel.Jitter

theorem length_ins_le (k : Nat) (v : Smp) (l : List (Nat × Smp)) : (ins k v l).length ≤ l.length + 1 := by
  induction l with
  | nil => simp [ins]
  | cons h t ih =>
    obtain ⟨k', v'⟩ := h
    unfold ins
    split
    · simp
    · split
      · simp
      · simp only [List.length_cons]; omega

theorem restart_bounded (s : St) (seq : Nat) (x : Smp) : (s.restart seq x).Bounded := by
  simp [St.restart, St.reset, St.Bounded]; omega

theorem store_bounded (s : St) (seq : Nat) (x : Smp) (h : s.Bounded) : (s.store seq x).Bounded := by
  unfold St.Bounded St.store at *
  have hi := length_ins_le seq x (if s.samples.length ≥ s.cap then s.samples.tail else s.samples)
  simp only at hi ⊢
  split at hi
  · rename_i hge
    simp only [hge, ↓reduceIte]
    rw [List.length_tail] at hi
    omega
  · rename_i hlt
    simp only [hlt, ↓reduceIte]
    omega

theorem afterSeq_bounded (s : St) (seq : Nat) (x : Smp) (clock : Nat) (h : s.Bounded) :
    (s.afterSeq seq x clock).Bounded := by
  unfold St.afterSeq
  simp only []
  repeat' split
  all_goals first
    | exact restart_bounded _ _ _
    | exact store_bounded _ _ _ h
    | (apply store_bounded; simp [St.Bounded])

theorem noteSsrc_bounded (s : St) (x : Smp) (h : s.Bounded) : (s.noteSsrc x).Bounded := by
  unfold St.noteSsrc; split <;> exact h

theorem push_bounded (s : St) (x : Smp) (h : s.Bounded) : (s.push x).Bounded := by
  unfold St.push
  repeat' split
  all_goals first
    | exact h
    | exact restart_bounded _ _ _
    | exact noteSsrc_bounded _ _ h
    | exact afterSeq_bounded _ _ _ _ (noteSsrc_bounded _ _ h)

theorem take_bounded (s : St) (f : Nat) (h : s.Bounded) : (s.take f).1.Bounded := by
  unfold St.take
  split
  · simp only [St.Bounded] at *
    have := List.length_filter_le (fun e : Nat × Smp => e.1 != f) s.samples
    omega
  · exact h

theorem pop_bounded (s : St) (a : Bool) (h : s.Bounded) : (s.pop a).1.Bounded := by
  unfold St.pop
  split
  · exact h
  · split
    · exact take_bounded s _ h
    · exact h

theorem afterSeq_cap (s : St) (seq : Nat) (x : Smp) (clock : Nat) : (s.afterSeq seq x clock).cap = s.cap := by
  unfold St.afterSeq St.store
  simp only []
  repeat' split
  all_goals rfl

theorem noteSsrc_cap (s : St) (x : Smp) : (s.noteSsrc x).cap = s.cap := by
  unfold St.noteSsrc; split <;> rfl

theorem push_cap (s : St) (x : Smp) : (s.push x).cap = s.cap := by
  unfold St.push
  repeat' split
  all_goals first
    | rfl
    | exact noteSsrc_cap _ _
    | (rw [afterSeq_cap]; exact noteSsrc_cap _ _)
    | (show (s.noteSsrc x).cap = s.cap; exact noteSsrc_cap _ _)

theorem take_cap (s : St) (f : Nat) : (s.take f).1.cap = s.cap := by
  unfold St.take; split <;> rfl

theorem pop_cap (s : St) (a : Bool) : (s.pop a).1.cap = s.cap := by
  unfold St.pop
  split
  · rfl
  · split
    · exact take_cap s _
    · rfl

theorem step_bounded (s : St) (op : Op) (h : s.Bounded) : (s.step op).Bounded := by
  cases op with
  | push x => exact push_bounded s x h
  | pop a => exact pop_bounded s a h
  | reset => simp [St.step, St.reset, St.Bounded]

theorem step_cap (s : St) (op : Op) : (s.step op).cap = s.cap := by
  cases op with
  | push x => exact push_cap s x
  | pop a => exact pop_cap s a
  | reset => rfl

theorem run_bounded (ops : List Op) (s : St) (h : s.Bounded) : (run s ops).Bounded ∧ (run s ops).cap = s.cap := by
  induction ops generalizing s with
  | nil => exact ⟨h, rfl⟩
  | cons op rest ih =>
    have := ih (s.step op) (step_bounded s op h)
    simp only [run, List.foldl_cons] at this ⊢
    exact ⟨this.1, by rw [this.2, step_cap]⟩

/-! ### the association list stays a faithful `BTreeMap`: keys strictly ascending -/

def Sorted (l : List (Nat × Smp)) : Prop := l.Pairwise (fun a b => a.1 < b.1)

theorem mem_ins {k : Nat} {v : Smp} {l : List (Nat × Smp)} {e : Nat × Smp} (h : e ∈ ins k v l) : e.1 = k ∨ e ∈ l := by
  induction l with
  | nil => simp [ins] at h; left; rw [h]
  | cons hd t ih =>
    obtain ⟨k', v'⟩ := hd
    unfold ins at h
    split at h
    · simp only [List.mem_cons] at h ⊢
      rcases h with h | h | h
      · left; rw [h]
      · right; left; exact h
      · right; right; exact h
    · split at h
      · simp only [List.mem_cons] at h ⊢
        rcases h with h | h
        · left; rw [h]
        · right; right; exact h
      · simp only [List.mem_cons] at h ⊢
        rcases h with h | h
        · right; left; exact h
        · rcases ih h with h | h
          · left; exact h
          · right; right; exact h

theorem sorted_ins (k : Nat) (v : Smp) (l : List (Nat × Smp)) (h : Sorted l) : Sorted (ins k v l) := by
  induction l with
  | nil => simp [ins, Sorted]
  | cons hd t ih =>
    obtain ⟨k', v'⟩ := hd
    unfold Sorted at h ih ⊢
    rw [List.pairwise_cons] at h
    unfold ins
    split
    · rename_i hlt
      rw [List.pairwise_cons]
      refine ⟨?_, List.pairwise_cons.mpr h⟩
      intro e he
      simp only [List.mem_cons] at he
      rcases he with he | he
      · rw [he]; exact hlt
      · have := h.1 e he; simp only at this ⊢; omega
    · split
      · rename_i _ heq
        rw [List.pairwise_cons]
        refine ⟨?_, h.2⟩
        intro e he
        have := h.1 e he; simp only at this ⊢; omega
      · rename_i hn1 hn2
        rw [List.pairwise_cons]
        refine ⟨?_, ih h.2⟩
        intro e he
        rcases mem_ins he with he | he
        · simp only; omega
        · exact h.1 e he

theorem sorted_tail {l : List (Nat × Smp)} (h : Sorted l) : Sorted l.tail := by
  unfold Sorted at *; cases l with
  | nil => simp
  | cons a t => exact (List.pairwise_cons.mp h).2

theorem sorted_filter {l : List (Nat × Smp)} (p : Nat × Smp → Bool) (h : Sorted l) : Sorted (l.filter p) := by
  unfold Sorted at *; exact h.filter p

def St.KeysAscending (s : St) : Prop := Sorted s.samples

theorem store_sorted (s : St) (seq : Nat) (x : Smp) (h : s.KeysAscending) : (s.store seq x).KeysAscending := by
  unfold St.KeysAscending St.store at *
  simp only
  split
  · exact sorted_ins _ _ _ (sorted_tail h)
  · exact sorted_ins _ _ _ h

theorem restart_sorted (s : St) (seq : Nat) (x : Smp) : (s.restart seq x).KeysAscending := by
  simp [St.restart, St.KeysAscending, Sorted]

theorem afterSeq_sorted (s : St) (seq : Nat) (x : Smp) (clock : Nat) (h : s.KeysAscending) :
    (s.afterSeq seq x clock).KeysAscending := by
  unfold St.afterSeq
  simp only []
  repeat' split
  all_goals first
    | exact restart_sorted _ _ _
    | exact store_sorted _ _ _ h
    | (apply store_sorted; simp [St.KeysAscending, Sorted])

theorem noteSsrc_sorted (s : St) (x : Smp) (h : s.KeysAscending) : (s.noteSsrc x).KeysAscending := by
  unfold St.noteSsrc; split <;> exact h

theorem push_sorted (s : St) (x : Smp) (h : s.KeysAscending) : (s.push x).KeysAscending := by
  unfold St.push
  repeat' split
  all_goals first
    | exact h
    | exact restart_sorted _ _ _
    | exact noteSsrc_sorted _ _ h
    | exact afterSeq_sorted _ _ _ _ (noteSsrc_sorted _ _ h)

theorem pop_sorted (s : St) (a : Bool) (h : s.KeysAscending) : (s.pop a).1.KeysAscending := by
  unfold St.pop
  split
  · exact h
  · split
    · unfold St.take
      split
      · exact sorted_filter _ h
      · exact h
    · exact h

theorem run_sorted (ops : List Op) (s : St) (h : s.KeysAscending) : (run s ops).KeysAscending := by
  induction ops generalizing s with
  | nil => exact h
  | cons op rest ih =>
    simp only [run, List.foldl_cons]
    apply ih
    cases op with
    | push x => exact push_sorted s x h
    | pop a => exact pop_sorted s a h
    | reset => simp [St.step, St.reset, St.KeysAscending, Sorted]

/-! ### an old-enough head sample is always delivered; a drain empties the buffer -/

theorem firstSeq_mem (s : St) (f : Nat) (h : s.firstSeq = some f) : ∃ e ∈ s.samples, e.1 = f := by
  unfold St.firstSeq at h
  split at h
  · cases h
  · rename_i k0 v0 t hs
    split at h
    · simp only at h
      split at h
      · -- kn
        cases hl : s.samples.getLast? with
        | none => simp [hl] at h; exact ⟨(k0, v0), by rw [hs]; simp, h⟩
        | some e =>
          simp [hl] at h
          exact ⟨e, List.mem_of_getLast? hl, h⟩
      · simp at h; exact ⟨(k0, v0), by rw [hs]; simp, h⟩
    · simp only at h
      split at h
      · split at h
        · rename_i e he
          simp at h
          exact ⟨e, List.mem_of_find?_eq_some he, h⟩
        · simp at h; exact ⟨(k0, v0), by rw [hs]; simp, h⟩
      · simp at h; exact ⟨(k0, v0), by rw [hs]; simp, h⟩

theorem firstSeq_isSome (s : St) (h : s.samples ≠ []) : s.firstSeq.isSome := by
  unfold St.firstSeq
  split
  · contradiction
  · simp only []
    repeat' split
    all_goals rfl

/-- **no head-of-line blocking once old enough**: a non-empty buffer whose head sample is older than `max_delay`
always delivers on `pop`, the delivered sample was in the buffer, and the buffer shrinks. -/
theorem pop_aged_delivers (s : St) (h : s.samples ≠ []) :
    ∃ x, (s.pop true).2 = some x ∧ (∃ e ∈ s.samples, e.2 = x) ∧ (s.pop true).1.samples.length < s.samples.length := by
  have hf := firstSeq_isSome s h
  cases hfs : s.firstSeq with
  | none => simp [hfs] at hf
  | some f =>
    obtain ⟨e, he, hef⟩ := firstSeq_mem s f hfs
    unfold St.pop
    simp only [hfs, Bool.or_true, ↓reduceIte]
    unfold St.take
    have hfind : (s.samples.find? (fun e => e.1 == f)).isSome := by
      rw [List.find?_isSome]
      exact ⟨e, he, by simp [hef]⟩
    cases hfd : s.samples.find? (fun e => e.1 == f) with
    | none => simp [hfd] at hfind
    | some e' =>
      simp only
      refine ⟨e'.2, rfl, ⟨e', List.mem_of_find?_eq_some hfd, rfl⟩, ?_⟩
      have hm := List.mem_of_find?_eq_some hfd
      have hp := List.find?_some hfd
      simp only [beq_iff_eq] at hp
      apply List.length_filter_lt_length_iff_exists.mpr
      exact ⟨e', hm, by simp [hp]⟩

theorem pop_empty (s : St) (a : Bool) (h : s.samples = []) : s.pop a = (s, none) := by
  unfold St.pop St.firstSeq
  simp [h]

/-- the harness' end-of-case drain (`max_delay = 0`) leaves the buffer empty: every buffered sample is eventually
delivered once it is old enough — nothing is stranded behind a gap. -/
theorem drain_empties (n : Nat) (s : St) (acc : List Nat) (h : s.samples.length < n) : (s.drain n acc).1.samples = [] := by
  induction n generalizing s acc with
  | zero => omega
  | succ n ih =>
    unfold St.drain
    by_cases he : s.samples = []
    · rw [pop_empty s true he]; exact he
    · obtain ⟨x, hx, _, hlen⟩ := pop_aged_delivers s he
      cases hp : s.pop true with
      | mk s' r =>
        rw [hp] at hx hlen
        simp only at hx hlen
        subst hx
        simp only
        exact ih s' _ (by omega)

end RtcModel.Jitter
