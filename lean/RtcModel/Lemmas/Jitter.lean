/- C07 — invariants of the jitter-buffer model (`RtcModel.Jitter`): the buffer stays within its capacity and its keys
stay strictly ascending (a faithful `BTreeMap`) over every history of pushes, pops and resets. -/
import RtcModel.Jitter
namespace RtcModel.Jitter

theorem length_ins_le (k : Nat) (v : Smp) (l : List (Nat × Smp)) : (ins k v l).length ≤ l.length + 1 := by
  induction l with
  | nil => simp [ins]
  | cons h t ih =>
    obtain ⟨k', v'⟩ := h
    unfold ins
    split
    · simp
    · split
      · simp
      · simp only [List.length_cons]; omega

theorem restart_bounded (s : St) (seq : Nat) (x : Smp) : (s.restart seq x).Bounded := by
  simp [St.restart, St.reset, St.Bounded]; omega

theorem store_bounded (s : St) (seq : Nat) (x : Smp) (h : s.Bounded) : (s.store seq x).Bounded := by
  unfold St.Bounded St.store at *
  have hi := length_ins_le seq x (if s.samples.length ≥ s.cap then s.samples.tail else s.samples)
  simp only at hi ⊢
  split at hi
  · rename_i hge
    simp only [hge, ↓reduceIte]
    rw [List.length_tail] at hi
    omega
  · rename_i hlt
    simp only [hlt, ↓reduceIte]
    omega

theorem afterSeq_bounded (s : St) (seq : Nat) (x : Smp) (clock : Nat) (h : s.Bounded) :
    (s.afterSeq seq x clock).Bounded := by
  unfold St.afterSeq
  simp only []
  repeat' split
  all_goals first
    | exact restart_bounded _ _ _
    | exact store_bounded _ _ _ h
    | (apply store_bounded; simp [St.Bounded])

theorem noteSsrc_bounded (s : St) (x : Smp) (h : s.Bounded) : (s.noteSsrc x).Bounded := by
  unfold St.noteSsrc; split <;> exact h

theorem push_bounded (s : St) (x : Smp) (h : s.Bounded) : (s.push x).Bounded := by
  unfold St.push
  repeat' split
  all_goals first
    | exact h
    | exact restart_bounded _ _ _
    | exact noteSsrc_bounded _ _ h
    | exact afterSeq_bounded _ _ _ _ (noteSsrc_bounded _ _ h)

theorem take_bounded (s : St) (f : Nat) (h : s.Bounded) : (s.take f).1.Bounded := by
  unfold St.take
  split
  · simp only [St.Bounded] at *
    have := List.length_filter_le (fun e : Nat × Smp => e.1 != f) s.samples
    omega
  · exact h

theorem pop_bounded (s : St) (a : Bool) (h : s.Bounded) : (s.pop a).1.Bounded := by
  unfold St.pop
  split
  · exact h
  · split
    · exact take_bounded s _ h
    · exact h

theorem afterSeq_cap (s : St) (seq : Nat) (x : Smp) (clock : Nat) : (s.afterSeq seq x clock).cap = s.cap := by
  unfold St.afterSeq St.store
  simp only []
  repeat' split
  all_goals rfl

theorem noteSsrc_cap (s : St) (x : Smp) : (s.noteSsrc x).cap = s.cap := by
  unfold St.noteSsrc; split <;> rfl

theorem push_cap (s : St) (x : Smp) : (s.push x).cap = s.cap := by
  unfold St.push
  repeat' split
  all_goals first
    | rfl
    | exact noteSsrc_cap _ _
    | (rw [afterSeq_cap]; exact noteSsrc_cap _ _)
    | (show (s.noteSsrc x).cap = s.cap; exact noteSsrc_cap _ _)

theorem take_cap (s : St) (f : Nat) : (s.take f).1.cap = s.cap := by
  unfold St.take; split <;> rfl

theorem pop_cap (s : St) (a : Bool) : (s.pop a).1.cap = s.cap := by
  unfold St.pop
  split
  · rfl
  · split
    · exact take_cap s _
    · rfl

theorem step_bounded (s : St) (op : Op) (h : s.Bounded) : (s.step op).Bounded := by
  cases op with
  | push x => exact push_bounded s x h
  | pop a => exact pop_bounded s a h
  | reset => simp [St.step, St.reset, St.Bounded]

theorem step_cap (s : St) (op : Op) : (s.step op).cap = s.cap := by
  cases op with
  | push x => exact push_cap s x
  | pop a => exact pop_cap s a
  | reset => rfl

theorem run_bounded (ops : List Op) (s : St) (h : s.Bounded) : (run s ops).Bounded ∧ (run s ops).cap = s.cap := by
  induction ops generalizing s with
  | nil => exact ⟨h, rfl⟩
  | cons op rest ih =>
    have := ih (s.step op) (step_bounded s op h)
    simp only [run, List.foldl_cons] at this ⊢
    exact ⟨this.1, by rw [this.2, step_cap]⟩

end RtcModel.Jitter
