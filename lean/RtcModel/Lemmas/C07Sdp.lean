/- C07 — WP proofs for `RtcModel.C07Sdp`. -/
import RtcModel.C07Sdp
namespace RtcModel.C07.Sdp
open RtcModel.C07

theorem tcpType_safe (parts : Array (List UInt8)) {Q : Nat → Buf → Nat → Prop} {b n} (h : ∀ r, Q r b n) :
    safe (fun _ => True) (loopM (tcpTypeBody parts) (parts.size + 1) 8) Q b n := by
  apply safe_loop (fun _ b' n' => b' = b ∧ n' = n) (fun i _ => parts.size + 8 - i)
  · intro i b' n' hinv
    obtain ⟨hb, hn⟩ := hinv
    subst hb hn
    unfold tcpTypeBody
    cur_auto
    · apply h
    · apply safe_tokAt (by omega); intro t
      cur_auto
      apply safe_tokAt (by omega); intro v
      cur_auto
      apply h
  · exact ⟨rfl, rfl⟩
  · omega

theorem raddr_safe (parts : Array (List UInt8)) {Q : Nat → Buf → Nat → Prop} {b n} (h : ∀ r, Q r b n) :
    safe (fun _ => True) (loopM (raddrBody parts) (parts.size + 1) 8) Q b n := by
  apply safe_loop (fun _ b' n' => b' = b ∧ n' = n) (fun i _ => parts.size + 8 - i)
  · intro i b' n' hinv
    obtain ⟨hb, hn⟩ := hinv
    subst hb hn
    unfold raddrBody
    cur_auto
    · apply h
    · apply safe_tokAt (by omega); intro a
      cur_auto
      apply safe_tokAt (by omega); intro c
      cur_auto
      apply safe_tokAt (by omega); intro rip
      cur_auto
      apply safe_tokAt (by omega); intro rp
      split <;> (apply safe_pure; apply h)
  · exact ⟨rfl, rfl⟩
  · omega

theorem candFromSdp_safe (s : List UInt8) (b : Buf) (n : Nat) :
    safe (fun _ => True) (candFromSdp s) (fun _ _ _ => True) b n := by
  unfold candFromSdp
  cur_auto
  apply safe_tokAt (by omega); intro t0
  cur_auto
  apply safe_tokAt (by omega); intro t1
  split
  · cur_auto
  cur_auto
  apply safe_tokAt (by omega); intro t2
  cur_auto
  apply safe_tokAt (by omega); intro t3
  split
  · cur_auto
  cur_auto
  apply safe_tokAt (by omega); intro t4
  cur_auto
  apply safe_tokAt (by omega); intro t5
  split
  · cur_auto
  cur_auto
  apply safe_tokAt (by omega); intro t7
  cur_auto
  · apply tcpType_safe
    intro r
    cur_auto
    apply raddr_safe
    intro r2
    cur_auto
  · apply raddr_safe
    intro r2
    cur_auto

theorem midUpdate_safe (nextMid mid : Nat) (b : Buf) (n : Nat) :
    safe (· ≤ n) (midUpdate nextMid mid) (fun r _ n' => r ≤ max nextMid 65535 ∧ n' = n) b n := by
  unfold midUpdate
  apply safe_pure
  omega

end RtcModel.C07.Sdp
