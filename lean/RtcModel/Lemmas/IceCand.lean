/-
Helper lemmas about the candidate-line model (`RtcModel/IceCand.lean`): lexing (`split_whitespace` of a
`join(" ")`), decimal `Display`/`FromStr` round trip, and `from_sdp (to_sdp c)`. Core Lean only.
-/
import RtcModel.IceCand
namespace RtcModel.IceCand
open RtcModel.Stun RtcModel.IcePrio

def IsTok (t : Str) : Prop := t ≠ [] ∧ ∀ c ∈ t, isWs c = false

theorem splitWsAux_tok (t rest cur : Str) (h : ∀ c ∈ t, isWs c = false) :
    splitWsAux (t ++ rest) cur = splitWsAux rest (t.reverse ++ cur) := by
  induction t generalizing cur with
  | nil => simp
  | cons c cs ih =>
    have hc : isWs c = false := h c (by simp)
    simp only [List.cons_append, splitWsAux, hc, Bool.false_eq_true, ↓reduceIte]
    rw [ih _ (fun x hx => h x (by simp [hx]))]
    simp

theorem splitWs_joinSp (toks : List Str) (h : ∀ t ∈ toks, IsTok t) : splitWs (joinSp toks) = toks := by
  unfold splitWs
  induction toks with
  | nil => simp [joinSp, splitWsAux]
  | cons t rest ih =>
    have ht := h t (by simp)
    have hne : t.reverse.isEmpty = false := by
      cases t with
      | nil => exact absurd rfl ht.1
      | cons a as => simp
    cases rest with
    | nil =>
      simp only [joinSp]
      have := splitWsAux_tok t [] [] ht.2
      simp only [List.append_nil] at this
      rw [this]; simp [splitWsAux, hne]
    | cons t' rest' =>
      simp only [joinSp]
      rw [splitWsAux_tok t _ [] ht.2]
      have hsp : isWs ' ' = true := by decide
      simp only [List.append_nil, splitWsAux, hsp, ↓reduceIte, hne, Bool.false_eq_true, List.reverse_reverse]
      rw [ih (fun x hx => h x (by simp [hx]))]

theorem digitVal_digitChar (d : Nat) (h : d < 10) : digitVal (digitChar d) = some d := by
  have : ∀ d : Fin 10, digitVal (digitChar d.val) = some d.val := by decide
  exact this ⟨d, h⟩

theorem isWs_digitChar (d : Nat) (h : d < 10) : isWs (digitChar d) = false := by
  have : ∀ d : Fin 10, isWs (digitChar d.val) = false := by decide
  exact this ⟨d, h⟩

theorem parseDigits_append (a b : Str) (acc : Nat) :
    parseDigits (a ++ b) acc = (parseDigits a acc).bind (fun v => parseDigits b v) := by
  induction a generalizing acc with
  | nil => simp [parseDigits]
  | cons c cs ih =>
    simp only [List.cons_append, parseDigits]
    cases digitVal c with
    | none => simp
    | some d => simp [ih]

theorem parseDigits_showDec (n : Nat) : parseDigits (showDec n) 0 = some n := by
  induction n using Nat.strongRecOn with
  | _ n ih =>
    rw [showDec]
    split
    · rename_i h; simp [parseDigits, digitVal_digitChar n h]
    · rename_i h
      rw [parseDigits_append, ih (n / 10) (by omega)]
      simp only [Option.bind_some, parseDigits, digitVal_digitChar (n % 10) (by omega)]
      congr 1; omega

theorem showDec_ne_nil (n : Nat) : showDec n ≠ [] := by
  rw [showDec]; split <;> simp

theorem showDec_head_digit (n : Nat) : ∀ c ∈ showDec n, ∃ d, d < 10 ∧ c = digitChar d := by
  induction n using Nat.strongRecOn with
  | _ n ih =>
    rw [showDec]
    split
    · rename_i h; intro c hc; simp at hc; exact ⟨n, h, hc⟩
    · rename_i h; intro c hc
      simp only [List.mem_append, List.mem_singleton] at hc
      cases hc with
      | inl h1 => exact ih (n / 10) (by omega) c h1
      | inr h2 => exact ⟨n % 10, by omega, h2⟩

theorem showDec_isTok (n : Nat) : IsTok (showDec n) :=
  ⟨showDec_ne_nil n, fun c hc => by
    obtain ⟨d, hd, rfl⟩ := showDec_head_digit n c hc; exact isWs_digitChar d hd⟩

theorem parseUInt_showDec (max n : Nat) (h : n ≤ max) : parseUInt max (showDec n) = some n := by
  have hne := showDec_ne_nil n
  have hd := showDec_head_digit n
  have hp := parseDigits_showDec n
  generalize showDec n = s at *
  match s, hne with
  | c :: cs, _ =>
    obtain ⟨d, hd10, hc⟩ := hd c (by simp)
    have hplus : c ≠ '+' := by
      have : ∀ d : Fin 10, digitChar d.val ≠ '+' := by decide
      rw [hc]; exact this ⟨d, hd10⟩
    have hminus : c ≠ '-' := by
      have : ∀ d : Fin 10, digitChar d.val ≠ '-' := by decide
      rw [hc]; exact this ⟨d, hd10⟩
    unfold parseUInt
    split
    · simp at *
    · simp_all
    · simp_all
    · rename_i c' cs' h1 h2 h3
      simp only [List.cons.injEq] at h3
      simp_all

theorem trimCandidatePrefix_id (s : Str) (h : candidatePrefix.isPrefixOf s = false) :
    trimCandidatePrefix s = s := by
  unfold trimCandidatePrefix
  cases s.length with
  | zero => simp [trimCandidatePrefix.go]
  | succ n => simp [trimCandidatePrefix.go, h]

/-- what the theorem needs from std for one address: its text is a token and parses back -/
def AddrOk (T : AddrText) (a : Addr) : Prop :=
  IsTok (T.showIp a) ∧ Addr.port a ≤ 65535 ∧ T.parseSock (sockText (T.showIp a) (Addr.port a)) = some a

structure WfCand (T : AddrText) (c : Cand) : Prop where
  foundation_tok : IsTok c.foundation
  foundation_noprefix : candidatePrefix.isPrefixOf c.foundation = false
  transport_tok : IsTok c.transport
  transport_lower : toAsciiLower c.transport = c.transport
  tcp_only : c.tcpType.isSome → c.transport = "tcp".toList
  component_le : c.component ≤ 65535
  priority_le : c.priority ≤ 4294967295
  addr_ok : AddrOk T c.address
  related_ok : ∀ a, c.related = some a → AddrOk T a

theorem typOfStr_typStr (t : CandType) : typOfStr (typStr t) = some t := by cases t <;> decide
theorem tcpTypeOfStr_tcpTypeStr (t : TcpType) : tcpTypeOfStr (tcpTypeStr t) = some t := by cases t <;> decide
theorem typStr_isTok (t : CandType) : IsTok (typStr t) := by
  cases t <;> exact ⟨by decide, by decide⟩
theorem tcpTypeStr_isTok (t : TcpType) : IsTok (tcpTypeStr t) := by
  cases t <;> exact ⟨by decide, by decide⟩

theorem toParts_tokens (T : AddrText) (c : Cand) (h : WfCand T c) : ∀ t ∈ toParts T c, IsTok t := by
  intro t ht
  have hkw : IsTok "typ".toList ∧ IsTok "tcptype".toList ∧ IsTok "raddr".toList ∧ IsTok "rport".toList :=
    ⟨⟨by decide, by decide⟩, ⟨by decide, by decide⟩, ⟨by decide, by decide⟩, ⟨by decide, by decide⟩⟩
  simp only [toParts, List.mem_append, List.mem_cons, List.not_mem_nil, or_false] at ht
  rcases ht with (((h1 | h1 | h1 | h1 | h1 | h1 | h1 | h1)) | h2) | h3
  · exact h1 ▸ h.foundation_tok
  · exact h1 ▸ showDec_isTok _
  · rw [h1, h.transport_lower]; exact h.transport_tok
  · exact h1 ▸ showDec_isTok _
  · exact h1 ▸ h.addr_ok.1
  · exact h1 ▸ showDec_isTok _
  · exact h1 ▸ hkw.1
  · exact h1 ▸ typStr_isTok _
  · cases htt : c.tcpType with
    | none => simp [htt] at h2
    | some tt =>
      simp only [htt, List.mem_cons, List.not_mem_nil, or_false] at h2
      rcases h2 with h2 | h2
      · exact h2 ▸ hkw.2.1
      · exact h2 ▸ tcpTypeStr_isTok _
  · cases hr : c.related with
    | none => simp [hr] at h3
    | some a =>
      simp only [hr] at h3
      split at h3
      · simp only [List.mem_cons, List.not_mem_nil, or_false] at h3
        rcases h3 with h3 | h3 | h3 | h3
        · exact h3 ▸ hkw.2.2.1
        · exact h3 ▸ (h.related_ok a hr).1
        · exact h3 ▸ hkw.2.2.2
        · exact h3 ▸ showDec_isTok _
      · simp at h3

/-- the candidate that `from_sdp` returns for the line `to_sdp` printed: the related address of a
host candidate is not printed (RFC 8839: host candidates carry no raddr), everything else is kept -/
def normalize (c : Cand) : Cand :=
  { c with related := if c.typ = .host then none else c.related }

theorem fromSdp_toSdp (T : AddrText) (c : Cand) (h : WfCand T c) :
    fromSdp T (toSdp T c) = .ok (normalize c) := by
  unfold fromSdp toSdp
  rw [splitWs_joinSp _ (toParts_tokens T c h)]
  simp only [toParts, List.cons_append, List.nil_append]
  simp only [trimCandidatePrefix_id _ h.foundation_noprefix, parseUInt_showDec _ _ h.component_le,
    parseUInt_showDec _ _ h.priority_le, parseUInt_showDec _ _ h.addr_ok.2.1, h.addr_ok.2.2,
    typOfStr_typStr, h.transport_lower]
  obtain ⟨fo, pr, ad, ty, tr, tt, re, co⟩ := c
  simp only [normalize]
  have htcp := h.tcp_only
  have hrel := h.related_ok
  simp only at htcp hrel
  cases tt with
  | none =>
    cases re with
    | none => simp [scanTcpType, scanRelated]
    | some a =>
      have ha := hrel a rfl
      by_cases hty : ty = .host
      · subst hty; simp [scanTcpType, scanRelated]
      · simp [hty, scanTcpType, scanRelated, parseUInt_showDec _ _ ha.2.1, ha.2.2]
  | some t =>
    have htr : tr = "tcp".toList := htcp rfl
    subst htr
    cases re with
    | none => simp [scanTcpType, scanRelated, tcpTypeOfStr_tcpTypeStr]
    | some a =>
      have ha := hrel a rfl
      by_cases hty : ty = .host
      · subst hty; simp [scanTcpType, scanRelated, tcpTypeOfStr_tcpTypeStr]
      · simp [hty, scanTcpType, scanRelated, tcpTypeOfStr_tcpTypeStr, parseUInt_showDec _ _ ha.2.1, ha.2.2]

theorem fromSdp_with_extension (T : AddrText) (c : Cand) (k v : Str) (h : WfCand T c)
    (hnone : c.tcpType = none ∧ c.related = none) (hk : IsTok k) (hv : IsTok v) (hne : k ≠ "tcptype".toList) :
    fromSdp T (joinSp (toParts T c ++ [k, v])) = .ok c := by
  have htoks : ∀ t ∈ toParts T c ++ [k, v], IsTok t := by
    intro t ht
    rcases List.mem_append.mp ht with ht | ht
    · exact toParts_tokens T c h t ht
    · simp only [List.mem_cons, List.not_mem_nil, or_false] at ht
      rcases ht with rfl | rfl
      · exact hk
      · exact hv
  unfold fromSdp
  rw [splitWs_joinSp _ htoks]
  obtain ⟨fo, pr, ad, ty, tr, tt, re, co⟩ := c
  obtain ⟨h1, h2⟩ := hnone
  simp only at h1 h2
  subst h1; subst h2
  simp only [toParts, List.cons_append, List.nil_append, List.append_nil]
  simp only [trimCandidatePrefix_id _ h.foundation_noprefix, parseUInt_showDec _ _ h.component_le,
    parseUInt_showDec _ _ h.priority_le, parseUInt_showDec _ _ h.addr_ok.2.1, h.addr_ok.2.2,
    typOfStr_typStr, h.transport_lower]
  simp [scanTcpType, scanRelated]
  intro _ hk'
  exact absurd hk' (by simpa using hne)

end RtcModel.IceCand
