/-
Exhaustive exploration of the closed two-endpoint system (`RtcModel/DtlsFlights.lean`) under a
Dolev–Yao-style *free* interpretation of the cryptography: message bodies are distinct tokens, the
decoders accept exactly the peer's tokens, key derivation succeeds exactly for the two genuine ECDH
shares and returns a key block that is a tag of the transcript, verify_data is the (tagged)
concatenation of its arguments, the AEAD tag is a function of key, nonce and AAD — so nothing is ever
equal by accident, and the handshake's control flow (which only ever tests decode success and
equalities) is the same as for any consistent real instantiation.
-/
import RtcModel.DtlsFlights

namespace RtcModel.DtlsFlights
open RtcModel.Generated RtcModel.DtlsRecord RtcModel.DtlsHs

/-- a 16-byte tag that is a function of key, nonce and AAD -/
def freeTag (k n a : Bytes) : Bytes :=
  (List.range 16).map fun i => (k ++ n ++ a).getD i 0 + UInt8.ofNat (k.length + 3 * n.length + 7 * a.length)

theorem freeTag_length (k n a : Bytes) : (freeTag k n a).length = 16 := by simp [freeTag]

def freeAead : Aead where
  enc k n a p := p ++ freeTag k n a
  dec k n a c :=
    if c.length < 16 then none
    else if c.drop (c.length - 16) = freeTag k n a then some (c.take (c.length - 16)) else none
  dec_enc := by
    intro k n a p
    have h := freeTag_length k n a
    simp [h]
  enc_length := by intro k n a p; simp [tagLen, freeTag_length]

def freeKeys (tr : Bytes) : Keys := ⟨0x33 :: tr, [0xC], [0xD], [0xA1], [0xB1], [1, 2, 3, 4], [5, 6, 7, 8]⟩

def freeCrypto : Crypto where
  chDecode b := if b = [1] then some ([0xC], true, [1]) else none
  shDecode b := if b = [2] then some ([0xD], true, some 1) else none
  hvrOk _ := false
  certDecode b := if b = [3] then some [[0xCE]] else none
  digest _ := [0xF0]
  pkOk _ := true
  skeDecode b := if b = [4] then some [0x5B] else none
  sigOk leaf cr sr body := leaf == [0xCE] && cr == [0xC] && sr == [0xD] && body == [4]
  ckeDecode b := if b = [5] then some [0xCB] else none
  derive pub pk _ _ _ tr := if (pub = [0xCB] ∧ pk = [0x5B]) ∨ (pub = [0x5B] ∧ pk = [0xCB]) then some (freeKeys tr) else none
  vd ms label tr := ms ++ [if label then 1 else 0] ++ tr

/-- the free world: client with the correct expected fingerprint, server without one -/
def W0 : World :=
  ⟨freeAead, freeCrypto, ⟨[0xCB], [0xC], [1], [], [], [], [], [], [5]⟩, ⟨[0x5B], [], [], [], [0xD], [2], [3], [4], []⟩,
   some [0xF0], none⟩

/-- every action that can do anything in `σ` (indices beyond what was emitted are no-ops) -/
def allActs (σ : Sys) : List Act :=
  (List.range σ.sentC.length).map Act.toS ++ (List.range σ.sentS.length).map Act.toC ++ [.tickC, .tickS]

def expand (W : World) (l : List Sys) : List Sys :=
  l.foldl (fun acc σ => (allActs σ).foldl (fun acc a => let x := σ.step W a; if x ∈ acc then acc else acc ++ [x]) acc) l

def closure (W : World) : Nat → List Sys → List Sys
  | 0, l => l
  | n + 1, l => closure W n (expand W l)

/-- the states reachable in the free world (fuel 10 is enough: `reach0_closed`) -/
def reach0 : List Sys := closure W0 10 [Sys.init W0]

def closedB (W : World) (R : List Sys) : Bool := R.all fun σ => (allActs σ).all fun a => decide (σ.step W a ∈ R)

theorem step_noop_toS (W : World) (σ : Sys) (i : Nat) (h : σ.sentC.length ≤ i) : σ.step W (.toS i) = σ := by
  simp [Sys.step, List.getElem?_eq_none h]
theorem step_noop_toC (W : World) (σ : Sys) (i : Nat) (h : σ.sentS.length ≤ i) : σ.step W (.toC i) = σ := by
  simp [Sys.step, List.getElem?_eq_none h]

theorem closed_step {W : World} {R : List Sys} (hc : closedB W R = true) {σ : Sys} (hσ : σ ∈ R) (a : Act) : σ.step W a ∈ R := by
  simp only [closedB, List.all_eq_true, decide_eq_true_eq] at hc
  have h := hc σ hσ
  cases a with
  | toS i =>
    by_cases hi : i < σ.sentC.length
    · exact h _ (by simp [allActs, hi])
    · rw [step_noop_toS W σ i (by omega)]; exact hσ
  | toC i =>
    by_cases hi : i < σ.sentS.length
    · exact h _ (by simp [allActs, hi])
    · rw [step_noop_toC W σ i (by omega)]; exact hσ
  | tickC => exact h _ (by simp [allActs])
  | tickS => exact h _ (by simp [allActs])

theorem closed_run {W : World} {R : List Sys} (hc : closedB W R = true) : ∀ (acts : List Act) (σ : Sys), σ ∈ R → σ.run W acts ∈ R := by
  intro acts
  induction acts with
  | nil => intro σ h; exact h
  | cons a as ih => intro σ h; exact ih _ (closed_step hc h a)

/-- a second free world: no extended master secret, no SRTP profile offered, no expected fingerprint on
the client, an expected fingerprint on the server (which, C02's finding, it never gets to check) -/
def freeCrypto1 : Crypto :=
  { freeCrypto with chDecode := fun b => if b = [1] then some ([0xC], false, []) else none,
                    shDecode := fun b => if b = [2] then some ([0xD], false, none) else none }

def W1 : World := { W0 with C := freeCrypto1, fc := none, fs := some [0xEE] }

def reach1 : List Sys := closure W1 10 [Sys.init W1]

/-! ### the three finite checks (kernel evaluation of the model; no axioms beyond the usual) -/

theorem reach0_init : Sys.init W0 ∈ reach0 := by decide +kernel

/-- `reach0` is closed under every network action -/
theorem reach0_closed : closedB W0 reach0 = true := by decide +kernel

/-- from every state of `reach0` two fair rounds connect both endpoints -/
theorem reach0_good : (reach0.all fun σ => bothConnected (fairRound W0 (fairRound W0 σ))) = true := by decide +kernel

/-- in every state of `reach0` two Connected endpoints hold the same keys and SRTP profile -/
theorem reach0_agree : (reach0.all fun σ =>
    !(σ.c.conn == .connected && σ.s.conn == .connected) ||
      (decide (σ.c.connKeys = σ.s.connKeys) && decide (σ.c.connSrtp = σ.s.connSrtp) && σ.c.connKeys.isSome)) = true := by
  decide +kernel

/-- no state of `reach0` has a Failed or Closed endpoint (an honest network cannot make the handshake fail) -/
theorem reach0_no_failure : (reach0.all fun σ =>
    σ.c.conn != .failed && σ.s.conn != .failed && σ.c.conn != .closed && σ.s.conn != .closed && σ.c.alive && σ.s.alive) = true := by
  decide +kernel

theorem reach0_length : reach0.length = 9 := by decide +kernel

theorem reach1_init : Sys.init W1 ∈ reach1 := by decide +kernel
theorem reach1_closed : closedB W1 reach1 = true := by decide +kernel
theorem reach1_good : (reach1.all fun σ => bothConnected (fairRound W1 (fairRound W1 σ))) = true := by decide +kernel
theorem reach1_agree : (reach1.all fun σ =>
    !(σ.c.conn == .connected && σ.s.conn == .connected) ||
      (decide (σ.c.connKeys = σ.s.connKeys) && decide (σ.c.connSrtp = σ.s.connSrtp) && σ.c.connKeys.isSome)) = true := by
  decide +kernel

end RtcModel.DtlsFlights
