/-
Exhaustive exploration of the closed two-endpoint system (`RtcModel/DtlsFlights.lean`) under a
Dolev–Yao-style *free* interpretation of the cryptography: message bodies are distinct tokens, the
decoders accept exactly the peer's tokens, key derivation succeeds exactly for the two genuine ECDH
shares and returns a key block that is a tag of the transcript, verify_data is the (tagged)
concatenation of its arguments, the AEAD tag is a function of key, nonce and AAD — so nothing is ever
equal by accident, and the handshake's control flow (which only ever tests decode success and
equalities) is the same as for any consistent real instantiation.
-/
import RtcModel.DtlsFlights

namespace RtcModel.DtlsFlights
open RtcModel.Generated RtcModel.DtlsRecord RtcModel.DtlsHs

/-- a 16-byte tag that is a function of key, nonce and AAD -/
def freeTag (k n a : Bytes) : Bytes :=
  (List.range 16).map fun i => (k ++ n ++ a).getD i 0 + UInt8.ofNat (k.length + 3 * n.length + 7 * a.length)

theorem freeTag_length (k n a : Bytes) : (freeTag k n a).length = 16 := by simp [freeTag]

def freeAead : Aead where
  enc k n a p := p ++ freeTag k n a
  dec k n a c :=
    if c.length < 16 then none
    else if c.drop (c.length - 16) = freeTag k n a then some (c.take (c.length - 16)) else none
  dec_enc := by
    intro k n a p
    have h := freeTag_length k n a
    simp [h]
  enc_length := by intro k n a p; simp [tagLen, freeTag_length]

def freeKeys (tr : Bytes) : Keys := ⟨0x33 :: tr, [0xC], [0xD], [0xA1], [0xB1], [1, 2, 3, 4], [5, 6, 7, 8]⟩

def freeCrypto : Crypto where
  chDecode b := if b = [1] then some ([0xC], true, [1]) else none
  shDecode b := if b = [2] then some ([0xD], true, some 1) else none
  hvrOk _ := false
  certDecode b := if b = [3] then some [[0xCE]] else none
  digest _ := [0xF0]
  pkOk _ := true
  skeDecode b := if b = [4] then some [0x5B] else none
  sigOk leaf cr sr body := leaf == [0xCE] && cr == [0xC] && sr == [0xD] && body == [4]
  ckeDecode b := if b = [5] then some [0xCB] else none
  derive pub pk _ _ _ tr := if (pub = [0xCB] ∧ pk = [0x5B]) ∨ (pub = [0x5B] ∧ pk = [0xCB]) then some (freeKeys tr) else none
  vd ms label tr := List.replicate ms.length 1 ++ 0 :: (ms ++ (if label then 1 else 0) :: tr)

theorem unary_prefix_inj : ∀ (n n' : Nat) (a a' : Bytes),
    List.replicate n (1 : UInt8) ++ 0 :: a = List.replicate n' 1 ++ 0 :: a' → n = n' ∧ a = a'
  | 0, 0, a, a', h => by simpa using h
  | 0, n' + 1, a, a', h => by simp [List.replicate_succ] at h
  | n + 1, 0, a, a', h => by simp [List.replicate_succ] at h
  | n + 1, n' + 1, a, a', h => by
    simp only [List.replicate_succ, List.cons_append, List.cons.injEq, true_and] at h
    have := unary_prefix_inj n n' a a' h
    exact ⟨by omega, this.2⟩

/-- the free verify_data (unary length of the master secret, the master secret, the label, the
transcript) is injective: `VdInjective` is satisfiable -/
theorem freeCrypto_vd_injective (m : Bytes) (l : Bool) (t m' : Bytes) (l' : Bool) (t' : Bytes)
    (h : freeCrypto.vd m l t = freeCrypto.vd m' l' t') : m = m' ∧ l = l' ∧ t = t' := by
  simp only [freeCrypto] at h
  obtain ⟨hn, h2⟩ := unary_prefix_inj _ _ _ _ h
  obtain ⟨h3, h4⟩ := List.append_inj h2 hn
  simp only [List.cons.injEq] at h4
  refine ⟨h3, ?_, h4.2⟩
  cases l <;> cases l' <;> simp_all

theorem freeCrypto_ms_determines_keys (p1 q1 a1 b1 : Bytes) (e1 : Bool) (t1 p2 q2 a2 b2 : Bytes) (e2 : Bool) (t2 : Bytes) (k1 k2 : Keys)
    (h1 : freeCrypto.derive p1 q1 a1 b1 e1 t1 = some k1) (h2 : freeCrypto.derive p2 q2 a2 b2 e2 t2 = some k2)
    (hms : k1.ms = k2.ms) : k1 = k2 := by
  simp only [freeCrypto] at h1 h2
  split at h1 <;> split at h2
  · simp only [freeKeys, Option.some.injEq] at h1 h2
    subst h1; subst h2
    simp only [List.cons.injEq, true_and] at hms
    rw [hms]
  all_goals simp_all

/-- the free world: client with the correct expected fingerprint, server without one -/
def W0 : World :=
  ⟨freeAead, freeCrypto, ⟨[0xCB], [0xC], [1], [], [], [], [], [], [5]⟩, ⟨[0x5B], [], [], [], [0xD], [2], [3], [4], []⟩,
   some [0xF0], none⟩

/-- every action that can do anything in `σ` (indices beyond what was emitted are no-ops) -/
def allActs (σ : Sys) : List Act :=
  (List.range σ.sentC.length).map Act.toS ++ (List.range σ.sentS.length).map Act.toC ++ [.tickC, .tickS]

def expand (W : World) (l : List Sys) : List Sys :=
  l.foldl (fun acc σ => (allActs σ).foldl (fun acc a => let x := σ.step W a; if x ∈ acc then acc else acc ++ [x]) acc) l

def closure (W : World) : Nat → List Sys → List Sys
  | 0, l => l
  | n + 1, l => closure W n (expand W l)

/-- the states reachable in the free world (fuel 10 is enough: `reach0_closed`) -/
def reach0 : List Sys := closure W0 10 [Sys.init W0]

def closedB (W : World) (R : List Sys) : Bool := R.all fun σ => (allActs σ).all fun a => decide (σ.step W a ∈ R)

theorem step_noop_toS (W : World) (σ : Sys) (i : Nat) (h : σ.sentC.length ≤ i) : σ.step W (.toS i) = σ := by
  simp [Sys.step, List.getElem?_eq_none h]
theorem step_noop_toC (W : World) (σ : Sys) (i : Nat) (h : σ.sentS.length ≤ i) : σ.step W (.toC i) = σ := by
  simp [Sys.step, List.getElem?_eq_none h]

theorem closed_step {W : World} {R : List Sys} (hc : closedB W R = true) {σ : Sys} (hσ : σ ∈ R) (a : Act) : σ.step W a ∈ R := by
  simp only [closedB, List.all_eq_true, decide_eq_true_eq] at hc
  have h := hc σ hσ
  cases a with
  | toS i =>
    by_cases hi : i < σ.sentC.length
    · exact h _ (by simp [allActs, hi])
    · rw [step_noop_toS W σ i (by omega)]; exact hσ
  | toC i =>
    by_cases hi : i < σ.sentS.length
    · exact h _ (by simp [allActs, hi])
    · rw [step_noop_toC W σ i (by omega)]; exact hσ
  | tickC => exact h _ (by simp [allActs])
  | tickS => exact h _ (by simp [allActs])

theorem closed_run {W : World} {R : List Sys} (hc : closedB W R = true) : ∀ (acts : List Act) (σ : Sys), σ ∈ R → σ.run W acts ∈ R := by
  intro acts
  induction acts with
  | nil => intro σ h; exact h
  | cons a as ih => intro σ h; exact ih _ (closed_step hc h a)

/-- a second free world: no extended master secret, no SRTP profile offered, no expected fingerprint on
the client, an expected fingerprint on the server (which, C02's finding, it never gets to check) -/
def freeCrypto1 : Crypto :=
  { freeCrypto with chDecode := fun b => if b = [1] then some ([0xC], false, []) else none,
                    shDecode := fun b => if b = [2] then some ([0xD], false, none) else none }

def W1 : World := { W0 with C := freeCrypto1, fc := none, fs := some [0xEE] }

def reach1 : List Sys := closure W1 10 [Sys.init W1]

/-! ### the three finite checks (kernel evaluation of the model; no axioms beyond the usual) -/

theorem reach0_init : Sys.init W0 ∈ reach0 := by decide +kernel

/-- `reach0` is closed under every network action -/
theorem reach0_closed : closedB W0 reach0 = true := by decide +kernel

/-- from every state of `reach0` two fair rounds connect both endpoints -/
theorem reach0_good : (reach0.all fun σ => bothConnected (fairRound W0 (fairRound W0 σ))) = true := by decide +kernel

/-- in every state of `reach0` two Connected endpoints hold the same keys and SRTP profile -/
theorem reach0_agree : (reach0.all fun σ =>
    !(σ.c.conn == .connected && σ.s.conn == .connected) ||
      (decide (σ.c.connKeys = σ.s.connKeys) && decide (σ.c.connSrtp = σ.s.connSrtp) && σ.c.connKeys.isSome)) = true := by
  decide +kernel

/-- no state of `reach0` has a Failed or Closed endpoint (an honest network cannot make the handshake fail) -/
theorem reach0_no_failure : (reach0.all fun σ =>
    σ.c.conn != .failed && σ.s.conn != .failed && σ.c.conn != .closed && σ.s.conn != .closed && σ.c.alive && σ.s.alive) = true := by
  decide +kernel

theorem reach0_length : reach0.length = 9 := by decide +kernel

/-- in every state of `reach0` each verify_data value the client accepted is one the server emitted, and
vice versa (the network hypothesis of `agree_or_not_both_connected` holds in the closed system) -/
theorem reach0_accepted_was_sent : (reach0.all fun σ =>
    (σ.c.evs.all fun ev => match ev with
      | .finished _ _ body => σ.s.evs.any fun ev' => match ev' with | .sentFinished _ _ b => b == body | _ => false
      | _ => true) &&
    (σ.s.evs.all fun ev => match ev with
      | .finished _ _ body => σ.c.evs.any fun ev' => match ev' with | .sentFinished _ _ b => b == body | _ => false
      | _ => true)) = true := by
  decide +kernel

theorem reach1_init : Sys.init W1 ∈ reach1 := by decide +kernel
theorem reach1_closed : closedB W1 reach1 = true := by decide +kernel
theorem reach1_good : (reach1.all fun σ => bothConnected (fairRound W1 (fairRound W1 σ))) = true := by decide +kernel
theorem reach1_agree : (reach1.all fun σ =>
    !(σ.c.conn == .connected && σ.s.conn == .connected) ||
      (decide (σ.c.connKeys = σ.s.connKeys) && decide (σ.c.connSrtp = σ.s.connSrtp) && σ.c.connKeys.isSome)) = true := by
  decide +kernel

/-! ### the timed closed system (handshake deadline) -/

theorem deadlineTicks_eq : deadlineTicks = 30 := by decide

/-- while the deadline of neither endpoint is enabled a timed schedule is its untimed projection -/
theorem TSys.run_before_deadline (W : World) (D : Nat) : ∀ (acts : List TAct) (τ : TSys),
    τ.kc + ticksC acts + 1 < D → τ.ks + ticksS acts + 1 < D →
    (τ.run W D acts).σ = τ.σ.run W (untimed acts) ∧ (τ.run W D acts).kc = τ.kc + ticksC acts ∧ (τ.run W D acts).ks = τ.ks + ticksS acts := by
  intro acts
  induction acts with
  | nil => intro τ _ _; simp [TSys.run, Sys.run, untimed, ticksC, ticksS]
  | cons a as ih =>
    intro τ hc hs
    have key : ∀ τ' : TSys, τ' = τ.step W D a →
        τ'.σ = (match a with | .net a => τ.σ.step W a | _ => τ.σ) ∧
        τ'.kc = τ.kc + (if a = .net .tickC then 1 else 0) ∧ τ'.ks = τ.ks + (if a = .net .tickS then 1 else 0) := by
      intro τ' h
      subst h
      cases a with
      | net a => cases a <;> simp [TSys.step]
      | deadlineC =>
        have : ¬ D ≤ τ.kc + 1 := by omega
        simp [TSys.step, this]
      | deadlineS =>
        have : ¬ D ≤ τ.ks + 1 := by omega
        simp [TSys.step, this]
    obtain ⟨k1, k2, k3⟩ := key _ rfl
    have tc : ticksC (a :: as) = (if a = .net .tickC then 1 else 0) + ticksC as := by
      simp only [ticksC, List.filter_cons]; split <;> simp_all <;> omega
    have ts : ticksS (a :: as) = (if a = .net .tickS then 1 else 0) + ticksS as := by
      simp only [ticksS, List.filter_cons]; split <;> simp_all <;> omega
    have := ih (τ.step W D a) (by rw [k2]; omega) (by rw [k3]; omega)
    simp only [TSys.run, List.foldl_cons] at this ⊢
    obtain ⟨r1, r2, r3⟩ := this
    refine ⟨?_, by rw [r2, k2, tc]; omega, by rw [r3, k3, ts]; omega⟩
    rw [r1, k1]
    cases a <;> simp [untimed, Sys.run]

/-- once both endpoints are Connected no network or timer action changes that -/
theorem reach0_connected_stable : (reach0.all fun σ =>
    !bothConnected σ || (allActs σ).all fun a => bothConnected (σ.step W0 a)) = true := by decide +kernel

theorem onDeadline_connected (e : Ep) (h : e.conn = .connected) : onDeadline e = e := by
  simp [onDeadline, h]

theorem connected_step {σ : Sys} (hσ : σ ∈ reach0) (hb : bothConnected σ = true) (a : Act) :
    bothConnected (σ.step W0 a) = true := by
  have h := reach0_connected_stable
  simp only [List.all_eq_true, Bool.or_eq_true, Bool.not_eq_true'] at h
  have h' := h σ hσ
  rcases h' with h' | h'
  · rw [hb] at h'; cases h'
  · cases a with
    | toS i =>
      by_cases hi : i < σ.sentC.length
      · exact h' _ (by simp [allActs, hi])
      · rw [step_noop_toS W0 σ i (by omega)]; exact hb
    | toC i =>
      by_cases hi : i < σ.sentS.length
      · exact h' _ (by simp [allActs, hi])
      · rw [step_noop_toC W0 σ i (by omega)]; exact hb
    | tickC => exact h' _ (by simp [allActs])
    | tickS => exact h' _ (by simp [allActs])

/-- … and neither does a deadline, whenever it fires -/
theorem connected_tstep (D : Nat) {τ : TSys} (hσ : τ.σ ∈ reach0) (hb : bothConnected τ.σ = true) (a : TAct) :
    (τ.step W0 D a).σ ∈ reach0 ∧ bothConnected (τ.step W0 D a).σ = true := by
  have hc : τ.σ.c.conn = .connected := by simp [bothConnected] at hb; exact hb.1
  have hs : τ.σ.s.conn = .connected := by simp [bothConnected] at hb; exact hb.2
  cases a with
  | net a =>
    have : (τ.step W0 D (.net a)).σ = τ.σ.step W0 a := by cases a <;> rfl
    rw [this]
    exact ⟨closed_step reach0_closed hσ a, connected_step hσ hb a⟩
  | deadlineC =>
    have : (τ.step W0 D .deadlineC).σ = τ.σ := by
      simp only [TSys.step]; split
      · simp [Sys.deadlineC, onDeadline_connected _ hc]
      · rfl
    rw [this]; exact ⟨hσ, hb⟩
  | deadlineS =>
    have : (τ.step W0 D .deadlineS).σ = τ.σ := by
      simp only [TSys.step]; split
      · simp [Sys.deadlineS, onDeadline_connected _ hs]
      · rfl
    rw [this]; exact ⟨hσ, hb⟩

theorem connected_trun (D : Nat) : ∀ (acts : List TAct) (τ : TSys), τ.σ ∈ reach0 → bothConnected τ.σ = true →
    bothConnected (τ.run W0 D acts).σ = true := by
  intro acts
  induction acts with
  | nil => intro τ _ hb; exact hb
  | cons a as ih =>
    intro τ hσ hb
    have := connected_tstep D hσ hb a
    exact ih _ this.1 this.2

theorem foldl_step_mem {W : World} {R : List Sys} (hc : closedB W R = true) (f : Nat → Act) :
    ∀ (l : List Nat) (σ : Sys), σ ∈ R → l.foldl (fun x i => x.step W (f i)) σ ∈ R := by
  intro l
  induction l with
  | nil => intro σ h; exact h
  | cons a as ih => intro σ h; exact ih _ (closed_step hc h _)

theorem fairRound_mem {W : World} {R : List Sys} (hc : closedB W R = true) {σ : Sys} (h : σ ∈ R) : fairRound W σ ∈ R := by
  unfold fairRound
  exact foldl_step_mem hc Act.toC _ _ (foldl_step_mem hc Act.toS _ _ (closed_step hc (closed_step hc h _) _))

end RtcModel.DtlsFlights
