/-
Helper lemmas for C12: shape of a channel's event list (Open once, before any message; Close at
most once), DCEP codec round trip.
-/
import RtcModel.SctpAssoc
import RtcModel.Lemmas.SctpSend

namespace RtcModel.Sctp
open RtcModel.Generated

/-- Connecting ⇒ nothing announced yet; otherwise the list starts with the one and only `Open` -/
def Shape (c : Chan) : Prop :=
  (c.state = 0 ∧ c.events = []) ∨ (c.state ≠ 0 ∧ ∃ rest, c.events = ChanEv.open_ :: rest ∧ ChanEv.open_ ∉ rest)

theorem shape_openOnce (c : Chan) (h : Shape c) : Shape (openOnce c) ∧ (openOnce c).state ≠ 0 := by
  unfold openOnce
  by_cases hs : c.state = 0
  · cases h with
    | inl h0 => simp [hs, Shape, Chan.emit, h0.2]
    | inr h1 => exact absurd hs h1.1
  · have : (c.state == 0) = false := by simpa using hs
    simp only [this, Bool.false_eq_true, if_false]
    exact ⟨h, hs⟩

theorem shape_emit_msgs (c : Chan) (ms : List Bytes) (h : Shape c) (hs : c.state ≠ 0) (r : Bytes) :
    Shape { (c.emitAll ms) with reasm := r } := by
  cases h with
  | inl h0 => exact absurd h0.1 hs
  | inr h1 =>
    obtain ⟨_, rest, he, hn⟩ := h1
    right
    refine ⟨hs, rest ++ ms.map ChanEv.msg, by simp [Chan.emitAll, he], ?_⟩
    intro hm
    rcases List.mem_append.mp hm with h | h
    · exact hn h
    · obtain ⟨_, _, hx⟩ := List.mem_map.mp h; cases hx

theorem shape_reasm (c : Chan) (r : Bytes) (h : Shape c) : Shape { c with reasm := r } := h

theorem mem_setChan (cs : List Chan) (n x : Chan) (h : x ∈ setChan cs n) : x ∈ cs ∨ x = n := by
  induction cs with
  | nil => simp [setChan] at h
  | cons c rest ih =>
    unfold setChan at h
    split at h
    · simp only [List.mem_cons] at h
      cases h with
      | inl e => right; exact e
      | inr e => left; simp [e]
    · simp only [List.mem_cons] at h
      cases h with
      | inl e => left; simp [e]
      | inr e =>
        cases ih e with
        | inl e' => left; simp [e']
        | inr e' => right; exact e'

theorem findChan_mem (cs : List Chan) (id : UInt16) (dc : Chan) (h : findChan cs id = some dc) : dc ∈ cs :=
  List.mem_of_find?_eq_some h

/-- the data path on an announced (or pre-negotiated) channel keeps the shape of every channel -/
theorem shape_deliverTo (pl : Pl) (dc : Chan) (c : DChunk) (hall : ∀ x ∈ pl.chans, Shape x) (hdc : dc ∈ pl.chans)
    (hok : dc.negotiated = true ∨ dc.state ≠ 0) : ∀ x ∈ (deliverTo pl dc c).chans, Shape x := by
  have hd : Shape (if dc.negotiated then openOnce dc else dc) ∧ (if dc.negotiated then openOnce dc else dc).state ≠ 0 := by
    by_cases hn : dc.negotiated = true
    · simp only [hn, if_true]; exact shape_openOnce dc (hall dc hdc)
    · have hn' : dc.negotiated = false := by simpa using hn
      simp only [hn', Bool.false_eq_true, if_false]
      cases hok with
      | inl h => exact absurd h hn
      | inr h => exact ⟨hall dc hdc, h⟩
  intro x hx
  unfold deliverTo at hx
  generalize (if dc.negotiated then openOnce dc else dc) = d at hd hx
  have key : ∀ n : Chan, Shape n → x ∈ setChan pl.chans n → Shape x := by
    intro n hn hx
    cases mem_setChan _ _ _ hx with
    | inl h => exact hall x h
    | inr h => rw [h]; exact hn
  unfold deliverTo' at hx
  simp only [] at hx
  split at hx
  · exact hall x hx
  · split at hx
    · split at hx
      · refine key _ ?_ hx
        have := shape_emit_msgs d [(if c.bBit then [] else d.reasm) ++ c.data] hd.1 hd.2 []
        simpa [Chan.emitAll, Chan.emit] using this
      · refine key _ ?_ hx
        exact shape_emit_msgs d _ hd.1 hd.2 []
    · exact key _ (shape_reasm d _ hd.1) hx

/-- a message is only ever appended to a channel that has announced `Open`: the chunk-level
hypothesis under which `process_data_payload` keeps every channel's event list well-shaped -/
def DataOk (pl : Pl) (c : DChunk) : Prop :=
  ∀ dc, findChan pl.chans c.sid = some dc → dc.negotiated = true ∨ dc.state ≠ 0

theorem shape_procData (pl : Pl) (c : DChunk) (hall : ∀ x ∈ pl.chans, Shape x) (hok : DataOk pl c) :
    ∀ x ∈ (procData pl c).chans, Shape x := by
  unfold procData
  cases hf : findChan pl.chans c.sid with
  | none => exact hall
  | some dc => exact shape_deliverTo pl dc c hall (findChan_mem _ _ _ hf) (hok dc hf)

theorem shape_chanOfOpen (sid : UInt16) (o : DcepOpen) : Shape (chanOfOpen sid o) := by
  right; exact ⟨by simp [chanOfOpen], [], by simp [chanOfOpen], by simp⟩

theorem shape_handleDcep (pl : Pl) (sid : UInt16) (data : Bytes) (hall : ∀ x ∈ pl.chans, Shape x) :
    ∀ x ∈ (handleDcep pl sid data).1.chans, Shape x := by
  simp only [handleDcep]
  unfold dcepCore
  split
  · exact hall
  · split
    · split
      · exact hall
      · split
        · exact hall
        · intro x hx
          simp only [List.mem_append, List.mem_singleton] at hx
          cases hx with
          | inl h => exact hall x h
          | inr h => rw [h]; exact shape_chanOfOpen _ _
    · split
      · split
        · next dc hf =>
          split
          · next hst =>
            intro x hx
            cases mem_setChan _ _ _ hx with
            | inl h => exact hall x h
            | inr h =>
              rw [h]
              have hs := hall dc (findChan_mem _ _ _ hf)
              have hz : dc.state = 0 := by simpa using hst
              cases hs with
              | inl h0 => right; exact ⟨by simp [Chan.emit], [], by simp [Chan.emit, h0.2], by simp⟩
              | inr h1 => exact absurd hz h1.1
          · exact hall
        · exact hall
      · exact hall

theorem shape_procDcep (pl : Pl) (c : DChunk) (hall : ∀ x ∈ pl.chans, Shape x) :
    ∀ x ∈ (procDcep pl c).chans, Shape x := by
  unfold procDcep
  split
  · exact shape_handleDcep pl c.sid c.data hall
  · simp only []
    split
    · exact hall
    · split
      · exact hall
      · exact shape_handleDcep _ c.sid _ hall

/-- `process_data_payload` (data and DCEP) keeps every channel's event list well-shaped -/
theorem shape_procPayload (pl : Pl) (c : DChunk) (hall : ∀ x ∈ pl.chans, Shape x)
    (hok : c.ppid.toNat ≠ dcPpidDcep → DataOk pl c) : ∀ x ∈ (procPayload pl c).1.chans, Shape x := by
  unfold procPayload
  split
  · apply shape_procDcep
    split <;> exact hall
  · next h => exact shape_procData pl c hall (hok (by simpa using h))

theorem shape_openChannels (pl : Pl) (hall : ∀ x ∈ pl.chans, Shape x) : ∀ x ∈ (openChannels pl).chans, Shape x := by
  intro x hx
  simp only [openChannels, List.mem_map] at hx
  obtain ⟨c, hc, rfl⟩ := hx
  split
  · exact (shape_openOnce c (hall c hc)).1
  · exact hall c hc

/-! ### Close -/

def closes (c : Chan) : Nat := c.events.count ChanEv.close

/-- Close is announced at most once, and only together with entering state Closed -/
def CloseInv (c : Chan) : Prop := closes c ≤ 1 ∧ (c.state ≠ 3 → closes c = 0)

theorem closeInv_swapClosed (c : Chan) (h : CloseInv c) : CloseInv (swapClosed c) ∧ (swapClosed c).state = 3 := by
  obtain ⟨h1, h2⟩ := h
  unfold swapClosed
  by_cases hs : c.state = 3
  · have : (c.state != 3) = false := by simp [hs]
    simp only [this, Bool.false_eq_true, if_false]
    exact ⟨⟨h1, h2⟩, hs⟩
  · have : (c.state != 3) = true := by simpa using hs
    simp only [this, if_true]
    have h0 := h2 hs
    refine ⟨⟨?_, ?_⟩, rfl⟩
    · simp only [closes, Chan.emit, List.count_append] at h0 ⊢; simp [h0]
    · intro hne; exact absurd rfl hne

theorem closeInv_cleanup (e : Ep) (hall : ∀ x ∈ e.rx.pl.chans, CloseInv x) :
    ∀ x ∈ (cleanup e).rx.pl.chans, CloseInv x ∧ x.state = 3 := by
  intro x hx
  simp only [cleanup, List.mem_map] at hx
  obtain ⟨c, hc, rfl⟩ := hx
  exact closeInv_swapClosed c (hall c hc)

/-- every atomic step of the three Close emitters keeps "Close at most once, and only with Closed" -/
theorem closeInv_step (c : Chan) (st : CloseStep) (h : CloseInv c) : CloseInv (closeStep c st) := by
  cases st with
  | cdcBegin =>
    show CloseInv (if c.state == 3 then c else { c with state := 2 })
    by_cases hs : c.state = 3
    · simp only [hs, beq_self_eq_true, if_true]; exact h
    · have hb : (c.state == 3) = false := by simpa using hs
      simp only [hb, Bool.false_eq_true, if_false]
      have h0 : closes c = 0 := h.2 hs
      exact ⟨by simp only [closes] at h0 ⊢; omega, fun _ => by simpa [closes] using h0⟩
  | cdcEnd => exact (closeInv_swapClosed c h).1
  | guard => exact (closeInv_swapClosed c h).1
  | pcClose => exact (closeInv_swapClosed c h).1

/-! ### DCEP codec -/

theorem u16_ofNat_toNat (n : Nat) (h : n < 65536) : (UInt16.ofNat n).toNat = n := by
  simp [UInt16.toNat_ofNat]; omega

theorem dcep_unmarshal_marshal (o : DcepOpen) (hl : o.label.length < 65536) (hp : o.protocol.length < 65536)
    (hul : utf8Valid o.label = true) (hup : utf8Valid o.protocol = true) :
    DcepOpen.unmarshal o.marshal = some o := by
  simp only [DcepOpen.marshal, be16, be32, List.cons_append, List.nil_append, DcepOpen.unmarshal]
  rw [rd16_be16, rd16_be16, rd16_be16, rd32_be32]
  simp only [u16_ofNat_toNat _ hl, u16_ofNat_toNat _ hp, List.length_append, Nat.lt_irrefl, if_false,
    List.take_left', List.drop_left', List.take_length, hul, hup, Bool.and_self, if_true, bne_self_eq_false,
    Bool.false_eq_true]

end RtcModel.Sctp
