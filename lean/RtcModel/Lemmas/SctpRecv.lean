/-
Helper lemmas for the SCTP receive path: the TSN layer of `handle_data` processes the chunk
stream in TSN order, each chunk exactly once, whatever the arrival history.
-/
import RtcModel.SctpFrag

namespace RtcModel.Sctp
open RtcModel.Generated

/-! ### UInt32 offsets from a base TSN -/

theorem u32_add_succ (t : UInt32) (k : Nat) : t + UInt32.ofNat (k + 1) = t + UInt32.ofNat k + 1 := by
  apply UInt32.toNat_inj.mp
  simp [UInt32.toNat_add, UInt32.toNat_ofNat]
  omega

theorem u32_add_zero (t : UInt32) : t + UInt32.ofNat 0 = t := by
  apply UInt32.toNat_inj.mp
  simp [UInt32.toNat_add]

theorem u32_off_inj (t : UInt32) (i j : Nat) (hi : i < 4294967296) (hj : j < 4294967296)
    (h : t + UInt32.ofNat i = t + UInt32.ofNat j) : i = j := by
  have := congrArg UInt32.toNat h
  simp [UInt32.toNat_add] at this
  omega

/-- `tsn(i) - cum(k)` where `cum(k) = t0 + k - 1` -/
theorem diff_toNat (t0 : UInt32) (i k : Nat) (hi : i < 2147483648) (hk : k ≤ 2147483648) :
    ((t0 + UInt32.ofNat i) - (t0 + UInt32.ofNat k - 1)).toNat = (i + 1 + 4294967296 - k) % 4294967296 := by
  simp [UInt32.toNat_sub, UInt32.toNat_add, UInt32.toNat_ofNat]
  omega

theorem u32_gt_half (x : UInt32) : (x > 0x80000000) ↔ x.toNat > 2147483648 := by
  rw [gt_iff_lt, UInt32.lt_iff_toNat_lt]
  rfl
theorem u32_eq_zero (x : UInt32) : x = 0 ↔ x.toNat = 0 := by
  rw [← UInt32.toNat_inj]; rfl
theorem u32_eq_one (x : UInt32) : x = 1 ↔ x.toNat = 1 := by
  rw [← UInt32.toNat_inj]; rfl

theorem u32_beq_iff (a b : UInt32) : (a == b) = true ↔ a.toNat = b.toNat := by
  rw [beq_iff_eq]; exact UInt32.toNat_inj.symm

/-! ### frame lemmas -/

@[simp] theorem scheduleSackDelayed_cum (s : Rx) : (scheduleSackDelayed s).cum = s.cum := by
  unfold scheduleSackDelayed; split <;> rfl
@[simp] theorem scheduleSackDelayed_rq (s : Rx) : (scheduleSackDelayed s).rq = s.rq := by
  unfold scheduleSackDelayed; split <;> rfl
@[simp] theorem scheduleSackDelayed_pl (s : Rx) : (scheduleSackDelayed s).pl = s.pl := by
  unfold scheduleSackDelayed; split <;> rfl
@[simp] theorem scheduleSackImmediate_cum (s : Rx) : (scheduleSackImmediate s).cum = s.cum := rfl
@[simp] theorem scheduleSackImmediate_rq (s : Rx) : (scheduleSackImmediate s).rq = s.rq := rfl
@[simp] theorem scheduleSackImmediate_pl (s : Rx) : (scheduleSackImmediate s).pl = s.pl := rfl

/-- running the payload processor over a chunk list -/
def plRun (proc : Proc) (pl : Pl) (cs : List DChunk) : Pl := cs.foldl (fun p c => (proc p c).1) pl

@[simp] theorem plRun_nil (proc : Proc) (pl : Pl) : plRun proc pl [] = pl := rfl
@[simp] theorem plRun_cons (proc : Proc) (pl : Pl) (c : DChunk) (cs : List DChunk) :
    plRun proc pl (c :: cs) = plRun proc (proc pl c).1 cs := rfl
theorem plRun_append (proc : Proc) (pl : Pl) (a b : List DChunk) :
    plRun proc pl (a ++ b) = plRun proc (plRun proc pl a) b := by
  simp [plRun, List.foldl_append]

theorem procList_ok (proc : Proc) (l : List DChunk) (hok : ∀ pl c, c ∈ l → (proc pl c).2 = true) (s : Rx) :
    (procList proc s l).2 = true ∧ (procList proc s l).1.pl = plRun proc s.pl l ∧
    (procList proc s l).1.cum = s.cum + UInt32.ofNat l.length ∧ (procList proc s l).1.rq = s.rq := by
  induction l generalizing s with
  | nil => simp [procList, u32_add_zero]
  | cons c rest ih =>
    have h1 : (proc s.pl c).2 = true := hok s.pl c (by simp)
    have ih' := ih (fun pl c' hc' => hok pl c' (by simp [hc']))
      { s with pl := (proc s.pl c).1, cum := s.cum + 1, usedRwnd := s.usedRwnd - c.valueLen }
    simp only [procList, h1, if_true]
    refine ⟨ih'.1, ?_, ?_, ih'.2.2.2⟩
    · rw [ih'.2.1]; rfl
    · rw [ih'.2.2.1]
      simp only [List.length_cons]
      rw [u32_add_succ]
      apply UInt32.toNat_inj.mp
      simp [UInt32.toNat_add]
      omega

/-! ### the three paths of `handle_data` -/

theorem handleData_dup (proc : Proc) (s : Rx) (c : DChunk)
    (h : (c.tsn - s.cum == 0 || c.tsn - s.cum > 0x80000000) = true) :
    (handleDataWith proc s c).cum = s.cum ∧ (handleDataWith proc s c).rq = s.rq ∧
    (handleDataWith proc s c).pl = s.pl := by
  simp only [handleDataWith, h, if_true]
  simp

theorem handleData_fast (proc : Proc) (s : Rx) (c : DChunk)
    (h1 : (c.tsn - s.cum == 0 || c.tsn - s.cum > 0x80000000) = false)
    (h2 : (c.tsn - s.cum == 1 && s.rq.isEmpty) = true) (hok : (proc s.pl c).2 = true) :
    (handleDataWith proc s c).cum = c.tsn ∧ (handleDataWith proc s c).rq = s.rq ∧
    (handleDataWith proc s c).pl = (proc s.pl c).1 := by
  simp only [handleDataWith, h1, h2, hok, if_true]
  simp

/-- entries of the receive queue are chunks of the stream at indices `≥ lo` -/
def RqFrom (chunks : List DChunk) (t0 : UInt32) (lo : Nat) (rq : List (UInt32 × DChunk)) : Prop :=
  ∀ e ∈ rq, ∃ j, lo ≤ j ∧ ∃ h : j < chunks.length, e.1 = t0 + UInt32.ofNat j ∧ e.2 = chunks[j]

theorem rqRemove_length_lt (rq : List (UInt32 × DChunk)) (t : UInt32) (c : DChunk)
    (h : rqGet? rq t = some c) : (rqRemove rq t).length < rq.length := by
  unfold rqGet? at h
  unfold rqRemove
  cases hf : rq.find? (fun e => e.1 == t) with
  | none => simp [hf] at h
  | some e =>
    have hm := List.mem_of_find?_eq_some hf
    have hp := List.find?_some hf
    apply List.length_filter_lt_length_iff_exists.mpr
    exact ⟨e, hm, by simpa using hp⟩

theorem rqGet?_none (rq : List (UInt32 × DChunk)) (t : UInt32) (h : rqGet? rq t = none) :
    ∀ e ∈ rq, e.1 ≠ t := by
  intro e he heq
  unfold rqGet? at h
  cases hf : rq.find? (fun e => e.1 == t) with
  | some x => simp [hf] at h
  | none =>
    have := List.find?_eq_none.mp hf e he
    simp [heq] at this

theorem rqGet?_some (rq : List (UInt32 × DChunk)) (t : UInt32) (c : DChunk) (h : rqGet? rq t = some c) :
    ∃ e ∈ rq, e.1 = t ∧ e.2 = c := by
  unfold rqGet? at h
  cases hf : rq.find? (fun e => e.1 == t) with
  | none => simp [hf] at h
  | some x =>
    simp [hf] at h
    exact ⟨x, List.mem_of_find?_eq_some hf, by simpa using List.find?_some hf, h⟩

theorem drainRq_spec (chunks : List DChunk) (t0 : UInt32) (hlen : chunks.length < 2147483648) :
    ∀ (fuel k : Nat) (rq : List (UInt32 × DChunk)) (acc : List DChunk),
      rq.length ≤ fuel → k ≤ chunks.length → RqFrom chunks t0 k rq →
      ∃ m, k + m ≤ chunks.length ∧
        (drainRq fuel (t0 + UInt32.ofNat k) rq acc).2 = acc ++ (chunks.drop k).take m ∧
        RqFrom chunks t0 (k + m + 1) (drainRq fuel (t0 + UInt32.ofNat k) rq acc).1 ∧
        (∀ e ∈ rq, e ∈ (drainRq fuel (t0 + UInt32.ofNat k) rq acc).1 ∨
          ∃ j, j < k + m ∧ e.1 = t0 + UInt32.ofNat j) := by
  intro fuel
  induction fuel with
  | zero =>
    intro k rq acc hl hk _
    have : rq = [] := List.eq_nil_of_length_eq_zero (by omega)
    subst this
    exact ⟨0, by omega, by simp [drainRq], by intro e he; simp [drainRq] at he, by intro e he; simp at he⟩
  | succ f ih =>
    intro k rq acc hl hk hrq
    cases hg : rqGet? rq (t0 + UInt32.ofNat k) with
    | none =>
      refine ⟨0, by omega, by simp [drainRq, hg], ?_, ?_⟩
      · intro e he
        simp only [drainRq, hg] at he
        obtain ⟨j, hj, hjl, h1, h2⟩ := hrq e he
        have hne := rqGet?_none rq _ hg e he
        refine ⟨j, ?_, hjl, h1, h2⟩
        have : j ≠ k := by intro h; subst h; exact hne h1
        omega
      · intro e he; left; simpa [drainRq, hg] using he
    | some c =>
      obtain ⟨e0, he0, h01, h02⟩ := rqGet?_some rq _ c hg
      obtain ⟨j0, hj0, hj0l, h1, h2⟩ := hrq e0 he0
      have hjk : j0 = k := u32_off_inj t0 j0 k (by omega) (by omega) (h1.symm.trans h01)
      subst hjk
      have hc : c = chunks[j0] := h02.symm.trans h2
      have hrq' : RqFrom chunks t0 (j0 + 1) (rqRemove rq (t0 + UInt32.ofNat j0)) := by
        intro e he
        have hmem := List.mem_filter.mp he
        obtain ⟨j, hj, hjl, h1', h2'⟩ := hrq e hmem.1
        refine ⟨j, ?_, hjl, h1', h2'⟩
        have : j ≠ j0 := by
          intro h; subst h
          have := hmem.2
          simp [h1'] at this
        omega
      have hlt := rqRemove_length_lt rq _ c hg
      obtain ⟨m, hm1, hm2, hm3, hm4⟩ := ih (j0 + 1) (rqRemove rq (t0 + UInt32.ofNat j0)) (acc ++ [c])
        (by omega) (by omega) hrq'
      rw [u32_add_succ] at hm2 hm3 hm4
      refine ⟨m + 1, by omega, ?_, ?_, ?_⟩
      · simp only [drainRq, hg]
        rw [hm2, hc]
        have : chunks.drop j0 = chunks[j0] :: chunks.drop (j0 + 1) := List.drop_eq_getElem_cons hj0l
        rw [this, List.take_succ_cons]
        simp
      · simp only [drainRq, hg]
        have : j0 + (m + 1) + 1 = j0 + 1 + m + 1 := by omega
        rw [this]; exact hm3
      · intro e he
        simp only [drainRq, hg]
        by_cases hk' : e.1 = t0 + UInt32.ofNat j0
        · right; exact ⟨j0, by omega, hk'⟩
        · have : e ∈ rqRemove rq (t0 + UInt32.ofNat j0) := by
            apply List.mem_filter.mpr
            exact ⟨he, by simpa using hk'⟩
          cases hm4 e this with
          | inl h => left; exact h
          | inr h =>
            obtain ⟨j, hj, hje⟩ := h
            right; exact ⟨j, by omega, hje⟩

/-! ### the TSN-layer invariant -/

structure Inv (proc : Proc) (chunks : List DChunk) (t0 : UInt32) (pl0 : Pl) (k : Nat) (s : Rx) : Prop where
  hk : k ≤ chunks.length
  cum : s.cum = t0 + UInt32.ofNat k - 1
  pl : s.pl = plRun proc pl0 (chunks.take k)
  rq : RqFrom chunks t0 (k + 1) s.rq

theorem u32_cum_succ (t0 : UInt32) (k : Nat) : t0 + UInt32.ofNat k - 1 + 1 = t0 + UInt32.ofNat k := by
  apply UInt32.toNat_inj.mp
  simp [UInt32.toNat_add, UInt32.toNat_sub]

theorem u32_cum_next (t0 : UInt32) (k : Nat) : t0 + UInt32.ofNat k = t0 + UInt32.ofNat (k + 1) - 1 := by
  apply UInt32.toNat_inj.mp
  simp [UInt32.toNat_add, UInt32.toNat_sub]
  omega

theorem u32_cum_add (t0 : UInt32) (k m : Nat) :
    t0 + UInt32.ofNat k - 1 + UInt32.ofNat m = t0 + UInt32.ofNat (k + m) - 1 := by
  apply UInt32.toNat_inj.mp
  simp [UInt32.toNat_add, UInt32.toNat_sub]
  omega

theorem handleData_step (proc : Proc) (chunks : List DChunk) (t0 : UInt32) (pl0 : Pl)
    (hts : ∀ i (h : i < chunks.length), chunks[i].tsn = t0 + UInt32.ofNat i)
    (hlen : chunks.length < 2147483648)
    (hok : ∀ pl c, c ∈ chunks → (proc pl c).2 = true)
    (k : Nat) (s : Rx) (inv : Inv proc chunks t0 pl0 k s) (i : Nat) (hi : i < chunks.length) :
    ∃ k', k ≤ k' ∧ Inv proc chunks t0 pl0 k' (handleDataWith proc s chunks[i]) ∧
      (i < k' ∨ ∃ e ∈ (handleDataWith proc s chunks[i]).rq, e.1 = t0 + UInt32.ofNat i) ∧
      (∀ e ∈ s.rq, e ∈ (handleDataWith proc s chunks[i]).rq ∨ ∃ j, j < k' ∧ e.1 = t0 + UInt32.ofNat j) := by
  have hk := inv.hk
  have hd : (chunks[i].tsn - s.cum).toNat = (i + 1 + 4294967296 - k) % 4294967296 := by
    rw [hts i hi, inv.cum]; exact diff_toNat t0 i k (by omega) (by omega)
  by_cases hik : i < k
  · -- duplicate
    have hc : (chunks[i].tsn - s.cum == 0 || chunks[i].tsn - s.cum > 0x80000000) = true := by
      by_cases h2 : i + 1 = k
      · have : (chunks[i].tsn - s.cum).toNat = 0 := by rw [hd]; omega
        have : chunks[i].tsn - s.cum = 0 := (u32_eq_zero _).mpr this
        rw [Bool.or_eq_true]; left; exact beq_iff_eq.mpr this
      · have : (chunks[i].tsn - s.cum).toNat > 2147483648 := by rw [hd]; omega
        have : chunks[i].tsn - s.cum > 0x80000000 := (u32_gt_half _).mpr this
        rw [Bool.or_eq_true]; right; exact decide_eq_true this
    obtain ⟨h1, h2, h3⟩ := handleData_dup proc s chunks[i] hc
    refine ⟨k, Nat.le_refl k, ⟨hk, by rw [h1]; exact inv.cum, by rw [h3]; exact inv.pl, by rw [h2]; exact inv.rq⟩,
      Or.inl hik, ?_⟩
    intro e he; left; rw [h2]; exact he
  · have hdn : (chunks[i].tsn - s.cum).toNat = i + 1 - k := by rw [hd]; omega
    have hc1 : (chunks[i].tsn - s.cum == 0 || chunks[i].tsn - s.cum > 0x80000000) = false := by
      have a : ¬ (chunks[i].tsn - s.cum = 0) := by
        intro h; have := (u32_eq_zero _).mp h; omega
      have b : ¬ (chunks[i].tsn - s.cum > 0x80000000) := by
        intro h; have := (u32_gt_half _).mp h; omega
      rw [Bool.or_eq_false_iff]; exact ⟨beq_eq_false_iff_ne.mpr a, decide_eq_false b⟩
    by_cases hc2 : (chunks[i].tsn - s.cum == 1 && s.rq.isEmpty) = true
    · -- fast path
      have hik2 : i = k := by
        have : chunks[i].tsn - s.cum = 1 := by
          have := hc2; simp at this; exact this.1
        have := (u32_eq_one _).mp this
        omega
      subst hik2
      have hrqe : s.rq = [] := by
        have := hc2; simp at this; exact this.2
      obtain ⟨h1, h2, h3⟩ := handleData_fast proc s chunks[i] hc1 hc2 (hok _ _ (List.getElem_mem hi))
      refine ⟨i + 1, by omega, ⟨by omega, ?_, ?_, ?_⟩, Or.inl (by omega), ?_⟩
      · rw [h1, hts i hi]; exact u32_cum_next t0 i
      · rw [h3, inv.pl, List.take_succ_eq_append_getElem hi, plRun_append]; rfl
      · rw [h2, hrqe]; intro e he; simp at he
      · intro e he; rw [hrqe] at he; simp at he
    · -- slow path
      have hc2' : (chunks[i].tsn - s.cum == 1 && s.rq.isEmpty) = false := by
        exact Bool.eq_false_iff.mpr hc2
      let rq1 := if rqHas s.rq chunks[i].tsn then s.rq else s.rq ++ [(chunks[i].tsn, chunks[i])]
      have hrq1 : RqFrom chunks t0 k rq1 := by
        intro e he
        have hcases : e ∈ s.rq ∨ e = (chunks[i].tsn, chunks[i]) := by
          simp only [rq1] at he
          split at he
          · exact Or.inl he
          · simpa using he
        cases hcases with
        | inl h =>
          obtain ⟨j, hj, hjl, a, b⟩ := inv.rq e h
          exact ⟨j, by omega, hjl, a, b⟩
        | inr h => subst h; exact ⟨i, by omega, hi, hts i hi, rfl⟩
      have hin : ∃ e ∈ rq1, e.1 = t0 + UInt32.ofNat i := by
        simp only [rq1]
        split
        next h =>
          simp only [rqHas, List.any_eq_true] at h
          obtain ⟨e, he, heq⟩ := h
          exact ⟨e, he, by rw [← hts i hi]; simpa using heq⟩
        next h => exact ⟨(chunks[i].tsn, chunks[i]), by simp, hts i hi⟩
      obtain ⟨m, hm1, hm2, hm3, hm4⟩ := drainRq_spec chunks t0 hlen rq1.length k rq1 []
        (Nat.le_refl _) hk hrq1
      have hdr : ∀ c ∈ (chunks.drop k).take m, c ∈ chunks :=
        fun c hc => List.mem_of_mem_drop (List.mem_of_mem_take hc)
      -- unfold the slow path
      have hstep : handleDataWith proc s chunks[i] =
          (let d := drainRq rq1.length (s.cum + 1) rq1 []
           let used1 := if rqHas s.rq chunks[i].tsn then s.usedRwnd else s.usedRwnd + chunks[i].valueLen
           let r := procList proc { s with rq := d.1, usedRwnd := used1 } d.2
           if r.2 then scheduleSackImmediate r.1 else r.1) := by
        simp only [handleDataWith, hc1, hc2', rq1]
        rfl
      have hcum1 : s.cum + 1 = t0 + UInt32.ofNat k := by rw [inv.cum]; exact u32_cum_succ t0 k
      rw [hstep, hcum1]
      simp only []
      have hpl := procList_ok proc (drainRq rq1.length (t0 + UInt32.ofNat k) rq1 []).2
        (by intro pl c hc; rw [hm2] at hc; simp at hc; exact hok pl c (hdr c hc))
        { s with rq := (drainRq rq1.length (t0 + UInt32.ofNat k) rq1 []).1,
                 usedRwnd := if rqHas s.rq chunks[i].tsn then s.usedRwnd else s.usedRwnd + chunks[i].valueLen }
      obtain ⟨p1, p2, p3, p4⟩ := hpl
      simp only [p1, if_true, scheduleSackImmediate_cum, scheduleSackImmediate_rq, scheduleSackImmediate_pl]
      refine ⟨k + m, by omega, ⟨hm1, ?_, ?_, ?_⟩, ?_, ?_⟩
      · (first | rw [scheduleSackImmediate_cum, p3, hm2] | rw [p3, hm2]); simp only [List.nil_append]
        have : ((chunks.drop k).take m).length = m := by
          simp [List.length_take, List.length_drop]; omega
        rw [this, inv.cum]; exact u32_cum_add t0 k m
      · (first | rw [scheduleSackImmediate_pl, p2, hm2, inv.pl] | rw [p2, hm2, inv.pl]); simp only [List.nil_append]
        rw [← plRun_append, ← List.take_add]
      · (first | rw [scheduleSackImmediate_rq, p4] | rw [p4]); exact hm3
      · obtain ⟨e, he, heq⟩ := hin
        (first | rw [scheduleSackImmediate_rq, p4] | rw [p4])
        cases hm4 e he with
        | inl h => right; exact ⟨e, h, heq⟩
        | inr h =>
          obtain ⟨j, hj, hje⟩ := h
          left
          have : j = i := u32_off_inj t0 j i (by omega) (by omega) (hje.symm.trans heq)
          omega
      · intro e he
        (first | rw [scheduleSackImmediate_rq, p4] | rw [p4])
        have : e ∈ rq1 := by
          simp only [rq1]; split
          · exact he
          · simp [he]
        exact hm4 e this

/-- which arrivals have been seen: processed (`< k`) or held in the receive queue -/
def Seen (n : Nat) (t0 : UInt32) (seen : List Nat) (k : Nat) (s : Rx) : Prop :=
  ∀ i ∈ seen, i < n ∧ (i < k ∨ ∃ e ∈ s.rq, e.1 = t0 + UInt32.ofNat i)

theorem handleData_fold (proc : Proc) (chunks : List DChunk) (t0 : UInt32) (pl0 : Pl)
    (hts : ∀ i (h : i < chunks.length), chunks[i].tsn = t0 + UInt32.ofNat i)
    (hlen : chunks.length < 2147483648)
    (hok : ∀ pl c, c ∈ chunks → (proc pl c).2 = true)
    (arr : List (Fin chunks.length)) :
    ∀ (k : Nat) (s : Rx) (seen : List Nat), Inv proc chunks t0 pl0 k s → Seen chunks.length t0 seen k s →
    ∃ k', k ≤ k' ∧ Inv proc chunks t0 pl0 k' (arr.foldl (fun s i => handleDataWith proc s chunks[i]) s) ∧
      Seen chunks.length t0 (seen ++ arr.map (·.val)) k'
        (arr.foldl (fun s i => handleDataWith proc s chunks[i]) s) := by
  induction arr with
  | nil => intro k s seen inv hs; exact ⟨k, Nat.le_refl k, inv, by simpa using hs⟩
  | cons a rest ih =>
    intro k s seen inv hs
    obtain ⟨k1, hk1, inv1, hseen1, hold⟩ := handleData_step proc chunks t0 pl0 hts hlen hok k s inv a.val a.isLt
    have hs1 : Seen chunks.length t0 (seen ++ [a.val]) k1 (handleDataWith proc s chunks[a]) := by
      intro i hi
      simp at hi
      cases hi with
      | inl h =>
        obtain ⟨hin, hh⟩ := hs i h
        refine ⟨hin, ?_⟩
        cases hh with
        | inl h' => left; omega
        | inr h' =>
          obtain ⟨e, he, heq⟩ := h'
          cases hold e he with
          | inl h'' => right; exact ⟨e, h'', heq⟩
          | inr h'' =>
            obtain ⟨j, hj, hje⟩ := h''
            left
            have := inv1.hk
            have e1 : i = j := u32_off_inj t0 i j (by omega) (by omega) (heq.symm.trans hje)
            omega
      | inr h => subst h; exact ⟨a.isLt, hseen1⟩
    obtain ⟨k2, hk2, inv2, hs2⟩ := ih k1 _ (seen ++ [a.val]) inv1 hs1
    refine ⟨k2, by omega, inv2, ?_⟩
    simpa [List.append_assoc] using hs2

end RtcModel.Sctp
