/-
Helper lemmas for partially reliable channels (C12): processing the chunk stream of an unordered
channel with arbitrary chunks skipped (each skip = an effective FORWARD-TSN, which forgets the
reassembly buffers) delivers exactly the messages none of whose fragments was skipped.
-/
import RtcModel.Lemmas.SctpMulti

namespace RtcModel.Sctp
open RtcModel.Generated

/-- the effect of an effective FORWARD-TSN on reassembly: every buffer is forgotten -/
def resetPl (pl : Pl) : Pl := { pl with chans := pl.chans.map (fun c => { c with reasm := [] }) }

/-- process the chunks `cs` (global indices `i, i+1, …`), skipping those with `keep = false` -/
def procKeep (keep : Nat → Bool) : Nat → Pl → List DChunk → Pl
  | _, pl, [] => pl
  | i, pl, c :: rest => procKeep keep (i + 1) (if keep i then procData pl c else resetPl pl) rest

theorem findChan_reset (pl : Pl) (sid : UInt16) (dc : Chan) (h : findChan pl.chans sid = some dc) :
    findChan (resetPl pl).chans sid = some { dc with reasm := [] } := by
  simp only [resetPl, findChan, List.find?_map] at *
  have : ((fun c : Chan => c.id == sid) ∘ (fun c : Chan => { c with reasm := [] })) = (fun c : Chan => c.id == sid) := rfl
  rw [this, h]; rfl

theorem chan_reasm_nil (dc : Chan) (h : dc.reasm = []) : { dc with reasm := [] } = dc := by
  cases dc; simp_all

/-- after a skip, the remaining (non-B) fragments of the message change nothing -/
theorem brokenRun (keep : Nat → Bool) (mps : Nat) (sid : UInt16) (ppid : UInt32) (ssn : UInt16) :
    ∀ (fuel : Nat) (rest : Bytes) (i : Nat) (pl : Pl) (dc : Chan) (t : UInt32),
      findChan pl.chans sid = some dc → dc.reasm = [] → dc.state = 1 →
      findChan (procKeep keep i pl (assignTsn t ((fragGo mps 4 fuel false rest).map (fragChunk sid ppid ssn)))).chans sid
        = some dc := by
  intro fuel
  induction fuel with
  | zero => intro rest i pl dc t h _ _; simpa [fragGo, assignTsn, procKeep] using h
  | succ f ih =>
    intro rest i pl dc t hfind hre hst
    unfold fragGo
    split
    · simpa [assignTsn, procKeep] using hfind
    · simp only [List.map_cons, assignTsn, procKeep]
      have hb := bBit_frag4 { tsn := t, flags := fragFlags 4 false (decide (min rest.length mps ≥ rest.length)), sid := sid, ssn := ssn, ppid := ppid, data := rest.take (min rest.length mps) } false _ rfl
      by_cases hk : keep i = true
      · simp only [hk, if_true]
        have : procData pl (fragChunk sid ppid ssn (fragFlags 4 false (decide (min rest.length mps ≥ rest.length)), rest.take (min rest.length mps)) |> fun o => ({ tsn := t, flags := o.flags, sid := o.sid, ssn := o.ssn, ppid := o.ppid, data := o.payload } : DChunk)) = pl := by
          simp only [fragChunk, procData, hfind, deliverTo_open _ dc _ hst, deliverTo', hb, hre, Bool.not_false, List.isEmpty_nil, Bool.and_self, if_true]
        simp only [fragChunk] at this ⊢
        rw [this]
        exact ih _ (i + 1) pl dc (t + 1) hfind hre hst
      · have hk' : keep i = false := by simpa using hk
        simp only [hk', Bool.false_eq_true, if_false]
        have h1 := findChan_reset pl sid dc hfind
        rw [chan_reasm_nil dc hre] at h1
        exact ih _ (i + 1) (resetPl pl) dc (t + 1) h1 hre hst

/-- every fragment index of a run of `n` fragments starting at `i` is kept -/
def allKept (keep : Nat → Bool) (i n : Nat) : Bool := (List.range n).all (fun j => keep (i + j))

theorem allKept_succ (keep : Nat → Bool) (i n : Nat) : allKept keep i (n + 1) = (keep i && allKept keep (i + 1) n) := by
  simp only [allKept, List.range_succ_eq_map, List.all_cons, List.all_map, Nat.add_zero]
  congr 1
  induction (List.range n) with
  | nil => rfl
  | cons j js ih =>
    simp only [List.all_cons, ih, Function.comp]
    congr 2; omega

/-- the fragments of one message on an unordered channel, some possibly skipped -/
theorem keepRun (keep : Nat → Bool) (mps : Nat) (hmps : 0 < mps) (sid : UInt16) (ppid : UInt32) (ssn : UInt16) :
    ∀ (fuel : Nat) (first : Bool) (rest : Bytes) (i : Nat) (pl : Pl) (dc : Chan) (t : UInt32),
      rest ≠ [] → rest.length ≤ fuel →
      findChan pl.chans sid = some dc → dc.state = 1 → (first = false → dc.reasm ≠ []) →
      findChan (procKeep keep i pl (assignTsn t ((fragGo mps 4 fuel first rest).map (fragChunk sid ppid ssn)))).chans sid
        = some (if allKept keep i (fragGo mps 4 fuel first rest).length
                then dc.delivered ((if first then [] else dc.reasm) ++ rest) else { dc with reasm := [] }) := by
  intro fuel
  induction fuel with
  | zero =>
    intro first rest i pl dc t hne hl
    exact absurd (List.eq_nil_of_length_eq_zero (by omega)) hne
  | succ f ih =>
    intro first rest i pl dc t hne hl hfind hst hre
    have hemp : rest.isEmpty = false := by
      cases rest with
      | nil => exact absurd rfl hne
      | cons _ _ => rfl
    have hid := findChan_id _ _ _ hfind
    have hdrop0 : (!first && dc.reasm.isEmpty) = false := by
      cases first with
      | true => simp
      | false =>
        have := hre rfl
        cases hr : dc.reasm with
        | nil => exact absurd hr this
        | cons _ _ => simp
    by_cases hlast : min rest.length mps ≥ rest.length
    · -- single remaining fragment
      have hn : min rest.length mps = rest.length := by omega
      simp only [fragGo, hemp, hn, List.take_length, List.drop_length, fragGo_nil, ge_iff_le, Nat.le_refl,
        decide_true, List.map_cons, List.map_nil, assignTsn, procKeep, List.length_cons, List.length_nil,
        Bool.false_eq_true, if_false]
      have hak : allKept keep i (0 + 1) = keep i := by simp [allKept]
      rw [hak]
      by_cases hk : keep i = true
      · simp only [hk, if_true]
        have hb := bBit_frag4 { tsn := t, flags := fragFlags 4 first true, sid := sid, ssn := ssn, ppid := ppid, data := rest } first true rfl
        have he := eBit_frag4 { tsn := t, flags := fragFlags 4 first true, sid := sid, ssn := ssn, ppid := ppid, data := rest } first true rfl
        have hu := uBit_frag4 { tsn := t, flags := fragFlags 4 first true, sid := sid, ssn := ssn, ppid := ppid, data := rest } first true rfl
        simp only [procData, fragChunk, hfind, deliverTo_open _ dc _ hst, deliverTo', hb, hdrop0, he, hu,
          Bool.true_or, Bool.false_eq_true, if_false, if_true]
        rw [findChan_setChan_same _ _ _ _ hfind (by simp [Chan.emit, hid])]
        cases first <;> simp [Chan.emit, Chan.delivered]
      · have hk' : keep i = false := by simpa using hk
        simp only [hk', Bool.false_eq_true, if_false]
        exact findChan_reset pl sid dc hfind
    · have hn : min rest.length mps = mps := by omega
      have hlt : mps < rest.length := by omega
      have hdec : decide (rest.length ≤ mps) = false := by simp; omega
      have hdropne : rest.drop mps ≠ [] := by
        intro h
        have := congrArg List.length h
        simp at this; omega
      have htk : rest.take mps ≠ [] := by
        cases rest with
        | nil => exact absurd rfl hne
        | cons r rs => cases mps with
          | zero => omega
          | succ m => simp
      simp only [fragGo, hemp, hn, ge_iff_le, hdec, List.map_cons, assignTsn, procKeep, List.length_cons,
        Bool.false_eq_true, if_false]
      rw [allKept_succ]
      by_cases hk : keep i = true
      · simp only [hk, if_true, Bool.true_and]
        have hb := bBit_frag4 { tsn := t, flags := fragFlags 4 first false, sid := sid, ssn := ssn, ppid := ppid, data := rest.take mps } first false rfl
        have he := eBit_frag4 { tsn := t, flags := fragFlags 4 first false, sid := sid, ssn := ssn, ppid := ppid, data := rest.take mps } first false rfl
        let dc1 : Chan := { dc with reasm := (if first then [] else dc.reasm) ++ rest.take mps }
        have hstep : procData pl { tsn := t, flags := fragFlags 4 first false, sid := sid, ssn := ssn, ppid := ppid, data := rest.take mps } = { pl with chans := setChan pl.chans dc1 } := by
          simp only [procData, hfind, deliverTo_open _ dc _ hst, deliverTo', hb, hdrop0, he, Bool.false_eq_true, if_false, dc1]
        simp only [fragChunk] at hstep ⊢
        rw [hstep]
        have hfind1 : findChan (setChan pl.chans dc1) sid = some dc1 :=
          findChan_setChan_same _ _ _ _ hfind (by simp [dc1, hid])
        have hre1 : dc1.reasm ≠ [] := by simp only [dc1]; exact List.append_ne_nil_of_right_ne_nil _ htk
        have := ih false (rest.drop mps) (i + 1) { pl with chans := setChan pl.chans dc1 } dc1 (t + 1)
          hdropne (by simp; omega) hfind1 hst (fun _ => hre1)
        rw [this]
        congr 1
        split
        · simp [dc1, Chan.delivered, List.append_assoc]
        · simp [dc1]
      · have hk' : keep i = false := by simpa using hk
        simp only [hk', Bool.false_eq_true, if_false, Bool.false_and]
        have h1 := findChan_reset pl sid dc hfind
        exact brokenRun keep mps sid ppid ssn f (rest.drop mps) (i + 1) (resetPl pl) { dc with reasm := [] } (t + 1) h1 rfl hst

/-- one whole message -/
theorem keepMsg (keep : Nat → Bool) (mps : Nat) (hmps : 0 < mps) (sid : UInt16) (ppid : UInt32) (ssn : UInt16) (m : Bytes)
    (i : Nat) (pl : Pl) (dc : Chan) (t : UInt32) (hfind : findChan pl.chans sid = some dc) (hst : dc.state = 1) :
    findChan (procKeep keep i pl (assignTsn t ((fragMsg mps 4 m).map (fragChunk sid ppid ssn)))).chans sid
      = some (if allKept keep i (fragMsg mps 4 m).length then dc.delivered m else { dc with reasm := [] }) := by
  by_cases hm : m = []
  · subst hm
    have hid := findChan_id _ _ _ hfind
    obtain ⟨hb, he, hu⟩ := flags7 { tsn := t, flags := (4 : UInt8) ||| 0x03, sid := sid, ssn := ssn, ppid := ppid, data := [] } rfl
    have hak : allKept keep i (0 + 1) = keep i := by simp [allKept]
    simp only [fragMsg, List.isEmpty_nil, if_true, List.map_cons, List.map_nil, assignTsn, procKeep,
      List.length_cons, List.length_nil, hak]
    by_cases hk : keep i = true
    · simp only [hk, if_true, procData, fragChunk, hfind, deliverTo_open _ dc _ hst, deliverTo', hb, he, hu, Bool.true_or,
        Bool.not_true, Bool.false_and, Bool.false_eq_true, if_false]
      rw [findChan_setChan_same _ _ _ _ hfind (by simp [Chan.emit, hid])]
      simp [Chan.emit, Chan.delivered]
    · have hk' : keep i = false := by simpa using hk
      simp only [hk', Bool.false_eq_true, if_false]
      exact findChan_reset pl sid dc hfind
  · have hemp : m.isEmpty = false := by
      cases m with
      | nil => exact absurd rfl hm
      | cons _ _ => rfl
    have := keepRun keep mps hmps sid ppid ssn m.length true m i pl dc t hm (Nat.le_refl _) hfind hst (by simp)
    simp only [fragMsg, hemp, Bool.false_eq_true, if_false]
    simpa using this

theorem procKeep_append (keep : Nat → Bool) : ∀ (a b : List DChunk) (i : Nat) (pl : Pl),
    procKeep keep i pl (a ++ b) = procKeep keep (i + a.length) (procKeep keep i pl a) b := by
  intro a
  induction a with
  | nil => intro b i pl; rfl
  | cons c rest ih =>
    intro b i pl
    simp only [List.cons_append, procKeep, ih, List.length_cons]
    congr 1; omega

/-- which messages survive: those none of whose fragments (global indices) was skipped -/
def deliveredSpec (mps : Nat) (keep : Nat → Bool) : Nat → List Bytes → List Bytes
  | _, [] => []
  | i, m :: rest =>
    (if allKept keep i (fragMsg mps 4 m).length then [m] else []) ++
      deliveredSpec mps keep (i + (fragMsg mps 4 m).length) rest

theorem deliveredSpec_sublist (mps : Nat) (keep : Nat → Bool) : ∀ (msgs : List Bytes) (i : Nat),
    List.Sublist (deliveredSpec mps keep i msgs) msgs := by
  intro msgs
  induction msgs with
  | nil => intro i; exact List.Sublist.slnil
  | cons m rest ih =>
    intro i
    simp only [deliveredSpec]
    split
    · exact List.Sublist.cons₂ m (ih _)
    · exact List.Sublist.cons m (ih _)

/-- a whole workload on an unordered channel with arbitrary chunks skipped -/
theorem pr_workload (keep : Nat → Bool) (sid : UInt16) (ppid : UInt32) (hp : ppid.toNat ≠ dcPpidDcep) :
    ∀ (msgs : List Bytes) (cs : List TxChan) (tc : TxChan) (pl : Pl) (dc : Chan) (t : UInt32) (i : Nat),
      findTx cs sid = some tc → tc.ordered = false → 0 < tc.maxPayload →
      findChan pl.chans sid = some dc → dc.state = 1 →
      ∃ dc', findChan (procKeep keep i pl (assignTsn t (sendAll cs sid ppid msgs).2)).chans sid = some dc' ∧
        dc'.events = dc.events ++ (deliveredSpec (min tc.maxPayload sctpMaxPayload) keep i msgs).map ChanEv.msg := by
  intro msgs
  induction msgs with
  | nil => intro cs tc pl dc t i _ _ _ h _; exact ⟨dc, by simpa [sendAll, assignTsn, procKeep] using h, by simp [deliveredSpec]⟩
  | cons m rest ih =>
    intro cs tc pl dc t i hf ho hmp hfind hst
    obtain ⟨hs1, hs2⟩ := sendDataRaw_unordered cs sid ppid m tc hf ho hp
    have hmps : 0 < min tc.maxPayload sctpMaxPayload := by simp; omega
    have hk := keepMsg keep _ hmps sid ppid 0 m i pl dc t hfind hst
    have hlen : (assignTsn t ((fragMsg (min tc.maxPayload sctpMaxPayload) 4 m).map (fragChunk sid ppid 0))).length
        = (fragMsg (min tc.maxPayload sctpMaxPayload) 4 m).length := by simp [assignTsn_length]
    simp only [sendAll]
    rw [assignTsn_append, procKeep_append, hs2 t, hlen, hs1]
    -- the channel after this message
    by_cases hall : allKept keep i (fragMsg (min tc.maxPayload sctpMaxPayload) 4 m).length = true
    · rw [hall] at hk
      simp only [if_true] at hk
      obtain ⟨dc', h1, h2⟩ := ih cs tc _ (dc.delivered m) (t + UInt32.ofNat (sendDataRaw cs sid ppid m).2.length)
        (i + (fragMsg (min tc.maxPayload sctpMaxPayload) 4 m).length) hf ho hmp hk (by simpa [Chan.delivered] using hst)
      exact ⟨dc', h1, by rw [h2]; simp only [deliveredSpec, hall, if_true, List.map_append, List.map_cons, List.map_nil, Chan.delivered, List.append_assoc, List.cons_append, List.nil_append]⟩
    · have hall' : allKept keep i (fragMsg (min tc.maxPayload sctpMaxPayload) 4 m).length = false := by simpa using hall
      rw [hall'] at hk
      simp only [Bool.false_eq_true, if_false] at hk
      obtain ⟨dc', h1, h2⟩ := ih cs tc _ { dc with reasm := [] } (t + UInt32.ofNat (sendDataRaw cs sid ppid m).2.length)
        (i + (fragMsg (min tc.maxPayload sctpMaxPayload) 4 m).length) hf ho hmp hk hst
      exact ⟨dc', h1, by rw [h2]; simp only [deliveredSpec, hall', Bool.false_eq_true, if_false, List.nil_append]⟩

end RtcModel.Sctp
