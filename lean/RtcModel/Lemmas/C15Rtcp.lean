/- C15 — helper lemmas for the RTCP codec: framing (`writeRtcp` / `parseCompound`) and one
"parse ∘ build" lemma per packet type, stated in canonical form (what marshal does to every value,
in or out of range).  Core Lean only. -/
import RtcModel.C15Rtcp
import RtcModel.Lemmas.C15Bytes
import RtcModel.Lemmas.C15Nack
import RtcModel.Lemmas.C15Consts
import RtcModel.Lemmas.C15Utf8

namespace RtcModel.C15
open RtcModel.Generated

/-! ### framing -/

/-- body padded to a 32-bit boundary, as `write_rtcp_packet` does -/
def padded (body : Bytes) : Bytes := body ++ List.replicate (pad4 body.length) 0

theorem padded_length_mod (body : Bytes) : (padded body).length % 4 = 0 := by
  simp [padded]; exact pad4_aligned _

theorem padded_of_aligned {body : Bytes} (h : body.length % 4 = 0) : padded body = body := by
  simp [padded, pad4_zero h]

theorem padded_length_le (body : Bytes) : (padded body).length ≤ body.length + 3 := by
  have := pad4_lt body.length
  simp [padded]; omega

/-- one packet written by `write_rtcp_packet` followed by anything: the compound parser hands exactly
the padded body to the per-type parser and continues behind the packet. -/
theorem parseCompound_writeRtcp (fmt pt : Nat) (body rest : Bytes) (hf : fmt < 32) (hpt : pt < 256)
    (hlen : body.length + 3 < 262144) :
    parseCompound (writeRtcp fmt pt body ++ rest) =
      match parseOne pt fmt (padded body) with
      | .error e => .error e
      | .ok o =>
        match parseCompound rest with
        | .error e => .error e
        | .ok ps => .ok (match o with | some p => p :: ps | none => ps) := by
  have hB := padded_length_mod body
  have hBl := padded_length_le body
  generalize hBd : padded body = B at hB hBl
  have hw : writeRtcp fmt pt body = u8 (c15RtpVersion * 64 + fmt % 32) :: u8 pt :: (be16n (B.length / 4) ++ B) := by
    simp [writeRtcp, c15RtcpCountMask_eq, ← hBd, padded]
  rw [hw]
  simp only [be16n, List.cons_append, List.nil_append]
  rw [parseCompound]
  have hv : (u8 (c15RtpVersion * 64 + fmt % 32)).toNat = 128 + fmt := by
    rw [u8_toNat, c15RtpVersion_val]; omega
  have hl : (rd16 (u8 (B.length / 4 / 256 % 256)) (u8 (B.length / 4 % 256))).toNat * 4 = B.length := by
    rw [rd16_be16n]; omega
  have hptn : (u8 pt).toNat = pt := u8_toNat_lt hpt
  rw [if_neg (by rw [hv, c15RtpVersion_val]; omega)]
  simp only [hv, hl, hptn]
  have h2 : ((128 + fmt) / 32 % 2 == 1) = false := by
    have : (128 + fmt) / 32 % 2 = 0 := by omega
    simp [this]
  have h3 : (128 + fmt) % 32 = fmt := by omega
  rw [h2, h3]
  simp only [Bool.false_eq_true, if_false, List.length_append, Bool.false_and]
  rw [if_neg (by omega)]
  simp only [List.take_left', List.drop_left', Nat.sub_zero, List.take_length]
  cases parseOne pt fmt B with
  | error e => rfl
  | ok o =>
    cases parseCompound rest with
    | error e => rfl
    | ok ps => cases o <;> rfl

/-- the TWCC arm (RTCP padding when the body is not aligned): the parser strips the padding and hands
exactly `body` to the TWCC parser -/
theorem parseCompound_twccWire (body rest : Bytes) (hlen : body.length + 3 < 262144) :
    parseCompound (twccWire body ++ rest) =
      match parseOne c15RtcpRtpfb c15FmtTwcc body with
      | .error e => .error e
      | .ok o =>
        match parseCompound rest with
        | .error e => .error e
        | .ok ps => .ok (match o with | some p => p :: ps | none => ps) := by
  have hfmt : c15FmtTwcc < 32 := by rw [c15FmtTwcc_val]; omega
  have hptv : c15RtcpRtpfb < 256 := by rw [c15RtcpRtpfb_val]; omega
  unfold twccWire twccPadded
  by_cases hp : pad4 body.length = 0
  · simp only [hp, if_true]
    rw [parseCompound_writeRtcp _ _ body rest hfmt hptv hlen]
    have : padded body = body := by simp [padded, hp]
    rw [this]
  · simp only [hp, if_false]
    have hp3 := pad4_lt body.length
    have hal := pad4_aligned body.length
    generalize hk : pad4 body.length = k at hp hp3 hal
    generalize hBd : body ++ List.replicate (k - 1) 0 ++ [u8 k] = B
    have hBl : B.length = body.length + k := by rw [← hBd]; simp; omega
    have hB4 : B.length % 4 = 0 := by omega
    have hw : writeRtcp c15FmtTwcc c15RtcpRtpfb B =
        u8 (c15RtpVersion * 64 + c15FmtTwcc % 32) :: u8 c15RtcpRtpfb :: (be16n (B.length / 4) ++ B) := by
      simp [writeRtcp, c15RtcpCountMask_eq, pad4_zero hB4]
    rw [hw]
    simp only [be16n, List.cons_append, List.nil_append]
    rw [parseCompound]
    have hv : (u8 (c15RtpVersion * 64 + c15FmtTwcc % 32) ||| 0x20).toNat = 175 := by
      simp [c15RtpVersion_val, c15FmtTwcc_val, u8]
    have hl : (rd16 (u8 (B.length / 4 / 256 % 256)) (u8 (B.length / 4 % 256))).toNat * 4 = B.length := by
      rw [rd16_be16n]; omega
    have hptn : (u8 c15RtcpRtpfb).toNat = c15RtcpRtpfb := u8_toNat_lt hptv
    rw [if_neg (by rw [hv, c15RtpVersion_val]; omega)]
    simp only [hv, hl, hptn]
    have h2 : ((175 : Nat) / 32 % 2 == 1) = true := by decide
    have h3 : (175 : Nat) % 32 = c15FmtTwcc := by rw [c15FmtTwcc_val]
    rw [h2, h3]
    simp only [if_true, List.length_append, Bool.true_and]
    rw [if_neg (by omega)]
    simp only [List.take_left']
    have hlast : B.getLast? = some (u8 k) := by rw [← hBd]; simp
    have hkn : (u8 k).toNat = k := u8_toNat_lt (by omega)
    simp only [hlast, Option.getD_some, hkn]
    have hcond : (decide (k = 0) || decide (k > B.length)) = false := by
      have h1 : ¬ k = 0 := hp
      have h2 : ¬ k > B.length := by omega
      simp [h1, h2]
    rw [hcond]
    simp only [Bool.false_eq_true, if_false]
    have htake : B.take (B.length - k) = body := by
      have : B.length - k = body.length := by omega
      rw [this, ← hBd, List.append_assoc, List.take_left' rfl]
    rw [htake, List.drop_left']
    · cases parseOne c15RtcpRtpfb c15FmtTwcc body with
      | error e => rfl
      | ok o =>
        cases parseCompound rest with
        | error e => rfl
        | ok ps => cases o <;> rfl
    · rfl

/-! ### report blocks, SR, RR -/

/-- RFC 3550 saturation of the cumulative loss count to 24-bit signed -/
def clampLost (l : Int) : Int := if l < -8388608 then -8388608 else if l > 8388607 then 8388607 else l

theorem lossLim_eq : lossLim = 8388608 := by simp [lossLim, c15LossClampBits_eq]

def canonBlock (b : ReportBlock) : ReportBlock := { b with lost := clampLost b.lost }

theorem canonBlock_of_range {b : ReportBlock} (h1 : -8388608 ≤ b.lost) (h2 : b.lost ≤ 8388607) : canonBlock b = b := by
  unfold canonBlock clampLost
  rw [if_neg (by omega), if_neg (by omega)]

@[simp] theorem blockBytes_length (b : ReportBlock) : (blockBytes b).length = 24 := by
  simp [blockBytes]

theorem parseBlock_blockBytes (b : ReportBlock) (rest : Bytes) :
    parseBlock (blockBytes b ++ rest) = some (canonBlock b) := by
  obtain ⟨ssrc, fl, lost, hseq, jit, lsr, dlsr⟩ := b
  simp only [blockBytes, lossLim_eq, be32, be24n, List.cons_append, List.nil_append, parseBlock, rd32_be32, rd24n_be24n,
    canonBlock, clampLost, Option.some.injEq, ReportBlock.mk.injEq, true_and, and_true]
  split <;> split <;> (try split) <;> omega

theorem parseBlocks_flatMap (bl : List ReportBlock) (rest : Bytes) :
    parseBlocks bl.length (bl.flatMap blockBytes ++ rest) = .ok (bl.map canonBlock) := by
  induction bl with
  | nil => simp [parseBlocks]
  | cons b bl ih =>
    simp only [List.length_cons, List.flatMap_cons, List.append_assoc, parseBlocks, List.map_cons]
    rw [if_neg (by simp), parseBlock_blockBytes]
    simp only
    have : (blockBytes b ++ (bl.flatMap blockBytes ++ rest)).drop 24 = bl.flatMap blockBytes ++ rest := by
      rw [List.drop_append_of_le_length (by simp)]
      simp [List.drop_eq_nil_of_le]
    rw [this, ih]

theorem parseSr_body (s m l t p o : UInt32) (bl : List ReportBlock) :
    parseSr bl.length (be32 s ++ be32 m ++ be32 l ++ be32 t ++ be32 p ++ be32 o ++ bl.flatMap blockBytes) =
      .ok (.sr s m l t p o (bl.map canonBlock)) := by
  have := parseBlocks_flatMap bl []
  simp only [List.append_nil] at this
  simp only [be32, List.cons_append, List.nil_append, parseSr, rd32_be32, this]

theorem parseRr_body (s : UInt32) (bl : List ReportBlock) :
    parseRr bl.length (be32 s ++ bl.flatMap blockBytes) = .ok (.rr s (bl.map canonBlock)) := by
  have := parseBlocks_flatMap bl []
  simp only [List.append_nil] at this
  simp only [be32, List.cons_append, List.nil_append, parseRr, rd32_be32, this]

theorem flatMap_blockBytes_length (bl : List ReportBlock) : (bl.flatMap blockBytes).length = 24 * bl.length := by
  induction bl with
  | nil => rfl
  | cons b bl ih => simp [ih]; omega

/-! ### PLI, FIR -/

theorem parsePli_body (s m : UInt32) (z : Bytes) : parsePli (be32 s ++ be32 m ++ z) = .ok (.pli s m) := by
  simp only [be32, List.cons_append, List.nil_append, parsePli, rd32_be32]

def firEnc (r : FirReq) : Bytes := be32 r.ssrc ++ [r.seq, 0, 0, 0]

theorem firEntries_flatMap (reqs : List FirReq) : firEntries (reqs.flatMap firEnc) = reqs := by
  induction reqs with
  | nil => simp [firEntries]
  | cons r rs ih =>
    obtain ⟨a, q⟩ := r
    simp only [List.flatMap_cons, firEnc, be32, List.cons_append, List.nil_append, firEntries, rd32_be32, ih]

theorem firBody_eq (s : UInt32) (reqs : List FirReq) : firBody s reqs = be32 s ++ be32 0 ++ reqs.flatMap firEnc := rfl

theorem flatMap_firEnc_length (reqs : List FirReq) : (reqs.flatMap firEnc).length = 8 * reqs.length := by
  induction reqs with
  | nil => rfl
  | cons r rs ih => simp [firEnc, ih]; omega

theorem parseFir_body (s : UInt32) (reqs : List FirReq) : parseFir (firBody s reqs) = .ok (.fir s reqs) := by
  rw [firBody_eq]
  simp only [be32, List.cons_append, List.nil_append, parseFir, rd32_be32, firEntries_flatMap]

/-! ### NACK -/

theorem absorb_blp_lt (pid : UInt16) (xs : List UInt16) (blp : Nat) (h : blp < 65536) :
    (absorb pid blp xs).1 < 65536 := by
  induction xs generalizing blp with
  | nil => simpa [absorb]
  | cons s rest ih =>
    simp only [absorb]
    have hspan : c15NackBlpSpan = 16 := c15NackBlpSpan_val
    split
    · exact ih blp h
    · split
      · exact h
      · apply ih
        have hd : (s - pid).toNat - 1 < 16 := by omega
        have : (1 <<< ((s - pid).toNat - 1)) < 2 ^ 16 := by
          rw [Nat.one_shiftLeft]; exact Nat.pow_lt_pow_right (by omega) hd
        exact Nat.or_lt_two_pow (n := 16) h this

theorem packSorted_blp_lt : ∀ (n : Nat) (l : List UInt16), l.length = n → ∀ p ∈ packSorted l, p.2 < 65536 := by
  intro n
  induction n using Nat.strongRecOn with
  | ind n ih =>
    intro l hl p hp
    match l, hl with
    | [], _ => simp [packSorted_nil] at hp
    | pid :: rest, hl =>
      rw [packSorted_cons] at hp
      rcases List.mem_cons.mp hp with rfl | hp
      · exact absorb_blp_lt pid rest 0 (by omega)
      · have hlt : (absorb pid 0 rest).2.length < n := by
          have := absorb_length pid 0 rest
          simp at hl; omega
        exact ih _ hlt _ rfl p hp

theorem packSorted_length_le : ∀ (n : Nat) (l : List UInt16), l.length = n → (packSorted l).length ≤ l.length := by
  intro n
  induction n using Nat.strongRecOn with
  | ind n ih =>
    intro l hl
    match l, hl with
    | [], _ => simp [packSorted_nil]
    | pid :: rest, hl =>
      rw [packSorted_cons]
      have hle := absorb_length pid 0 rest
      have hlt : (absorb pid 0 rest).2.length < n := by simp at hl; omega
      have := ih _ hlt _ rfl
      simp only [List.length_cons]; omega

theorem insertAsc_length_le (x : UInt16) (l : List UInt16) : (insertAsc x l).length ≤ l.length + 1 := by
  induction l with
  | nil => simp [insertAsc]
  | cons y ys ih => simp only [insertAsc]; split <;> (try split) <;> simp <;> omega

theorem sortDedup_length_le (l : List UInt16) : (sortDedup l).length ≤ l.length := by
  induction l with
  | nil => simp [sortDedup]
  | cons x xs ih =>
    have := insertAsc_length_le x (sortDedup xs)
    simp only [sortDedup, List.length_cons]; omega

theorem packNack_length_le (l : List UInt16) : (packNack l).length ≤ l.length :=
  Nat.le_trans (packSorted_length_le _ _ rfl) (sortDedup_length_le l)

theorem nackPairs_flatMap (ps : List (UInt16 × Nat)) (h : ∀ p ∈ ps, p.2 < 65536) :
    nackPairs (ps.flatMap pairBytes) = ps := by
  induction ps with
  | nil => simp [nackPairs]
  | cons p ps ih =>
    obtain ⟨pid, blp⟩ := p
    have hb : blp < 65536 := h (pid, blp) (by simp)
    simp only [List.flatMap_cons, pairBytes, be16, be16n, List.cons_append, List.nil_append, nackPairs, rd16_be16]
    rw [rd16_be16n, Nat.mod_eq_of_lt hb, ih (fun q hq => h q (by simp [hq]))]

theorem flatMap_pairBytes_length (ps : List (UInt16 × Nat)) : (ps.flatMap pairBytes).length = 4 * ps.length := by
  induction ps with
  | nil => rfl
  | cons p ps ih => simp [pairBytes, ih]; omega

theorem parseNack_body (s m : UInt32) (lost : List UInt16) :
    parseNack (be32 s ++ be32 m ++ (packNack lost).flatMap pairBytes) =
      .ok (.nack s m (unpackNack (packNack lost))) := by
  simp only [be32, List.cons_append, List.nil_append, parseNack, rd32_be32]
  rw [nackPairs_flatMap (packNack lost) (packSorted_blp_lt _ (sortDedup lost) rfl)]

/-! ### REMB -/

/-- the loop of `build_remb_body` ends with an 18-bit mantissa after at most `k` halvings when the
value has at most `18 + k` bits -/
theorem rembNorm_spec : ∀ (fuel k m e : Nat), m < 2 ^ (18 + k) → k ≤ fuel →
    (rembNorm fuel m e).1 < 262144 ∧ (rembNorm fuel m e).2 ≤ e + k := by
  intro fuel
  induction fuel with
  | zero =>
    intro k m e hm hk
    have : k = 0 := by omega
    subst this
    simp only [rembNorm]
    exact ⟨by simpa using hm, by omega⟩
  | succ fuel ih =>
    intro k m e hm hk
    simp only [rembNorm]
    have hc : c15RembMantissaMax = 262143 := c15RembMantissaMax_val
    by_cases hgt : m > c15RembMantissaMax
    · rw [if_pos hgt]
      have hk1 : 1 ≤ k := by
        rcases Nat.eq_zero_or_pos k with h0 | h0
        · subst h0; simp at hm; omega
        · exact h0
      have hm2 : m / 2 < 2 ^ (18 + (k - 1)) := by
        have : 2 ^ (18 + k) = 2 * 2 ^ (18 + (k - 1)) := by
          rw [← Nat.pow_succ']; congr 1; omega
        omega
      have := ih (k - 1) (m / 2) (e + 1) hm2 (by omega)
      exact ⟨this.1, by omega⟩
    · rw [if_neg hgt]; exact ⟨by simp only; omega, by simp only; omega⟩

/-- the bitrate a REMB written for `br` decodes to (`mantissa << exponent`) -/
def rembCanon (br : Nat) : Nat := ((rembNorm 64 br 0).1 * 2 ^ (rembNorm 64 br 0).2) % 2 ^ 64

theorem parseRemb_body (s : UInt32) (br : Nat) (ss : List UInt32) (hbr : br < 2 ^ 64) (hss : ss.length ≤ 255) :
    parseRemb (rembBody s br ss) = .ok (.remb s (rembCanon br) ss) := by
  have hn := rembNorm_spec 64 46 br 0 (by simpa using hbr) (by omega)
  generalize hme : rembNorm 64 br 0 = me at hn
  obtain ⟨m, e⟩ := me
  simp only at hn
  have hm : m % 4294967296 = m := Nat.mod_eq_of_lt (by omega)
  simp only [rembBody, c15RembExpMask_eq, hme, hm, be32, rembTag, List.cons_append, List.nil_append, parseRemb, rd32_be32,
    ne_eq, not_true_eq_false, if_false, u8_toNat]
  have hx : ((e % 64 * 4 % 256 + m / 65536 % 4) % 256) / 4 = e := by omega
  have hmm : ((e % 64 * 4 % 256 + m / 65536 % 4) % 256) % 4 * 65536 + m / 256 % 256 % 256 * 256 + m % 256 % 256 = m := by omega
  have hnn : ss.length % 256 % 256 = ss.length := by omega
  have hrd : readU32s ss.length (be32s ss) = (ss, []) := by
    have := readU32s_be32s ss []; simpa using this
  rw [hx, hmm, hnn, if_neg (by simp; omega), hrd]
  simp [rembCanon, hme]

/-! ### TWCC -/

theorem rd32_be24n (n : Nat) :
    rd32 0 (u8 (n / 65536 % 256)) (u8 (n / 256 % 256)) (u8 (n % 256)) = UInt32.ofNat (n % 16777216) := by
  apply UInt32.toNat_inj.mp
  simp [rd32]; omega

theorem parseTwcc_body (s m : UInt32) (b c : UInt16) (r : UInt32) (f : UInt8) (pl z : Bytes) :
    parseTwcc (twccBody s m b c r f pl ++ z) =
      .ok (.twcc s m b c (UInt32.ofNat (r.toNat % 16777216)) f (pl ++ z)) := by
  simp only [twccBody, be32, be16, be24n, List.cons_append, List.nil_append, List.append_assoc, parseTwcc,
    rd32_be32, rd16_be16, rd32_be24n]
  have : r.toNat % 16777216 % 16777216 = r.toNat % 16777216 := by omega
  rw [this]

/-! ### BYE -/

theorem byeCut_le (r : Bytes) : ∀ n, byeCut r n ≤ n := by
  intro n
  induction n with
  | zero => simp [byeCut]
  | succ n ih => simp only [byeCut]; split <;> omega

theorem byeCut_full (r : Bytes) : byeCut r r.length = r.length := by
  cases h : r.length with
  | zero => rfl
  | succ n => simp [byeCut, isBoundary, h]

theorem isCont_range {c : UInt8} (h : isCont c = true) : 128 ≤ c.toNat ∧ c.toNat < 192 := by
  simp only [isCont, Bool.and_eq_true, decide_eq_true_eq] at h; omega

theorem second3_range {b c : UInt8} (h : second3 b c = true) : 128 ≤ c.toNat ∧ c.toNat < 192 := by
  simp only [second3, Bool.or_eq_true, Bool.and_eq_true, decide_eq_true_eq] at h; omega

theorem second4_range {b c : UInt8} (h : second4 b c = true) : 128 ≤ c.toNat ∧ c.toNat < 192 := by
  simp only [second4, Bool.or_eq_true, Bool.and_eq_true, decide_eq_true_eq] at h; omega

theorem isBoundary_tail {b : UInt8} {rest : Bytes} {k : Nat} (h : isBoundary (b :: rest) (k + 1) = true) :
    isBoundary rest k = true := by
  simp only [isBoundary, List.length_cons, List.getD_cons_succ, Bool.or_eq_true, decide_eq_true_eq] at h ⊢
  omega

/-- position `k+1` directly behind a lead byte whose next byte is a continuation byte is no boundary -/
theorem not_boundary_cont {b c : UInt8} {r : Bytes} (hc : 128 ≤ c.toNat ∧ c.toNat < 192) :
    isBoundary (b :: c :: r) 1 = false := by
  simp [isBoundary]; omega

/-- a prefix of well-formed UTF-8 that ends on a character boundary (in Rust's sense: index 0, the end,
or a byte that is not a continuation byte) is well-formed UTF-8 -/
theorem utf8Valid_take : ∀ (n : Nat) (bs : Bytes), bs.length = n → utf8Valid bs = true →
    ∀ k, isBoundary bs k = true → utf8Valid (bs.take k) = true := by
  intro n
  induction n using Nat.strongRecOn with
  | ind n ih =>
    intro bs hn hv k hb
    match bs, hn, k with
    | [], _, _ => simp [utf8Valid]
    | _ :: _, _, 0 => simp [utf8Valid]
    | b :: rest, hn, k + 1 =>
      simp only [List.length_cons] at hn
      have hb1 := isBoundary_tail hb
      unfold utf8Valid at hv
      by_cases h1 : b.toNat < 128
      · rw [if_pos h1] at hv
        rw [List.take_succ_cons]; unfold utf8Valid; rw [if_pos h1]
        exact ih rest.length (by omega) rest rfl hv k hb1
      · rw [if_neg h1] at hv
        by_cases h2 : 0xC2 ≤ b.toNat ∧ b.toNat ≤ 0xDF
        · rw [if_pos h2] at hv
          match rest, hn, hv, hb, hb1 with
          | c :: r, hn, hv, hb, hb1 =>
            simp only [Bool.and_eq_true] at hv
            simp only [List.length_cons] at hn
            match k, hb, hb1 with
            | 0, hb, _ => rw [not_boundary_cont (isCont_range hv.1)] at hb; cases hb
            | k + 1, _, hb1 =>
              simp only [List.take_succ_cons]; unfold utf8Valid; rw [if_neg h1, if_pos h2]
              simp only [hv.1, Bool.true_and]
              exact ih r.length (by omega) r rfl hv.2 k (isBoundary_tail hb1)
        · rw [if_neg h2] at hv
          by_cases h3 : 0xE0 ≤ b.toNat ∧ b.toNat ≤ 0xEF
          · rw [if_pos h3] at hv
            match rest, hn, hv, hb, hb1 with
            | c :: d :: r, hn, hv, hb, hb1 =>
              simp only [Bool.and_eq_true] at hv
              simp only [List.length_cons] at hn
              match k, hb, hb1 with
              | 0, hb, _ => rw [not_boundary_cont (second3_range hv.1.1)] at hb; cases hb
              | 1, _, hb1 => rw [not_boundary_cont (isCont_range hv.1.2)] at hb1; cases hb1
              | k + 2, _, hb1 =>
                simp only [List.take_succ_cons]; unfold utf8Valid; rw [if_neg h1, if_neg h2, if_pos h3]
                simp only [hv.1.1, hv.1.2, Bool.true_and]
                exact ih r.length (by omega) r rfl hv.2 k (isBoundary_tail (isBoundary_tail hb1))
          · rw [if_neg h3] at hv
            by_cases h4 : 0xF0 ≤ b.toNat ∧ b.toNat ≤ 0xF4
            · rw [if_pos h4] at hv
              match rest, hn, hv, hb, hb1 with
              | c :: d :: e :: r, hn, hv, hb, hb1 =>
                simp only [Bool.and_eq_true] at hv
                simp only [List.length_cons] at hn
                match k, hb, hb1 with
                | 0, hb, _ => rw [not_boundary_cont (second4_range hv.1.1.1)] at hb; cases hb
                | 1, _, hb1 => rw [not_boundary_cont (isCont_range hv.1.1.2)] at hb1; cases hb1
                | 2, _, hb1 =>
                  have := isBoundary_tail hb1
                  rw [not_boundary_cont (isCont_range hv.1.2)] at this; cases this
                | k + 3, _, hb1 =>
                  simp only [List.take_succ_cons]; unfold utf8Valid
                  rw [if_neg h1, if_neg h2, if_neg h3, if_pos h4]
                  simp only [hv.1.1.1, hv.1.1.2, hv.1.2, Bool.true_and]
                  exact ih r.length (by omega) r rfl hv.2 k
                    (isBoundary_tail (isBoundary_tail (isBoundary_tail hb1)))
            · rw [if_neg h4] at hv; cases hv

theorem byeCut_boundary (r : Bytes) : ∀ n, isBoundary r (byeCut r n) = true := by
  intro n
  induction n with
  | zero => simp [byeCut, isBoundary]
  | succ n ih =>
    simp only [byeCut]
    by_cases h : isBoundary r (n + 1) = true
    · rw [if_pos h]; exact h
    · rw [if_neg h]; exact ih

/-- … and it is the LAST boundary not beyond `n` -/
theorem byeCut_maximal (r : Bytes) : ∀ n j, byeCut r n < j → j ≤ n → isBoundary r j = false := by
  intro n
  induction n with
  | zero => intro j h1 h2; omega
  | succ n ih =>
    intro j h1 h2
    simp only [byeCut] at h1
    by_cases h : isBoundary r (n + 1) = true
    · rw [if_pos h] at h1; omega
    · rw [if_neg h] at h1
      by_cases hj : j = n + 1
      · subst hj; simpa using h
      · exact ih j h1 (by omega)

/-- the reason a BYE written for `reason` decodes to: the longest prefix of at most 255 bytes that ends
on a character boundary (`byeCut_boundary`, `byeCut_maximal`; well-formed UTF-8 again by `utf8Valid_take`) -/
def byeCanonReason : Option Bytes → Option Bytes
  | none => none
  | some r => some (r.take (byeCut r (min r.length c15ByeMaxReason)))

theorem parseBye_body (ss : List UInt32) (reason : Option Bytes) (z : Bytes) (hz : reason = none → z = [])
    (hv : ∀ x, reason = some x → utf8Valid x = true) :
    parseBye ss.length (byeBody ss reason ++ z) = .ok (.bye ss (byeCanonReason reason)) := by
  unfold parseBye byeBody
  rw [if_neg (by simp; omega)]
  simp only [List.append_assoc, readU32s_be32s]
  cases reason with
  | none => simp [hz rfl, byeCanonReason]
  | some r =>
    simp only [List.cons_append, byeCanonReason]
    have hle := byeCut_le r (min r.length c15ByeMaxReason)
    have hbd := byeCut_boundary r (min r.length c15ByeMaxReason)
    have h255 := c15ByeMaxReason_eq
    generalize byeCut r (min r.length c15ByeMaxReason) = k at hle hbd
    have hk : k ≤ r.length := by omega
    have hn : (u8 k).toNat = k := by apply u8_toNat_lt; omega
    rw [hn, if_neg (by simp [List.length_take]; omega)]
    congr 3
    rw [List.take_append_of_le_length (by simp [List.length_take]; omega)]
    have ht : List.take k (List.take k r) = List.take k r := by simp [List.take_take]
    rw [ht]
    exact lossy_of_valid _ _ rfl (utf8Valid_take _ r rfl (hv r rfl) k hbd)

/-! ### SDES -/

/-- an SDES item the wire format can carry: type ≠ END, at most 255 bytes, valid UTF-8
(`lossy t = t` — every Rust `String` satisfies this, see `Lemmas/C15Utf8.lean`) -/
structure ItemOk (i : SdesItem) : Prop where
  ty : i.ty ≠ 0
  len : i.text.length ≤ 255
  utf8 : lossy i.text = i.text

def chunkCore (c : SdesChunk) : Bytes := be32 c.ssrc ++ c.items.flatMap itemBytes ++ [0]

def chunkEnc (c : SdesChunk) : Bytes := chunkCore c ++ List.replicate (pad4 (chunkCore c).length) 0

theorem chunkEnc_length_mod (c : SdesChunk) : (chunkEnc c).length % 4 = 0 := by
  simp only [chunkEnc, List.length_append, List.length_replicate]; exact pad4_aligned _

theorem flatMap_chunkEnc_length_mod (cs : List SdesChunk) : (cs.flatMap chunkEnc).length % 4 = 0 := by
  induction cs with
  | nil => rfl
  | cons c cs ih =>
    have := chunkEnc_length_mod c
    simp only [List.flatMap_cons, List.length_append]; omega

theorem pad4_add_of_aligned {a : Nat} (h : a % 4 = 0) (k : Nat) : pad4 (a + k) = pad4 k := by
  unfold pad4; omega

theorem sdesBody_eq (cs : List SdesChunk) : ∀ (acc : Bytes), acc.length % 4 = 0 →
    sdesBody acc cs = acc ++ cs.flatMap chunkEnc := by
  induction cs with
  | nil => intro acc _; simp [sdesBody]
  | cons c cs ih =>
    intro acc hacc
    simp only [sdesBody, List.flatMap_cons]
    have hl : (acc ++ be32 c.ssrc ++ c.items.flatMap itemBytes ++ [0]).length = acc.length + (chunkCore c).length := by
      simp only [chunkCore, List.length_append, be32_length, List.length_cons, List.length_nil]; omega
    rw [hl, pad4_add_of_aligned hacc]
    have hacc' : (acc ++ be32 c.ssrc ++ c.items.flatMap itemBytes ++ [0] ++
        List.replicate (pad4 (chunkCore c).length) 0).length % 4 = 0 := by
      have := chunkEnc_length_mod c
      simp only [chunkEnc, chunkCore, List.length_append, List.length_replicate] at this ⊢
      omega
    rw [ih _ hacc']
    simp [chunkEnc, chunkCore]

theorem sdesItems_nil (off : Nat) : sdesItems off [] = .ok ([], off, []) := by rw [sdesItems]

/-- well-formed items in front of any tail are read back one by one -/
theorem sdesItems_append (items : List SdesItem) (hok : ∀ i ∈ items, ItemOk i) :
    ∀ (off : Nat) (tail : Bytes),
      sdesItems off (items.flatMap itemBytes ++ tail) =
        match sdesItems (off + (items.flatMap itemBytes).length) tail with
        | .error e => .error e
        | .ok (its, o, r) => .ok (items ++ its, o, r) := by
  induction items with
  | nil =>
    intro off tail
    simp only [List.flatMap_nil, List.nil_append, List.length_nil, Nat.add_zero]
    cases sdesItems off tail with
    | error e => rfl
    | ok v => obtain ⟨its, o, r⟩ := v; rfl
  | cons i is ih =>
    intro off tail
    have hi := hok i (List.mem_cons_self ..)
    obtain ⟨ty, text⟩ := i
    have hty : ty ≠ 0 := hi.ty
    have hlen : text.length ≤ 255 := hi.len
    have hu : lossy text = text := hi.utf8
    simp only [List.flatMap_cons, itemBytes, List.cons_append, List.append_assoc, List.length_cons,
      List.length_append]
    rw [sdesItems]
    simp only [hty, if_false]
    have hl : (u8 (text.length % 256)).toNat = text.length := by rw [u8_toNat]; omega
    rw [hl, if_neg (by simp)]
    simp only [List.drop_left, List.take_left, hu]
    rw [ih (fun j hj => hok j (List.mem_cons_of_mem _ hj)) (off + 2 + text.length) tail]
    have hoff : off + (text.length + (is.flatMap itemBytes).length + 1 + 1) =
        off + 2 + text.length + (is.flatMap itemBytes).length := by omega
    rw [hoff]
    cases sdesItems (off + 2 + text.length + (is.flatMap itemBytes).length) tail with
    | error e => rfl
    | ok v => obtain ⟨its, o, r⟩ := v; rfl

/-- the END item, the alignment bytes the builder wrote, then the rest -/
theorem sdesItems_end (off : Nat) (rest : Bytes) :
    sdesItems off (0 :: (List.replicate (pad4 (off + 1)) 0 ++ rest)) = .ok ([], off + 1 + pad4 (off + 1), rest) := by
  rw [sdesItems.eq_def]
  simp only [if_true, List.length_append, List.length_replicate]
  rw [Nat.min_eq_left (by omega)]
  simp

theorem chunkCore_length (c : SdesChunk) : (chunkCore c).length = 4 + (c.items.flatMap itemBytes).length + 1 := by
  simp only [chunkCore, List.length_append, be32_length, List.length_cons, List.length_nil]

theorem sdesChunks_enc (cs : List SdesChunk) (hok : ∀ c ∈ cs, ∀ i ∈ c.items, ItemOk i) :
    ∀ (off : Nat), off % 4 = 0 → sdesChunks cs.length off (cs.flatMap chunkEnc) = .ok cs := by
  induction cs with
  | nil => intro off _; simp [sdesChunks]
  | cons c cs ih =>
    intro off hoff
    have hokc := hok c (List.mem_cons_self ..)
    obtain ⟨ssrc, items⟩ := c
    have hp : pad4 (chunkCore ⟨ssrc, items⟩).length = pad4 (off + 4 + (items.flatMap itemBytes).length + 1) := by
      rw [chunkCore_length]; unfold pad4; simp only; omega
    simp only [List.length_cons, List.flatMap_cons, chunkEnc, hp]
    simp only [chunkCore, be32, List.cons_append, List.nil_append, List.append_assoc, sdesChunks, rd32_be32]
    rw [sdesItems_append items hokc, sdesItems_end]
    simp only [List.append_nil]
    have ho : (off + 4 + (items.flatMap itemBytes).length + 1 + pad4 (off + 4 + (items.flatMap itemBytes).length + 1)) % 4 = 0 :=
      pad4_aligned _
    rw [ih (fun c hc => hok c (List.mem_cons_of_mem _ hc)) _ ho]

theorem parseSdes_body (cs : List SdesChunk) (hok : ∀ c ∈ cs, ∀ i ∈ c.items, ItemOk i) :
    parseSdes cs.length (sdesBody [] cs) = .ok (.sdes cs) := by
  rw [sdesBody_eq cs [] rfl]
  simp only [List.nil_append, parseSdes, sdesChunks_enc cs hok 0 rfl]

theorem sdesBody_length_mod (cs : List SdesChunk) : (sdesBody [] cs).length % 4 = 0 := by
  rw [sdesBody_eq cs [] rfl]; simpa using flatMap_chunkEnc_length_mod cs

/-! ### one packet: parse ∘ marshal in canonical form -/

/-- What `marshal_rtcp_packets` followed by `parse_rtcp_packets` does to a logical packet — for every
value the marshaller accepts: the loss count saturates at 24-bit signed (RFC 3550 §6.4.1), a BYE reason
is cut to the longest prefix of whole characters within 255 bytes, a NACK list comes back as the packed
pairs enumerate it, a REMB bitrate keeps its 18 most significant bits, a TWCC reference time is reduced
modulo 2^24 (it is a wrapping 24-bit counter); every other field of every type is preserved. -/
def canon : Rtcp → Rtcp
  | .sr s m l t p o bl => .sr s m l t p o (bl.map canonBlock)
  | .rr s bl => .rr s (bl.map canonBlock)
  | .bye ss r => .bye ss (byeCanonReason r)
  | .nack s m lost => .nack s m (unpackNack (packNack lost))
  | .remb s br ss => .remb s (rembCanon br) ss
  | .twcc s m b c r f pl => .twcc s m b c (UInt32.ofNat (r.toNat % 16777216)) f pl
  | p => p

/-- What the Rust types guarantee about a logical packet: `String`s (SDES texts, the BYE reason) are valid
UTF-8 (RFC 3629 syntax, `utf8Valid`) and the REMB bitrate is a `u64`. Nothing else is assumed. -/
def Dom : Rtcp → Prop
  | .sdes cs => ∀ c ∈ cs, ∀ i ∈ c.items, utf8Valid i.text = true
  | .remb _ br _ => br < 2 ^ 64
  | .bye _ r => ∀ x, r = some x → utf8Valid x = true
  | _ => True

theorem parseOne_sr (fmt : Nat) (b : Bytes) : parseOne c15RtcpSr fmt b = (parseSr fmt b).map some := by
  simp [parseOne]
theorem parseOne_rr (fmt : Nat) (b : Bytes) : parseOne c15RtcpRr fmt b = (parseRr fmt b).map some := by
  simp [parseOne, c15RtcpRr_val, c15RtcpSr_val]
theorem parseOne_sdes (fmt : Nat) (b : Bytes) : parseOne c15RtcpSdes fmt b = (parseSdes fmt b).map some := by
  simp [parseOne, c15RtcpRr_val, c15RtcpSr_val, c15RtcpSdes_val]
theorem parseOne_bye (fmt : Nat) (b : Bytes) : parseOne c15RtcpBye fmt b = (parseBye fmt b).map some := by
  simp [parseOne, c15RtcpRr_val, c15RtcpSr_val, c15RtcpSdes_val, c15RtcpBye_val]
theorem parseOne_nack (b : Bytes) : parseOne c15RtcpRtpfb c15FmtNack b = (parseNack b).map some := by
  simp [parseOne, c15RtcpRr_val, c15RtcpSr_val, c15RtcpSdes_val, c15RtcpBye_val, c15RtcpRtpfb_val]
theorem parseOne_twcc (b : Bytes) : parseOne c15RtcpRtpfb c15FmtTwcc b = (parseTwcc b).map some := by
  simp [parseOne, c15RtcpRr_val, c15RtcpSr_val, c15RtcpSdes_val, c15RtcpBye_val, c15RtcpRtpfb_val,
    c15FmtNack_val, c15FmtTwcc_val]
theorem parseOne_pli (b : Bytes) : parseOne c15RtcpPsfb c15FmtPli b = (parsePli b).map some := by
  simp [parseOne, c15RtcpRr_val, c15RtcpSr_val, c15RtcpSdes_val, c15RtcpBye_val, c15RtcpRtpfb_val,
    c15RtcpPsfb_val]
theorem parseOne_fir (b : Bytes) : parseOne c15RtcpPsfb c15FmtFir b = (parseFir b).map some := by
  simp [parseOne, c15RtcpRr_val, c15RtcpSr_val, c15RtcpSdes_val, c15RtcpBye_val, c15RtcpRtpfb_val,
    c15RtcpPsfb_val, c15FmtPli_val, c15FmtFir_val]
theorem parseOne_remb (b : Bytes) : parseOne c15RtcpPsfb c15FmtApp b = (parseRemb b).map some := by
  simp [parseOne, c15RtcpRr_val, c15RtcpSr_val, c15RtcpSdes_val, c15RtcpBye_val, c15RtcpRtpfb_val,
    c15RtcpPsfb_val, c15FmtPli_val, c15FmtFir_val, c15FmtApp_val]

/-- shape of the conclusion: the packet in front is read back as `q`, then parsing continues -/
def ReadsAs (bs rest : Bytes) (q : Rtcp) : Prop :=
  parseCompound (bs ++ rest) =
    match parseCompound rest with
    | .error e => .error e
    | .ok ps => .ok (q :: ps)

theorem readsAs_of (fmt pt : Nat) (body rest : Bytes) (q : Rtcp) (hf : fmt < 32) (hpt : pt < 256)
    (hlen : body.length + 3 < 262144) (hp : parseOne pt fmt (padded body) = .ok (some q)) :
    ReadsAs (writeRtcp fmt pt body) rest q := by
  unfold ReadsAs
  rw [parseCompound_writeRtcp fmt pt body rest hf hpt hlen, hp]

theorem emit_ok {f p : Nat} {b bs : Bytes} (h : emit f p b = .ok bs) : fits b = true ∧ bs = writeRtcp f p b := by
  unfold emit at h
  cases hf : fits b with
  | true => rw [hf] at h; simp only [if_true] at h; injection h with h; exact ⟨rfl, h.symm⟩
  | false => rw [hf] at h; simp at h

theorem fits_len {b : Bytes} (h : fits b = true) : b.length + 3 < 262144 := by
  have := pad4_aligned b.length
  simp only [fits, decide_eq_true_eq] at h
  omega

theorem fits_of_len {b : Bytes} (h : b.length ≤ 262140) : fits b = true := by
  have := pad4_aligned b.length
  have := pad4_lt b.length
  simp only [fits, decide_eq_true_eq]
  omega

theorem emit_of_fits {f p : Nat} {b : Bytes} (h : fits b = true) : emit f p b = .ok (writeRtcp f p b) := by
  simp [emit, h]

theorem itemsErr_none {is : List SdesItem} (h : itemsErr is = none) : ∀ i ∈ is, i.ty ≠ 0 ∧ i.text.length ≤ 255 := by
  induction is with
  | nil => intro i hi; cases hi
  | cons x xs ih =>
    simp only [itemsErr] at h
    by_cases h0 : x.ty = 0
    · rw [if_pos h0] at h; cases h
    · rw [if_neg h0] at h
      by_cases hl : x.text.length > 255
      · rw [if_pos hl] at h; cases h
      · rw [if_neg hl] at h
        intro i hi
        rcases List.mem_cons.mp hi with rfl | hi
        · exact ⟨h0, by omega⟩
        · exact ih h i hi

theorem sdesItemErr_none {cs : List SdesChunk} (h : sdesItemErr cs = none) :
    ∀ c ∈ cs, ∀ i ∈ c.items, i.ty ≠ 0 ∧ i.text.length ≤ 255 := by
  induction cs with
  | nil => intro c hc; cases hc
  | cons x xs ih =>
    simp only [sdesItemErr] at h
    cases hx : itemsErr x.items with
    | some e => rw [hx] at h; cases h
    | none =>
      rw [hx] at h
      intro c hc
      rcases List.mem_cons.mp hc with rfl | hc
      · exact itemsErr_none hx
      · exact ih h c hc

theorem itemsErr_of_ok {is : List SdesItem} (h : ∀ i ∈ is, i.ty ≠ 0 ∧ i.text.length ≤ 255) : itemsErr is = none := by
  induction is with
  | nil => rfl
  | cons x xs ih =>
    have hx := h x (List.mem_cons_self ..)
    simp only [itemsErr]
    rw [if_neg hx.1, if_neg (by omega)]
    exact ih (fun i hi => h i (List.mem_cons_of_mem _ hi))

theorem sdesItemErr_of_ok {cs : List SdesChunk} (h : ∀ c ∈ cs, ∀ i ∈ c.items, i.ty ≠ 0 ∧ i.text.length ≤ 255) :
    sdesItemErr cs = none := by
  induction cs with
  | nil => rfl
  | cons x xs ih =>
    simp only [sdesItemErr, itemsErr_of_ok (h x (List.mem_cons_self ..))]
    exact ih (fun c hc => h c (List.mem_cons_of_mem _ hc))

/-- **every** packet the marshaller accepts is read back as its canonical form -/
theorem parse_marshalOne (p : Rtcp) (hd : Dom p) (bs : Bytes) (hm : marshalOne p = .ok bs) (rest : Bytes) :
    ReadsAs bs rest (canon p) := by
  have hSr : c15RtcpSr < 256 := by rw [c15RtcpSr_val]; omega
  have hRr : c15RtcpRr < 256 := by rw [c15RtcpRr_val]; omega
  have hSd : c15RtcpSdes < 256 := by rw [c15RtcpSdes_val]; omega
  have hBy : c15RtcpBye < 256 := by rw [c15RtcpBye_val]; omega
  have hFb : c15RtcpRtpfb < 256 := by rw [c15RtcpRtpfb_val]; omega
  have hPs : c15RtcpPsfb < 256 := by rw [c15RtcpPsfb_val]; omega
  have hMax : c15RtcpMaxCount = 31 := c15RtcpMaxCount_val
  cases p with
  | sr s m l t pc oc bl =>
    simp only [marshalOne] at hm
    by_cases hc : bl.length > c15RtcpMaxCount
    · rw [if_pos hc] at hm; cases hm
    · rw [if_neg hc] at hm
      obtain ⟨hfit, rfl⟩ := emit_ok hm
      have hl : (be32 s ++ be32 m ++ be32 l ++ be32 t ++ be32 pc ++ be32 oc ++ bl.flatMap blockBytes).length = 24 + 24 * bl.length := by
        simp only [List.length_append, be32_length, flatMap_blockBytes_length]
      have hmod : bl.length % 256 = bl.length := by omega
      rw [hmod]
      apply readsAs_of _ _ _ _ _ (by omega) hSr (fits_len hfit)
      rw [padded_of_aligned (by omega), parseOne_sr, parseSr_body]; rfl
  | rr s bl =>
    simp only [marshalOne] at hm
    by_cases hc : bl.length > c15RtcpMaxCount
    · rw [if_pos hc] at hm; cases hm
    · rw [if_neg hc] at hm
      obtain ⟨hfit, rfl⟩ := emit_ok hm
      have hl : (be32 s ++ bl.flatMap blockBytes).length = 4 + 24 * bl.length := by
        simp only [List.length_append, be32_length, flatMap_blockBytes_length]
      have hmod : bl.length % 256 = bl.length := by omega
      rw [hmod]
      apply readsAs_of _ _ _ _ _ (by omega) hRr (fits_len hfit)
      rw [padded_of_aligned (by omega), parseOne_rr, parseRr_body]; rfl
  | sdes cs =>
    simp only [marshalOne] at hm
    by_cases hc : cs.length > c15RtcpMaxCount
    · rw [if_pos hc] at hm; cases hm
    · rw [if_neg hc] at hm
      cases hie : sdesItemErr cs with
      | some e => rw [hie] at hm; cases hm
      | none =>
        rw [hie] at hm
        obtain ⟨hfit, rfl⟩ := emit_ok hm
        have hmod : cs.length % 256 = cs.length := by omega
        rw [hmod]
        have hi := sdesItemErr_none hie
        have hok : ∀ c ∈ cs, ∀ i ∈ c.items, ItemOk i := fun c hc i hi' =>
          ⟨(hi c hc i hi').1, (hi c hc i hi').2, lossy_of_valid _ _ rfl (hd c hc i hi')⟩
        apply readsAs_of _ _ _ _ _ (by omega) hSd (fits_len hfit)
        rw [padded_of_aligned (sdesBody_length_mod cs), parseOne_sdes, parseSdes_body cs hok]; rfl
  | bye ss r =>
    simp only [marshalOne] at hm
    by_cases hc : ss.length > c15RtcpMaxCount
    · rw [if_pos hc] at hm; cases hm
    · rw [if_neg hc] at hm
      obtain ⟨hfit, rfl⟩ := emit_ok hm
      have hmod : ss.length % 256 = ss.length := by omega
      rw [hmod]
      apply readsAs_of _ _ _ _ _ (by omega) hBy (fits_len hfit)
      rw [parseOne_bye, padded, parseBye_body ss r _ ?_ hd]; rfl
      intro hr; subst hr
      have : (byeBody ss none).length % 4 = 0 := by
        simp only [byeBody, List.length_append, be32s_length, List.length_nil]; omega
      rw [pad4_zero this]; rfl
  | pli s m =>
    simp only [marshalOne] at hm
    obtain ⟨hfit, rfl⟩ := emit_ok hm
    apply readsAs_of _ _ _ _ _ (by rw [c15FmtPli_val]; omega) hPs (fits_len hfit)
    rw [parseOne_pli, padded, parsePli_body]; rfl
  | fir s rq =>
    simp only [marshalOne] at hm
    obtain ⟨hfit, rfl⟩ := emit_ok hm
    have hl : (firBody s rq).length = 8 + 8 * rq.length := by
      rw [firBody_eq]; simp only [List.length_append, be32_length, flatMap_firEnc_length]
    apply readsAs_of _ _ _ _ _ (by rw [c15FmtFir_val]; omega) hPs (fits_len hfit)
    rw [padded_of_aligned (by omega), parseOne_fir, parseFir_body]; rfl
  | nack s m lost =>
    simp only [marshalOne] at hm
    cases he : lost.isEmpty with
    | true => simp [he] at hm
    | false =>
      simp only [he, Bool.false_eq_true, if_false] at hm
      obtain ⟨hfit, rfl⟩ := emit_ok hm
      have hl : (be32 s ++ be32 m ++ (packNack lost).flatMap pairBytes).length = 8 + 4 * (packNack lost).length := by
        simp only [List.length_append, be32_length, flatMap_pairBytes_length]
      apply readsAs_of _ _ _ _ _ (by rw [c15FmtNack_val]; omega) hFb (fits_len hfit)
      rw [padded_of_aligned (by omega), parseOne_nack, parseNack_body]; rfl
  | remb s br ss =>
    simp only [marshalOne] at hm
    by_cases hc : ss.length > c15RembMaxSsrcs
    · rw [if_pos hc] at hm; cases hm
    · rw [if_neg hc] at hm
      obtain ⟨hfit, rfl⟩ := emit_ok hm
      have h255 : c15RembMaxSsrcs = 255 := c15RembMaxSsrcs_val
      have hl : (rembBody s br ss).length = 16 + 4 * ss.length := by
        simp only [rembBody, rembTag, List.length_append, be32_length, be32s_length, List.length_cons, List.length_nil]
      apply readsAs_of _ _ _ _ _ (by rw [c15FmtApp_val]; omega) hPs (fits_len hfit)
      rw [padded_of_aligned (by omega), parseOne_remb, parseRemb_body s br ss hd (by omega)]; rfl
  | twcc s m b c r f pl =>
    simp only [marshalOne] at hm
    unfold twccEmit at hm
    cases hf : fits (twccPadded (twccBody s m b c r f pl)) with
    | false => rw [hf] at hm; simp at hm
    | true =>
      rw [hf] at hm; simp only [if_true] at hm
      injection hm with hm; subst hm
      have hlen : (twccBody s m b c r f pl).length + 3 < 262144 := by
        have h1 := fits_len hf
        have h2 : (twccBody s m b c r f pl).length ≤ (twccPadded (twccBody s m b c r f pl)).length := by
          unfold twccPadded
          by_cases hz : pad4 (twccBody s m b c r f pl).length = 0
          · simp [hz]
          · simp [hz]
        omega
      unfold ReadsAs
      rw [parseCompound_twccWire _ _ hlen, parseOne_twcc]
      have := parseTwcc_body s m b c r f pl []
      simp only [List.append_nil] at this
      rw [this]; rfl

end RtcModel.C15

namespace RtcModel.C15
open RtcModel.Generated

/-! ### ranges of the property per packet type -/

def BlocksOk (bl : List ReportBlock) : Prop :=
  bl.length ≤ 31 ∧ ∀ b ∈ bl, -8388608 ≤ b.lost ∧ b.lost ≤ 8388607

/-- The field ranges of the property, per RTCP type — explicit, decidable, and no fixed-point
conditions: text is RFC 3629-valid UTF-8 (`utf8Valid`), a REMB bitrate is an 18-bit mantissa times a
power of two, a NACK list is strictly ascending (the order the wire enumerates it; the *set* law
`nack_pack_set` needs no condition at all). The last conjunct of SDES / FIR / TWCC says the body fits
the 16-bit RTCP length field (beyond it the marshaller returns an error). -/
def Rtcp.WF : Rtcp → Prop
  | .sr _ _ _ _ _ _ bl => BlocksOk bl
  | .rr _ bl => BlocksOk bl
  | .sdes cs => cs.length ≤ 31 ∧ (∀ c ∈ cs, ∀ i ∈ c.items, i.ty ≠ 0 ∧ i.text.length ≤ 255 ∧ utf8Valid i.text = true) ∧
      fits (sdesBody [] cs) = true
  | .bye ss r => ss.length ≤ 31 ∧ ∀ x, r = some x → x.length ≤ 255 ∧ utf8Valid x = true
  | .pli _ _ => True
  | .fir _ rq => rq.length ≤ 32766
  | .nack _ _ lost => lost ≠ [] ∧ Asc lost
  | .remb _ br ss => ss.length ≤ 255 ∧ br < 2 ^ 64 ∧ ∃ m e, m < 2 ^ 18 ∧ br = m * 2 ^ e
  | .twcc _ _ _ _ r _ pl => r.toNat < 16777216 ∧ pl.length ≤ 262124

theorem map_canonBlock_of_ok {bl : List ReportBlock} (h : BlocksOk bl) : bl.map canonBlock = bl := by
  have : ∀ b ∈ bl, canonBlock b = b := fun b hb => canonBlock_of_range (h.2 b hb).1 (h.2 b hb).2
  induction bl with
  | nil => rfl
  | cons b bl ih =>
    simp only [List.map_cons]
    rw [this b (List.mem_cons_self ..), ih ⟨by have := h.1; simp at this; omega, fun x hx => h.2 x (List.mem_cons_of_mem _ hx)⟩
      (fun x hx => this x (List.mem_cons_of_mem _ hx))]

theorem dom_of_wf {p : Rtcp} (w : p.WF) : Dom p := by
  cases p with
  | sdes cs => exact fun c hc i hi => (w.2.1 c hc i hi).2.2
  | remb s br ss => exact w.2.1
  | bye ss r => exact fun x hx => (w.2 x hx).2
  | _ => trivial

end RtcModel.C15

namespace RtcModel.C15
open RtcModel.Generated

/-! ### REMB: every value the wire can carry is a fixed point -/

/-- the normalisation loop only strips factors of two that the value really has, when the value is an
18-bit mantissa times a power of two -/
theorem rembNorm_pow : ∀ (e fuel m e0 : Nat), m ≤ 262143 → e ≤ fuel →
    (rembNorm fuel (m * 2 ^ e) e0).1 * 2 ^ ((rembNorm fuel (m * 2 ^ e) e0).2 - e0) = m * 2 ^ e ∧
      e0 ≤ (rembNorm fuel (m * 2 ^ e) e0).2 := by
  intro e
  induction e with
  | zero =>
    intro fuel m e0 hm _
    have hc : c15RembMantissaMax = 262143 := c15RembMantissaMax_val
    cases fuel with
    | zero => simp [rembNorm]
    | succ f =>
      simp only [rembNorm, Nat.pow_zero, Nat.mul_one]
      rw [if_neg (by omega)]
      simp
  | succ e ih =>
    intro fuel m e0 hm hf
    have hc : c15RembMantissaMax = 262143 := c15RembMantissaMax_val
    cases fuel with
    | zero => omega
    | succ f =>
      simp only [rembNorm]
      by_cases hgt : m * 2 ^ (e + 1) > c15RembMantissaMax
      · rw [if_pos hgt]
        have hhalf : m * 2 ^ (e + 1) / 2 = m * 2 ^ e := by
          rw [Nat.pow_succ, ← Nat.mul_assoc, Nat.mul_div_cancel _ (by omega : 0 < 2)]
        rw [hhalf]
        obtain ⟨h1, h2⟩ := ih f m (e0 + 1) hm (by omega)
        refine ⟨?_, by omega⟩
        have : (rembNorm f (m * 2 ^ e) (e0 + 1)).2 - e0 = ((rembNorm f (m * 2 ^ e) (e0 + 1)).2 - (e0 + 1)) + 1 := by omega
        rw [this, Nat.pow_succ, ← Nat.mul_assoc, h1, Nat.pow_succ, Nat.mul_assoc]
      · rw [if_neg hgt]; simp

theorem rembCanon_wire (m e : Nat) (hm : m ≤ 262143) (hv : m * 2 ^ e < 2 ^ 64) : rembCanon (m * 2 ^ e) = m * 2 ^ e := by
  by_cases h0 : m = 0
  · subst h0
    simp [rembCanon, rembNorm, c15RembMantissaMax_val]
  · have he : e ≤ 64 := by
      rcases Nat.lt_or_ge 64 e with hgt | hle
      · have h1 : 2 ^ 64 < 2 ^ e := Nat.pow_lt_pow_right (by omega) hgt
        have h2 : 2 ^ e ≤ m * 2 ^ e := Nat.le_mul_of_pos_left _ (by omega)
        omega
      · exact hle
    obtain ⟨h1, _⟩ := rembNorm_pow e 64 m 0 hm he
    simp only [Nat.sub_zero] at h1
    unfold rembCanon
    rw [h1, Nat.mod_eq_of_lt hv]

/-- the normalisation rounds down -/
theorem rembNorm_le : ∀ (fuel m e0 : Nat),
    (rembNorm fuel m e0).1 * 2 ^ ((rembNorm fuel m e0).2 - e0) ≤ m ∧ e0 ≤ (rembNorm fuel m e0).2 := by
  intro fuel
  induction fuel with
  | zero => intro m e0; simp [rembNorm]
  | succ f ih =>
    intro m e0
    simp only [rembNorm]
    by_cases hgt : m > c15RembMantissaMax
    · rw [if_pos hgt]
      obtain ⟨h1, h2⟩ := ih (m / 2) (e0 + 1)
      refine ⟨?_, by omega⟩
      have : (rembNorm f (m / 2) (e0 + 1)).2 - e0 = ((rembNorm f (m / 2) (e0 + 1)).2 - (e0 + 1)) + 1 := by omega
      rw [this, Nat.pow_succ, ← Nat.mul_assoc]
      have : (rembNorm f (m / 2) (e0 + 1)).1 * 2 ^ ((rembNorm f (m / 2) (e0 + 1)).2 - (e0 + 1)) * 2 ≤ m / 2 * 2 :=
        Nat.mul_le_mul_right 2 h1
      omega
    · rw [if_neg hgt]; simp

/-- **the REMB range, from both sides**: a `u64` bitrate survives the mantissa/exponent encoding exactly
when it is an 18-bit mantissa times a power of two -/
theorem rembCanon_fixed_iff (br : Nat) (hb : br < 2 ^ 64) :
    rembCanon br = br ↔ ∃ m e, m < 2 ^ 18 ∧ br = m * 2 ^ e := by
  constructor
  · intro h
    have hn := rembNorm_spec 64 46 br 0 (by simpa using hb) (by omega)
    have hl := (rembNorm_le 64 br 0).1
    simp only [Nat.sub_zero] at hl
    unfold rembCanon at h
    rw [Nat.mod_eq_of_lt (by omega)] at h
    exact ⟨_, _, by have := hn.1; omega, h.symm⟩
  · rintro ⟨m, e, hm, rfl⟩
    exact rembCanon_wire m e (by omega) hb

/-! ### inside the ranges: marshal succeeds and the canonical form is the packet itself -/

theorem canon_of_wf {p : Rtcp} (w : p.WF) : canon p = p := by
  cases p with
  | sr s m l t pc oc bl => simp only [canon, map_canonBlock_of_ok w]
  | rr s bl => simp only [canon, map_canonBlock_of_ok w]
  | sdes cs => rfl
  | bye ss r =>
    cases r with
    | none => rfl
    | some x =>
      have := w.2 x rfl
      simp only [canon, byeCanonReason, c15ByeMaxReason_eq]
      rw [Nat.min_eq_left this.1, byeCut_full, List.take_length]
  | pli s m => rfl
  | fir s rq => rfl
  | nack s m lost => simp only [canon, unpack_pack_asc lost w.2]
  | remb s br ss =>
    obtain ⟨_, hb, m, e, hm, rfl⟩ := w
    simp only [canon, rembCanon_wire m e (by omega) hb]
  | twcc s m b c r f pl =>
    have : UInt32.ofNat (r.toNat % 16777216) = r := by rw [Nat.mod_eq_of_lt w.1]; simp
    simp only [canon, this]

theorem marshalOne_ok_of_wf {p : Rtcp} (w : p.WF) : ∃ bs, marshalOne p = .ok bs := by
  have hMax : c15RtcpMaxCount = 31 := c15RtcpMaxCount_val
  cases p with
  | sr s m l t pc oc bl =>
    have hc : ¬ bl.length > c15RtcpMaxCount := by have := w.1; omega
    have hf : fits (be32 s ++ be32 m ++ be32 l ++ be32 t ++ be32 pc ++ be32 oc ++ bl.flatMap blockBytes) = true := by
      apply fits_of_len
      have := w.1
      simp only [List.length_append, be32_length, flatMap_blockBytes_length]; omega
    exact ⟨_, by simp only [marshalOne]; rw [if_neg hc, emit_of_fits hf]⟩
  | rr s bl =>
    have hc : ¬ bl.length > c15RtcpMaxCount := by have := w.1; omega
    have hf : fits (be32 s ++ bl.flatMap blockBytes) = true := by
      apply fits_of_len
      have := w.1
      simp only [List.length_append, be32_length, flatMap_blockBytes_length]; omega
    exact ⟨_, by simp only [marshalOne]; rw [if_neg hc, emit_of_fits hf]⟩
  | sdes cs =>
    have h1 : ¬ cs.length > c15RtcpMaxCount := by have := w.1; omega
    have h2 := sdesItemErr_of_ok (fun c hc i hi => ⟨(w.2.1 c hc i hi).1, (w.2.1 c hc i hi).2.1⟩)
    exact ⟨_, by simp only [marshalOne]; rw [if_neg h1, h2]; simp only; rw [emit_of_fits w.2.2]⟩
  | bye ss r =>
    have hc : ¬ ss.length > c15RtcpMaxCount := by have := w.1; omega
    have hf : fits (byeBody ss r) = true := by
      apply fits_of_len
      have := w.1
      have h255 := c15ByeMaxReason_eq
      cases r with
      | none => simp only [byeBody, List.length_append, be32s_length, List.length_nil]; omega
      | some x =>
        have := byeCut_le x (min x.length c15ByeMaxReason)
        simp only [byeBody, List.length_append, be32s_length, List.length_cons, List.length_take]; omega
    exact ⟨_, by simp only [marshalOne]; rw [if_neg hc, emit_of_fits hf]⟩
  | pli s m =>
    exact ⟨_, by simp only [marshalOne]; rw [emit_of_fits (fits_of_len (by simp))]⟩
  | fir s rq =>
    have hf : fits (firBody s rq) = true := by
      apply fits_of_len
      have : rq.length ≤ 32766 := w
      rw [firBody_eq]; simp only [List.length_append, be32_length, flatMap_firEnc_length]; omega
    exact ⟨_, by simp only [marshalOne]; rw [emit_of_fits hf]⟩
  | nack s m lost =>
    have he : lost.isEmpty = false := by
      cases lost with
      | nil => exact absurd rfl w.1
      | cons _ _ => rfl
    have hf : fits (be32 s ++ be32 m ++ (packNack lost).flatMap pairBytes) = true := by
      apply fits_of_len
      have := packNack_count lost
      simp only [List.length_append, be32_length, flatMap_pairBytes_length]; omega
    exact ⟨_, by simp only [marshalOne, he, Bool.false_eq_true, if_false]; rw [emit_of_fits hf]⟩
  | remb s br ss =>
    have hc : ¬ ss.length > c15RembMaxSsrcs := by have := w.1; rw [c15RembMaxSsrcs_val]; omega
    have hf : fits (rembBody s br ss) = true := by
      apply fits_of_len
      have := w.1
      simp only [rembBody, rembTag, List.length_append, be32_length, be32s_length, List.length_cons, List.length_nil]; omega
    exact ⟨_, by simp only [marshalOne]; rw [if_neg hc, emit_of_fits hf]⟩
  | twcc s m b c r f pl =>
    obtain ⟨hr, hp⟩ := w
    have hl : (twccBody s m b c r f pl).length = 16 + pl.length := by simp [twccBody]; omega
    have hf : fits (twccPadded (twccBody s m b c r f pl)) = true := by
      apply fits_of_len
      have h3 := pad4_lt (twccBody s m b c r f pl).length
      have h4 := pad4_aligned (twccBody s m b c r f pl).length
      unfold twccPadded
      by_cases hz : pad4 (twccBody s m b c r f pl).length = 0
      · simp only [hz, if_true]; omega
      · simp only [hz, if_false, List.length_append, List.length_replicate, List.length_cons, List.length_nil]; omega
    exact ⟨_, by simp only [marshalOne, twccEmit]; rw [hf]; rfl⟩

/-! ### exactly which logical packets the marshaller accepts -/

/-- The wire can carry the packet: every count fits its 5- or 8-bit field, every SDES item has a type other
than END and at most 255 bytes of text, the TWCC reference time fits 24 bits, a NACK names at least one
packet, and the body fits the 16-bit length field. (Values that fit but are lossy on the wire — loss counts,
BYE reasons, REMB bitrates — are accepted and canonicalised, see `canon`.) -/
def Encodable : Rtcp → Prop
  | .sr _ _ _ _ _ _ bl => bl.length ≤ 31
  | .rr _ bl => bl.length ≤ 31
  | .sdes cs => cs.length ≤ 31 ∧ (∀ c ∈ cs, ∀ i ∈ c.items, i.ty ≠ 0 ∧ i.text.length ≤ 255) ∧ fits (sdesBody [] cs) = true
  | .bye ss _ => ss.length ≤ 31
  | .pli _ _ => True
  | .fir _ rq => rq.length ≤ 32766
  | .nack _ _ lost => lost ≠ []
  | .remb _ _ ss => ss.length ≤ 255
  | .twcc _ _ _ _ _ _ pl => pl.length ≤ 262124

theorem emit_isOk {f p : Nat} {b : Bytes} : (∃ bs, emit f p b = .ok bs) ↔ fits b = true := by
  constructor
  · rintro ⟨bs, h⟩; exact (emit_ok h).1
  · intro h; exact ⟨_, emit_of_fits h⟩

theorem fits_iff_len (b : Bytes) : fits b = true ↔ b.length ≤ 262140 := by
  constructor
  · intro h; have := fits_len h; have := pad4_aligned b.length
    simp only [fits, decide_eq_true_eq] at h; omega
  · exact fits_of_len

theorem marshalOne_ok_iff (p : Rtcp) : (∃ bs, marshalOne p = .ok bs) ↔ Encodable p := by
  have hMax := c15RtcpMaxCount_eq
  have h255 := c15RembMaxSsrcs_eq
  have hbye := c15ByeMaxReason_eq
  cases p with
  | sr s m l t pc oc bl =>
    simp only [marshalOne, Encodable]
    by_cases hc : bl.length > c15RtcpMaxCount
    · rw [if_pos hc]; exact ⟨(fun ⟨_, h⟩ => by cases h), fun h => by omega⟩
    · rw [if_neg hc, emit_isOk]
      refine ⟨fun _ => by omega, fun _ => fits_of_len ?_⟩
      simp only [List.length_append, be32_length, flatMap_blockBytes_length]; omega
  | rr s bl =>
    simp only [marshalOne, Encodable]
    by_cases hc : bl.length > c15RtcpMaxCount
    · rw [if_pos hc]; exact ⟨(fun ⟨_, h⟩ => by cases h), fun h => by omega⟩
    · rw [if_neg hc, emit_isOk]
      refine ⟨fun _ => by omega, fun _ => fits_of_len ?_⟩
      simp only [List.length_append, be32_length, flatMap_blockBytes_length]; omega
  | sdes cs =>
    simp only [marshalOne, Encodable]
    by_cases hc : cs.length > c15RtcpMaxCount
    · rw [if_pos hc]; exact ⟨(fun ⟨_, h⟩ => by cases h), fun h => by omega⟩
    · rw [if_neg hc]
      cases hie : sdesItemErr cs with
      | some e =>
        simp only
        refine ⟨(fun ⟨_, h⟩ => by cases h), fun h => ?_⟩
        rw [sdesItemErr_of_ok h.2.1] at hie; cases hie
      | none =>
        simp only
        rw [emit_isOk]
        exact ⟨fun h => ⟨by omega, sdesItemErr_none hie, h⟩, fun h => h.2.2⟩
  | bye ss r =>
    simp only [marshalOne, Encodable]
    by_cases hc : ss.length > c15RtcpMaxCount
    · rw [if_pos hc]; exact ⟨(fun ⟨_, h⟩ => by cases h), fun h => by omega⟩
    · rw [if_neg hc, emit_isOk]
      refine ⟨fun _ => by omega, fun _ => fits_of_len ?_⟩
      cases r with
      | none => simp only [byeBody, List.length_append, be32s_length, List.length_nil]; omega
      | some x =>
        have := byeCut_le x (min x.length c15ByeMaxReason)
        simp only [byeBody, List.length_append, be32s_length, List.length_cons, List.length_take]; omega
  | pli s m =>
    simp only [marshalOne, Encodable, emit_isOk, iff_true]
    exact fits_of_len (by simp)
  | fir s rq =>
    simp only [marshalOne, Encodable, emit_isOk, fits_iff_len]
    rw [firBody_eq]; simp only [List.length_append, be32_length, flatMap_firEnc_length]; omega
  | nack s m lost =>
    simp only [marshalOne, Encodable]
    cases lost with
    | nil => simp
    | cons a as =>
      simp only [List.isEmpty_cons, Bool.false_eq_true, if_false, emit_isOk, ne_eq, reduceCtorEq, not_false_eq_true, iff_true]
      apply fits_of_len
      have := packNack_count (a :: as)
      simp only [List.length_append, be32_length, flatMap_pairBytes_length]; omega
  | remb s br ss =>
    simp only [marshalOne, Encodable]
    by_cases hc : ss.length > c15RembMaxSsrcs
    · rw [if_pos hc]; exact ⟨(fun ⟨_, h⟩ => by cases h), fun h => by omega⟩
    · rw [if_neg hc, emit_isOk]
      refine ⟨fun _ => by omega, fun _ => fits_of_len ?_⟩
      simp only [rembBody, rembTag, List.length_append, be32_length, be32s_length, List.length_cons, List.length_nil]; omega
  | twcc s m b c r f pl =>
    simp only [marshalOne, Encodable]
    have hl : (twccBody s m b c r f pl).length = 16 + pl.length := by simp [twccBody]; omega
    · have hpl : (twccPadded (twccBody s m b c r f pl)).length = 16 + pl.length + pad4 (16 + pl.length) := by
        have hlt := pad4_lt (16 + pl.length)
        unfold twccPadded
        rw [hl]
        by_cases hz : pad4 (16 + pl.length) = 0
        · simp only [hz, if_true, hl, Nat.add_zero]
        · simp only [hz, if_false, List.length_append, List.length_replicate, List.length_cons, List.length_nil, hl]
          omega
      have h3 := pad4_lt (16 + pl.length)
      have h4 := pad4_aligned (16 + pl.length)
      unfold twccEmit
      constructor
      · rintro ⟨bs, h⟩
        cases hf : fits (twccPadded (twccBody s m b c r f pl)) with
        | false => rw [hf] at h; simp at h
        | true => rw [fits_iff_len, hpl] at hf; omega
      · intro hp
        have hf : fits (twccPadded (twccBody s m b c r f pl)) = true := by rw [fits_iff_len, hpl]; omega
        exact ⟨_, by rw [hf]; rfl⟩

end RtcModel.C15
