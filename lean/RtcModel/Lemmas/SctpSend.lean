/-
Helper lemmas for C13: codec round trips, CRC composition, batching, the budget loop.
-/
import RtcModel.SctpSend

namespace RtcModel.Sctp
open RtcModel.Generated

theorem u32_eq_zero' (x : UInt32) : x = 0 ↔ x.toNat = 0 := by
  rw [← UInt32.toNat_inj]; rfl

/-! ### byte codecs -/

theorem rd32_be32 (x : UInt32) : rd32 (UInt8.ofNat (x.toNat / 16777216)) (UInt8.ofNat (x.toNat / 65536 % 256))
    (UInt8.ofNat (x.toNat / 256 % 256)) (UInt8.ofNat (x.toNat % 256)) = x := by
  simp only [rd32]
  apply UInt32.toNat_inj.mp
  have := x.toNat_lt
  simp [UInt32.toNat_ofNat]
  omega

theorem rd32_le32 (x : UInt32) : rd32 (UInt8.ofNat (x.toNat / 16777216)) (UInt8.ofNat (x.toNat / 65536 % 256))
    (UInt8.ofNat (x.toNat / 256 % 256)) (UInt8.ofNat (x.toNat % 256)) = x := rd32_be32 x

theorem rd16_be16 (x : UInt16) : rd16 (UInt8.ofNat (x.toNat / 256)) (UInt8.ofNat (x.toNat % 256)) = x := by
  simp only [rd16]
  apply UInt16.toNat_inj.mp
  have := x.toNat_lt
  simp [UInt16.toNat_ofNat]
  omega

/-! ### CRC composition: `append(append(crc(a), b), c) = crc(a ++ b ++ c)` -/

theorem u32_xor_cancel (x m : UInt32) : x ^^^ m ^^^ m = x := by
  rw [UInt32.xor_assoc, UInt32.xor_self, UInt32.xor_zero]

theorem crc32cAppend_append (crc : UInt32) (a b : Bytes) :
    crc32cAppend (crc32cAppend crc a) b = crc32cAppend crc (a ++ b) := by
  simp only [crc32cAppend, u32_xor_cancel, List.foldl_append]

theorem crc32c_append (a b : Bytes) : crc32cAppend (crc32c a) b = crc32c (a ++ b) := by
  simp only [crc32c, crc32cAppend_append]

/-! ### the budget loop -/

def paddedSum (l : List OChunk) : Nat := (l.map (fun c => paddedSize c.payload.length)).sum

theorem popBudget_overshoot : ∀ (q : List OChunk) (budget cnt : Nat),
    (popBudget q budget cnt).1 = [] ∨ paddedSum (popBudget q budget cnt).1.dropLast < budget := by
  intro q
  induction q with
  | nil => intro b c; left; rfl
  | cons x rest ih =>
    intro budget cnt
    unfold popBudget
    by_cases h : (budget > 0 && cnt < 1000) = true
    · simp only [h, if_true]
      right
      have hb : budget > 0 := by
        have := h; simp at this; exact this.1
      cases ih (budget - paddedSize x.payload.length) (cnt + 1) with
      | inl h0 => rw [h0]; simp [paddedSum]; exact hb
      | inr h1 =>
        cases hne : (popBudget rest (budget - paddedSize x.payload.length) (cnt + 1)).1 with
        | nil => simp [paddedSum]; exact hb
        | cons y ys =>
          rw [hne] at h1
          rw [List.dropLast_cons_of_ne_nil (by simp)]
          simp only [paddedSum, List.map_cons, List.sum_cons] at h1 ⊢
          omega
    · have h' : (budget > 0 && cnt < 1000) = false := Bool.eq_false_iff.mpr h
      simp only [h', Bool.false_eq_true, if_false]
      left; trivial

theorem popBudget_zero (q : List OChunk) (cnt : Nat) : (popBudget q 0 cnt).1 = [] := by
  cases q with
  | nil => rfl
  | cons x rest => simp [popBudget]

theorem popBudget_split : ∀ (q : List OChunk) (budget cnt : Nat),
    (popBudget q budget cnt).1 ++ (popBudget q budget cnt).2 = q := by
  intro q
  induction q with
  | nil => intro b c; rfl
  | cons x rest ih =>
    intro budget cnt
    unfold popBudget
    by_cases h : (budget > 0 && cnt < 1000) = true
    · simp only [h, if_true, List.cons_append, ih]
    · have h' : (budget > 0 && cnt < 1000) = false := Bool.eq_false_iff.mpr h
      simp only [h', Bool.false_eq_true, if_false, List.nil_append]

/-! ### batching -/

def chunksLen (p : List Bytes) : Nat := (p.map List.length).sum

theorem batchGo_le : ∀ (chunks cur : List Bytes) (curLen : Nat),
    (∀ c ∈ chunks, sctpCommonHdr + c.length ≤ sctpMaxPacket) →
    curLen = sctpCommonHdr + chunksLen cur → curLen ≤ sctpMaxPacket →
    ∀ p ∈ batchGo chunks cur curLen, sctpCommonHdr + chunksLen p ≤ sctpMaxPacket := by
  intro chunks
  induction chunks with
  | nil =>
    intro cur curLen _ hc hl p hp
    simp only [batchGo] at hp
    split at hp
    · simp at hp
    · simp at hp; subst hp; omega
  | cons c rest ih =>
    intro cur curLen hall hc hl p hp
    have hcl := hall c (by simp)
    have hrest : ∀ c' ∈ rest, sctpCommonHdr + c'.length ≤ sctpMaxPacket := fun c' h => hall c' (by simp [h])
    simp only [batchGo] at hp
    split at hp
    · simp only [List.mem_cons] at hp
      cases hp with
      | inl h => subst h; omega
      | inr h => exact ih [c] (sctpCommonHdr + c.length) hrest (by simp [chunksLen]) hcl p h
    · next hcond =>
      have hfit : curLen + c.length ≤ sctpMaxPacket := by
        simp only [Bool.and_eq_true, Bool.not_eq_true', decide_eq_true_eq, not_and, Nat.not_lt] at hcond
        by_cases hce : cur.isEmpty = true
        · have : cur = [] := List.isEmpty_iff.mp hce
          subst this
          simp only [chunksLen, List.map_nil, List.sum_nil, Nat.add_zero] at hc
          omega
        · exact Nat.le_of_not_lt (by
            intro hgt
            have := hcond (by simpa using hce)
            omega)
      exact ih (cur ++ [c]) (curLen + c.length) hrest (by simp [chunksLen, hc]; omega) hfit p hp

theorem batchGo_flatten : ∀ (chunks cur : List Bytes) (curLen : Nat),
    (batchGo chunks cur curLen).flatten = cur ++ chunks := by
  intro chunks
  induction chunks with
  | nil => intro cur _; simp only [batchGo]; split <;> simp_all
  | cons c rest ih =>
    intro cur curLen
    simp only [batchGo]
    split
    · simp [ih]
    · simp [ih]

/-! ### sizes -/

theorem encData_length (c : DChunk) :
    (encData c).length = sctpChunkHdr + sctpDataHdr + c.data.length + pad4 (4 + (sctpDataHdr + c.data.length)) := by
  simp [encData, be16, be32]
  omega

theorem fragGo_payload_le (mps : Nat) (base : UInt8) : ∀ (fuel : Nat) (first : Bool) (rest : Bytes),
    ∀ f ∈ fragGo mps base fuel first rest, f.2.length ≤ mps := by
  intro fuel
  induction fuel with
  | zero => intro first rest f hf; simp [fragGo] at hf
  | succ n ih =>
    intro first rest f hf
    unfold fragGo at hf
    split at hf
    · simp at hf
    · simp only [List.mem_cons] at hf
      cases hf with
      | inl h => subst h; simp [List.length_take]; omega
      | inr h => exact ih false _ f h

theorem fragMsg_payload_le (mps : Nat) (base : UInt8) (data : Bytes) :
    ∀ f ∈ fragMsg mps base data, f.2.length ≤ mps := by
  intro f hf
  unfold fragMsg at hf
  split at hf
  · simp at hf; subst hf; simp
  · exact fragGo_payload_le mps base _ _ _ f hf

/-! ### `apply_sack_to_sent_queue` only edits records in place -/

theorem gapAckAt_tsns (now : Nat) (t : UInt32) : ∀ (q : List SRec) (o : SackOutcome),
    (gapAckAt now t q o).1.map (·.tsn) = q.map (·.tsn) := by
  intro q
  induction q with
  | nil => intro o; rfl
  | cons r rest ih =>
    intro o
    unfold gapAckAt
    split
    · simp only [gapAckRec]; split <;> simp
    · simp [ih]

theorem gapBlockApply_tsns (now : Nat) (cum : UInt32) (g : UInt16 × UInt16) (st : List SRec × SackOutcome) :
    (gapBlockApply now cum st g).1.map (·.tsn) = st.1.map (·.tsn) := by
  unfold gapBlockApply
  simp only []
  generalize gapSelect st.1 (cum + g.1.toUInt32) (cum + g.2.toUInt32) = sel
  induction sel generalizing st with
  | nil => rfl
  | cons t ts ih => simp only [List.foldl_cons]; rw [ih]; exact gapAckAt_tsns now t st.1 st.2

theorem missingPass_tsns (now : Nat) (cm : Bool) (mx : Nat) (mr : UInt32) : ∀ (q : List SRec) (o : SackOutcome),
    (missingPass now cm mx mr q o).1.map (·.tsn) = q.map (·.tsn) := by
  intro q
  induction q with
  | nil => intro o; rfl
  | cons r rest ih =>
    intro o
    simp only [missingPass, List.map_cons, ih]
    congr 1
    simp only [missingRec]
    repeat' split
    all_goals rfl



/-! ### the serially oldest outstanding TSN -/

theorem serialMin_spec (cum : UInt32) : ∀ (q : List SRec), q ≠ [] →
    ∃ lo, serialMin cum q = some lo ∧ lo ∈ q ∧ ∀ r ∈ q, i32Key (lo.tsn - cum) ≤ i32Key (r.tsn - cum) := by
  intro q
  induction q with
  | nil => intro h; exact absurd rfl h
  | cons r rest ih =>
    intro _
    by_cases hr : rest = []
    · subst hr
      exact ⟨r, by simp [serialMin], by simp, by intro x hx; simp at hx; subst hx; exact Nat.le_refl _⟩
    · obtain ⟨m, hm, hmem, hle⟩ := ih hr
      simp only [serialMin, hm]
      by_cases hlt : i32Key (m.tsn - cum) < i32Key (r.tsn - cum)
      · refine ⟨m, by simp [hlt], by simp [hmem], ?_⟩
        intro x hx
        simp only [List.mem_cons] at hx
        cases hx with
        | inl e => subst e; omega
        | inr e => exact hle x e
      · refine ⟨r, by simp [hlt], by simp, ?_⟩
        intro x hx
        simp only [List.mem_cons] at hx
        cases hx with
        | inl e => subst e; exact Nat.le_refl _
        | inr e => have := hle x e; omega

theorem i32NonPos_iff_key (x : UInt32) : i32NonPos x = true ↔ i32Key x ≤ 2147483648 := by
  have hx := x.toNat_lt
  have hk : i32Key x = (x.toNat + 2147483648) % 4294967296 := by
    simp [i32Key, UInt32.toNat_add]
  rw [hk]
  simp only [i32NonPos, i32Pos, Bool.not_eq_true', Bool.and_eq_false_iff, bne_eq_false_iff_eq, decide_eq_false_iff_not]
  constructor
  · intro h
    cases h with
    | inl h0 => have := (u32_eq_zero' x).mp h0; omega
    | inr h1 =>
      have : ¬ x.toNat < 2147483648 := by
        intro hlt; exact h1 (UInt32.lt_iff_toNat_lt.mpr (by simpa using hlt))
      omega
  · intro h
    by_cases h0 : x.toNat = 0
    · left; exact (u32_eq_zero' x).mpr h0
    · right
      intro hlt
      have := UInt32.lt_iff_toNat_lt.mp hlt
      simp at this
      omega

/-- `build_gap_ack_blocks_from_map` never returns more than `MAX_GAP_ACK_BLOCKS` blocks -/
theorem gapLoop_length (cum : UInt32) : ∀ (rest : List UInt32) (cur : Option (UInt32 × UInt32)) (blocks : List (UInt16 × UInt16)),
    blocks.length < sctpGapBlocksMax → (gapLoop cum rest cur blocks).1.length ≤ sctpGapBlocksMax := by
  intro rest
  induction rest with
  | nil => intro cur blocks h; simp only [gapLoop]; omega
  | cons t rest ih =>
    intro cur blocks h
    have hp : ∀ c, (pushBlock cum blocks c).length ≤ blocks.length + 1 := by
      intro c; simp only [pushBlock]; split <;> simp
    unfold gapLoop
    split
    · exact ih cur blocks h
    · cases cur with
      | none =>
        simp only []
        split
        · simp only [] at *; omega
        · exact ih _ _ h
      | some se =>
        obtain ⟨st, en⟩ := se
        simp only []
        split
        · split
          · simp only [] at *; omega
          · exact ih _ _ h
        · split
          · have := hp (st, en); simp only [] at *; omega
          · next hlt => exact ih _ _ (by have h' := hlt; simp only [ge_iff_le, Nat.not_le] at h'; exact h')


theorem applySack_nil (cum : UInt32) (gaps : List (UInt16 × UInt16)) (now : Nat) (cm : Bool) (mx : Nat) :
    (applySack [] cum gaps now cm mx).1 = [] := by
  have hg : ∀ (gs : List (UInt16 × UInt16)) (o : SackOutcome), (gs.foldl (gapBlockApply now cum) ([], o)).1 = [] := by
    intro gs
    induction gs with
    | nil => intro o; rfl
    | cons g rest ih =>
      intro o
      have : gapBlockApply now cum ([], o) g = ([], o) := by
        simp [gapBlockApply, gapSelect]
      simp only [List.foldl_cons, this]; exact ih o
  simp only [applySack, lateSack, serialMin, Bool.false_eq_true, if_false, List.filter_nil, List.foldl_nil]
  have := hg gaps { maxReported := maxReportedOf cum gaps }
  generalize gaps.foldl (gapBlockApply now cum) ([], _) = st at this ⊢
  obtain ⟨q, o⟩ := st
  simp only at this
  subst this
  simp [missingPass]


/-- a SACK that covers the first record of the queue and passes the late-SACK filter shortens the queue -/
theorem covered_head_leaves (r0 : SRec) (rest : List SRec) (cum : UInt32) (gaps : List (UInt16 × UInt16))
    (now : Nat) (cm : Bool) (mx : Nat) (hcov : i32NonPos (r0.tsn - cum) = true) (hlate : lateSack (r0 :: rest) cum gaps = false) :
    (applySack (r0 :: rest) cum gaps now cm mx).1.length < (r0 :: rest).length := by
  simp only [applySack, hlate, Bool.false_eq_true, if_false]
  have h2 : ∀ (gs : List (UInt16 × UInt16)) (st : List SRec × SackOutcome),
      (gs.foldl (gapBlockApply now cum) st).1.map (·.tsn) = st.1.map (·.tsn) := by
    intro gs
    induction gs with
    | nil => intro st; rfl
    | cons g rest ih => intro st; simp only [List.foldl_cons]; rw [ih]; exact gapBlockApply_tsns now cum g st
  have hlen := congrArg List.length (missingPass_tsns now cm mx (maxReportedOf cum gaps)
    (gaps.foldl (gapBlockApply now cum) ((r0 :: rest).filter (fun r => !i32NonPos (r.tsn - cum)),
      ((r0 :: rest).filter (fun r => i32NonPos (r.tsn - cum))).foldl (cumAckRec now) { maxReported := maxReportedOf cum gaps })).1
    (gaps.foldl (gapBlockApply now cum) ((r0 :: rest).filter (fun r => !i32NonPos (r.tsn - cum)),
      ((r0 :: rest).filter (fun r => i32NonPos (r.tsn - cum))).foldl (cumAckRec now) { maxReported := maxReportedOf cum gaps })).2)
  have hlen2 := congrArg List.length (h2 gaps ((r0 :: rest).filter (fun r => !i32NonPos (r.tsn - cum)),
      ((r0 :: rest).filter (fun r => i32NonPos (r.tsn - cum))).foldl (cumAckRec now) { maxReported := maxReportedOf cum gaps }))
  simp only [List.length_map] at hlen hlen2
  rw [hlen, hlen2]
  apply List.length_filter_lt_length_iff_exists.mpr
  exact ⟨r0, by simp, by simp [hcov]⟩


theorem t3Mark_length (now mx : Nat) : ∀ (q : List SRec) (n : Nat), (t3Mark now mx q n).length = q.length := by
  intro q
  induction q with
  | nil => intro n; rfl
  | cons r rest ih =>
    intro n
    unfold t3Mark
    split
    · simp only []
      split
      · simp [ih]
      · split <;> simp [ih]
    · simp [ih]


/-- an overtaken SACK (cumulative TSN serially behind the newest one seen) leaves `peer_rwnd` alone
(fix 5cfc04a) -/
theorem overtaken_sack_keeps_window (s : Tx) (h : SackHist) (cum : UInt32) (arwnd : Nat)
    (gaps : List (UInt16 × UInt16)) (now mx : Nat) (hold : tsnGt h.peerCumAck cum = true) :
    (handleSackTx s h cum arwnd gaps now mx).1.peerRwnd = s.peerRwnd := by
  simp [handleSackTx, hold, transmit]


end RtcModel.Sctp
