//! C14 — SRTP-mandatory modes never send or accept cleartext media.
//! Drives real `RtpTransport`s (a source and two bridge targets) whose `IceConn`s point at loopback
//! capture sockets; every captured datagram is classified by authenticating it under an independent
//! reference SRTP context (webrtc-srtp); every delivery to a listener / observer / RTCP listener is
//! recorded.  Writes op lines for the Lean model `RtcModel.Gate` and evaluates the property's own
//! oracle on the implementation.
use crate::{Args, Rng, Run};
use bytes::Bytes;
use parking_lot::Mutex;
use rustrtc::peer_connection::RtpObserver;
use rustrtc::rtp::{Goodbye, ReceiverReport, ReportBlock, RtcpPacket, RtpHeader, RtpPacket};
use rustrtc::srtp::{SrtpKeyingMaterial, SrtpProfile, SrtpSession};
use rustrtc::transports::PacketReceiver;
use rustrtc::transports::ice::IceSocketWrapper;
use rustrtc::transports::ice::conn::IceConn;
use rustrtc::transports::rtp::{RtpRewriteBridgeOptions, RtpRewriteRule, RtpTransport};
use std::collections::{HashMap, HashSet};
use std::net::SocketAddr;
use std::sync::Arc;
use tokio::sync::{mpsc, watch};
use webrtc_srtp::context::Context;
use webrtc_srtp::protection_profile::ProtectionProfile;

// ---------------------------------------------------------------------------------------------
// loopback capture network (shared with C19's bridge harness)

pub mod net {
    use super::*;

    /// One sending UDP socket shared by all `IceConn`s of a case and one capture socket per
    /// connection (the `IceConn`'s remote address).  Everything is sent from the calling thread.
    pub struct Net {
        pub send: Arc<tokio::net::UdpSocket>,
        pub caps: Vec<std::net::UdpSocket>,
        fence: std::net::UdpSocket,
        fence_no: std::cell::Cell<u32>,
        _tx: watch::Sender<Option<IceSocketWrapper>>,
        rx: watch::Receiver<Option<IceSocketWrapper>>,
        pub late: std::cell::Cell<u64>,
    }

    const FENCE_MAGIC: &[u8; 4] = b"\0FNC";

    impl Net {
        pub async fn new(n: usize) -> Net {
            let send = Arc::new(tokio::net::UdpSocket::bind("127.0.0.1:0").await.unwrap());
            send.writable().await.unwrap();
            let caps = (0..n)
                .map(|_| {
                    let s = std::net::UdpSocket::bind("127.0.0.1:0").unwrap();
                    s.set_nonblocking(true).unwrap();
                    s
                })
                .collect();
            let fence = std::net::UdpSocket::bind("127.0.0.1:0").unwrap();
            let (tx, rx) = watch::channel(Some(IceSocketWrapper::Udp(send.clone())));
            Net { send, caps, fence, fence_no: std::cell::Cell::new(0), _tx: tx, rx, late: std::cell::Cell::new(0) }
        }
        pub fn addr(&self, i: usize) -> SocketAddr { self.caps[i].local_addr().unwrap() }
        /// a fresh `IceConn` whose selected socket is the shared sender and whose remote is capture socket `i`
        pub fn conn(&self, i: usize) -> Arc<IceConn> { IceConn::new(self.rx.clone(), self.addr(i), None) }
        /// datagrams currently queued on capture socket `i` without waiting (used before an op:
        /// anything found there arrived late and makes the case unstable)
        pub fn poll(&self, i: usize) -> Vec<Vec<u8>> {
            let mut out = vec![];
            let mut buf = [0u8; 2048];
            while let Ok((n, _)) = self.caps[i].recv_from(&mut buf) {
                if &buf[..n.min(4)] != FENCE_MAGIC { out.push(buf[..n].to_vec()); }
            }
            out
        }
        /// all datagrams sent to capture socket `i` so far: a fence datagram is sent after the
        /// operation and the socket is read until the fence arrives
        pub fn drain(&self, i: usize) -> Vec<Vec<u8>> {
            let no = self.fence_no.get().wrapping_add(1);
            self.fence_no.set(no);
            let mut f = FENCE_MAGIC.to_vec();
            f.extend_from_slice(&no.to_be_bytes());
            self.fence.send_to(&f, self.addr(i)).unwrap();
            let mut out = vec![];
            let mut buf = [0u8; 2048];
            let t0 = std::time::Instant::now();
            loop {
                match self.caps[i].recv_from(&mut buf) {
                    Ok((n, _)) => {
                        if n == 8 && &buf[..4] == FENCE_MAGIC {
                            if buf[4..8] == no.to_be_bytes() { break; }
                        } else { out.push(buf[..n].to_vec()); }
                    }
                    Err(_) => {
                        if t0.elapsed().as_secs() > 5 { panic!("capture fence lost"); }
                        std::thread::yield_now();
                    }
                }
            }
            out.extend(self.poll(i));
            out
        }
    }
}
use net::Net;

// ---------------------------------------------------------------------------------------------
// keys and reference contexts

/// key set `k`, direction `dir` (0 = the transport's tx keys, 1 = its rx keys)
pub fn keyset(k: u32, dir: u8) -> (Vec<u8>, Vec<u8>) {
    let key = (0..16u32).map(|i| (k.wrapping_mul(37) + dir as u32 * 101 + i * 7 + 1) as u8).collect();
    let salt = (0..14u32).map(|i| (k.wrapping_mul(53) + dir as u32 * 59 + i * 11 + 3) as u8).collect();
    (key, salt)
}
fn session(k: u32) -> SrtpSession {
    let (tk, ts) = keyset(k, 0);
    let (rk, rs) = keyset(k, 1);
    SrtpSession::new(SrtpProfile::Aes128Sha1_80, SrtpKeyingMaterial::new(tk, ts), SrtpKeyingMaterial::new(rk, rs)).unwrap()
}
fn ref_ctx(k: u32, dir: u8) -> Context {
    let (key, salt) = keyset(k, dir);
    Context::new(&key, &salt, ProtectionProfile::Aes128CmHmacSha1_80, None, None).unwrap()
}
/// Independent authenticity check written from RFC 3711 (§4.3 key derivation with AES-CM, labels
/// 0x01 = SRTP auth key, 0x04 = SRTCP auth key; §4.2 HMAC-SHA1 over the packet (‖ ROC for SRTP),
/// 80-bit tag).  webrtc-srtp is NOT used for this decision: its `decrypt_rtcp` returns Ok without
/// verifying the tag when the E bit is clear.
pub struct RefAuth { rtp: Vec<u8>, rtcp: Vec<u8> }
impl RefAuth {
    pub fn new(k: u32, dir: u8) -> RefAuth {
        use ctr::cipher::{KeyIvInit, StreamCipher};
        let (key, salt) = keyset(k, dir);
        let kdf = |label: u8| {
            let mut iv = [0u8; 16];
            iv[..14].copy_from_slice(&salt);
            iv[7] ^= label;
            let mut out = vec![0u8; 20];
            let mut c = ctr::Ctr128BE::<aes::Aes128>::new_from_slices(&key, &iv).unwrap();
            c.apply_keystream(&mut out);
            out
        };
        RefAuth { rtp: kdf(0x01), rtcp: kdf(0x04) }
    }
    fn tag(key: &[u8], parts: &[&[u8]]) -> Vec<u8> {
        use hmac::Mac;
        let mut m = <hmac::Hmac<sha1::Sha1> as hmac::digest::KeyInit>::new_from_slice(key).unwrap();
        for p in parts { m.update(p); }
        m.finalize().into_bytes()[..10].to_vec()
    }
    /// SRTP packet (ROC 0) carries a valid 80-bit tag
    pub fn rtp_ok(&self, b: &[u8]) -> bool {
        b.len() >= 22 && Self::tag(&self.rtp, &[&b[..b.len() - 10], &[0, 0, 0, 0]]) == b[b.len() - 10..]
    }
    /// SRTCP packet carries a valid 80-bit tag and has the E (encrypted) bit set
    pub fn rtcp_ok(&self, b: &[u8]) -> bool {
        b.len() >= 22 && b[b.len() - 14] & 0x80 != 0 && Self::tag(&self.rtcp, &[&b[..b.len() - 10]]) == b[b.len() - 10..]
    }
}

/// key ids a transport `t` may be given: 10t, 10t+1 (so the owner of a protected datagram is key/10)
pub const KEYS: [u32; 6] = [0, 1, 10, 11, 20, 21];
pub const NT: usize = 3;

// ---------------------------------------------------------------------------------------------
// ops

#[derive(Clone, Debug, PartialEq)]
pub enum Wire { Clear, Garbage, Prot(u32, bool) }

#[derive(Clone, Debug, PartialEq)]
pub enum Op {
    Keys(usize, u32),
    SendRtp(usize),
    SendRaw(usize, bool),
    SendRtcp(usize),
    SyncBye(usize),
    RecvRtp(usize, Wire, bool),
    RecvRtcp(usize, Wire),
    Bridge(usize, usize, Option<usize>),
    ClearBridge(usize),
    Close(usize),
}
impl Op {
    fn kind(&self) -> &'static str {
        match self {
            Op::Keys(..) => "install_keys", Op::SendRtp(_) => "send_rtp", Op::SendRaw(..) => "send_raw",
            Op::SendRtcp(_) => "send_rtcp", Op::SyncBye(_) => "send_rtcp_sync", Op::RecvRtp(..) => "recv_rtp",
            Op::RecvRtcp(..) => "recv_rtcp", Op::Bridge(..) => "bridge", Op::ClearBridge(_) => "clear_bridge",
            Op::Close(_) => "close",
        }
    }
}

#[derive(Clone, Debug)]
pub struct Cfg { pub req: [bool; NT], pub obs: [bool; NT], pub lis: [bool; NT], pub rl: [bool; NT] }
impl Cfg {
    fn text(&self) -> String {
        let b = |x: bool| if x { '1' } else { '0' };
        let mut s = String::from("cfg");
        for t in 0..NT { s.push(','); s.push(b(self.req[t])); s.push(b(self.obs[t])); s.push(b(self.lis[t])); s.push(b(self.rl[t])); }
        s
    }
}

const VIDEO_PT: u8 = 97;
const AUDIO_PT: u8 = 96;

struct ObsRec { log: Mutex<Vec<(bool, Vec<u8>)>> } // (ingress?, payload)
impl RtpObserver for ObsRec {
    fn on_ingress(&self, p: &RtpPacket, _a: SocketAddr) { self.log.lock().push((true, p.payload.to_vec())); }
    fn on_egress(&self, p: &RtpPacket, _a: SocketAddr) { self.log.lock().push((false, p.payload.to_vec())); }
}

struct Sys {
    tr: Vec<Arc<RtpTransport>>,
    obs: Vec<Arc<ObsRec>>,
    lis: Vec<Option<mpsc::Receiver<(RtpPacket, SocketAddr)>>>,
    rl: Vec<Option<mpsc::Receiver<Vec<RtcpPacket>>>>,
    enc: HashMap<u32, Context>,
    auth: HashMap<u32, RefAuth>,
    seq: u16,
    n: u32,
}

fn build(net: &Net, cfg: &Cfg) -> Sys {
    let mut sys = Sys { tr: vec![], obs: vec![], lis: vec![], rl: vec![], enc: HashMap::new(), auth: HashMap::new(), seq: 0, n: 0 };
    for t in 0..NT {
        let tr = Arc::new(RtpTransport::new(net.conn(t), cfg.req[t]));
        let o = Arc::new(ObsRec { log: Mutex::new(vec![]) });
        if cfg.obs[t] { tr.add_observer(o.clone()); }
        if cfg.lis[t] {
            let (tx, rx) = mpsc::channel(64);
            tr.register_provisional_listener(tx);
            sys.lis.push(Some(rx));
        } else { sys.lis.push(None); }
        if cfg.rl[t] {
            let (tx, rx) = mpsc::channel(64);
            tr.register_rtcp_listener(tx);
            sys.rl.push(Some(rx));
        } else { sys.rl.push(None); }
        sys.tr.push(tr);
        sys.obs.push(o);
    }
    sys
}

fn plain_rtp(t: usize, seq: u16, n: u32, video: bool) -> (RtpPacket, Vec<u8>) {
    let mut payload = b"INJ".to_vec();
    payload.push(t as u8);
    payload.extend_from_slice(&n.to_be_bytes());
    payload.extend_from_slice(&[0x55; 8]);
    let h = RtpHeader::new(if video { VIDEO_PT } else { AUDIO_PT }, seq, 1000 + 160 * seq as u32, 0x2000 + t as u32);
    (RtpPacket::new(h, payload.clone()), payload)
}
fn local_rtp(t: usize, seq: u16, n: u32) -> RtpPacket {
    let mut payload = b"LOC".to_vec();
    payload.push(t as u8);
    payload.extend_from_slice(&n.to_be_bytes());
    payload.extend_from_slice(&[0xaa; 8]);
    RtpPacket::new(RtpHeader::new(AUDIO_PT, seq, 0x4000_0000 + 160 * seq as u32, 0x1000 + t as u32), payload)
}
fn plain_rtcp(t: usize, n: u32) -> Vec<RtcpPacket> {
    vec![RtcpPacket::ReceiverReport(ReceiverReport {
        sender_ssrc: 0x2000 + t as u32,
        report_blocks: vec![ReportBlock { ssrc: 0x1000 + t as u32, fraction_lost: 0, packets_lost: 0,
            highest_sequence: n, jitter: 7, last_sender_report: 0, delay_since_last_sender_report: 0 }],
    })]
}

/// classify a captured datagram: media kind and how it was produced (authenticates under which key set)
fn classify(sys: &mut Sys, b: &[u8]) -> (char, String, Option<u32>) {
    let rtcp = rustrtc::rtp::is_rtcp(b);
    for k in KEYS {
        let ra = sys.auth.entry(k).or_insert_with(|| RefAuth::new(k, 0));
        // authentic under key set k AND the reference implementation decrypts it
        let ok = if rtcp { ra.rtcp_ok(b) && ref_ctx(k, 0).decrypt_rtcp(b).is_ok() } else { ra.rtp_ok(b) && ref_ctx(k, 0).decrypt_rtp(b).is_ok() };
        if ok { return (if rtcp { 'c' } else { 'r' }, format!("P{}.{}", k / 10, k), Some(k)); }
    }
    (if rtcp { 'c' } else { 'r' }, "C".into(), None)
}

pub struct Outcome { pub events: Vec<String>, pub fails: Vec<(String, String)>, pub unstable: bool }

/// Execute a case on the real transports; returns per-op event text and the property-oracle failures.
pub async fn exec(net: &Net, cfg: &Cfg, ops: &[Op]) -> (Outcome, Vec<String>) {
    let mut sys = build(net, cfg);
    let mut installed: [Option<u32>; NT] = [None; NT]; // harness' own bookkeeping of "the session keys"
    let mut events = vec![];
    let mut fails: Vec<(String, String)> = vec![];
    let mut unstable = false;
    let mut mb = Vec::new();
    let src_addr: SocketAddr = "127.0.0.1:4000".parse().unwrap();
    let mut op_texts = vec![];
    for c in 0..NT { let _ = net.poll(c); }
    for (i, op) in ops.iter().enumerate() {
        for c in 0..NT { if !net.poll(c).is_empty() { unstable = true; } }
        let mut ret: Option<bool> = None;
        // (transport the packet came in on, wire, plaintext payload / rtcp) for recv ops
        let mut inj: Option<(usize, Wire, Vec<u8>)> = None;
        let mut inj_rtcp: Option<Vec<RtcpPacket>> = None;
        let text;
        match op {
            Op::Keys(t, k) => { sys.tr[*t].start_srtp(session(*k)); installed[*t] = Some(*k); text = format!("k,{t},{k}"); }
            Op::SendRtp(t) => {
                sys.seq = sys.seq.wrapping_add(1); sys.n += 1;
                ret = Some(sys.tr[*t].send_rtp(local_rtp(*t, sys.seq, sys.n)).await.is_ok());
                text = format!("sr,{t}");
            }
            Op::SendRaw(t, parses) => {
                sys.seq = sys.seq.wrapping_add(1); sys.n += 1;
                let b = if *parses { local_rtp(*t, sys.seq, sys.n).marshal().unwrap() } else { vec![0x80, AUDIO_PT, 0, 1] };
                ret = Some(sys.tr[*t].send(&b).await.is_ok());
                text = format!("sw,{t},{}", *parses as u8);
            }
            Op::SendRtcp(t) => {
                ret = Some(sys.tr[*t].send_rtcp(&[RtcpPacket::ReceiverReport(ReceiverReport { sender_ssrc: 0x1000 + *t as u32, report_blocks: vec![] })]).await.is_ok());
                text = format!("sc,{t}");
            }
            Op::SyncBye(t) => {
                sys.tr[*t].send_rtcp_sync(&[RtcpPacket::Goodbye(Goodbye { sources: vec![0x1000 + *t as u32], reason: Some("PeerConnection closed".into()) })]);
                text = format!("sb,{t}");
            }
            Op::Close(t) => {
                // PeerConnectionInner::close: clear_listeners, then the BYE
                sys.tr[*t].clear_listeners();
                sys.tr[*t].send_rtcp_sync(&[RtcpPacket::Goodbye(Goodbye { sources: vec![0x1000 + *t as u32], reason: Some("PeerConnection closed".into()) })]);
                text = format!("cl,{t}");
            }
            Op::Bridge(t, g, v) => {
                let mut vpts = HashSet::new(); vpts.insert(VIDEO_PT);
                let opts = RtpRewriteBridgeOptions { strip_extensions: false, initial_sequence_number: Some(100), initial_timestamp_offset: Some(0), initial_output_timestamp: None };
                let rules = vec![RtpRewriteRule { match_payload_type: None, fixed_out_ssrc: None, ssrc_offset: 0, out_payload_type: None, sdes_mid_extension_id: None, sdes_mid: None }];
                sys.tr[*t].bridge_rewrite_rules_to_with_video(sys.tr[*g].clone(), v.map(|v| sys.tr[v].clone()), vpts, opts, rules);
                text = format!("br,{t},{g},{}", v.map(|v| v.to_string()).unwrap_or("-".into()));
            }
            Op::ClearBridge(t) => { sys.tr[*t].clear_bridge_rewrite(); text = format!("bc,{t}"); }
            Op::RecvRtp(t, w, video) => {
                sys.seq = sys.seq.wrapping_add(1); sys.n += 1;
                let (pkt, payload) = plain_rtp(*t, sys.seq, sys.n, *video);
                let plain = pkt.marshal().unwrap();
                let (bytes, wt) = match w {
                    Wire::Clear => (plain, "c".to_string()),
                    Wire::Garbage => (vec![0x80, AUDIO_PT, 0], "g".to_string()),
                    Wire::Prot(k, ok) => {
                        let ctx = sys.enc.entry(*k).or_insert_with(|| ref_ctx(*k, 1));
                        let mut b = ctx.encrypt_rtp(&plain).unwrap().to_vec();
                        if !*ok { let l = b.len(); b[l - 1] ^= 0x01; }
                        let as_clear = RtpPacket::parse(&b).is_ok();
                        (b, format!("{}{}", match (ok, as_clear) { (true, true) => 'o', (false, true) => 'b', (true, false) => 'O', (false, false) => 'B' }, k))
                    }
                };
                inj = Some((*t, w.clone(), payload));
                sys.tr[*t].receive(Bytes::from(bytes), src_addr, &mut mb).await;
                text = format!("rr,{t},{wt},{}", *video as u8);
            }
            Op::RecvRtcp(t, w) => {
                sys.n += 1;
                let pk = plain_rtcp(*t, sys.n);
                let plain = rustrtc::rtp::marshal_rtcp_packets(&pk).unwrap();
                let (bytes, wt) = match w {
                    Wire::Clear => (plain, "c".to_string()),
                    Wire::Garbage => (vec![0x40, 201, 0, 0], "g".to_string()),
                    Wire::Prot(k, ok) => {
                        let ctx = sys.enc.entry(*k).or_insert_with(|| ref_ctx(*k, 1));
                        let mut b = ctx.encrypt_rtcp(&plain).unwrap().to_vec();
                        if !*ok { let l = b.len(); b[l - 1] ^= 0x01; }
                        let as_clear = rustrtc::rtp::parse_rtcp_packets(&b, None).is_ok();
                        (b, format!("{}{}", match (ok, as_clear) { (true, true) => 'o', (false, true) => 'b', (true, false) => 'O', (false, false) => 'B' }, k))
                    }
                };
                inj = Some((*t, w.clone(), vec![]));
                inj_rtcp = Some(pk);
                sys.tr[*t].receive(Bytes::from(bytes), src_addr, &mut mb).await;
                text = format!("rc,{t},{wt}");
            }
        }
        op_texts.push(text);
        // ---- observe
        let is_send = matches!(op, Op::SendRtp(_) | Op::SendRaw(..) | Op::SendRtcp(_) | Op::SyncBye(_) | Op::Close(_));
        // provenance of a plaintext RTP payload seen somewhere after this op
        let prov_of = |payload: &[u8]| -> String {
            match &inj { Some((_, Wire::Prot(k, true), pl)) if pl.as_slice() == payload => format!("A{k}"), _ => "U".into() }
        };
        // the property's own judgement: may a packet with this provenance be delivered on behalf of `t`?
        let check_in = |fails: &mut Vec<(String, String)>, t: usize, sink: &str, prov: &str| {
            if cfg.req[t] {
                let good = matches!(installed[t], Some(k) if prov == format!("A{k}"));
                if !good {
                    let wk = match &inj { Some((_, Wire::Clear, _)) => "clear", Some((_, Wire::Garbage, _)) => "garbage",
                        Some((_, Wire::Prot(_, true), _)) => "protected-other-or-no-keys", Some((_, Wire::Prot(_, false), _)) => "forged", None => "none" };
                    fails.push((format!("in:unauthenticated-delivered:{sink}:{wk}"), format!("step {i} transport {t} prov {prov} installed {:?}", installed[t])));
                }
            }
        };
        let mut ev: Vec<String> = vec![];
        let origin = inj.as_ref().map(|x| x.0);
        // ingress observers (any transport), then relay observers (egress on a target during a recv op)
        let mut relay_obs = vec![];
        for t in 0..NT {
            let log: Vec<_> = sys.obs[t].log.lock().drain(..).collect();
            for (ingress, payload) in log {
                if ingress {
                    let p = prov_of(&payload);
                    check_in(&mut fails, t, "ingress-observer", &p);
                    ev.push(format!("D{t}I{p}"));
                } else if !is_send {
                    if let Some(o) = origin {
                        let p = prov_of(&payload);
                        check_in(&mut fails, o, "bridge-target-observer", &p);
                        relay_obs.push(format!("D{o}O{t}{p}"));
                    } else { relay_obs.push(format!("D?O{t}?")); }
                }
            }
        }
        ev.extend(relay_obs);
        // emissions
        for c in 0..NT {
            for b in net.drain(c) {
                let (m, form, key) = classify(&mut sys, &b);
                // oracle: on a mandatory transport's connection everything authenticates under the session keys
                if cfg.req[c] {
                    match (installed[c], key) {
                        (None, _) => fails.push((format!("out:emitted-before-keys:{}:{m}", op.kind()), format!("step {i} conn {c} form {form}"))),
                        (Some(k), Some(k2)) if k == k2 => {}
                        (Some(_), Some(_)) => fails.push((format!("out:wrong-session-keys:{}:{m}", op.kind()), format!("step {i} conn {c} form {form} installed {:?}", installed[c]))),
                        (Some(_), None) => fails.push((format!("out:clear-on-mandatory:{}:{m}", op.kind()), format!("step {i} conn {c}"))),
                    }
                }
                let src = if is_send { "L".to_string() } else if let Some(o) = origin {
                    // recover the relayed plaintext to attribute it
                    let payload: Option<Vec<u8>> = match key {
                        Some(k) => ref_ctx(k, 0).decrypt_rtp(&b).ok().and_then(|pt| RtpPacket::parse(&pt).ok()).map(|p| p.payload.to_vec()),
                        None => RtpPacket::parse(&b).ok().map(|p| p.payload.to_vec()),
                    };
                    let p = payload.map(|pl| prov_of(&pl)).unwrap_or("U".into());
                    check_in(&mut fails, o, "bridged-peer", &p);
                    format!("R{o}{p}")
                } else { "?".into() };
                ev.push(format!("E{c}{m}{form}{src}"));
            }
        }
        // listeners
        for t in 0..NT {
            if let Some(rx) = sys.lis[t].as_mut() {
                while let Ok((p, _)) = rx.try_recv() {
                    let pr = prov_of(&p.payload);
                    check_in(&mut fails, t, "listener", &pr);
                    ev.push(format!("D{t}L{pr}"));
                }
            }
            if let Some(rx) = sys.rl[t].as_mut() {
                while let Ok(pk) = rx.try_recv() {
                    let pr = match (&inj, &inj_rtcp) { (Some((_, Wire::Prot(k, true), _)), Some(orig)) if *orig == pk => format!("A{k}"), _ => "U".into() };
                    check_in(&mut fails, t, "rtcp-listener", &pr);
                    ev.push(format!("D{t}T{pr}"));
                }
            }
        }
        if let Some(r) = ret { ev.push(if r { "ok".into() } else { "er".into() }); }
        events.push(if ev.is_empty() { "-".to_string() } else { ev.join(",") });
    }
    for t in 0..NT { sys.tr[t].clear_bridge_rewrite(); } // break Arc cycles of self / mutual bridges
    (Outcome { events, fails, unstable }, op_texts)
}

// ---------------------------------------------------------------------------------------------
// generators

/// the 14-symbol alphabet of the exhaustive enumeration (source = transport 0, target = 1)
pub const NSYM: usize = 14;
fn sym(k: usize) -> Op {
    match k {
        0 => Op::Keys(0, 0),
        1 => Op::SendRtp(0),
        2 => Op::SendRaw(0, true),
        3 => Op::SendRtcp(0),
        4 => Op::SyncBye(0),
        5 => Op::RecvRtp(0, Wire::Clear, false),
        6 => Op::RecvRtp(0, Wire::Prot(0, true), false),
        7 => Op::RecvRtp(0, Wire::Prot(10, true), false), // genuine SRTP, but under another session's keys
        8 => Op::RecvRtcp(0, Wire::Clear),
        9 => Op::RecvRtcp(0, Wire::Prot(0, true)),
        10 => Op::Bridge(0, 1, None),
        11 => Op::ClearBridge(0),
        12 => Op::Keys(1, 10),
        _ => Op::Close(0),
    }
}

fn rand_op(rng: &mut Rng) -> Op {
    let t = rng.below(NT as u64) as usize;
    let key = |rng: &mut Rng, t: usize| (10 * t as u32) + rng.below(2) as u32;
    let wire = |rng: &mut Rng, t: usize| match rng.below(10) {
        0 | 1 => Wire::Clear,
        2 => Wire::Garbage,
        3 => Wire::Prot(*rng.pick(&KEYS), true),
        4 => Wire::Prot(10 * t as u32 + rng.below(2) as u32, false),
        _ => Wire::Prot(10 * t as u32 + rng.below(2) as u32, true),
    };
    match rng.below(20) {
        0 | 1 => Op::Keys(t, key(rng, t)),
        2 | 3 => Op::SendRtp(t),
        4 => Op::SendRaw(t, rng.chance(3, 4)),
        5 | 6 => Op::SendRtcp(t),
        7 => Op::SyncBye(t),
        8..=11 => { let w = wire(rng, t); Op::RecvRtp(t, w, rng.chance(1, 3)) }
        12 | 13 => { let w = wire(rng, t); Op::RecvRtcp(t, w) }
        14..=16 => {
            let g = rng.below(NT as u64) as usize;
            let v = if rng.chance(1, 2) { Some(rng.below(NT as u64) as usize) } else { None };
            Op::Bridge(t, g, v)
        }
        17 => Op::ClearBridge(t),
        _ => Op::Close(t),
    }
}

async fn emit(run: &mut Run, net: &Net, cfg: &Cfg, ops: &[Op]) {
    let mut tries = 0;
    let (out, texts) = loop {
        let (out, texts) = exec(net, cfg, ops).await;
        tries += 1;
        if !out.unstable || tries >= 3 { break (out, texts); }
        run.count("unstable_case_rerun");
    };
    let input = format!("{} {}", cfg.text(), texts.join(" "));
    let outp = if out.events.is_empty() { "-".to_string() } else { out.events.join(" ") };
    let emitted = out.events.iter().any(|e| e.contains('E'));
    let delivered = out.events.iter().any(|e| e.contains('D'));
    run.case("gate", &input, &outp, emitted || delivered);
    if emitted { run.count("cases_with_emission"); }
    if delivered { run.count("cases_with_delivery"); }
    if out.events.iter().any(|e| e.contains("R0") || e.contains("R1") || e.contains("R2")) { run.count("cases_with_bridge_relay"); }
    if out.events.iter().any(|e| e.contains("er")) { run.count("cases_with_refused_send"); }
    for (sig, detail) in out.fails { run.fail(&sig, &input, &detail); }
}

/// racing clause: the same kind of op multisets issued from several tasks at once; oracle only.
async fn race(run: &mut Run, net: &Net, rng: &mut Rng, rounds: usize) {
    for round in 0..rounds {
        let cfg = Cfg { req: [true, rng.chance(3, 4), rng.chance(1, 2)], obs: [true; NT], lis: [true, false, false], rl: [true, false, false] };
        let sys = build(net, &cfg);
        let ntasks = 2 + rng.below(3) as usize;
        // pre-generate the inbound datagrams (protected under transport 0's rx keys, or clear)
        let mut enc = ref_ctx(0, 1);
        let mut good_payloads: HashSet<Vec<u8>> = HashSet::new();
        let mut tasks = vec![];
        let mut seq = 0u16;
        let mut plan_text = vec![];
        for task in 0..ntasks {
            let mut plan: Vec<(u8, Vec<u8>)> = vec![]; // (kind, bytes)
            for _ in 0..rng.range(4, 12) {
                let k = rng.below(10) as u8;
                seq += 1;
                let (pkt, payload) = plain_rtp(0, seq, seq as u32, rng.chance(1, 3));
                let plain = pkt.marshal().unwrap();
                let bytes = match k {
                    5 => plain,                                             // clear RTP in
                    6 | 7 => { good_payloads.insert(payload); enc.encrypt_rtp(&plain).unwrap().to_vec() } // protected in
                    8 => rustrtc::rtp::marshal_rtcp_packets(&plain_rtcp(0, seq as u32)).unwrap(), // clear RTCP in
                    _ => vec![],
                };
                plan.push((k, bytes));
            }
            plan_text.push(format!("task{task}:{}", plan.iter().map(|p| p.0.to_string()).collect::<Vec<_>>().join("")));
            let trs = sys.tr.clone();
            tasks.push(tokio::spawn(async move {
                let mut mb = Vec::new();
                let a: SocketAddr = "127.0.0.1:4000".parse().unwrap();
                let mut n = 0u16;
                for (k, bytes) in plan {
                    n += 1;
                    match k {
                        0 => trs[0].start_srtp(session(0)),
                        1 => { let _ = trs[0].send_rtp(local_rtp(0, 1000 * (task as u16 + 1) + n, n as u32)).await; }
                        2 => { let _ = trs[0].send_rtcp(&[RtcpPacket::ReceiverReport(ReceiverReport { sender_ssrc: 0x1000 + task as u32, report_blocks: vec![] })]).await; }
                        3 => trs[0].send_rtcp_sync(&[RtcpPacket::Goodbye(Goodbye { sources: vec![0x1000], reason: None })]),
                        4 => {
                            let opts = RtpRewriteBridgeOptions { strip_extensions: false, initial_sequence_number: Some(1), initial_timestamp_offset: Some(0), initial_output_timestamp: None };
                            let rules = vec![RtpRewriteRule { match_payload_type: None, fixed_out_ssrc: None, ssrc_offset: 0, out_payload_type: None, sdes_mid_extension_id: None, sdes_mid: None }];
                            let mut v = HashSet::new(); v.insert(VIDEO_PT);
                            trs[0].bridge_rewrite_rules_to_with_video(trs[1].clone(), Some(trs[2].clone()), v, opts, rules);
                        }
                        5..=8 => trs[0].receive(Bytes::from(bytes), a, &mut mb).await,
                        _ => trs[1].start_srtp(session(10)),
                    }
                    tokio::task::yield_now().await;
                }
            }));
        }
        for t in tasks { let _ = t.await; }
        let case = format!("race round {round} seed-derived {} cfg {}", plan_text.join(" "), cfg.text());
        // oracle: every datagram on a mandatory connection authenticates under that transport's keys
        let mut n_dg = 0;
        for c in 0..NT {
            let ra = RefAuth::new(10 * c as u32, 0);
            for b in net.drain(c) {
                n_dg += 1;
                let rtcp = rustrtc::rtp::is_rtcp(&b);
                let ok = if rtcp { ra.rtcp_ok(&b) } else { ra.rtp_ok(&b) };
                if cfg.req[c] && !ok { run.fail(&format!("race:out:not-authenticated-on-mandatory:{}", if rtcp { 'c' } else { 'r' }), &case, &format!("conn {c} len {}", b.len())); }
            }
        }
        // oracle: everything delivered on behalf of mandatory transport 0 is an authenticated payload
        let mut n_del = 0;
        let mut lis = sys.lis; let mut rl = sys.rl;
        if let Some(rx) = lis[0].as_mut() { while let Ok((p, _)) = rx.try_recv() { n_del += 1;
            if !good_payloads.contains(&p.payload.to_vec()) { run.fail("race:in:unauthenticated-delivered:listener", &case, "payload not among authenticated injections"); } } }
        if let Some(rx) = rl[0].as_mut() { while let Ok(_) = rx.try_recv() { n_del += 1;
            run.fail("race:in:unauthenticated-delivered:rtcp-listener", &case, "only clear RTCP was injected"); } }
        for t in 0..NT { for (_, payload) in sys.obs[t].log.lock().drain(..) {
            if payload.starts_with(b"INJ") && !good_payloads.contains(&payload) { run.fail("race:in:unauthenticated-delivered:observer", &case, &format!("observer of {t}")); } } }
        run.count_n("race_datagrams_checked", n_dg);
        run.count_n("race_deliveries_checked", n_del);
        run.count("race_rounds");
    }
}

// ---------------------------------------------------------------------------------------------
// which transport objects a PeerConnection creates per transport mode (model: `sectionTransportFlags`)

async fn connect_pair(mode: rustrtc::TransportMode, video: bool) -> anyhow::Result<Vec<bool>> {
    use rustrtc::{MediaKind, PeerConnection, RtcConfiguration, TransceiverDirection};
    let mk = || { let mut c = RtcConfiguration::default(); c.transport_mode = mode.clone(); PeerConnection::new(c) };
    let (pc1, pc2) = (mk(), mk());
    for pc in [&pc1, &pc2] {
        pc.add_transceiver(MediaKind::Audio, TransceiverDirection::SendRecv);
        if video { pc.add_transceiver(MediaKind::Video, TransceiverDirection::SendRecv); }
    }
    let _ = pc1.create_offer().await?;
    pc1.wait_for_gathering_complete().await;
    let offer = pc1.create_offer().await?;
    pc1.set_local_description(offer.clone())?;
    pc2.set_remote_description(offer).await?;
    let _ = pc2.create_answer().await?;
    pc2.wait_for_gathering_complete().await;
    let answer = pc2.create_answer().await?;
    pc2.set_local_description(answer.clone())?;
    if std::env::var("VH_DEBUG_PC").is_ok() { eprintln!("OFFER\n{}\nANSWER\n{}", pc1.local_description().unwrap().to_sdp_string(), answer.to_sdp_string()); }
    pc1.set_remote_description(answer).await?;
    tokio::try_join!(pc1.wait_for_connected(), pc2.wait_for_connected())?;
    let mut flags = vec![];
    for pc in [&pc1, &pc2] {
        let (held, attached) = pc.verif_rtp_transports();
        for t in held.iter().chain(attached.iter().flatten()) { flags.push(t.verif_registry_snapshot(&[]).srtp_required); }
    }
    pc1.close();
    pc2.close();
    Ok(flags)
}

/// SDES-SRTP mode: one PeerConnection OFFERING to a SIP-style RTP/SAVP peer whose answer is canned
/// (audio, or audio + video).  (An SDES-mode *answerer* goes to `Failed` on the unchanged tree because the
/// transport is started — and `setup_sdes` needs the local crypto line — before the answer is set; that is
/// outside C14 and is reported to the coordinator.)
async fn answer_sdes_offer(video: bool) -> anyhow::Result<Vec<bool>> {
    use rustrtc::{MediaKind, PeerConnection, RtcConfiguration, SdpType, SessionDescription, TransceiverDirection, TransportMode};
    let mut c = RtcConfiguration::default();
    c.transport_mode = TransportMode::Srtp;
    let pc = PeerConnection::new(c);
    pc.add_transceiver(MediaKind::Audio, TransceiverDirection::SendRecv);
    if video { pc.add_transceiver(MediaKind::Video, TransceiverDirection::SendRecv); }
    let _ = pc.create_offer().await?;
    pc.wait_for_gathering_complete().await;
    let offer = pc.create_offer().await?;
    pc.set_local_description(offer)?;
    let mut sdp = String::from("v=0\r\no=root 1 1 IN IP4 127.0.0.1\r\ns=-\r\nc=IN IP4 127.0.0.1\r\nt=0 0\r\n\
m=audio 19960 RTP/SAVP 111\r\n\
a=mid:0\r\n\
a=crypto:1 AES_CM_128_HMAC_SHA1_80 inline:a976SJLwniPcMiUP27gdcLYYcPm0bHZcghV84DsK\r\n\
a=rtpmap:111 opus/48000/2\r\na=sendrecv\r\n");
    if video {
        sdp.push_str("m=video 19962 RTP/SAVP 96\r\n\
a=mid:1\r\n\
a=crypto:1 AES_CM_128_HMAC_SHA1_80 inline:b976SJLwniPcMiUP27gdcLYYcPm0bHZcghV84DsK\r\n\
a=rtpmap:96 VP8/90000\r\na=sendrecv\r\n");
    }
    let answer = SessionDescription::parse(SdpType::Answer, &sdp)?;
    pc.set_remote_description(answer).await?;
    pc.wait_for_connected().await?;
    let (held, attached) = pc.verif_rtp_transports();
    let flags = held.iter().chain(attached.iter().flatten()).map(|t| t.verif_registry_snapshot(&[]).srtp_required).collect();
    pc.close();
    Ok(flags)
}

async fn pc_modes(run: &mut Run) {
    use rustrtc::TransportMode;
    for (mode, name) in [(TransportMode::WebRtc, "webrtc"), (TransportMode::Srtp, "srtp"), (TransportMode::Rtp, "rtp")] {
        for video in [false, true] {
            let case = format!("mode {name} {}", if video { "audio+video" } else { "audio" });
            // (connection set-up occasionally fails for reasons outside C14 — retried, then skipped and counted)
            let mut res = Err(());
            for _attempt in 0..4 {
                let fut = async { if name == "srtp" { answer_sdes_offer(video).await } else { connect_pair(mode.clone(), video).await } };
                match tokio::time::timeout(std::time::Duration::from_secs(30), fut).await {
                    Ok(Ok(f)) => { res = Ok(Ok(f)); break; }
                    Ok(Err(e)) => { run.count("pc_connect_attempt_failed"); res = Ok(Err(e)); }
                    Err(_) => { run.count("pc_connect_attempt_timeout"); res = Err(()); }
                }
            }
            match res {
                Ok(Ok(flags)) if !flags.is_empty() => {
                    let mut d: Vec<u8> = flags.iter().map(|f| *f as u8).collect();
                    d.sort(); d.dedup();
                    run.case("mode", name, &d.iter().map(|x| x.to_string()).collect::<String>(), true);
                    run.count_n("pc_transport_objects_checked", flags.len() as u64);
                    if name != "rtp" && flags.iter().any(|f| !*f) {
                        run.fail(&format!("mode:non-mandatory-transport-in-{name}-mode"), &case, &format!("srtp_required flags of the transports held/attached: {flags:?}"));
                    }
                }
                Ok(Ok(_)) => run.count("pc_no_transport_created"),
                Ok(Err(e)) => { run.count("pc_connect_failed"); run.notes.insert(format!("pc_connect_error_{name}_{}", video as u8), serde_json::json!(e.to_string())); }
                Err(()) => run.count("pc_connect_timeout"),
            }
        }
    }
}

pub fn run(args: &Args) {
    let rt = tokio::runtime::Builder::new_multi_thread().worker_threads(4).enable_all().build().unwrap();
    let mut run = Run::new("c14", &args.out);
    rt.block_on(async {
        let net = Net::new(NT).await;
        if let Some(case) = &args.replay {
            let (cfg, ops) = parse_case(case);
            let (out, _) = exec(&net, &cfg, &ops).await;
            println!("impl: {}", out.events.join(" "));
            for (s, d) in out.fails { println!("ORACLE-FAIL {s} {d}"); }
            return;
        }
        // (0) real PeerConnection pairs per transport mode: srtp_required of every transport object created
        pc_modes(&mut run).await;
        // (1) exhaustive: all sequences of length L over the 14-symbol alphabet × (source, target) mandatory flags
        let len = if args.tier_thorough { 5 } else { 4 };
        let total = NSYM.pow(len as u32);
        for (r0, r1) in [(true, true), (true, false), (false, true), (false, false)] {
            let cfg = Cfg { req: [r0, r1, false], obs: [true, true, false], lis: [true, false, false], rl: [true, false, false] };
            for idx in 0..total {
                let mut k = idx;
                let mut ops = vec![];
                for _ in 0..len { ops.push(sym(k % NSYM)); k /= NSYM; }
                emit(&mut run, &net, &cfg, &ops).await;
            }
            run.count_n(&format!("exhaustive_len{len}_req{}{}", r0 as u8, r1 as u8), total as u64);
        }
        // (2) random longer sequences over the full op set on three transports (video target, re-keying,
        //     forged tags, garbage, wrong keys, bridges among all transports incl. self-bridges)
        let mut rng = Rng::new(args.seed);
        let nrand = if args.tier_thorough { 60_000 } else { 6_000 };
        for _ in 0..nrand {
            let cfg = Cfg {
                req: [rng.chance(3, 4), rng.chance(1, 2), rng.chance(1, 2)],
                obs: [rng.chance(3, 4), rng.chance(1, 2), rng.chance(1, 2)],
                lis: [rng.chance(3, 4), rng.chance(1, 2), rng.chance(1, 2)],
                rl: [rng.chance(3, 4), rng.chance(1, 2), rng.chance(1, 2)],
            };
            let n = rng.range(1, 24) as usize;
            let ops: Vec<Op> = (0..n).map(|_| rand_op(&mut rng)).collect();
            emit(&mut run, &net, &cfg, &ops).await;
        }
        run.count_n("random_sequences", nrand);
        // (3) racing clause, oracle only
        race(&mut run, &net, &mut rng, if args.tier_thorough { 2000 } else { 300 }).await;
        run.count_n("late_datagrams", net.late.get());
        run.exhaustive = true;
        run.notes.insert("exhaustive_scope".into(), serde_json::json!(format!(
            "all {}^{} op sequences over the 14-symbol alphabet for (source,target) mandatory flags in {{0,1}}^2", NSYM, len)));
    });
    run.finish();
}

pub fn parse_case(s: &str) -> (Cfg, Vec<Op>) {
    let mut it = s.split_whitespace();
    let c: Vec<&str> = it.next().unwrap().split(',').collect();
    let mut cfg = Cfg { req: [false; NT], obs: [false; NT], lis: [false; NT], rl: [false; NT] };
    for t in 0..NT {
        let b: Vec<bool> = c[1 + t].chars().map(|x| x == '1').collect();
        cfg.req[t] = b[0]; cfg.obs[t] = b[1]; cfg.lis[t] = b[2]; cfg.rl[t] = b[3];
    }
    let wire = |w: &str| match &w[..1] {
        "c" => Wire::Clear, "g" => Wire::Garbage,
        "o" | "O" => Wire::Prot(w[1..].parse().unwrap(), true),
        _ => Wire::Prot(w[1..].parse().unwrap(), false),
    };
    let mut ops = vec![];
    for t in it {
        let f: Vec<&str> = t.split(',').collect();
        let n = |i: usize| f[i].parse::<usize>().unwrap();
        ops.push(match f[0] {
            "k" => Op::Keys(n(1), n(2) as u32), "sr" => Op::SendRtp(n(1)), "sw" => Op::SendRaw(n(1), f[2] == "1"),
            "sc" => Op::SendRtcp(n(1)), "sb" => Op::SyncBye(n(1)),
            "rr" => Op::RecvRtp(n(1), wire(f[2]), f[3] == "1"), "rc" => Op::RecvRtcp(n(1), wire(f[2])),
            "br" => Op::Bridge(n(1), n(2), if f[3] == "-" { None } else { Some(n(3)) }),
            "bc" => Op::ClearBridge(n(1)), "cl" => Op::Close(n(1)),
            x => panic!("bad op {x}"),
        });
    }
    (cfg, ops)
}
