//! C14 — SRTP-mandatory modes never send or accept cleartext media.
//! Drives real `RtpTransport`s (a source and two bridge targets) whose `IceConn`s point at loopback
//! capture sockets; every captured datagram is classified by authenticating it under an independent
//! reference SRTP context (webrtc-srtp); every delivery to a listener / observer / RTCP listener is
//! recorded.  Writes op lines for the Lean model `RtcModel.Gate` and evaluates the property's own
//! oracle on the implementation.
use crate::{Args, Rng, Run};
use bytes::Bytes;
use parking_lot::Mutex;
use rustrtc::peer_connection::RtpObserver;
use rustrtc::rtp::{Goodbye, ReceiverReport, ReportBlock, RtcpPacket, RtpHeader, RtpPacket};
use rustrtc::srtp::{SrtpKeyingMaterial, SrtpProfile, SrtpSession};
use rustrtc::transports::PacketReceiver;
use rustrtc::transports::ice::IceSocketWrapper;
use rustrtc::transports::ice::conn::IceConn;
use rustrtc::transports::rtp::{RtpRewriteBridgeOptions, RtpRewriteRule, RtpTransport};
use std::collections::{HashMap, HashSet};
use std::net::SocketAddr;
use std::sync::Arc;
use tokio::sync::{mpsc, watch};
use webrtc_srtp::context::Context;
use webrtc_srtp::protection_profile::ProtectionProfile;

// ---------------------------------------------------------------------------------------------
// loopback capture network (shared with C19's bridge harness)

pub mod net {
    use super::*;

    /// One sending UDP socket shared by all `IceConn`s of a case and one capture socket per
    /// connection (the `IceConn`'s remote address).  Everything is sent from the calling thread.
    pub struct Net {
        pub send: Arc<tokio::net::UdpSocket>,
        pub caps: Vec<std::net::UdpSocket>,
        fence: std::net::UdpSocket,
        fence_no: std::cell::Cell<u32>,
        _tx: watch::Sender<Option<IceSocketWrapper>>,
        rx: watch::Receiver<Option<IceSocketWrapper>>,
        pub late: std::cell::Cell<u64>,
    }

    const FENCE_MAGIC: &[u8; 4] = b"\0FNC";

    impl Net {
        pub async fn new(n: usize) -> Net {
            let send = Arc::new(tokio::net::UdpSocket::bind("127.0.0.1:0").await.unwrap());
            send.writable().await.unwrap();
            let caps = (0..n)
                .map(|_| {
                    let s = std::net::UdpSocket::bind("127.0.0.1:0").unwrap();
                    s.set_nonblocking(true).unwrap();
                    s
                })
                .collect();
            let fence = std::net::UdpSocket::bind("127.0.0.1:0").unwrap();
            let (tx, rx) = watch::channel(Some(IceSocketWrapper::Udp(send.clone())));
            Net { send, caps, fence, fence_no: std::cell::Cell::new(0), _tx: tx, rx, late: std::cell::Cell::new(0) }
        }
        pub fn addr(&self, i: usize) -> SocketAddr { self.caps[i].local_addr().unwrap() }
        /// a fresh `IceConn` whose selected socket is the shared sender and whose remote is capture socket `i`
        pub fn conn(&self, i: usize) -> Arc<IceConn> { IceConn::new(self.rx.clone(), self.addr(i), None) }
        /// datagrams currently queued on capture socket `i` without waiting (used before an op:
        /// anything found there arrived late and makes the case unstable)
        pub fn poll(&self, i: usize) -> Vec<Vec<u8>> {
            let mut out = vec![];
            let mut buf = [0u8; 2048];
            while let Ok((n, _)) = self.caps[i].recv_from(&mut buf) {
                if &buf[..n.min(4)] != FENCE_MAGIC { out.push(buf[..n].to_vec()); }
            }
            out
        }
        /// all datagrams sent to capture socket `i` so far: a fence datagram is sent after the
        /// operation and the socket is read until the fence arrives
        pub fn drain(&self, i: usize) -> Vec<Vec<u8>> {
            let no = self.fence_no.get().wrapping_add(1);
            self.fence_no.set(no);
            let mut f = FENCE_MAGIC.to_vec();
            f.extend_from_slice(&no.to_be_bytes());
            self.fence.send_to(&f, self.addr(i)).unwrap();
            let mut out = vec![];
            let mut buf = [0u8; 2048];
            let t0 = std::time::Instant::now();
            loop {
                match self.caps[i].recv_from(&mut buf) {
                    Ok((n, _)) => {
                        if n == 8 && &buf[..4] == FENCE_MAGIC {
                            if buf[4..8] == no.to_be_bytes() { break; }
                        } else { out.push(buf[..n].to_vec()); }
                    }
                    Err(_) => {
                        if t0.elapsed().as_secs() > 5 { panic!("capture fence lost"); }
                        std::thread::yield_now();
                    }
                }
            }
            out.extend(self.poll(i));
            out
        }
    }
}
use net::Net;

// ---------------------------------------------------------------------------------------------
// keys and reference contexts

/// key set `k`, direction `dir` (0 = the transport's tx keys, 1 = its rx keys)
pub fn keyset(k: u32, dir: u8) -> (Vec<u8>, Vec<u8>) {
    let key = (0..16u32).map(|i| (k.wrapping_mul(37) + dir as u32 * 101 + i * 7 + 1) as u8).collect();
    let salt = (0..14u32).map(|i| (k.wrapping_mul(53) + dir as u32 * 59 + i * 11 + 3) as u8).collect();
    (key, salt)
}
/// key ids ≡ 5 (mod 10) stand for unusable key material: `SrtpSession::new` accepts any length, every
/// `SrtpContext::new` then fails, so every `protect_*` / `unprotect_*` returns `Err`
pub fn broken(k: u32) -> bool { k % 10 == 5 }
pub fn session(k: u32) -> SrtpSession {
    let (mut tk, ts) = keyset(k, 0);
    let (mut rk, rs) = keyset(k, 1);
    if broken(k) { tk.truncate(5); rk.truncate(5); }
    SrtpSession::new(SrtpProfile::Aes128Sha1_80, SrtpKeyingMaterial::new(tk, ts), SrtpKeyingMaterial::new(rk, rs)).unwrap()
}
pub fn ref_ctx(k: u32, dir: u8) -> Context {
    let (key, salt) = keyset(k, dir);
    Context::new(&key, &salt, ProtectionProfile::Aes128CmHmacSha1_80, None, None).unwrap()
}
/// Independent authenticity check written from RFC 3711 (§4.3 key derivation with AES-CM, labels
/// 0x01 = SRTP auth key, 0x04 = SRTCP auth key; §4.2 HMAC-SHA1 over the packet (‖ ROC for SRTP),
/// 80-bit tag).  webrtc-srtp is NOT used for this decision: its `decrypt_rtcp` returns Ok without
/// verifying the tag when the E bit is clear.
pub struct RefAuth { rtp: Vec<u8>, rtcp: Vec<u8> }
impl RefAuth {
    pub fn new(k: u32, dir: u8) -> RefAuth {
        use ctr::cipher::{KeyIvInit, StreamCipher};
        let (key, salt) = keyset(k, dir);
        let kdf = |label: u8| {
            let mut iv = [0u8; 16];
            iv[..14].copy_from_slice(&salt);
            iv[7] ^= label;
            let mut out = vec![0u8; 20];
            let mut c = ctr::Ctr128BE::<aes::Aes128>::new_from_slices(&key, &iv).unwrap();
            c.apply_keystream(&mut out);
            out
        };
        RefAuth { rtp: kdf(0x01), rtcp: kdf(0x04) }
    }
    fn tag(key: &[u8], parts: &[&[u8]]) -> Vec<u8> {
        use hmac::Mac;
        let mut m = <hmac::Hmac<sha1::Sha1> as hmac::digest::KeyInit>::new_from_slice(key).unwrap();
        for p in parts { m.update(p); }
        m.finalize().into_bytes()[..10].to_vec()
    }
    /// SRTP packet (ROC 0) carries a valid 80-bit tag
    pub fn rtp_ok(&self, b: &[u8]) -> bool {
        b.len() >= 22 && Self::tag(&self.rtp, &[&b[..b.len() - 10], &[0, 0, 0, 0]]) == b[b.len() - 10..]
    }
    /// SRTCP packet carries a valid 80-bit tag and has the E (encrypted) bit set
    pub fn rtcp_ok(&self, b: &[u8]) -> bool {
        b.len() >= 22 && b[b.len() - 14] & 0x80 != 0 && Self::tag(&self.rtcp, &[&b[..b.len() - 10]]) == b[b.len() - 10..]
    }
}

/// key ids a transport `t` may be given: 10t, 10t+1 (so the owner of a protected datagram is key/10)
pub const KEYS: [u32; 6] = [0, 1, 10, 11, 20, 21]; // usable key sets; 5, 15, 25 are the unusable ones
pub const NT: usize = 3;

// ---------------------------------------------------------------------------------------------
// ops

#[derive(Clone, Debug, PartialEq)]
/// `Clear(shape)`: well-formed cleartext of several sizes and kinds — RTP: 0 = 12-byte header + 16-byte payload, 1 = header only
/// (12 bytes), 2 = 18 bytes (shorter than header + auth tag), 3 = with a header extension, 4 = with padding, 5 = with a CSRC;
/// RTCP: 0 = RR, 1 = BYE, 2 = SR, 3 = PLI, 4 = NACK, 5 = compound RR + BYE.
/// `Prot(key, ok, forgery)`: forgery shape when !ok — 0 last tag byte flipped, 1 tag truncated by 4 bytes,
/// 2 (RTCP) E bit cleared, 3 another tag bit flipped.  (A REPLAY of an accepted datagram is authentic, hence not
/// in this set: whether a session accepts it is C05's subject — today rustrtc has no replay window at all.)
pub enum Wire { Clear(u8), Garbage, Prot(u32, bool, u8) }

#[derive(Clone, Debug, PartialEq)]
pub enum Op {
    Keys(usize, u32),
    SendRtp(usize),
    /// raw `send(buf)`; shape 0: bytes that do not parse, 1: plain RTP, 2: RTP with a two-byte-header extension block
    /// (`set_extension` refuses it), 3: RTP with a well-formed one-byte block
    SendRaw(usize, u8),
    /// `set_abs_send_time_extension_id(Some(3) / None)` — what peer_connection.rs does whenever abs-send-time is negotiated
    AbsSend(usize, bool),
    SendRtcp(usize),
    SyncBye(usize),
    RecvRtp(usize, Wire, bool),
    RecvRtcp(usize, Wire),
    Bridge(usize, usize, Option<usize>),
    ClearBridge(usize),
    Close(usize),
    Flags(usize, bool, bool, bool),
}
impl Op {
    fn kind(&self) -> &'static str {
        match self {
            Op::Keys(..) => "install_keys", Op::SendRtp(_) => "send_rtp", Op::SendRaw(..) => "send_raw",
            Op::SendRtcp(_) => "send_rtcp", Op::SyncBye(_) => "send_rtcp_sync", Op::RecvRtp(..) => "recv_rtp",
            Op::RecvRtcp(..) => "recv_rtcp", Op::Bridge(..) => "bridge", Op::ClearBridge(_) => "clear_bridge",
            Op::Close(_) => "close", Op::Flags(..) => "set_flags", Op::AbsSend(..) => "set_abs_send_time",
        }
    }
}

#[derive(Clone, Debug)]
pub struct Cfg { pub req: [bool; NT], pub obs: [bool; NT], pub lis: [bool; NT], pub rl: [bool; NT] }
impl Cfg {
    fn text(&self) -> String {
        let b = |x: bool| if x { '1' } else { '0' };
        let mut s = String::from("cfg");
        for t in 0..NT { s.push(','); s.push(b(self.req[t])); s.push(b(self.obs[t])); s.push(b(self.lis[t])); s.push(b(self.rl[t])); }
        s
    }
}

const VIDEO_PT: u8 = 97;
const AUDIO_PT: u8 = 96;

struct ObsRec { log: Mutex<Vec<(bool, Vec<u8>)>> } // (ingress?, payload)
impl RtpObserver for ObsRec {
    fn on_ingress(&self, p: &RtpPacket, _a: SocketAddr) { self.log.lock().push((true, p.payload.to_vec())); }
    fn on_egress(&self, p: &RtpPacket, _a: SocketAddr) { self.log.lock().push((false, p.payload.to_vec())); }
}

struct Sys {
    tr: Vec<Arc<RtpTransport>>,
    obs: Vec<Arc<ObsRec>>,
    lis: Vec<Option<mpsc::Receiver<(RtpPacket, SocketAddr)>>>,
    rl: Vec<Option<mpsc::Receiver<Vec<RtcpPacket>>>>,
    enc: HashMap<u32, Context>,
    auth: HashMap<u32, RefAuth>,
    seq: u16,
    n: u32,
}

fn build(net: &Net, cfg: &Cfg) -> Sys {
    let mut sys = Sys { tr: vec![], obs: vec![], lis: vec![], rl: vec![], enc: HashMap::new(), auth: HashMap::new(), seq: 0, n: 0 };
    for t in 0..NT {
        let tr = Arc::new(RtpTransport::new(net.conn(t), cfg.req[t]));
        let o = Arc::new(ObsRec { log: Mutex::new(vec![]) });
        if cfg.obs[t] { tr.add_observer(o.clone()); }
        if cfg.lis[t] {
            let (tx, rx) = mpsc::channel(64);
            tr.register_provisional_listener(tx);
            sys.lis.push(Some(rx));
        } else { sys.lis.push(None); }
        if cfg.rl[t] {
            let (tx, rx) = mpsc::channel(64);
            tr.register_rtcp_listener(tx);
            sys.rl.push(Some(rx));
        } else { sys.rl.push(None); }
        sys.tr.push(tr);
        sys.obs.push(o);
    }
    sys
}

fn plain_rtp(t: usize, seq: u16, n: u32, video: bool) -> (RtpPacket, Vec<u8>) {
    let mut payload = b"INJ".to_vec();
    payload.push(t as u8);
    payload.extend_from_slice(&n.to_be_bytes());
    payload.extend_from_slice(&[0x55; 8]);
    let h = RtpHeader::new(if video { VIDEO_PT } else { AUDIO_PT }, seq, 1000 + 160 * seq as u32, 0x2000 + t as u32);
    (RtpPacket::new(h, payload.clone()), payload)
}
fn local_rtp(t: usize, seq: u16, n: u32) -> RtpPacket {
    let mut payload = b"LOC".to_vec();
    payload.push(t as u8);
    payload.extend_from_slice(&n.to_be_bytes());
    payload.extend_from_slice(&[0xaa; 8]);
    RtpPacket::new(RtpHeader::new(AUDIO_PT, seq, 0x4000_0000 + 160 * seq as u32, 0x1000 + t as u32), payload)
}
/// cleartext RTP of several shapes (see `Wire::Clear`); every shape passes `RtpPacket::parse`
fn shaped_rtp(t: usize, seq: u16, n: u32, video: bool, shape: u8) -> (RtpPacket, Vec<u8>) {
    let (mut pkt, payload) = plain_rtp(t, seq, n, video);
    let cut = |pkt: &mut RtpPacket, k: usize| { pkt.payload = Bytes::from(payload[..k].to_vec()); };
    match shape {
        1 => cut(&mut pkt, 0),
        2 => cut(&mut pkt, 6),
        3 => { cut(&mut pkt, 2); pkt.header.extension = Some(rustrtc::rtp::RtpHeaderExtension::new(0xBEDE, vec![0x51, b'x', b'y', 0])); }
        4 => { cut(&mut pkt, 4); pkt.padding_len = 4; }
        5 => { cut(&mut pkt, 3); pkt.header.csrcs = vec![0xdead_beef]; }
        _ => {}
    }
    let pl = pkt.payload.to_vec();
    (pkt, pl)
}
fn plain_rtcp(t: usize, n: u32) -> Vec<RtcpPacket> { shaped_rtcp(t, n, 0) }
/// RTCP of several packet types (see `Wire::Clear`)
fn shaped_rtcp(t: usize, n: u32, shape: u8) -> Vec<RtcpPacket> {
    let (me, you) = (0x2000 + t as u32, 0x1000 + t as u32);
    let rr = RtcpPacket::ReceiverReport(ReceiverReport {
        sender_ssrc: me,
        report_blocks: vec![ReportBlock { ssrc: you, fraction_lost: 0, packets_lost: 0,
            highest_sequence: n, jitter: 7, last_sender_report: 0, delay_since_last_sender_report: 0 }],
    });
    let bye = RtcpPacket::Goodbye(Goodbye { sources: vec![me], reason: Some(format!("bye {n}")) });
    match shape {
        1 => vec![bye],
        2 => vec![RtcpPacket::SenderReport(rustrtc::rtp::SenderReport { sender_ssrc: me, ntp_most: 1, ntp_least: n, rtp_timestamp: 160 * n, packet_count: n, octet_count: 100 * n, report_blocks: vec![] })],
        3 => vec![RtcpPacket::PictureLossIndication(rustrtc::rtp::PictureLossIndication { sender_ssrc: me, media_ssrc: you })],
        4 => vec![RtcpPacket::GenericNack(rustrtc::rtp::GenericNack { sender_ssrc: me, media_ssrc: you, lost_packets: vec![n as u16, (n as u16).wrapping_add(3)] })],
        5 => vec![rr, bye],
        _ => vec![rr],
    }
}

/// classify a captured datagram: media kind and how it was produced (authenticates under which key set)
fn classify(sys: &mut Sys, b: &[u8]) -> (char, String, Option<u32>) {
    let rtcp = rustrtc::rtp::is_rtcp(b);
    for k in KEYS {
        let ra = sys.auth.entry(k).or_insert_with(|| RefAuth::new(k, 0));
        // authentic under key set k AND the reference implementation decrypts it
        // … AND the reference implementation decrypts it to something DIFFERENT from what is on the wire: an
        // authenticated datagram whose payload travels in clear (NULL cipher) is not "protected"
        let ok = if rtcp {
            ra.rtcp_ok(b) && ref_ctx(k, 0).decrypt_rtcp(b).ok().map(|pt| pt.len() <= 8 || pt[8..] != b[8..pt.len()]).unwrap_or(false)
        } else {
            ra.rtp_ok(b) && ref_ctx(k, 0).decrypt_rtp(b).ok().and_then(|pt| RtpPacket::parse(&pt).ok())
                .map(|p| p.payload.is_empty() || !b[..b.len() - 10].ends_with(&p.payload)).unwrap_or(false)
        };
        if ok { return (if rtcp { 'c' } else { 'r' }, format!("P{}.{}", k / 10, k), Some(k)); }
    }
    (if rtcp { 'c' } else { 'r' }, "C".into(), None)
}

/// one of several shapes of an unauthentic "protected" datagram; returns the bytes and the op-line letter
fn forge(good: &[u8], shape: u8, rtcp: bool, last: Option<&(u32, Vec<u8>, u32)>, k: u32, generation: u32) -> (Vec<u8>, char) {
    let mut b = good.to_vec();
    let l = b.len();
    match shape {
        1 => { b.truncate(l - 4); (b, 't') }                                   // tag truncated
        2 if rtcp => { b[l - 14] &= 0x7f; (b, 'e') }                            // SRTCP E bit cleared, tag untouched
        3 => { let _ = (last, k, generation); b[l - 5] ^= 0x80; (b, 'y') }        // a bit flipped in the middle of the tag
        _ => { b[l - 1] ^= 0x01; (b, 'b') }                                     // last tag byte flipped
    }
}

pub struct Outcome { pub events: Vec<String>, pub fails: Vec<(String, String)>, pub unstable: bool }

/// Execute a case on the real transports; returns per-op event text and the property-oracle failures.
pub async fn exec(net: &Net, cfg: &Cfg, ops: &[Op]) -> (Outcome, Vec<String>) {
    let mut sys = build(net, cfg);
    let mut installed: [Option<u32>; NT] = [None; NT]; // harness' own bookkeeping of "the session keys"
    let mut generation: [u32; NT] = [0; NT];            // how often a session was installed on each transport
    let mut last_good: HashMap<(usize, bool), (u32, Vec<u8>, u32)> = HashMap::new();
    let mut events = vec![];
    let mut fails: Vec<(String, String)> = vec![];
    let mut unstable = false;
    let mut mb = Vec::new();
    let src_addr: SocketAddr = "127.0.0.1:4000".parse().unwrap();
    let mut op_texts = vec![];
    for c in 0..NT { let _ = net.poll(c); }
    for (i, op) in ops.iter().enumerate() {
        for c in 0..NT { if !net.poll(c).is_empty() { unstable = true; } }
        let mut ret: Option<bool> = None;
        // (transport the packet came in on, wire, plaintext payload / rtcp) for recv ops
        let mut inj: Option<(usize, Wire, Vec<u8>)> = None;
        let mut inj_rtcp: Option<Vec<RtcpPacket>> = None;
        let text;
        match op {
            Op::Keys(t, k) => { sys.tr[*t].start_srtp(session(*k)); installed[*t] = Some(*k); generation[*t] += 1; text = format!("k,{t},{k}"); }
            Op::Flags(t, l, r, o) => {
                // (re-)registration at any moment: everything is cleared, then what is asked for is registered afresh
                sys.tr[*t].clear_listeners();
                sys.tr[*t].clear_observers();
                sys.lis[*t] = None; sys.rl[*t] = None;
                if *l { let (tx, rx) = mpsc::channel(64); sys.tr[*t].register_provisional_listener(tx); sys.lis[*t] = Some(rx); }
                if *r { let (tx, rx) = mpsc::channel(64); sys.tr[*t].register_rtcp_listener(tx); sys.rl[*t] = Some(rx); }
                if *o { sys.tr[*t].add_observer(sys.obs[*t].clone()); }
                text = format!("fl,{t},{},{},{}", *l as u8, *r as u8, *o as u8);
            }
            Op::SendRtp(t) => {
                sys.seq = sys.seq.wrapping_add(1); sys.n += 1;
                ret = Some(sys.tr[*t].send_rtp(local_rtp(*t, sys.seq, sys.n)).await.is_ok());
                text = format!("sr,{t}");
            }
            Op::SendRaw(t, shape) => {
                sys.seq = sys.seq.wrapping_add(1); sys.n += 1;
                let mut pk = local_rtp(*t, sys.seq, sys.n);
                match shape {
                    2 => pk.header.extension = Some(rustrtc::rtp::RtpHeaderExtension::new(0x1000, vec![5, 1, b'x', 0])),
                    3 => pk.header.extension = Some(rustrtc::rtp::RtpHeaderExtension::new(0xBEDE, vec![0x51, b'x', b'y', 0])),
                    _ => {}
                }
                let b = if *shape == 0 { vec![0x80, AUDIO_PT, 0, 1] } else { pk.marshal().unwrap() };
                ret = Some(sys.tr[*t].send(&b).await.is_ok());
                // model inputs: does the buffer parse; can the header take an abs-send-time element (RFC 8285: the code
                // writes one-byte elements only, a two-byte-header block cannot take one)
                text = if *shape <= 1 { format!("sw,{t},{}", (*shape == 1) as u8) } else { format!("sw,{t},1,{}", (*shape != 2) as u8) };
            }
            Op::AbsSend(t, on) => { sys.tr[*t].set_abs_send_time_extension_id(if *on { Some(3) } else { None }); text = format!("ab,{t},{}", *on as u8); }
            Op::SendRtcp(t) => {
                ret = Some(sys.tr[*t].send_rtcp(&[RtcpPacket::ReceiverReport(ReceiverReport { sender_ssrc: 0x1000 + *t as u32, report_blocks: vec![] })]).await.is_ok());
                text = format!("sc,{t}");
            }
            Op::SyncBye(t) => {
                sys.tr[*t].send_rtcp_sync(&[RtcpPacket::Goodbye(Goodbye { sources: vec![0x1000 + *t as u32], reason: Some("PeerConnection closed".into()) })]);
                text = format!("sb,{t}");
            }
            Op::Close(t) => {
                // PeerConnectionInner::close: clear_listeners, then the BYE
                sys.tr[*t].clear_listeners();
                sys.tr[*t].send_rtcp_sync(&[RtcpPacket::Goodbye(Goodbye { sources: vec![0x1000 + *t as u32], reason: Some("PeerConnection closed".into()) })]);
                text = format!("cl,{t}");
            }
            Op::Bridge(t, g, v) => {
                let mut vpts = HashSet::new(); vpts.insert(VIDEO_PT);
                let opts = RtpRewriteBridgeOptions { strip_extensions: false, initial_sequence_number: Some(100), initial_timestamp_offset: Some(0), initial_output_timestamp: None };
                let rules = vec![RtpRewriteRule { match_payload_type: None, fixed_out_ssrc: None, ssrc_offset: 0, out_payload_type: None, sdes_mid_extension_id: None, sdes_mid: None }];
                sys.tr[*t].bridge_rewrite_rules_to_with_video(sys.tr[*g].clone(), v.map(|v| sys.tr[v].clone()), vpts, opts, rules);
                text = format!("br,{t},{g},{}", v.map(|v| v.to_string()).unwrap_or("-".into()));
            }
            Op::ClearBridge(t) => { sys.tr[*t].clear_bridge_rewrite(); text = format!("bc,{t}"); }
            Op::RecvRtp(t, w, video) => {
                sys.seq = sys.seq.wrapping_add(1); sys.n += 1;
                // protected datagrams carry the various shapes too (chosen by the packet counter)
                let shape = match w { Wire::Clear(sh) => *sh, _ => (sys.n % 6) as u8 };
                let (pkt, payload) = shaped_rtp(*t, sys.seq, sys.n, *video, shape);
                let plain = pkt.marshal().unwrap();
                let (bytes, wt) = match w {
                    Wire::Clear(sh) => (plain, if *sh == 0 { "c".to_string() } else { format!("c{sh}") }),
                    Wire::Garbage => (vec![0x80, AUDIO_PT, 0], "g".to_string()),
                    Wire::Prot(k, ok, shape) => {
                        let ctx = sys.enc.entry(*k).or_insert_with(|| ref_ctx(*k, 1));
                        let mut b = ctx.encrypt_rtp(&plain).unwrap().to_vec();
                        let mut letter = 'o';
                        if *ok {
                            if installed[*t] == Some(*k) && !broken(*k) { last_good.insert((*t, false), (*k, b.clone(), generation[*t])); }
                        } else { let (fb, l) = forge(&b, *shape, false, last_good.get(&(*t, false)), *k, generation[*t]); b = fb; letter = l; }
                        let as_clear = RtpPacket::parse(&b).is_ok();
                        (b, format!("{}{}", if as_clear { letter } else { letter.to_ascii_uppercase() }, k))
                    }
                };
                inj = Some((*t, w.clone(), payload));
                sys.tr[*t].receive(Bytes::from(bytes), src_addr, &mut mb).await;
                text = format!("rr,{t},{wt},{}", *video as u8);
            }
            Op::RecvRtcp(t, w) => {
                sys.n += 1;
                let shape = match w { Wire::Clear(sh) => *sh, _ => (sys.n % 6) as u8 };
                let pk = shaped_rtcp(*t, sys.n, shape);
                let plain = rustrtc::rtp::marshal_rtcp_packets(&pk).unwrap();
                let (bytes, wt) = match w {
                    Wire::Clear(sh) => (plain, if *sh == 0 { "c".to_string() } else { format!("c{sh}") }),
                    Wire::Garbage => (vec![0x40, 201, 0, 0], "g".to_string()),
                    Wire::Prot(k, ok, shape) => {
                        let ctx = sys.enc.entry(*k).or_insert_with(|| ref_ctx(*k, 1));
                        let mut b = ctx.encrypt_rtcp(&plain).unwrap().to_vec();
                        let mut letter = 'o';
                        if *ok {
                            if installed[*t] == Some(*k) && !broken(*k) { last_good.insert((*t, true), (*k, b.clone(), generation[*t])); }
                        } else { let (fb, l) = forge(&b, *shape, true, last_good.get(&(*t, true)), *k, generation[*t]); b = fb; letter = l; }
                        let as_clear = rustrtc::rtp::parse_rtcp_packets(&b, None).is_ok();
                        (b, format!("{}{}", if as_clear { letter } else { letter.to_ascii_uppercase() }, k))
                    }
                };
                inj = Some((*t, w.clone(), vec![]));
                inj_rtcp = Some(pk);
                sys.tr[*t].receive(Bytes::from(bytes), src_addr, &mut mb).await;
                text = format!("rc,{t},{wt}");
            }
        }
        op_texts.push(text);
        // ---- observe
        let is_send = matches!(op, Op::SendRtp(_) | Op::SendRaw(..) | Op::SendRtcp(_) | Op::SyncBye(_) | Op::Close(_));
        // provenance of a plaintext RTP payload seen somewhere after this op
        let prov_of = |payload: &[u8]| -> String {
            match &inj { Some((_, Wire::Prot(k, true, _), pl)) if pl.as_slice() == payload => format!("A{k}"), _ => "U".into() }
        };
        // the property's own judgement: may a packet with this provenance be delivered on behalf of `t`?
        let check_in = |fails: &mut Vec<(String, String)>, t: usize, sink: &str, prov: &str| {
            if cfg.req[t] {
                let good = matches!(installed[t], Some(k) if prov == format!("A{k}"));
                if !good {
                    let wk = match &inj { Some((_, Wire::Clear(_), _)) => "clear", Some((_, Wire::Garbage, _)) => "garbage",
                        Some((_, Wire::Prot(_, true, _), _)) => "protected-other-or-no-keys", Some((_, Wire::Prot(_, false, sh), _)) => ["forged-tag", "forged-truncated", "forged-e-bit", "forged-tag-bit"][(*sh).min(3) as usize], None => "none" };
                    fails.push((format!("in:unauthenticated-delivered:{sink}:{wk}"), format!("step {i} transport {t} prov {prov} installed {:?}", installed[t])));
                }
            }
        };
        let mut ev: Vec<String> = vec![];
        let origin = inj.as_ref().map(|x| x.0);
        // ingress observers (any transport), then relay observers (egress on a target during a recv op)
        let mut relay_obs = vec![];
        for t in 0..NT {
            let log: Vec<_> = sys.obs[t].log.lock().drain(..).collect();
            for (ingress, payload) in log {
                if ingress {
                    let p = prov_of(&payload);
                    check_in(&mut fails, t, "ingress-observer", &p);
                    ev.push(format!("D{t}I{p}"));
                } else if !is_send {
                    if let Some(o) = origin {
                        let p = prov_of(&payload);
                        check_in(&mut fails, o, "bridge-target-observer", &p);
                        relay_obs.push(format!("D{o}O{t}{p}"));
                    } else { relay_obs.push(format!("D?O{t}?")); }
                }
            }
        }
        ev.extend(relay_obs);
        // emissions
        for c in 0..NT {
            for b in net.drain(c) {
                let (m, form, key) = classify(&mut sys, &b);
                // oracle: on a mandatory transport's connection everything authenticates under the session keys
                if cfg.req[c] {
                    match (installed[c], key) {
                        (None, _) => fails.push((format!("out:emitted-before-keys:{}:{m}", op.kind()), format!("step {i} conn {c} form {form}"))),
                        (Some(k), Some(k2)) if k == k2 => {}
                        (Some(_), Some(_)) => fails.push((format!("out:wrong-session-keys:{}:{m}", op.kind()), format!("step {i} conn {c} form {form} installed {:?}", installed[c]))),
                        (Some(_), None) => fails.push((format!("out:clear-on-mandatory:{}:{m}", op.kind()), format!("step {i} conn {c}"))),
                    }
                }
                let src = if is_send { "L".to_string() } else if let Some(o) = origin {
                    // recover the relayed plaintext to attribute it
                    let payload: Option<Vec<u8>> = match key {
                        Some(k) => ref_ctx(k, 0).decrypt_rtp(&b).ok().and_then(|pt| RtpPacket::parse(&pt).ok()).map(|p| p.payload.to_vec()),
                        None => RtpPacket::parse(&b).ok().map(|p| p.payload.to_vec()),
                    };
                    let p = payload.map(|pl| prov_of(&pl)).unwrap_or("U".into());
                    check_in(&mut fails, o, "bridged-peer", &p);
                    format!("R{o}{p}")
                } else { "?".into() };
                ev.push(format!("E{c}{m}{form}{src}"));
            }
        }
        // listeners
        for t in 0..NT {
            if let Some(rx) = sys.lis[t].as_mut() {
                while let Ok((p, _)) = rx.try_recv() {
                    let pr = prov_of(&p.payload);
                    check_in(&mut fails, t, "listener", &pr);
                    ev.push(format!("D{t}L{pr}"));
                }
            }
            if let Some(rx) = sys.rl[t].as_mut() {
                while let Ok(pk) = rx.try_recv() {
                    let pr = match (&inj, &inj_rtcp) { (Some((_, Wire::Prot(k, true, _), _)), Some(orig)) if *orig == pk => format!("A{k}"), _ => "U".into() };
                    check_in(&mut fails, t, "rtcp-listener", &pr);
                    ev.push(format!("D{t}T{pr}"));
                }
            }
        }
        if let Some(r) = ret { ev.push(if r { "ok".into() } else { "er".into() }); }
        events.push(if ev.is_empty() { "-".to_string() } else { ev.join(",") });
    }
    for t in 0..NT { sys.tr[t].clear_bridge_rewrite(); } // break Arc cycles of self / mutual bridges
    (Outcome { events, fails, unstable }, op_texts)
}

// ---------------------------------------------------------------------------------------------
// generators

/// the 17-symbol alphabet of the exhaustive enumeration (source = transport 0, target = 1)
pub const NSYM: usize = 17;
fn sym(k: usize) -> Op {
    match k {
        0 => Op::Keys(0, 0),
        1 => Op::SendRtp(0),
        2 => Op::SendRaw(0, 1),
        3 => Op::SendRtcp(0),
        4 => Op::SyncBye(0),
        5 => Op::RecvRtp(0, Wire::Clear(0), false),
        6 => Op::RecvRtp(0, Wire::Prot(0, true, 0), false),
        7 => Op::RecvRtp(0, Wire::Prot(10, true, 0), false), // genuine SRTP, but under another session's keys
        8 => Op::RecvRtcp(0, Wire::Clear(0)),
        9 => Op::RecvRtcp(0, Wire::Prot(0, true, 0)),
        10 => Op::Bridge(0, 1, None),
        11 => Op::ClearBridge(0),
        12 => Op::Keys(1, 10),
        13 => Op::Close(0),
        14 => Op::RecvRtp(0, Wire::Clear(2), false),  // clear RTP shorter than header + auth tag
        15 => Op::RecvRtcp(0, Wire::Clear(1)),        // clear BYE
        _ => Op::Keys(0, 5),                           // unusable key material on the source
    }
}

fn rand_op(rng: &mut Rng) -> Op {
    let t = rng.below(NT as u64) as usize;
    // mostly usable key material, sometimes (1 in 8) an unusable key set (every protect / unprotect fails)
    let key = |rng: &mut Rng, t: usize| (10 * t as u32) + if rng.chance(1, 8) { 5 } else { rng.below(2) as u32 };
    let wire = |rng: &mut Rng, t: usize| match rng.below(10) {
        0 | 1 => Wire::Clear(rng.below(6) as u8),
        2 => Wire::Garbage,
        3 => Wire::Prot(*rng.pick(&KEYS), true, 0),
        4 | 5 => Wire::Prot(10 * t as u32 + rng.below(2) as u32, false, rng.below(4) as u8),
        _ => Wire::Prot(10 * t as u32 + rng.below(2) as u32, true, 0),
    };
    match rng.below(20) {
        0 | 1 => Op::Keys(t, key(rng, t)),
        2 | 3 => Op::SendRtp(t),
        4 => Op::SendRaw(t, *rng.pick(&[1u8, 1, 1, 0, 0, 2, 2, 3])),
        5 | 6 => Op::SendRtcp(t),
        7 => if rng.chance(1, 2) { Op::SyncBye(t) } else { Op::AbsSend(t, rng.chance(2, 3)) },
        8..=11 => { let w = wire(rng, t); Op::RecvRtp(t, w, rng.chance(1, 3)) }
        12 | 13 => { let w = wire(rng, t); Op::RecvRtcp(t, w) }
        14..=16 => {
            let g = rng.below(NT as u64) as usize;
            let v = if rng.chance(1, 2) { Some(rng.below(NT as u64) as usize) } else { None };
            Op::Bridge(t, g, v)
        }
        17 => Op::ClearBridge(t),
        18 => Op::Flags(t, rng.chance(1, 2), rng.chance(1, 2), rng.chance(1, 2)),
        _ => Op::Close(t),
    }
}

async fn emit(run: &mut Run, net: &Net, cfg: &Cfg, ops: &[Op]) {
    let mut tries = 0;
    let (out, texts) = loop {
        let (out, texts) = exec(net, cfg, ops).await;
        tries += 1;
        if !out.unstable || tries >= 3 { break (out, texts); }
        run.count("unstable_case_rerun");
    };
    let input = format!("{} {}", cfg.text(), texts.join(" "));
    let outp = if out.events.is_empty() { "-".to_string() } else { out.events.join(" ") };
    let emitted = out.events.iter().any(|e| e.contains('E'));
    let delivered = out.events.iter().any(|e| e.contains('D'));
    run.case("gate", &input, &outp, emitted || delivered);
    if emitted { run.count("cases_with_emission"); }
    if delivered { run.count("cases_with_delivery"); }
    if out.events.iter().any(|e| e.contains("R0") || e.contains("R1") || e.contains("R2")) { run.count("cases_with_bridge_relay"); }
    if out.events.iter().any(|e| e.contains("er")) { run.count("cases_with_refused_send"); }
    for (sig, detail) in out.fails { run.fail(&sig, &input, &detail); }
}

/// racing clause: the same kind of op multisets issued from several tasks at once; oracle only.
async fn race(run: &mut Run, net: &Net, rng: &mut Rng, rounds: usize) {
    for round in 0..rounds {
        let cfg = Cfg { req: [true, rng.chance(3, 4), rng.chance(1, 2)], obs: [true; NT], lis: [true, false, false], rl: [true, false, false] };
        let sys = build(net, &cfg);
        let ntasks = 2 + rng.below(3) as usize;
        // pre-generate the inbound datagrams (protected under transport 0's rx keys, or clear)
        let mut enc = ref_ctx(0, 1);
        let mut good_payloads: HashSet<Vec<u8>> = HashSet::new();
        let mut tasks = vec![];
        let mut seq = 0u16;
        let mut plan_text = vec![];
        for task in 0..ntasks {
            let mut plan: Vec<(u8, Vec<u8>)> = vec![]; // (kind, bytes)
            for _ in 0..rng.range(4, 12) {
                let k = rng.below(10) as u8;
                seq += 1;
                let (pkt, payload) = plain_rtp(0, seq, seq as u32, rng.chance(1, 3));
                let plain = pkt.marshal().unwrap();
                let bytes = match k {
                    5 => plain,                                             // clear RTP in
                    6 | 7 => { good_payloads.insert(payload); enc.encrypt_rtp(&plain).unwrap().to_vec() } // protected in
                    8 => rustrtc::rtp::marshal_rtcp_packets(&plain_rtcp(0, seq as u32)).unwrap(), // clear RTCP in
                    _ => vec![],
                };
                plan.push((k, bytes));
            }
            plan_text.push(format!("task{task}:{}", plan.iter().map(|p| p.0.to_string()).collect::<Vec<_>>().join("")));
            let trs = sys.tr.clone();
            tasks.push(tokio::spawn(async move {
                let mut mb = Vec::new();
                let a: SocketAddr = "127.0.0.1:4000".parse().unwrap();
                let mut n = 0u16;
                for (k, bytes) in plan {
                    n += 1;
                    match k {
                        0 => trs[0].start_srtp(session(0)),
                        1 => { let _ = trs[0].send_rtp(local_rtp(0, 1000 * (task as u16 + 1) + n, n as u32)).await; }
                        2 => { let _ = trs[0].send_rtcp(&[RtcpPacket::ReceiverReport(ReceiverReport { sender_ssrc: 0x1000 + task as u32, report_blocks: vec![] })]).await; }
                        3 => trs[0].send_rtcp_sync(&[RtcpPacket::Goodbye(Goodbye { sources: vec![0x1000], reason: None })]),
                        4 => {
                            let opts = RtpRewriteBridgeOptions { strip_extensions: false, initial_sequence_number: Some(1), initial_timestamp_offset: Some(0), initial_output_timestamp: None };
                            let rules = vec![RtpRewriteRule { match_payload_type: None, fixed_out_ssrc: None, ssrc_offset: 0, out_payload_type: None, sdes_mid_extension_id: None, sdes_mid: None }];
                            let mut v = HashSet::new(); v.insert(VIDEO_PT);
                            trs[0].bridge_rewrite_rules_to_with_video(trs[1].clone(), Some(trs[2].clone()), v, opts, rules);
                        }
                        5..=8 => trs[0].receive(Bytes::from(bytes), a, &mut mb).await,
                        _ => trs[1].start_srtp(session(10)),
                    }
                    tokio::task::yield_now().await;
                }
            }));
        }
        for t in tasks { let _ = t.await; }
        let case = format!("race round {round} seed-derived {} cfg {}", plan_text.join(" "), cfg.text());
        // oracle: every datagram on a mandatory connection authenticates under that transport's keys
        let mut n_dg = 0;
        for c in 0..NT {
            let ra = RefAuth::new(10 * c as u32, 0);
            for b in net.drain(c) {
                n_dg += 1;
                let rtcp = rustrtc::rtp::is_rtcp(&b);
                let ok = if rtcp { ra.rtcp_ok(&b) } else { ra.rtp_ok(&b) };
                if cfg.req[c] && !ok { run.fail(&format!("race:out:not-authenticated-on-mandatory:{}", if rtcp { 'c' } else { 'r' }), &case, &format!("conn {c} len {}", b.len())); }
            }
        }
        // oracle: everything delivered on behalf of mandatory transport 0 is an authenticated payload
        let mut n_del = 0;
        let mut lis = sys.lis; let mut rl = sys.rl;
        if let Some(rx) = lis[0].as_mut() { while let Ok((p, _)) = rx.try_recv() { n_del += 1;
            if !good_payloads.contains(&p.payload.to_vec()) { run.fail("race:in:unauthenticated-delivered:listener", &case, "payload not among authenticated injections"); } } }
        if let Some(rx) = rl[0].as_mut() { while let Ok(_) = rx.try_recv() { n_del += 1;
            run.fail("race:in:unauthenticated-delivered:rtcp-listener", &case, "only clear RTCP was injected"); } }
        for t in 0..NT { for (_, payload) in sys.obs[t].log.lock().drain(..) {
            if payload.starts_with(b"INJ") && !good_payloads.contains(&payload) { run.fail("race:in:unauthenticated-delivered:observer", &case, &format!("observer of {t}")); } } }
        run.count_n("race_datagrams_checked", n_dg);
        run.count_n("race_deliveries_checked", n_del);
        run.count("race_rounds");
    }
}


// ---------------------------------------------------------------------------------------------
// every SRTP profile the session code implements: what a MANDATORY, keyed transport delivers of cleartext / forged input
// (oracle only; the `gate` stream and the tapped sessions run Aes128Sha1_80)

/// `only`: replay one injection (`profile <name> <label>`)
async fn profiles(run: &mut Run, net: &Net, only: Option<(&str, &str)>) {
    for (name, prof, rprof, salt_len) in [("sha1_80", SrtpProfile::Aes128Sha1_80, ProtectionProfile::Aes128CmHmacSha1_80, 14usize),
            ("sha1_32", SrtpProfile::Aes128Sha1_32, ProtectionProfile::Aes128CmHmacSha1_32, 14), ("gcm", SrtpProfile::AeadAes128Gcm, ProtectionProfile::AeadAes128Gcm, 12)] {
        if let Some((n, _)) = only { if n != name { continue; } }
        let tr = RtpTransport::new(net.conn(0), true);
        let (ltx, mut lrx) = mpsc::channel(64); tr.register_provisional_listener(ltx);
        let (rtx, mut rrx) = mpsc::channel(64); tr.register_rtcp_listener(rtx);
        let (tk, mut ts) = keyset(0, 0); let (rk, mut rs) = keyset(0, 1);
        ts.truncate(salt_len); rs.truncate(salt_len);
        tr.start_srtp(SrtpSession::new(prof, SrtpKeyingMaterial::new(tk, ts), SrtpKeyingMaterial::new(rk.clone(), rs.clone())).unwrap());
        let mut enc = Context::new(&rk, &rs, rprof, None, None).unwrap();
        // (label, datagram, genuine)
        let mut inj: Vec<(String, Vec<u8>, bool)> = vec![];
        let idx_e0 = [0u8, 0, 0, 1];
        for shape in 0..6u8 {
            let plain = rustrtc::rtp::marshal_rtcp_packets(&shaped_rtcp(0, 100 + shape as u32, shape)).unwrap();
            // clear RTCP as is, and dressed up as SRTCP with the E bit clear: index only, AEAD layout (16 bytes then the index),
            // HMAC layout (index then 10 / 4 bytes)
            let trailers: [(&str, Vec<u8>); 5] = [("bare", vec![]), ("idx", idx_e0.to_vec()), ("tag16-idx", [vec![0x5a; 16], idx_e0.to_vec()].concat()),
                ("idx-tag10", [idx_e0.to_vec(), vec![0x5a; 10]].concat()), ("idx-tag4", [idx_e0.to_vec(), vec![0x5a; 4]].concat())];
            for (tn, t) in trailers { inj.push((format!("clear-rtcp{shape}-{tn}"), [plain.clone(), t].concat(), false)); }
            let (pkt, _) = shaped_rtp(0, 200 + shape as u16, 300 + shape as u32, false, shape);
            let plain_rtp = pkt.marshal().unwrap();
            for (tn, t) in [("bare", vec![]), ("tag16", vec![0x5a; 16]), ("tag10", vec![0x5a; 10]), ("tag4", vec![0x5a; 4])] { inj.push((format!("clear-rtp{shape}-{tn}"), [plain_rtp.clone(), t].concat(), false)); }
        }
        for n in 0..4u32 {
            let good = enc.encrypt_rtcp(&rustrtc::rtp::marshal_rtcp_packets(&shaped_rtcp(0, 400 + n, (n % 6) as u8)).unwrap()).unwrap().to_vec();
            let l = good.len();
            let mut v = vec![("prot-rtcp-genuine".to_string(), good.clone(), true)];
            for (fl, at) in [("last-byte", l - 1), ("e-bit-aead-layout", l - 4), ("e-bit-hmac-layout", l - 14), ("middle", l / 2 + 4)] {
                let mut b = good.clone(); b[at] ^= if fl.starts_with("e-bit") { 0x80 } else { 0x01 }; v.push((format!("prot-rtcp-forged-{fl}"), b, false));
            }
            v.push(("prot-rtcp-forged-truncated".into(), good[..l - 4].to_vec(), false));
            // forged ones first: a genuine datagram delivered afterwards must not make them replays of a known index
            v.rotate_left(1);
            inj.extend(v);
            let (pkt, _) = plain_rtp(0, 500 + n as u16, 500 + n, false);
            let good = enc.encrypt_rtp(&pkt.marshal().unwrap()).unwrap().to_vec();
            let l = good.len();
            let mut v = vec![];
            for (fl, at) in [("last-byte", l - 1), ("payload", 14usize)] { let mut b = good.clone(); b[at] ^= 0x01; v.push((format!("prot-rtp-forged-{fl}"), b, false)); }
            v.push(("prot-rtp-forged-truncated".into(), good[..l - 2].to_vec(), false));
            v.push(("prot-rtp-genuine".to_string(), good, true));
            inj.extend(v);
        }
        let mut mb = Vec::new();
        let a: SocketAddr = "127.0.0.1:4000".parse().unwrap();
        let (mut n_gen, mut n_gen_del) = (0u64, 0u64);
        for (label, bytes, genuine) in inj {
            if let Some((_, l)) = only { if l != label { continue; } }
            tr.receive(Bytes::from(bytes.clone()), a, &mut mb).await;
            let mut sinks = vec![];
            while lrx.try_recv().is_ok() { sinks.push("listener"); }
            while rrx.try_recv().is_ok() { sinks.push("rtcp-listener"); }
            let _ = net.drain(0);
            if genuine { n_gen += 1; if !sinks.is_empty() { n_gen_del += 1; } }
            else { for s in &sinks { run.fail(&format!("in:unauthenticated-delivered:{s}:{name}:{label}"), &format!("profile {name} {label}"), &format!("mandatory transport keyed with {name}; datagram {}", crate::hex(&bytes))); } }
            if only.is_some() { println!("impl: {label} -> delivered to {sinks:?}"); for s in &sinks { if !genuine { println!("ORACLE-FAIL in:unauthenticated-delivered:{s}:{name}:{label}"); } } }
            run.count(&format!("profile_{name}_injections"));
        }
        run.count_n(&format!("profile_{name}_genuine_delivered"), n_gen_del);
        // the positive control: the reference-encrypted datagrams ARE accepted under this profile (else the stream proves nothing)
        if only.is_none() && n_gen_del != n_gen { run.fail(&format!("profile:not-checked:{name}"), &format!("profile {name}"), &format!("{n_gen_del} of {n_gen} genuine datagrams delivered")); }
    }
}

// ---------------------------------------------------------------------------------------------
// which transport objects a PeerConnection creates per transport mode (model: `sectionTransportFlags`)

/// the configuration fields `start_dtls` / `create_offer` / `build_description` read besides `transport_mode`
pub const VARIANTS: [&str; 4] = ["default", "latching", "legacy-sip", "mux-negotiate"];
fn vary(c: &mut rustrtc::RtcConfiguration, variant: &str) {
    match variant {
        "latching" => c.enable_latching = true,
        "legacy-sip" => c.sdp_compatibility = rustrtc::SdpCompatibilityMode::LegacySip,
        "mux-negotiate" => c.rtcp_mux_policy = rustrtc::RtcpMuxPolicy::Negotiate,
        _ => {}
    }
}
/// `srtp_required` of every transport object the peers hold — read whether or not the connection came up
fn pc_flags(pcs: &[&rustrtc::PeerConnection]) -> Vec<bool> {
    let mut flags = vec![];
    for pc in pcs {
        let (held, attached) = pc.verif_rtp_transports();
        for t in held.iter().chain(attached.iter().flatten()) { flags.push(t.verif_registry_snapshot(&[]).srtp_required); }
    }
    flags
}

async fn connect_pair(mode: rustrtc::TransportMode, video: bool, variant: &str) -> anyhow::Result<Vec<bool>> {
    use rustrtc::{MediaKind, PeerConnection, RtcConfiguration, TransceiverDirection};
    let mk = || { let mut c = RtcConfiguration::default(); c.transport_mode = mode.clone(); vary(&mut c, variant); PeerConnection::new(c) };
    let (pc1, pc2) = (mk(), mk());
    for pc in [&pc1, &pc2] {
        pc.add_transceiver(MediaKind::Audio, TransceiverDirection::SendRecv);
        if video { pc.add_transceiver(MediaKind::Video, TransceiverDirection::SendRecv); }
    }
    let _ = pc1.create_offer().await?;
    pc1.wait_for_gathering_complete().await;
    let offer = pc1.create_offer().await?;
    pc1.set_local_description(offer.clone())?;
    pc2.set_remote_description(offer).await?;
    let _ = pc2.create_answer().await?;
    pc2.wait_for_gathering_complete().await;
    let answer = pc2.create_answer().await?;
    pc2.set_local_description(answer.clone())?;
    if std::env::var("VH_DEBUG_PC").is_ok() { eprintln!("OFFER\n{}\nANSWER\n{}", pc1.local_description().unwrap().to_sdp_string(), answer.to_sdp_string()); }
    pc1.set_remote_description(answer).await?;
    let conn = tokio::time::timeout(std::time::Duration::from_secs(if variant == "default" { 25 } else { 6 }), async { tokio::try_join!(pc1.wait_for_connected(), pc2.wait_for_connected()) }).await;
    let flags = pc_flags(&[&pc1, &pc2]);
    // the default configuration must connect; under the other configurations the transports that exist are judged either way
    if variant == "default" || flags.is_empty() { match conn { Ok(r) => { r?; } Err(_) => { pc1.close(); pc2.close(); anyhow::bail!("timeout"); } } }
    let flags = pc_flags(&[&pc1, &pc2]);
    pc1.close();
    pc2.close();
    Ok(flags)
}

/// SDES-SRTP mode: one PeerConnection OFFERING to a SIP-style RTP/SAVP peer whose answer is canned
/// (audio, or audio + video).  (An SDES-mode *answerer* goes to `Failed` on the unchanged tree because the
/// transport is started — and `setup_sdes` needs the local crypto line — before the answer is set; that is
/// outside C14 and is reported to the coordinator.)
async fn answer_sdes_offer(video: bool, variant: &str) -> anyhow::Result<Vec<bool>> {
    use rustrtc::{MediaKind, PeerConnection, RtcConfiguration, SdpType, SessionDescription, TransceiverDirection, TransportMode};
    let mut c = RtcConfiguration::default();
    c.transport_mode = TransportMode::Srtp;
    vary(&mut c, variant);
    let pc = PeerConnection::new(c);
    pc.add_transceiver(MediaKind::Audio, TransceiverDirection::SendRecv);
    if video { pc.add_transceiver(MediaKind::Video, TransceiverDirection::SendRecv); }
    let _ = pc.create_offer().await?;
    pc.wait_for_gathering_complete().await;
    let offer = pc.create_offer().await?;
    pc.set_local_description(offer)?;
    let mut sdp = String::from("v=0\r\no=root 1 1 IN IP4 127.0.0.1\r\ns=-\r\nc=IN IP4 127.0.0.1\r\nt=0 0\r\n\
m=audio 19960 RTP/SAVP 111\r\n\
a=mid:0\r\n\
a=crypto:1 AES_CM_128_HMAC_SHA1_80 inline:a976SJLwniPcMiUP27gdcLYYcPm0bHZcghV84DsK\r\n\
a=rtpmap:111 opus/48000/2\r\na=sendrecv\r\n");
    if video {
        sdp.push_str("m=video 19962 RTP/SAVP 96\r\n\
a=mid:1\r\n\
a=crypto:1 AES_CM_128_HMAC_SHA1_80 inline:b976SJLwniPcMiUP27gdcLYYcPm0bHZcghV84DsK\r\n\
a=rtpmap:96 VP8/90000\r\na=sendrecv\r\n");
    }
    let answer = SessionDescription::parse(SdpType::Answer, &sdp)?;
    pc.set_remote_description(answer).await?;
    let conn = tokio::time::timeout(std::time::Duration::from_secs(if variant == "default" { 25 } else { 6 }), pc.wait_for_connected()).await;
    let flags = pc_flags(&[&pc]);
    if variant == "default" || flags.is_empty() { match conn { Ok(r) => { r?; } Err(_) => { pc.close(); anyhow::bail!("timeout"); } } }
    let flags = pc_flags(&[&pc]);
    pc.close();
    Ok(flags)
}

async fn pc_modes(run: &mut Run) {
    use rustrtc::TransportMode;
    // (mode, name, shape): "pair" = two rustrtc peers (offerer + answerer), "canned" = SDES offerer against a SIP-style answer
    for (mode, name, shape) in [(TransportMode::WebRtc, "webrtc", "pair"), (TransportMode::Srtp, "srtp", "pair"),
                                (TransportMode::Srtp, "srtp", "canned"), (TransportMode::Rtp, "rtp", "pair")] {
        for variant in VARIANTS { for video in [false, true] {
            let case = format!("mode {name} {shape} {}{}", if video { "audio+video" } else { "audio" }, if variant == "default" { String::new() } else { format!(" config:{variant}") });
            let mut res: Result<Vec<bool>, String> = Err("not run".into());
            for _attempt in 0..4 {
                let fut = async { if shape == "canned" { answer_sdes_offer(video, variant).await } else { connect_pair(mode.clone(), video, variant).await } };
                match tokio::time::timeout(std::time::Duration::from_secs(30), fut).await {
                    Ok(Ok(f)) if !f.is_empty() => { res = Ok(f); break; }
                    _ if variant != "default" && _attempt >= 1 => { res = Err("no transport under this configuration".into()); break; }
                    Ok(Ok(_)) => { run.count("pc_connect_attempt_no_transport"); res = Err("connected but no RtpTransport was created".into()); }
                    Ok(Err(e)) => { run.count("pc_connect_attempt_failed"); res = Err(e.to_string()); }
                    Err(_) => { run.count("pc_connect_attempt_timeout"); res = Err("timeout".into()); }
                }
            }
            match res {
                Ok(flags) => {
                    let mut d: Vec<u8> = flags.iter().map(|f| *f as u8).collect();
                    d.sort(); d.dedup();
                    run.case("mode", name, &d.iter().map(|x| x.to_string()).collect::<String>(), true);
                    run.count_n("pc_transport_objects_checked", flags.len() as u64);
                    if name != "rtp" && flags.iter().any(|f| !*f) {
                        run.fail(&format!("mode:non-mandatory-transport-in-{name}-mode"), &case, &format!("srtp_required flags of the transports held/attached: {flags:?}"));
                    }
                }
                // the only tie of the per-mode transport table must not disappear silently
                Err(_) if variant != "default" => run.count(&format!("pc_config_variant_without_transport:{name}:{shape}:{variant}")),
                Err(e) => run.fail(&format!("mode:not-checked:{name}:{shape}"), &case, &format!("4 connection attempts failed, last: {e}")),
            }
        } }
    }
}

// ---------------------------------------------------------------------------------------------
// wire tap on real PeerConnections: everything above RtpTransport (NACK/RTX retransmission, sender
// reports, PLI/feedback, close-time BYE, key installation by setup_srtp / setup_sdes)

mod tap {
    use super::*;
    use rustrtc::media::frame::{MediaSample, VideoFrame};
    use rustrtc::{MediaKind, PeerConnection, RtcConfiguration, RtpCodecParameters, SdpType, SessionDescription, SrtpProfile, TransceiverDirection, TransportMode};
    use std::sync::atomic::{AtomicBool, AtomicU64, Ordering};

    pub const MARKER: &[u8] = b"C14-PLAINTEXT-MARKER-C14-PLAINTEXT-MARKER";
    pub const INJECT: &[u8] = b"C14-INJECTED-CLEAR-C14-INJECTED-CLEAR";

    /// UDP man in the middle: peer 1 is told peer 2 lives at `a`, peer 2 is told peer 1 lives at `b`.
    pub struct Relay {
        pub a: Arc<tokio::net::UdpSocket>,
        pub b: Arc<tokio::net::UdpSocket>,
        pub pc1: Mutex<Option<SocketAddr>>,
        pub pc2: Mutex<Option<SocketAddr>>,
        /// (direction 1 = peer1→peer2 / 2 = peer2→peer1, datagram) in arrival order
        pub log: Mutex<Vec<(u8, Vec<u8>)>>,
        pub lossy: AtomicBool,
        n_media: AtomicU64,
        pub dropped: AtomicU64,
    }
    impl Relay {
        pub async fn new() -> Arc<Relay> {
            let a = Arc::new(tokio::net::UdpSocket::bind("127.0.0.1:0").await.unwrap());
            let b = Arc::new(tokio::net::UdpSocket::bind("127.0.0.1:0").await.unwrap());
            let r = Arc::new(Relay { a, b, pc1: Mutex::new(None), pc2: Mutex::new(None), log: Mutex::new(vec![]),
                lossy: AtomicBool::new(false), n_media: AtomicU64::new(0), dropped: AtomicU64::new(0) });
            for dir in [1u8, 2u8] {
                let r2 = r.clone();
                tokio::spawn(async move {
                    let mut buf = vec![0u8; 4096];
                    loop {
                        let (sock_in, sock_out) = if dir == 1 { (&r2.a, &r2.b) } else { (&r2.b, &r2.a) };
                        let Ok((n, from)) = sock_in.recv_from(&mut buf).await else { break };
                        let dg = buf[..n].to_vec();
                        if dir == 1 { *r2.pc1.lock() = Some(from); } else { *r2.pc2.lock() = Some(from); }
                        let is_media = n >= 2 && (128..192).contains(&dg[0]);
                        r2.log.lock().push((dir, dg.clone()));
                        // induced loss on the media direction: every 6th RTP packet (not RTCP) is withheld
                        if dir == 1 && is_media && !rustrtc::rtp::is_rtcp(&dg) && r2.lossy.load(Ordering::Relaxed) {
                            let k = r2.n_media.fetch_add(1, Ordering::Relaxed);
                            if k % 6 == 5 { r2.dropped.fetch_add(1, Ordering::Relaxed); continue; }
                        }
                        let to = if dir == 1 { *r2.pc2.lock() } else { *r2.pc1.lock() };
                        if let Some(to) = to { let _ = sock_out.send_to(&dg, to).await; }
                    }
                });
            }
            r
        }
    }

    /// rewrite the transport addresses of an SDP (host candidates, or c=/m= in the ICE-less modes) to `to`;
    /// returns the rewritten text and the peer's real address
    pub fn readdress(sdp: &str, to: SocketAddr) -> (String, Option<SocketAddr>) {
        let mut real: Option<SocketAddr> = None;
        let mut conn_ip: Option<String> = None;
        let has_cand = sdp.contains("a=candidate:");
        let mut out = String::new();
        for line in sdp.lines() {
            let line = line.trim_end_matches('\r');
            if let Some(rest) = line.strip_prefix("a=candidate:") {
                let f: Vec<&str> = rest.split(' ').collect();
                if f.len() >= 8 && f[2].eq_ignore_ascii_case("udp") {
                    if real.is_none() { real = format!("{}:{}", f[4], f[5]).parse().ok(); } else { continue; }
                    let mut g: Vec<String> = f.iter().map(|x| x.to_string()).collect();
                    g[4] = to.ip().to_string(); g[5] = to.port().to_string();
                    out.push_str(&format!("a=candidate:{}\r\n", g.join(" ")));
                }
                continue;
            }
            if !has_cand {
                if let Some(rest) = line.strip_prefix("c=IN IP4 ") { conn_ip = Some(rest.to_string()); out.push_str(&format!("c=IN IP4 {}\r\n", to.ip())); continue; }
                if line.starts_with("m=") {
                    let f: Vec<&str> = line.split(' ').collect();
                    if real.is_none() && f.len() > 2 { real = conn_ip.as_ref().and_then(|ip| format!("{}:{}", ip, f[1]).parse().ok()); }
                    let mut g: Vec<String> = f.iter().map(|x| x.to_string()).collect();
                    if g.len() > 2 { g[1] = to.port().to_string(); }
                    out.push_str(&g.join(" ")); out.push_str("\r\n");
                    continue;
                }
            }
            out.push_str(line); out.push_str("\r\n");
        }
        (out, real)
    }

    struct Watch { seen_inject: AtomicBool, seen_marker: AtomicU64 }
    impl RtpObserver for Watch {
        fn on_ingress(&self, p: &RtpPacket, _a: SocketAddr) {
            if contains(&p.payload, INJECT) { self.seen_inject.store(true, Ordering::Relaxed); }
            if contains(&p.payload, MARKER) { self.seen_marker.fetch_add(1, Ordering::Relaxed); }
        }
    }
    pub fn contains(h: &[u8], n: &[u8]) -> bool { h.windows(n.len()).any(|w| w == n) }

    /// authenticity of one outbound media datagram under the sender's negotiated tx keys
    pub struct WireAuth { profile: SrtpProfile, key: Vec<u8>, salt: Vec<u8>, rtp_auth: Vec<u8>, rtcp_auth: Vec<u8>, roc: HashMap<u32, (u32, u16)>, gcm: Option<Context> }
    impl WireAuth {
        pub fn new(profile: SrtpProfile, key: Vec<u8>, salt: Vec<u8>) -> WireAuth {
            use ctr::cipher::{KeyIvInit, StreamCipher};
            let kdf = |label: u8| { let mut iv = [0u8; 16]; iv[..salt.len().min(14)].copy_from_slice(&salt[..salt.len().min(14)]); iv[7] ^= label;
                let mut out = vec![0u8; 20]; if key.len() >= 16 { let mut c = ctr::Ctr128BE::<aes::Aes128>::new_from_slices(&key[..16], &iv).unwrap(); c.apply_keystream(&mut out); } out };
            let gcm = if matches!(profile, SrtpProfile::AeadAes128Gcm) { Context::new(&key, &salt, ProtectionProfile::AeadAes128Gcm, None, None).ok() } else { None };
            WireAuth { profile, rtp_auth: kdf(0x01), rtcp_auth: kdf(0x04), key, salt, roc: HashMap::new(), gcm }
        }
        fn hmac(key: &[u8], parts: &[&[u8]], n: usize) -> Vec<u8> {
            use hmac::Mac;
            let mut m = <hmac::Hmac<sha1::Sha1> as hmac::digest::KeyInit>::new_from_slice(key).unwrap();
            for p in parts { m.update(p); }
            m.finalize().into_bytes()[..n].to_vec()
        }
        /// Ok(()) when the datagram is SRTP/SRTCP-protected under these keys; Err(reason) otherwise
        pub fn check(&mut self, b: &[u8]) -> Result<(), &'static str> {
            let rtcp = rustrtc::rtp::is_rtcp(b);
            match self.profile {
                SrtpProfile::AeadAes128Gcm => {
                    let Some(ctx) = self.gcm.as_mut() else { return Err("no-reference-context") };
                    if b.len() < 12 + 16 { return Err("too-short") }
                    let r = if rtcp { if b[b.len() - 4] & 0x80 == 0 { return Err("srtcp-e-bit-clear") } ctx.decrypt_rtcp(b).map(|_| ()) } else { ctx.decrypt_rtp(b).map(|_| ()) };
                    r.map_err(|_| "aead-tag-invalid")
                }
                SrtpProfile::Aes128Sha1_80 | SrtpProfile::Aes128Sha1_32 => {
                    let _ = (&self.key, &self.salt);
                    if rtcp {
                        if b.len() < 8 + 4 + 10 { return Err("too-short") }
                        if b[b.len() - 14] & 0x80 == 0 { return Err("srtcp-e-bit-clear") }
                        if Self::hmac(&self.rtcp_auth, &[&b[..b.len() - 10]], 10) == b[b.len() - 10..] { Ok(()) } else { Err("tag-invalid") }
                    } else {
                        let n = if matches!(self.profile, SrtpProfile::Aes128Sha1_32) { 4 } else { 10 };
                        if b.len() < 12 + n { return Err("too-short") }
                        let ssrc = u32::from_be_bytes([b[8], b[9], b[10], b[11]]);
                        let seq = u16::from_be_bytes([b[2], b[3]]);
                        let (roc, last) = *self.roc.get(&ssrc).unwrap_or(&(0, seq));
                        // candidates: same ROC, or the neighbours across a wrap
                        for cand in [roc, roc.wrapping_add(1), roc.wrapping_sub(1)] {
                            if Self::hmac(&self.rtp_auth, &[&b[..b.len() - n], &cand.to_be_bytes()], n) == b[b.len() - n..] {
                                if cand > roc || (cand == roc && seq.wrapping_sub(last) < 0x8000) { self.roc.insert(ssrc, (cand, seq)); }
                                return Ok(());
                            }
                        }
                        Err("tag-invalid")
                    }
                }
                _ => Err("profile-without-encryption"),
            }
        }
    }

    pub struct TapResult { pub kinds: std::collections::BTreeMap<String, u64>, pub fails: Vec<(String, String)>, pub profile: String }

    fn kind_of(b: &[u8]) -> String {
        if rustrtc::rtp::is_rtcp(b) { format!("rtcp-pt{}", b[1]) } else { format!("rtp-pt{}", b[1] & 0x7f) }
    }

    /// one session between two real PeerConnections through the relay
    /// `rtx`: negotiate RTX (retransmissions leave as pt 97) or not (plain re-sends of the original packet, pc.rs `else` arm of
    /// the NACK handler); `long`: stay long enough for the first sender report
    pub async fn session(mode: TransportMode, name: &str, rtx: bool, long: bool) -> anyhow::Result<TapResult> {
        let relay = Relay::new().await;
        let mk = || {
            let mut c = RtcConfiguration::default();
            c.transport_mode = mode.clone();
            c.bind_ip = Some("127.0.0.1".into());
            let mut caps = rustrtc::config::MediaCapabilities::default();
            caps.video = vec![if rtx { rustrtc::config::VideoCapability::vp8_with_rtx(97) } else { rustrtc::config::VideoCapability::default() }];
            c.media_capabilities = Some(caps);
            PeerConnection::new(c)
        };
        let (pc1, pc2) = (mk(), mk());
        let (source, track, mut fb) = rustrtc::media::track::sample_track(rustrtc::media::frame::MediaKind::Video, 200);
        let source = Arc::new(source);
        let _sender = pc1.add_track(track.clone(), RtpCodecParameters { payload_type: 96, name: "VP8".into(), clock_rate: 90000, channels: 0 })?;
        pc2.add_transceiver(MediaKind::Video, TransceiverDirection::RecvOnly);

        // media from peer 1 — the application starts producing BEFORE any description is exchanged, so anything that
        // leaked before keys exist would be on the wire; later the relay withholds every 6th RTP packet → NACK → re-sends
        let src2 = source.clone();
        let stop = Arc::new(AtomicBool::new(false));
        let stop2 = stop.clone();
        let sender_task = tokio::spawn(async move {
            let mut i = 0u32;
            while !stop2.load(Ordering::Relaxed) {
                let mut data = vec![0x10u8, 0, 0, 0];
                data.extend_from_slice(MARKER); data.extend_from_slice(&i.to_be_bytes()); data.extend_from_slice(MARKER);
                let frame = VideoFrame { rtp_timestamp: i.wrapping_mul(3000), data: Bytes::from(data), is_last_packet: true, ..Default::default() };
                if src2.send(MediaSample::Video(frame)).is_err() { break; }
                i += 1;
                tokio::time::sleep(std::time::Duration::from_millis(15)).await;
            }
        });

        let _ = pc1.create_offer().await?;
        pc1.wait_for_gathering_complete().await;
        let offer = pc1.create_offer().await?;
        let (offer_txt, real1) = readdress(&offer.to_sdp_string(), relay.b.local_addr()?);
        *relay.pc1.lock() = real1;
        pc1.set_local_description(offer)?;
        pc2.set_remote_description(SessionDescription::parse(SdpType::Offer, &offer_txt)?).await?;
        let _ = pc2.create_answer().await?;
        pc2.wait_for_gathering_complete().await;
        let answer = pc2.create_answer().await?;
        let (answer_txt, real2) = readdress(&answer.to_sdp_string(), relay.a.local_addr()?);
        *relay.pc2.lock() = real2;
        pc2.set_local_description(answer)?;
        pc1.set_remote_description(SessionDescription::parse(SdpType::Answer, &answer_txt)?).await?;
        tokio::try_join!(pc1.wait_for_connected(), pc2.wait_for_connected())?;

        let t1 = pc1.verif_rtp_transports().0.first().cloned().ok_or_else(|| anyhow::anyhow!("peer 1 has no RtpTransport"))?;
        let t2 = pc2.verif_rtp_transports().0.first().cloned().ok_or_else(|| anyhow::anyhow!("peer 2 has no RtpTransport"))?;
        let watch = Arc::new(Watch { seen_inject: AtomicBool::new(false), seen_marker: AtomicU64::new(0) });
        t2.add_observer(watch.clone());

        let receiver = pc2.get_transceivers()[0].receiver().ok_or_else(|| anyhow::anyhow!("no receiver"))?;
        let remote_track = receiver.track();
        let remote_track2 = remote_track.clone();
        let delivered_inject = Arc::new(AtomicBool::new(false));
        let di = delivered_inject.clone();
        let reader = tokio::spawn(async move {
            use rustrtc::media::MediaStreamTrack;
            while let Ok(sample) = remote_track.recv().await {
                if let MediaSample::Video(f) = sample { if contains(&f.data, INJECT) { di.store(true, Ordering::Relaxed); } }
            }
        });
        tokio::time::sleep(std::time::Duration::from_millis(400)).await;
        relay.lossy.store(true, Ordering::Relaxed);
        tokio::time::sleep(std::time::Duration::from_millis(600)).await;
        // feedback from the receiving side through each of its three entry points: receiver API, explicit NACK,
        // and a key-frame request raised on the remote TRACK (feedback event → receiver loop)
        let _ = receiver.request_key_frame().await;
        let _ = receiver.send_nack(vec![1, 2, 3]).await;
        { use rustrtc::media::MediaStreamTrack; let _ = remote_track2.request_key_frame().await; }
        // a raw packet from the application (DTMF path, `PeerConnection::send_raw_rtp`)
        {
            let mut payload = MARKER.to_vec(); payload.extend_from_slice(b"-RAW");
            let _ = pc1.send_raw_rtp(RtpPacket::new(RtpHeader::new(101, 7, 160, 0x0D7F_0001), payload)).await;
        }
        tokio::time::sleep(std::time::Duration::from_millis(150)).await;
        // from here on peer 2's RTCP goes to the harness instead of the PeerConnection's RTCP loop: whatever the transport
        // hands to the RTCP listener is looked at
        let (rl_tx, mut rl_rx) = mpsc::channel::<Vec<RtcpPacket>>(256);
        t2.register_rtcp_listener(rl_tx);
        // the same on the SENDING side (its NACK handling stops here; retransmissions have been seen by now)
        let (rl1_tx, mut rl1_rx) = mpsc::channel::<Vec<RtcpPacket>>(1024);
        t1.register_rtcp_listener(rl1_tx);
        // cleartext injected towards peer 2 from the address peer 2 trusts (the relay's b socket): RTP with the
        // live stream's SSRC and payload type, and an RTCP BYE for it
        let media_ssrc = relay.log.lock().iter().rev().find(|(d, b)| *d == 1 && b.len() > 12 && (128..192).contains(&b[0]) && !rustrtc::rtp::is_rtcp(b))
            .map(|(_, b)| u32::from_be_bytes([b[8], b[9], b[10], b[11]])).unwrap_or(1);
        if let Some(to) = *relay.pc2.lock() {
            for k in 0..3u16 {
                let mut payload = vec![0x10u8, 0, 0, 0]; payload.extend_from_slice(INJECT);
                let mut h = RtpHeader::new(96, 40000 + k, 123456, media_ssrc); h.marker = true;
                let _ = relay.b.send_to(&RtpPacket::new(h, payload).marshal().unwrap(), to).await;
            }
            // clear RTCP of several packet types towards peer 2, each marked with SSRC / reason the harness recognises
            for pk in [vec![RtcpPacket::Goodbye(Goodbye { sources: vec![media_ssrc], reason: Some("injected".into()) })],
                       vec![RtcpPacket::ReceiverReport(ReceiverReport { sender_ssrc: 0x0BAD_0001, report_blocks: vec![] })],
                       vec![RtcpPacket::SenderReport(rustrtc::rtp::SenderReport { sender_ssrc: 0x0BAD_0002, ntp_most: 1, ntp_least: 2, rtp_timestamp: 3, packet_count: 4, octet_count: 5, report_blocks: vec![] })]] {
                let _ = relay.b.send_to(&rustrtc::rtp::marshal_rtcp_packets(&pk).unwrap(), to).await;
            }
        }
        // … and clear feedback (PLI, NACK) towards peer 1 (the sender) from the address IT trusts
        if let Some(to) = *relay.pc1.lock() {
            let pli = rustrtc::rtp::marshal_rtcp_packets(&[RtcpPacket::PictureLossIndication(rustrtc::rtp::PictureLossIndication { sender_ssrc: 0x0BAD_0003, media_ssrc })]).unwrap();
            let nack = rustrtc::rtp::marshal_rtcp_packets(&[RtcpPacket::GenericNack(rustrtc::rtp::GenericNack { sender_ssrc: 0x0BAD_0004, media_ssrc, lost_packets: vec![1, 2] })]).unwrap();
            for _ in 0..2 { let _ = relay.a.send_to(&pli, to).await; let _ = relay.a.send_to(&nack, to).await; }
        }
        // long enough for the first sender report (3 s after the stream started)
        tokio::time::sleep(std::time::Duration::from_millis(if long { 2400 } else { 500 })).await;
        let mut rtcp_to_listener = 0u64;
        let mut injected_rtcp_seen: Vec<&'static str> = vec![];
        while let Ok(pks) = rl_rx.try_recv() {
            for pk in pks {
                rtcp_to_listener += 1;
                match pk {
                    RtcpPacket::Goodbye(g) if g.reason.as_deref() == Some("injected") => injected_rtcp_seen.push("bye"),
                    RtcpPacket::ReceiverReport(r) if r.sender_ssrc == 0x0BAD_0001 => injected_rtcp_seen.push("rr"),
                    RtcpPacket::SenderReport(r) if r.sender_ssrc == 0x0BAD_0002 => injected_rtcp_seen.push("sr"),
                    _ => {}
                }
            }
        }
        // what peer 1's transport handed to ITS RTCP listener after the swap: authentic NACKs keep coming (the positive
        // control that the observation point works), the injected clear PLI / NACK must not be among them
        let mut rtcp_to_sender_listener = 0u64;
        while let Ok(pks) = rl1_rx.try_recv() {
            for pk in pks {
                rtcp_to_sender_listener += 1;
                match pk {
                    RtcpPacket::PictureLossIndication(x) if x.sender_ssrc == 0x0BAD_0003 => injected_rtcp_seen.push("pli-at-sender"),
                    RtcpPacket::GenericNack(x) if x.sender_ssrc == 0x0BAD_0004 => injected_rtcp_seen.push("nack-at-sender"),
                    _ => {}
                }
            }
        }
        let _ = &mut fb;
        let marker_seen_by_peer2 = watch.seen_marker.load(Ordering::Relaxed);
        stop.store(true, Ordering::Relaxed);
        let _ = sender_task.await;
        // negotiated keys, read from the sessions setup_srtp / setup_sdes installed
        let k1 = t1.verif_lc_srtp_keying();
        let k2 = t2.verif_lc_srtp_keying();
        // key installation (setup_srtp) run on the live DTLS association for every use_srtp outcome, both roles: the
        // installed profile must be an encrypting one, keys must exist, and the client/server split must be mirrored
        // (run on peer 2: the probe re-points that peer's transceivers at a scratch transport, so what peer 2 sends
        // afterwards — its own BYE — is keyed with scratch keys and is left out of the wire check; peer 1 is untouched)
        let mut fails = vec![];
        let probe_from = relay.log.lock().len();
        if name == "webrtc" {
            for opt in [None, Some(1u16), Some(2), Some(7), Some(0x9999)] {
                let c = pc2.verif_lc_setup_srtp(true, opt);
                let sv = pc2.verif_lc_setup_srtp(false, opt);
                for (role, k) in [("client", &c), ("server", &sv)] {
                    match k {
                        None => fails.push((format!("keys:no-session-installed:{role}:{opt:?}"), "setup_srtp installed no session".into())),
                        Some(k) => {
                            if !matches!(k.0, SrtpProfile::Aes128Sha1_80 | SrtpProfile::Aes128Sha1_32 | SrtpProfile::AeadAes128Gcm) {
                                fails.push((format!("keys:non-encrypting-profile-installed:{opt:?}"), format!("{role}: profile {:?}", k.0)));
                            }
                            if k.1.len() < 16 || k.3.len() < 16 || k.1 == k.3 { fails.push((format!("keys:unusable-or-unsplit-keys:{role}:{opt:?}"), format!("tx {} bytes, rx {} bytes", k.1.len(), k.3.len()))); }
                        }
                    }
                }
                if let (Some(c), Some(sv)) = (&c, &sv) { if c.1 != sv.3 || c.3 != sv.1 || c.2 != sv.4 || c.4 != sv.2 { fails.push((format!("keys:client-server-split-not-mirrored:{opt:?}"), "client tx keys are not the server's rx keys".into())); } }
            }
        }
        pc1.close();
        pc2.close();
        tokio::time::sleep(std::time::Duration::from_millis(150)).await;
        reader.abort();

        let mut kinds = std::collections::BTreeMap::new();
        let profile = k1.as_ref().map(|k| format!("{:?}", k.0)).unwrap_or("none".into());
        let mut auth = [k1.map(|k| WireAuth::new(k.0, k.1, k.2)), k2.map(|k| WireAuth::new(k.0, k.1, k.2))];
        let log = relay.log.lock().clone();
        for (idx, (dir, b)) in log.iter().enumerate() {
            if b.len() < 2 || !(128..192).contains(&b[0]) { continue; } // STUN / DTLS
            if name == "webrtc" && *dir == 2 && idx >= probe_from { continue; } // peer 2 after the setup_srtp probe (see above)
            let kind = kind_of(b);
            *kinds.entry(format!("dir{dir}:{kind}")).or_insert(0) += 1;
            if contains(b, MARKER) { fails.push((format!("wire:payload-visible-in-clear:{name}:{kind}"), format!("direction {dir}, {} bytes", b.len()))); }
            match auth[(*dir - 1) as usize].as_mut() {
                None => fails.push((format!("wire:media-without-session-keys:{name}:{kind}"), format!("direction {dir}, {} bytes", b.len()))),
                Some(a) => if let Err(why) = a.check(b) { fails.push((format!("wire:not-protected-under-negotiated-keys:{name}:{kind}"), format!("direction {dir}: {why}, {} bytes, first bytes {}", b.len(), crate::hex(&b[..b.len().min(16)])))); },
            }
        }
        for k in &injected_rtcp_seen { fails.push((format!("wire:injected-clear-rtcp-reached-rtcp-listener:{name}:{k}"), "the transport handed an injected clear RTCP packet to the RTCP listener".into())); }
        // re-sends of the original packet (no RTX): the same (SSRC, sequence number) seen again in the media direction
        {
            let mut seen: HashSet<(u32, u16)> = HashSet::new();
            let mut dup = 0u64;
            for (dir, b) in &log { if *dir == 1 && b.len() >= 12 && (128..192).contains(&b[0]) && !rustrtc::rtp::is_rtcp(b) && (b[1] & 0x7f) == 96 {
                if !seen.insert((u32::from_be_bytes([b[8], b[9], b[10], b[11]]), u16::from_be_bytes([b[2], b[3]]))) { dup += 1; } } }
            kinds.insert("dir1:rtp-pt96-resent".into(), dup);
        }
        kinds.insert("peer2_rtcp_packets_to_listener".into(), rtcp_to_listener);
        kinds.insert("peer1_rtcp_packets_to_listener".into(), rtcp_to_sender_listener);
        if watch.seen_inject.load(Ordering::Relaxed) { fails.push((format!("wire:injected-cleartext-reached-observer:{name}"), "on_ingress saw the injected clear RTP".into())); }
        if delivered_inject.load(Ordering::Relaxed) { fails.push((format!("wire:injected-cleartext-reached-track:{name}"), "the remote track delivered the injected clear RTP".into())); }
        kinds.insert("relay_dropped_rtp".into(), relay.dropped.load(Ordering::Relaxed));
        kinds.insert("peer2_ingress_packets_with_marker".into(), marker_seen_by_peer2);
        Ok(TapResult { kinds, fails, profile })
    }
}

/// run the tapped sessions; what must have been seen on the wire for the session to count
async fn wire_tap(run: &mut Run) {
    use rustrtc::TransportMode;
    // (mode, label, RTX negotiated, long enough for a sender report, traffic kinds that must have been seen on the wire)
    let sessions: [(TransportMode, &str, bool, bool, &[&str]); 3] = [
        // media, RTX (pt 97), NACK (205), PLI (206, at least the receiver-API one), SR (200), BYE (203), raw/DTMF packet (pt 101)
        (TransportMode::WebRtc, "webrtc", true, true, &["dir1:rtp-pt96", "dir1:rtp-pt97", "dir2:rtcp-pt205", "dir2:rtcp-pt206", "dir1:rtcp-pt200", "dir1:rtcp-pt203", "dir1:rtp-pt101"]),
        (TransportMode::Srtp, "srtp", true, true, &["dir1:rtp-pt96", "dir1:rtp-pt97", "dir2:rtcp-pt205", "dir2:rtcp-pt206", "dir1:rtcp-pt200", "dir1:rtcp-pt203", "dir1:rtp-pt101"]),
        // RTX NOT negotiated: lost packets are re-sent as they were (same SSRC and sequence number)
        (TransportMode::WebRtc, "webrtc-nortx", false, false, &["dir1:rtp-pt96", "dir1:rtp-pt96-resent", "dir2:rtcp-pt205", "dir2:rtcp-pt206", "dir1:rtcp-pt203", "dir1:rtp-pt101"]),
    ];
    for (mode, name, rtx, long, need) in sessions {
        let mut last_err = String::from("not run");
        let mut done = false;
        for _attempt in 0..3 {
            match tokio::time::timeout(std::time::Duration::from_secs(40), tap::session(mode.clone(), name, rtx, long)).await {
                Ok(Ok(r)) => {
                    let mut missing: Vec<&str> = need.iter().copied().filter(|k| r.kinds.get(*k).copied().unwrap_or(0) == 0).collect();
                    // the three feedback entry points each produce a PLI / NACK of their own
                    if r.kinds.get("dir2:rtcp-pt206").copied().unwrap_or(0) < 2 { missing.push("second PLI (track feedback event)"); }
                    // positive control of the inbound-RTCP observation point: authentic feedback did reach the swapped listener
                    if r.kinds.get("peer1_rtcp_packets_to_listener").copied().unwrap_or(0) == 0 { missing.push("authentic RTCP at the sender's RTCP listener"); }
                    for (sig, detail) in &r.fails { run.fail(sig, &format!("wire {name}"), detail); }
                    if !r.fails.is_empty() || missing.is_empty() {
                        for (k, v) in &r.kinds { run.count_n(&format!("wire_{name}_{k}"), *v); }
                        run.notes.insert(format!("wire_{name}_profile"), serde_json::json!(r.profile));
                        done = true;
                        break;
                    }
                    last_err = format!("traffic kinds not seen on the wire: {missing:?} (seen {:?})", r.kinds);
                    run.count("wire_session_incomplete_retry");
                }
                Ok(Err(e)) => { last_err = e.to_string(); run.count("wire_session_failed_retry"); }
                Err(_) => { last_err = "timeout".into(); run.count("wire_session_timeout_retry"); }
            }
        }
        if !done { run.fail(&format!("wire:not-checked:{name}"), &format!("wire {name}"), &last_err); }
    }
}

pub fn run(args: &Args) {
    let rt = tokio::runtime::Builder::new_multi_thread().worker_threads(4).enable_all().build().unwrap();
    let mut run = Run::new("c14", &args.out);
    rt.block_on(async {
        let net = Net::new(NT).await;
        if let Some(case) = &args.replay {
            if let Some(rest) = case.strip_prefix("wire ") {
                let mode = match rest.trim() { "srtp" => rustrtc::TransportMode::Srtp, "rtp" => rustrtc::TransportMode::Rtp, _ => rustrtc::TransportMode::WebRtc };
                let nortx = rest.trim().ends_with("nortx");
                match tap::session(mode, rest.trim(), !nortx, !nortx).await {
                    Ok(r) => { println!("impl: profile {} kinds {:?}", r.profile, r.kinds); for (s, d) in r.fails.iter().take(20) { println!("ORACLE-FAIL {s} {d}"); } println!("{} oracle failures", r.fails.len()); }
                    Err(e) => println!("session failed: {e}"),
                }
                return;
            }
            if let Some(rest) = case.strip_prefix("profile ") {
                let f: Vec<&str> = rest.split_whitespace().collect();
                profiles(&mut run, &net, Some((f[0], f.get(1).copied().unwrap_or("")))).await;
                return;
            }
            if let Some(rest) = case.strip_prefix("mode ") {
                // `mode <name> <pair|canned> <audio|audio+video> [config:<variant>]`
                let f: Vec<&str> = rest.split_whitespace().collect();
                let mode = match f[0] { "srtp" => rustrtc::TransportMode::Srtp, "rtp" => rustrtc::TransportMode::Rtp, _ => rustrtc::TransportMode::WebRtc };
                let video = f.get(2) == Some(&"audio+video");
                let variant = f.get(3).and_then(|v| v.strip_prefix("config:")).unwrap_or("default");
                let r = if f.get(1) == Some(&"canned") { answer_sdes_offer(video, variant).await } else { connect_pair(mode, video, variant).await };
                match r {
                    Ok(flags) => { println!("impl: srtp_required of the transports held/attached: {flags:?}");
                        if f[0] != "rtp" && flags.iter().any(|x| !*x) { println!("ORACLE-FAIL mode:non-mandatory-transport-in-{}-mode {flags:?}", f[0]); } }
                    Err(e) => println!("session failed: {e}"),
                }
                return;
            }
            let (cfg, ops) = parse_case(case);
            let (out, _) = exec(&net, &cfg, &ops).await;
            println!("impl: {}", out.events.join(" "));
            for (s, d) in out.fails { println!("ORACLE-FAIL {s} {d}"); }
            return;
        }
        // (0) real PeerConnection pairs per transport mode: srtp_required of every transport object created
        pc_modes(&mut run).await;
        // (0b) wire tap on real PeerConnections (NACK/RTX, SR, PLI, BYE, negotiated keys, injected cleartext)
        wire_tap(&mut run).await;
        // (1) exhaustive: all sequences of length L over the 17-symbol alphabet × (source, target) mandatory flags
        let len = if args.tier_thorough { 5 } else { 4 };
        let total = NSYM.pow(len as u32);
        for (r0, r1) in [(true, true), (true, false), (false, true), (false, false)] {
            let cfg = Cfg { req: [r0, r1, false], obs: [true, true, false], lis: [true, false, false], rl: [true, false, false] };
            for idx in 0..total {
                let mut k = idx;
                let mut ops = vec![];
                for _ in 0..len { ops.push(sym(k % NSYM)); k /= NSYM; }
                emit(&mut run, &net, &cfg, &ops).await;
            }
            run.count_n(&format!("exhaustive_len{len}_req{}{}", r0 as u8, r1 as u8), total as u64);
        }
        // (1b) raw `send` and the abs-send-time id: all sequences of length 4 over 10 symbols (keys usable / unusable, id on / off,
        //      the four raw buffer shapes, send_rtp, close) for a mandatory and a non-mandatory source
        let rsym = |k: usize| match k { 0 => Op::Keys(0, 0), 1 => Op::Keys(0, 5), 2 => Op::AbsSend(0, true), 3 => Op::AbsSend(0, false),
            4 => Op::SendRaw(0, 0), 5 => Op::SendRaw(0, 1), 6 => Op::SendRaw(0, 2), 7 => Op::SendRaw(0, 3), 8 => Op::SendRtp(0), _ => Op::Close(0) };
        for r0 in [true, false] {
            let cfg = Cfg { req: [r0, false, false], obs: [true, false, false], lis: [false; NT], rl: [false; NT] };
            for idx in 0..10usize.pow(4) {
                let mut k = idx;
                let mut ops = vec![];
                for _ in 0..4 { ops.push(rsym(k % 10)); k /= 10; }
                emit(&mut run, &net, &cfg, &ops).await;
            }
            run.count_n(&format!("exhaustive_raw_send_len4_req{}", r0 as u8), 10_000);
        }
        // (2) random longer sequences over the full op set on three transports (video target, re-keying,
        //     forged tags, garbage, wrong keys, bridges among all transports incl. self-bridges)
        let mut rng = Rng::new(args.seed);
        let nrand = if args.tier_thorough { 60_000 } else { 6_000 };
        for _ in 0..nrand {
            let cfg = Cfg {
                req: [rng.chance(3, 4), rng.chance(1, 2), rng.chance(1, 2)],
                obs: [rng.chance(3, 4), rng.chance(1, 2), rng.chance(1, 2)],
                lis: [rng.chance(3, 4), rng.chance(1, 2), rng.chance(1, 2)],
                rl: [rng.chance(3, 4), rng.chance(1, 2), rng.chance(1, 2)],
            };
            let n = rng.range(1, 24) as usize;
            let ops: Vec<Op> = (0..n).map(|_| rand_op(&mut rng)).collect();
            emit(&mut run, &net, &cfg, &ops).await;
        }
        run.count_n("random_sequences", nrand);
        // (2b) the three SRTP profiles: cleartext / forged input on a mandatory keyed transport, oracle only
        profiles(&mut run, &net, None).await;
        // (3) racing clause, oracle only
        race(&mut run, &net, &mut rng, if args.tier_thorough { 2000 } else { 300 }).await;
        run.count_n("late_datagrams", net.late.get());
        run.exhaustive = true;
        run.notes.insert("exhaustive_scope".into(), serde_json::json!(format!(
            "all {}^{} op sequences over the 17-symbol alphabet for (source,target) mandatory flags in {{0,1}}^2", NSYM, len)));
    });
    run.finish();
}

pub fn parse_case(s: &str) -> (Cfg, Vec<Op>) {
    let mut it = s.split_whitespace();
    let c: Vec<&str> = it.next().unwrap().split(',').collect();
    let mut cfg = Cfg { req: [false; NT], obs: [false; NT], lis: [false; NT], rl: [false; NT] };
    for t in 0..NT {
        let b: Vec<bool> = c[1 + t].chars().map(|x| x == '1').collect();
        cfg.req[t] = b[0]; cfg.obs[t] = b[1]; cfg.lis[t] = b[2]; cfg.rl[t] = b[3];
    }
    let wire = |w: &str| match &w[..1] {
        "c" => Wire::Clear(w[1..].parse().unwrap_or(0)), "g" => Wire::Garbage,
        "o" | "O" => Wire::Prot(w[1..].parse().unwrap(), true, 0),
        "t" | "T" => Wire::Prot(w[1..].parse().unwrap(), false, 1),
        "e" | "E" => Wire::Prot(w[1..].parse().unwrap(), false, 2),
        "y" | "Y" => Wire::Prot(w[1..].parse().unwrap(), false, 3),
        _ => Wire::Prot(w[1..].parse().unwrap(), false, 0),
    };
    let mut ops = vec![];
    for t in it {
        let f: Vec<&str> = t.split(',').collect();
        let n = |i: usize| f[i].parse::<usize>().unwrap();
        ops.push(match f[0] {
            "k" => Op::Keys(n(1), n(2) as u32), "sr" => Op::SendRtp(n(1)), "sw" => Op::SendRaw(n(1), if f[2] != "1" { 0 } else if f.len() < 4 { 1 } else if f[3] == "1" { 3 } else { 2 }), "ab" => Op::AbsSend(n(1), f[2] == "1"),
            "sc" => Op::SendRtcp(n(1)), "sb" => Op::SyncBye(n(1)),
            "rr" => Op::RecvRtp(n(1), wire(f[2]), f[3] == "1"), "rc" => Op::RecvRtcp(n(1), wire(f[2])),
            "br" => Op::Bridge(n(1), n(2), if f[3] == "-" { None } else { Some(n(3)) }),
            "bc" => Op::ClearBridge(n(1)), "cl" => Op::Close(n(1)),
            "fl" => Op::Flags(n(1), f[2] == "1", f[3] == "1", f[4] == "1"),
            x => panic!("bad op {x}"),
        });
    }
    (cfg, ops)
}
