//! C10 — any two compatibly configured endpoints connect and exchange data and media; complementary
//! DTLS roles, identical SRTP keys.
//!
//! Streams (model functions in `RtcModel.Negotiate`, driver `Drv/C10.lean`):
//!  role / foreign  — real `set_remote_description` / `create_answer` on crafted offers (no network)
//!  dc              — real `create_data_channel` stream-id allocation by role
//!  rtcp / suite    — `remote_rtcp_addr_from_media_section`, `map_crypto_suite` through hooks
//!  live            — configuration-lattice points: two real endpoints on loopback, offer/answer, connect,
//!                    one data-channel message and one RTP packet per media section each way; roles,
//!                    use_srtp profile, installed keys, BUNDLE / rtcp-mux / port / transport plan facts
//!  srtp            — the real `setup_srtp` run for every (role, profile id) against the live DTLS exporter
//!  sdes            — installed SDES keys of Srtp-mode pairs
//! Oracles (the property itself on the implementation): connected within the bound, message and RTP
//! intact each way, complementary roles, crossed identical keys. Signatures `cfg:<class>:<failure>`.
pub mod pair;

use crate::{Args, Rng, Run, hex};
use pair::*;
use rustrtc::{
    Attribute, DisconnectReason, MediaKind, MediaSection, PeerConnection, RtcConfiguration, SdpType,
    SessionDescription, SrtpProfile, TransportMode,
};
use std::collections::BTreeSet;
use std::sync::Arc;
use std::time::{Duration, Instant};

const FP: &str = "sha-256 AA:BB:CC:DD:EE:FF:00:11:22:33:44:55:66:77:88:99:AA:BB:CC:DD:EE:FF:00:11:22:33:44:55:66:77:88:99";

fn role_text(r: Option<bool>) -> &'static str { match r { None => "-", Some(true) => "1", Some(false) => "0" } }
fn mode_letter(m: Mode) -> &'static str { match m { Mode::WebRtc => "w", Mode::Srtp => "s", Mode::Rtp => "r" } }
fn profile_text(p: SrtpProfile) -> &'static str {
    match p { SrtpProfile::Aes128Sha1_80 => "aes80", SrtpProfile::Aes128Sha1_32 => "aes32", SrtpProfile::AeadAes128Gcm => "gcm", SrtpProfile::NullCipherHmac => "null" }
}
fn keys_text(k: &(SrtpProfile, Vec<u8>, Vec<u8>, Vec<u8>, Vec<u8>)) -> String {
    format!("{}.{}.{}.{}", hex(&k.1), hex(&k.2), hex(&k.3), hex(&k.4))
}

// ---------------------------------------------------------------------------------------------
// crafted offers

type SecAttrs = Vec<(String, Option<String>)>;

fn offer_text(secs: &[SecAttrs]) -> String {
    if secs.is_empty() { return "-".into(); }
    secs.iter().map(|s| if s.is_empty() { ".".to_string() } else {
        s.iter().map(|(k, v)| match v { Some(v) => format!("{k}={v}"), None => k.clone() }).collect::<Vec<_>>().join(";") })
        .collect::<Vec<_>>().join("|")
}
fn parse_offer(t: &str) -> Vec<SecAttrs> {
    if t == "-" { return vec![]; }
    t.split('|').map(|s| if s == "." { vec![] } else {
        s.split(';').map(|a| match a.split_once('=') { Some((k, v)) => (k.to_string(), Some(v.to_string())), None => (a.to_string(), None) }).collect() }).collect()
}

fn build_offer(mode: Mode, secs: &[SecAttrs], round: usize) -> SessionDescription {
    let mut d = SessionDescription::new(SdpType::Offer);
    d.session.attributes.push(Attribute::new("fingerprint", Some(FP.to_string())));
    if mode != Mode::WebRtc { d.session.connection = Some("IN IP4 127.0.0.1".into()); }
    for (i, s) in secs.iter().enumerate() {
        let mut m = MediaSection::new(if i % 2 == 0 { MediaKind::Audio } else { MediaKind::Video }, format!("{i}"));
        m.port = 40000 + (round * 10 + i * 2) as u16;
        m.protocol = match mode { Mode::WebRtc => "UDP/TLS/RTP/SAVPF", Mode::Srtp => "RTP/SAVP", Mode::Rtp => "RTP/AVP" }.to_string();
        m.formats = vec![if i % 2 == 0 { "111".into() } else { "96".into() }];
        m.attributes.push(Attribute::new("rtpmap", Some(if i % 2 == 0 { "111 opus/48000/2".into() } else { "96 VP8/90000".into() })));
        if round > 0 { m.attributes.push(Attribute::new("x-round", Some(format!("{round}")))); }
        if mode == Mode::Srtp {
            m.attributes.push(Attribute::new("crypto", Some("1 AES_CM_128_HMAC_SHA1_80 inline:AAECAwQFBgcICQoLDA0ODxAREhMUFRYXGBkaGxwd".into())));
        }
        for (k, v) in s { m.attributes.push(Attribute::new(k.clone(), v.clone())); }
        d.media_sections.push(m);
    }
    d
}

fn setup_in_answer(d: &SessionDescription) -> String {
    for m in &d.media_sections { for a in &m.attributes { if a.key == "setup" { return a.value.clone().unwrap_or_else(|| "<none>".into()); } } }
    "-".into()
}

fn new_pc(mode: Mode) -> PeerConnection {
    let mut c = RtcConfiguration::default();
    c.transport_mode = match mode { Mode::WebRtc => TransportMode::WebRtc, Mode::Srtp => TransportMode::Srtp, Mode::Rtp => TransportMode::Rtp };
    c.bind_ip = Some("127.0.0.1".into());
    c.disable_ipv6 = true;
    PeerConnection::new(c)
}

/// role stream: apply offer1, answer it, apply offer2. Output `<role1> <answer setup> <role2>`.
async fn exec_role(mode: Mode, o1: &[SecAttrs], o2: Option<&[SecAttrs]>) -> String {
    let pc = new_pc(mode);
    let mut out = String::new();
    let r = pc.set_remote_description(build_offer(mode, o1, 0)).await;
    out.push_str(role_text(pc.verif_lc_dtls_role()));
    if r.is_err() { pc.close(); return format!("{out} err -"); }
    let ans = match pc.create_answer().await { Ok(a) => a, Err(_) => { pc.close(); return format!("{out} err -"); } };
    out.push(' ');
    out.push_str(&setup_in_answer(&ans));
    let _ = pc.set_local_description(ans);
    match o2 {
        Some(o2) => {
            let _ = pc.set_remote_description(build_offer(mode, o2, 1)).await;
            out.push(' ');
            out.push_str(role_text(pc.verif_lc_dtls_role()));
        }
        None => out.push_str(" -"),
    }
    pc.close();
    out
}

/// foreign stream: B answers the crafted offer; A (with its own local offer outstanding) applies B's
/// answer. Output `<roleA> <roleB>`.
async fn exec_foreign(offer: &[SecAttrs]) -> String {
    let a = new_pc(Mode::WebRtc);
    let b = new_pc(Mode::WebRtc);
    let n = offer.len();
    for i in 0..n { a.add_transceiver(if i % 2 == 0 { MediaKind::Audio } else { MediaKind::Video }, rustrtc::TransceiverDirection::SendRecv); }
    let res: Result<(), String> = async {
        let ao = a.create_offer().await.map_err(|e| e.to_string())?;
        a.set_local_description(ao).map_err(|e| e.to_string())?;
        b.set_remote_description(build_offer(Mode::WebRtc, offer, 0)).await.map_err(|e| e.to_string())?;
        let ans = b.create_answer().await.map_err(|e| e.to_string())?;
        b.set_local_description(ans.clone()).map_err(|e| e.to_string())?;
        a.set_remote_description(ans).await.map_err(|e| e.to_string())?;
        Ok(())
    }.await;
    let out = format!("{} {}{}", role_text(a.verif_lc_dtls_role()), role_text(b.verif_lc_dtls_role()), if res.is_err() { " err" } else { "" });
    a.close(); b.close();
    out
}

const SETUP_POOL: &[&str] = &["active", "passive", "actpass", "holdconn", "Active", "ACTPASS", "x", "act", "passive2", "0"];

fn gen_section(rng: &mut Rng, p_setup: u64) -> SecAttrs {
    let mut s: SecAttrs = vec![];
    let n = rng.below(4);
    for _ in 0..n {
        match rng.below(10) {
            0 => s.push(("setup".into(), None)),
            1 => s.push(("Setup".into(), Some((*rng.pick(SETUP_POOL)).to_string()))),
            2 => s.push(("sendrecv".into(), None)),
            3 => s.push(("ice-options".into(), Some("trickle".into()))),
            _ => if rng.below(10) < p_setup { s.push(("setup".into(), Some((*rng.pick(SETUP_POOL)).to_string()))) },
        }
    }
    s
}

// ---------------------------------------------------------------------------------------------
// live lattice points

#[derive(Default, Clone)]
struct LiveObs {
    err: Option<String>,
    connected: bool,
    role_o: Option<bool>, role_a: Option<bool>,
    setup_offer: String, setup_answer: String,
    profile_o: String, profile_a: String,
    keys_o: String, keys_a: String,
    mat: Option<Vec<u8>>,
    ks_o: Option<Vec<u8>>, ks_a: Option<Vec<u8>>, suite_o: String, suite_a: String,
    bundle_offer: bool, bundle_answer: bool,
    mux_offer: bool, mux_answer: bool,
    ports_offer: usize, ports_answer: usize,
    extra_o: (usize, usize), extra_a: (usize, usize),
    data_oa: Option<Result<(), String>>, data_ao: Option<Result<(), String>>,
    /// after Connected both ends open channels of their own: ids (offerer concurrent, answerer concurrent,
    /// offerer sequential, answerer sequential) and the four deliveries on the channel with the peer's label
    dc2_ids: Vec<u16>, dc2: Vec<(&'static str, Result<(), String>)>,
    /// the channel the answerer created before its association existed: id, and delivery a->o / o->a on it
    early_id: Option<u16>, early: Vec<(&'static str, Result<(), String>)>,
    /// concurrent media + data phase: (oracle kind:direction, result) — empty when the point does not run it
    conc: Vec<(&'static str, Result<(), String>)>, conc_requested: bool,
    rtp_oa: Vec<Result<(), String>>, rtp_ao: Vec<Result<(), String>>,
    srtp_fn: Vec<(String, String)>,
    connect_ms: u128,
    retried_after_timeout: bool,
    keys_raw_o: Option<(SrtpProfile, Vec<u8>, Vec<u8>, Vec<u8>, Vec<u8>)>,
    keys_raw_a: Option<(SrtpProfile, Vec<u8>, Vec<u8>, Vec<u8>, Vec<u8>)>,
}

fn b64decode(s: &str) -> Option<Vec<u8>> {
    let mut out = vec![]; let mut acc = 0u32; let mut bits = 0;
    for c in s.bytes() {
        let v = match c { b'A'..=b'Z' => c - b'A', b'a'..=b'z' => c - b'a' + 26, b'0'..=b'9' => c - b'0' + 52, b'+' => 62, b'/' => 63, b'=' => break, _ => return None } as u32;
        acc = (acc << 6) | v; bits += 6;
        if bits >= 8 { bits -= 8; out.push((acc >> bits) as u8); acc &= (1 << bits) - 1; }
    }
    Some(out)
}

fn sdp_facts(d: &SessionDescription) -> (bool, bool, usize, String, Option<Vec<u8>>, String) {
    let bundle = d.session.attributes.iter().any(|a| a.key == "group" && a.value.as_deref().is_some_and(|v| v.starts_with("BUNDLE")));
    let media: Vec<&MediaSection> = d.media_sections.iter().filter(|m| m.kind == MediaKind::Audio || m.kind == MediaKind::Video).collect();
    let mux = !media.is_empty() && media.iter().all(|m| m.attributes.iter().any(|a| a.key == "rtcp-mux"));
    let ports: BTreeSet<u16> = media.iter().map(|m| m.port).collect();
    let setup = setup_in_answer(d);
    let crypto = media.first().and_then(|m| m.get_crypto_attributes().into_iter().next());
    let (ks, suite) = match crypto {
        Some(c) => (c.key_params.strip_prefix("inline:").and_then(|k| b64decode(k.split('|').next().unwrap_or(""))), c.crypto_suite.clone()),
        None => (None, "-".into()),
    };
    (bundle, mux, ports.len(), setup, ks, suite)
}

const T_CONNECT: Duration = Duration::from_secs(12);
const T_MSG: Duration = Duration::from_secs(10);

/// which points run the concurrent-traffic phase: data + media on a WebRTC pair; always on the framing-sensitive
/// transport (ICE-TCP, RFC 4571), on the UDP transports in the thorough tier
fn runs_concurrent(cfg: &Cfg, thorough: bool) -> bool {
    cfg.mode == Mode::WebRtc && cfg.mix.has_data() && cfg.mix.n_media() > 0 && (cfg.ice == IceOpt::Tcp || thorough)
}

async fn exec_live(cfg: Cfg, with_srtp_fn: bool, conc: bool) -> LiveObs {
    let mut o = LiveObs::default();
    let mut p = Pair::create(cfg, &Knobs::default());
    let t0 = Instant::now();
    // offer / answer — with data channels the ANSWERER creates a channel of its own between applying the offer and
    // answering, i.e. before its association exists (audit r3-N1: announced from the COOKIE-ECHO side)
    let mut early: Option<Arc<rustrtc::transports::sctp::DataChannel>> = None;
    let neg: Result<(), String> = async {
        p.make_offer().await?; p.deliver_offer().await?;
        if cfg.mix.has_data() { early = Some(p.ans.pc.create_data_channel("ans-early", None).map_err(|e| format!("answerer create_data_channel: {e}"))?); }
        p.make_answer().await?; p.deliver_answer().await
    }.await;
    if let Err(e) = neg { o.err = Some(e); p.off.pc.close(); p.ans.pc.close(); return o; }
    if let (Some(of), Some(an)) = (&p.offer, &p.answer) {
        // the local descriptions as finally stored (ports are patched in after gathering in direct modes)
        let of = p.off.pc.local_description().unwrap_or(of.clone());
        let an = p.ans.pc.local_description().unwrap_or(an.clone());
        let f = sdp_facts(&of); let g = sdp_facts(&an);
        o.bundle_offer = f.0; o.mux_offer = f.1; o.ports_offer = f.2; o.setup_offer = f.3; o.ks_o = f.4; o.suite_o = f.5;
        o.bundle_answer = g.0; o.mux_answer = g.1; o.ports_answer = g.2; o.setup_answer = g.3; o.ks_a = g.4; o.suite_a = g.5;
    }
    o.role_o = p.off.pc.verif_lc_dtls_role();
    o.role_a = p.ans.pc.verif_lc_dtls_role();
    match p.wait_connected(T_CONNECT).await {
        Ok(()) => { o.connected = true; o.connect_ms = t0.elapsed().as_millis(); }
        Err(e) => { o.err = Some(e); }
    }
    if o.connected {
        // data channel: one message each way
        if cfg.mix.has_data() {
            let r: Result<(), String> = async {
                p.accept_channel(T_MSG).await?;
                let odc = p.off.dc.clone().unwrap(); let adc = p.ans.dc.clone().unwrap();
                wait_open(&odc, T_MSG).await.map_err(|e| format!("offerer channel: {e}"))?;
                dc_roundtrip(&p.off.pc, odc.id, &adc, b"verif-c10 offerer->answerer \x00\x01\xff", T_MSG).await
            }.await;
            o.data_oa = Some(r);
            if let (Some(odc), Some(adc)) = (p.off.dc.clone(), p.ans.dc.clone()) {
                o.data_ao = Some(dc_roundtrip(&p.ans.pc, adc.id, &odc, b"verif-c10 answerer->offerer \xfe\x00", T_MSG).await);
            } else { o.data_ao = Some(Err("no channel at the answerer".into())); }
            // the answerer's early channel: announced at the offerer (label), opens, one message each way on it
            if let Some(e) = &early {
                o.early_id = Some(e.id);
                let at_o = announced_channel(&p.off.pc, "ans-early", T_MSG).await;
                o.early.push(("a->o", async { let d = at_o.clone()?; wait_open(e, T_MSG).await?; dc_roundtrip(&p.ans.pc, e.id, &d, b"verif-c10 ans-early a->o", T_MSG).await }.await));
                o.early.push(("o->a", async { let d = at_o?; dc_roundtrip(&p.off.pc, d.id, e, b"verif-c10 ans-early o->a", T_MSG).await }.await));
            }
            // Both ends open channels of their own on the live connection (seed C10-b): first at the same
            // moment — neither has seen the other's DCEP OPEN when it allocates —, then one after the other.
            // Each end must be told about the peer's channel (its label) and receive the peer's message THERE.
            if o.data_oa == Some(Ok(())) && o.data_ao == Some(Ok(())) {
                let (po, pa) = (p.off.pc.clone(), p.ans.pc.clone());
                let mk = |pc: &PeerConnection, l: &str| pc.create_data_channel(l, None).map_err(|e| format!("create_data_channel: {e}"));
                // every channel stays alive to the end of the step (a dropped channel frees its id)
                let mut keep: Vec<Arc<rustrtc::transports::sctp::DataChannel>> = vec![];
                match (mk(&po, "c-off"), mk(&pa, "c-ans")) {
                    (Ok(co), Ok(ca)) => {
                        o.dc2_ids.push(co.id); o.dc2_ids.push(ca.id); keep.push(co.clone()); keep.push(ca.clone());
                        let at_a = announced_channel(&pa, "c-off", T_MSG).await;
                        let at_o = announced_channel(&po, "c-ans", T_MSG).await;
                        if let Ok(d) = &at_a { keep.push(d.clone()); } if let Ok(d) = &at_o { keep.push(d.clone()); }
                        o.dc2.push(("o->a:concurrent", async { let d = at_a?; wait_open(&co, T_MSG).await?; dc_roundtrip(&po, co.id, &d, b"verif-c10 c-off", T_MSG).await }.await));
                        o.dc2.push(("a->o:concurrent", async { let d = at_o?; wait_open(&ca, T_MSG).await?; dc_roundtrip(&pa, ca.id, &d, b"verif-c10 c-ans", T_MSG).await }.await));
                    }
                    (a, b) => { o.dc2.push(("o->a:concurrent", a.map(|_| ()))); o.dc2.push(("a->o:concurrent", b.map(|_| ()))); }
                }
                match mk(&po, "s-off") {
                    Ok(so) => { o.dc2_ids.push(so.id); keep.push(so.clone());
                        o.dc2.push(("o->a:sequential", async { let d = announced_channel(&pa, "s-off", T_MSG).await?; keep.push(d.clone()); wait_open(&so, T_MSG).await?; dc_roundtrip(&po, so.id, &d, b"verif-c10 s-off", T_MSG).await }.await)); }
                    Err(e) => o.dc2.push(("o->a:sequential", Err(e))),
                }
                match mk(&pa, "s-ans") {
                    Ok(sa) => { o.dc2_ids.push(sa.id);
                        o.dc2.push(("a->o:sequential", async { let d = announced_channel(&po, "s-ans", T_MSG).await?; wait_open(&sa, T_MSG).await?; dc_roundtrip(&pa, sa.id, &d, b"verif-c10 s-ans", T_MSG).await }.await)); }
                    Err(e) => o.dc2.push(("a->o:sequential", Err(e))),
                }
                drop(keep);
            }
        }
        // RTP: one packet (sample) per media section each way
        for (i, m) in p.off.media.iter().enumerate() {
            o.rtp_oa.push(rtp_roundtrip(m, &p.ans.pc, format!("verif-c10-oa-{i}-payload").as_bytes(), T_MSG).await);
        }
        for (i, m) in p.ans.media.iter().enumerate() {
            o.rtp_ao.push(rtp_roundtrip(m, &p.off.pc, format!("verif-c10-ao-{i}-payload").as_bytes(), T_MSG).await);
        }
        // concurrent media + data (seed C10-d): after the sequential exchanges above
        o.conc_requested = conc;
        if conc && o.data_oa == Some(Ok(())) && o.data_ao == Some(Ok(())) {
            let (doa, dao) = concurrent_media_and_data(&p, 300, 900, Duration::from_secs(15)).await;
            o.conc.push(("data-not-delivered:o->a", doa)); o.conc.push(("data-not-delivered:a->o", dao));
            // … and intact RTP keeps arriving afterwards
            let ra = match p.off.media.first() { Some(m) => rtp_roundtrip_skipping(m, &p.ans.pc, b"verif-c10-after-conc-oa", T_MSG, &[CONC_MEDIA, b"verif-c10-oa-0-payload"]).await, None => Ok(()) };
            let rb = match p.ans.media.first() { Some(m) => rtp_roundtrip_skipping(m, &p.off.pc, b"verif-c10-after-conc-ao", T_MSG, &[CONC_MEDIA, b"verif-c10-ao-0-payload"]).await, None => Ok(()) };
            o.conc.push(("rtp-not-delivered:o->a", ra)); o.conc.push(("rtp-not-delivered:a->o", rb));
        }
        o.extra_o = p.off.pc.verif_lc_extra_transport_counts();
        o.extra_a = p.ans.pc.verif_lc_extra_transport_counts();
        // installed keys / profile
        let ko = p.off.pc.verif_lc_rtp_transport().and_then(|t| t.verif_lc_srtp_keying());
        let ka = p.ans.pc.verif_lc_rtp_transport().and_then(|t| t.verif_lc_srtp_keying());
        o.keys_o = ko.as_ref().map(keys_text).unwrap_or_else(|| "-".into());
        o.keys_a = ka.as_ref().map(keys_text).unwrap_or_else(|| "-".into());
        o.profile_o = ko.as_ref().map(|k| profile_text(k.0).to_string()).unwrap_or_else(|| "-".into());
        o.profile_a = ka.as_ref().map(|k| profile_text(k.0).to_string()).unwrap_or_else(|| "-".into());
        o.keys_raw_o = ko; o.keys_raw_a = ka;
        if cfg.mode == Mode::WebRtc {
            let mo = p.off.pc.verif_lc_dtls_transport().and_then(|d| d.export_keying_material("EXTRACTOR-dtls_srtp", 60).ok());
            let ma = p.ans.pc.verif_lc_dtls_transport().and_then(|d| d.export_keying_material("EXTRACTOR-dtls_srtp", 60).ok());
            if mo.is_some() && mo == ma { o.mat = mo.clone(); } else { o.err = Some("DTLS exporters of the two ends differ".into()); }
            if with_srtp_fn && let Some(mat) = mo {
                // function-level: the real setup_srtp for every role and profile id (connection is discarded afterwards)
                for pid in [None, Some(1u16), Some(2), Some(7), Some(5), Some(0xffff)] {
                    for is_client in [true, false] {
                        let k = p.off.pc.verif_lc_setup_srtp(is_client, pid);
                        let inp = format!("{} {} {}", pid.map(|x| x.to_string()).unwrap_or_else(|| "-".into()), is_client as u8, hex(&mat));
                        let out = match k { Some(k) => format!("{} {}", profile_text(k.0), keys_text(&k)), None => "none".into() };
                        o.srtp_fn.push((inp, out));
                    }
                }
            }
        }
    }
    p.off.pc.close();
    p.ans.pc.close();
    o
}

fn bits(v: &[Result<(), String>]) -> String { if v.is_empty() { "-".into() } else { v.iter().map(|r| if r.is_ok() { '1' } else { '0' }).collect() } }
fn opt_bit(v: &Option<Result<(), String>>) -> &'static str { match v { None => "-", Some(Ok(())) => "1", Some(Err(_)) => "0" } }

fn live_lines(cfg: &Cfg, o: &LiveObs) -> (String, String) {
    let input = format!("{} {} {} {} {} {} {} {} {} {} {}", mode_letter(cfg.mode), cfg.mix.n_media(), cfg.mix.has_data() as u8,
        cfg.legacy as u8, cfg.mux_require as u8,
        o.mat.as_ref().map(|m| hex(m)).unwrap_or_else(|| "-".into()),
        o.ks_o.as_ref().map(|m| hex(m)).unwrap_or_else(|| "-".into()),
        o.ks_a.as_ref().map(|m| hex(m)).unwrap_or_else(|| "-".into()),
        o.suite_o, o.suite_a, if o.conc_requested { "c1" } else { "c0" }) + &format!(" # {}", cfg.text());
    let conc = if o.conc.is_empty() { "-".to_string() } else { o.conc.iter().map(|(_, r)| if r.is_ok() { '1' } else { '0' }).collect::<String>() };
    let early = match o.early_id { None => "-".to_string(), Some(id) => format!("{id}:{}", o.early.iter().map(|(_, r)| if r.is_ok() { '1' } else { '0' }).collect::<String>()) };
    let dc2 = if o.dc2.is_empty() { "-".to_string() } else { format!("{}:{}", o.dc2_ids.iter().map(|i| i.to_string()).collect::<Vec<_>>().join("."), o.dc2.iter().map(|(_, r)| if r.is_ok() { '1' } else { '0' }).collect::<String>()) };
    let out = format!("conn={} roles={}/{} setup={}/{} profile={}/{} keys={}/{} bundle={}/{} mux={}/{} ports={}/{} extra={}.{}/{}.{} data={}/{} rtp={}/{} early={early} dc2={dc2} conc={conc}",
        o.connected as u8, role_text(o.role_o), role_text(o.role_a), o.setup_offer, o.setup_answer,
        o.profile_o, o.profile_a, o.keys_o, o.keys_a, o.bundle_offer as u8, o.bundle_answer as u8,
        o.mux_offer as u8, o.mux_answer as u8, o.ports_offer, o.ports_answer,
        o.extra_o.0, o.extra_o.1, o.extra_a.0, o.extra_a.1,
        opt_bit(&o.data_oa), opt_bit(&o.data_ao), bits(&o.rtp_oa), bits(&o.rtp_ao));
    (input, out)
}

/// signature prefix = the **full** lattice point (every dimension), so a known finding covers exactly one point
fn class_of(cfg: &Cfg) -> String { cfg.text() }

/// the property evaluated directly on the observations (independent of the Lean model)
fn live_oracles(cfg: &Cfg, o: &LiveObs) -> Vec<(String, String)> {
    let mut f = vec![];
    let cls = class_of(cfg);
    if let Some(e) = &o.err { if !o.connected { f.push((format!("cfg:{cls}:not-connected"), e.clone())); return f; } else { f.push((format!("cfg:{cls}:exporter-mismatch"), e.clone())); } }
    if !o.connected { f.push((format!("cfg:{cls}:not-connected"), "no Connected".into())); return f; }
    for (d, r) in [("o->a", &o.data_oa), ("a->o", &o.data_ao)] {
        if let Some(Err(e)) = r { f.push((format!("cfg:{cls}:data-not-delivered:{d}"), e.clone())); }
    }
    for (d, r) in &o.conc { if let Err(e) = r { f.push((format!("cfg:{cls}:{d}:concurrent-media-and-data"), e.clone())); } }
    for (d, r) in &o.early { if let Err(e) = r { f.push((format!("cfg:{cls}:data-not-delivered:answerer-early-channel:{d}"), e.clone())); } }
    for (d, r) in &o.dc2 { if let Err(e) = r { f.push((format!("cfg:{cls}:data-not-delivered:both-ends-create:{d}"), e.clone())); } }
    for (d, v) in [("o->a", &o.rtp_oa), ("a->o", &o.rtp_ao)] {
        for (i, r) in v.iter().enumerate() { if let Err(e) = r { f.push((format!("cfg:{cls}:rtp-not-delivered:{d}:section{i}"), e.clone())); } }
    }
    if cfg.mode == Mode::WebRtc {
        match (o.role_o, o.role_a) { (Some(a), Some(b)) if a != b => {}, r => f.push((format!("cfg:{cls}:roles-not-complementary"), format!("{r:?}"))) }
    }
    if cfg.mode != Mode::Rtp && cfg.mix.n_media() > 0 {
        match (&o.keys_raw_o, &o.keys_raw_a) {
            (Some(a), Some(b)) => {
                if a.0 != b.0 { f.push((format!("cfg:{cls}:srtp-profile-differs"), format!("{:?} vs {:?}", a.0, b.0))); }
                if a.1 != b.3 || a.2 != b.4 || b.1 != a.3 || b.2 != a.4 { f.push((format!("cfg:{cls}:srtp-keys-not-crossed"), "tx of one end is not rx of the other".into())); }
                if a.1 == a.3 && a.2 == a.4 { f.push((format!("cfg:{cls}:srtp-tx-equals-rx"), "same key both directions".into())); }
            }
            _ => f.push((format!("cfg:{cls}:srtp-not-installed"), "no SRTP session".into())),
        }
    }
    f
}

// ---------------------------------------------------------------------------------------------
// pairwise covering array over the valid lattice points (greedy, deterministic)

fn dims(c: &Cfg) -> [u8; 8] {
    [c.mode as u8, c.mix as u8, c.bundle, c.mux_require as u8, c.ice as u8, c.latching as u8, c.legacy as u8, c.p_offers as u8]
}
pub fn pairwise(all: &[Cfg], rng: &mut Rng) -> Vec<Cfg> {
    let mut need: BTreeSet<(u8, u8, u8, u8)> = BTreeSet::new();
    for c in all { let d = dims(c); for i in 0..8 { for j in i + 1..8 { need.insert((i as u8, d[i], j as u8, d[j])); } } }
    let mut chosen = vec![];
    while !need.is_empty() {
        let mut best = (0usize, 0usize);
        let off = rng.below(all.len() as u64) as usize;
        for k in 0..all.len() {
            let idx = (k + off) % all.len();
            let d = dims(&all[idx]);
            let mut n = 0;
            for i in 0..8 { for j in i + 1..8 { if need.contains(&(i as u8, d[i], j as u8, d[j])) { n += 1; } } }
            if n > best.0 { best = (n, idx); }
        }
        let d = dims(&all[best.1]);
        for i in 0..8 { for j in i + 1..8 { need.remove(&(i as u8, d[i], j as u8, d[j])); } }
        chosen.push(all[best.1]);
    }
    chosen
}

// ---------------------------------------------------------------------------------------------

fn emit_live(run: &mut Run, cfg: &Cfg, o: &LiveObs) {
    let (input, out) = live_lines(cfg, o);
    run.case("live", &input, &out, o.connected);
    run.count(&format!("live_mode_{}", mode_letter(cfg.mode)));
    run.count(&format!("live_ice_{:?}", cfg.ice));
    run.count(&format!("live_mix_{:?}", cfg.mix));
    if o.connected { run.count("live_connected"); }
    if o.retried_after_timeout { run.count("live_first_attempt_timed_out_and_retried"); }
    for (i, ou) in &o.srtp_fn { run.case("srtp", i, ou, true); }
    if cfg.mode == Mode::Srtp && o.connected {
        // SDES: what each end installed, against the two key strings of the SDP
        if let (Some(ko), Some(ka)) = (&o.ks_o, &o.ks_a) {
            run.case("sdes", &format!("{} {} {} {}", o.suite_a, o.suite_o, hex(ka), hex(ko)), &format!("{} {}", o.profile_o, o.keys_o), true);
            run.case("sdes", &format!("{} {} {} {}", o.suite_o, o.suite_a, hex(ko), hex(ka)), &format!("{} {}", o.profile_a, o.keys_a), true);
        }
    }
    for (sig, detail) in live_oracles(cfg, o) { run.fail(&sig, &format!("live {}", cfg.text()), &detail); }
}

pub fn run(args: &Args) {
    let rt = tokio::runtime::Builder::new_multi_thread().worker_threads(8).enable_all().build().unwrap();
    start_lag_monitor(rt.handle());
    let mut run = Run::new("c10", &args.out);
    if let Some(case) = &args.replay {
        let mut it = case.split_whitespace();
        match it.next() {
            Some("live") => {
                let cfg = Cfg::parse(it.next().unwrap_or("")).expect("live <cfg text>");
                let o = rt.block_on(exec_live(cfg, true, runs_concurrent(&cfg, true)));
                let (i, ou) = live_lines(&cfg, &o);
                println!("op: c10 live 0 {i}\nimpl: {ou}");
                if let Some(e) = &o.err { println!("error: {e}"); }
                for (s, d) in live_oracles(&cfg, &o) { println!("ORACLE-FAIL {s} {d}"); }
            }
            Some("role") => {
                let m = match it.next() { Some("w") => Mode::WebRtc, Some("s") => Mode::Srtp, _ => Mode::Rtp };
                let o1 = parse_offer(it.next().unwrap_or("-")); let o2t = it.next().unwrap_or("-");
                let o2 = if o2t == "-" { None } else { Some(parse_offer(o2t)) };
                println!("impl: {}", rt.block_on(exec_role(m, &o1, o2.as_deref())));
            }
            Some("foreign") => { println!("impl: {}", rt.block_on(exec_foreign(&parse_offer(it.next().unwrap_or("-"))))); }
            _ => println!("replay: unknown case {case}"),
        }
        return;
    }
    let mut rng = Rng::new(args.seed);

    // (1) role derivation on crafted offers
    let n_role = if args.tier_thorough { 1500 } else { 260 };
    rt.block_on(async {
        // every pool value alone, in first / second section, for each mode
        let mut cases: Vec<(Mode, Vec<SecAttrs>, Option<Vec<SecAttrs>>)> = vec![];
        for v in SETUP_POOL {
            cases.push((Mode::WebRtc, vec![vec![("setup".into(), Some(v.to_string()))]], None));
            cases.push((Mode::WebRtc, vec![vec![("setup".into(), None)], vec![("setup".into(), Some(v.to_string()))]], Some(vec![vec![("setup".into(), Some("active".into()))]])));
        }
        cases.push((Mode::WebRtc, vec![vec![]], Some(vec![vec![("setup".into(), Some("passive".into()))]])));
        cases.push((Mode::WebRtc, vec![vec![("setup".into(), None)]], None));
        for m in [Mode::Srtp, Mode::Rtp] { cases.push((m, vec![vec![("setup".into(), Some("active".into()))]], Some(vec![vec![]]))); cases.push((m, vec![vec![]], None)); }
        while cases.len() < n_role {
            let mode = if rng.chance(9, 10) { Mode::WebRtc } else if rng.chance(1, 2) { Mode::Srtp } else { Mode::Rtp };
            let ns = rng.range(1, 3) as usize;
            let p = rng.range(3, 9);
            let o1: Vec<SecAttrs> = (0..ns).map(|_| gen_section(&mut rng, p)).collect();
            let o2 = if rng.chance(1, 2) { Some((0..ns).map(|_| gen_section(&mut rng, 8)).collect::<Vec<_>>()) } else { None };
            cases.push((mode, o1, o2));
        }
        for (mode, o1, o2) in cases {
            let out = exec_role(mode, &o1, o2.as_deref()).await;
            let input = format!("{} {} {}", mode_letter(mode), offer_text(&o1), o2.as_ref().map(|o| offer_text(o)).unwrap_or_else(|| "-".into()));
            let nontrivial = !out.starts_with('-');
            run.case("role", &input, &out, nontrivial);
            run.count(&format!("role_out_{}", out.split(' ').next().unwrap_or("?")));
        }
        // foreign offers answered by rustrtc, answer applied by a second rustrtc endpoint
        for v in SETUP_POOL {
            for lay in 0..3 {
                let offer: Vec<SecAttrs> = match lay {
                    0 => vec![vec![("setup".into(), Some(v.to_string()))]],
                    1 => vec![vec![("setup".into(), None)], vec![("setup".into(), Some(v.to_string()))]],
                    _ => vec![vec![("setup".into(), Some(v.to_string()))], vec![("setup".into(), Some("passive".into()))]],
                };
                let out = exec_foreign(&offer).await;
                run.case("foreign", &format!("{} {}", offer_text(&offer), offer.len()), &out, true);
                // oracle: complementary whenever the offer had a setup value
                let f: Vec<&str> = out.split(' ').collect();
                if f.len() >= 2 && (f[0] == f[1] || f[0] == "-" || f[1] == "-") {
                    run.fail("roles:foreign-offer-not-complementary", &format!("foreign {}", offer_text(&offer)), &out);
                }
            }
        }
    });

    // (2) data-channel stream ids
    rt.block_on(async {
        let n_pc = if args.tier_thorough { 30 } else { 8 };
        for k in 0..n_pc {
            let pc = new_pc(Mode::WebRtc);
            let role = match k % 3 { 0 => None, 1 => Some(true), _ => Some(false) };
            if let Some(r) = role {
                let v = if r { "passive" } else { "active" };
                let _ = pc.set_remote_description(build_offer(Mode::WebRtc, &[vec![("setup".into(), Some(v.to_string()))]], 0)).await;
            }
            let mut keep = vec![];
            let mut used: BTreeSet<u16> = BTreeSet::new();
            for _ in 0..rng.range(6, 14) {
                if rng.chance(1, 2) {
                    let id = rng.below(12) as u16;
                    if used.insert(id) {
                        let cfg = rustrtc::transports::sctp::DataChannelConfig { negotiated: Some(id), ..Default::default() };
                        keep.push(pc.create_data_channel("n", Some(cfg)).unwrap());
                    }
                } else {
                    let dc = pc.create_data_channel("a", None).unwrap();
                    let input = format!("{} {}", role_text(pc.verif_lc_dtls_role()),
                        if used.is_empty() { "-".to_string() } else { used.iter().map(|x| x.to_string()).collect::<Vec<_>>().join(",") });
                    run.case("dc", &input, &format!("{}", dc.id), !used.is_empty());
                    // the property on the allocation itself (concrete failing input, independent of the model): the id
                    // is free and has the parity of the role at allocation time (None allocates like the client)
                    let want_parity = if pc.verif_lc_dtls_role().unwrap_or(true) { 0 } else { 1 };
                    if dc.id % 2 != want_parity { run.fail(&format!("dc:alloc:{}:wrong-parity", role_text(pc.verif_lc_dtls_role())), &format!("dc {input}"), &format!("allocated stream id {} with ids in use [{}]", dc.id, input.split(' ').nth(1).unwrap_or("-"))); }
                    if used.contains(&dc.id) { run.fail(&format!("dc:alloc:{}:id-in-use", role_text(pc.verif_lc_dtls_role())), &format!("dc {input}"), &format!("allocated stream id {} which is in use", dc.id)); }
                    if used.contains(&dc.id) { run.fail("dc:allocated-id-in-use", &format!("dc {input}"), &format!("id {}", dc.id)); }
                    used.insert(dc.id);
                    keep.push(dc);
                }
            }
            pc.close();
        }
    });

    // (2b) channels created BEFORE negotiation on both ends (role still None on both: audit A2)
    rt.block_on(async {
        let cfg = Cfg { mode: Mode::WebRtc, mix: Mix::Data, bundle: 0, mux_require: true, ice: IceOpt::Full, latching: false, legacy: false, p_offers: true };
        let mut p = Pair::create(cfg, &Knobs::default());
        let pre = p.ans.pc.create_data_channel("answerer-pre", None).expect("create_data_channel");
        let (ro, ra) = (p.off.pc.verif_lc_dtls_role(), p.ans.pc.verif_lc_dtls_role());
        let oid = p.off.dc.as_ref().map(|d| d.id).unwrap_or(u16::MAX);
        run.case("dcpre", &format!("{} {}", role_text(ro), role_text(ra)), &format!("{} {}", oid, pre.id), true);
        if p.negotiate().await.is_ok() && p.wait_connected(T_CONNECT).await.is_ok() {
            // after negotiation the answerer is the DTLS server: its pre-created channel still has a client-parity id
            // OBSERVATION, not a C10 finding (audit r2-E1): both pre-created channels get stream id 0 and are
            // silently fused into one stream (RFC 8832 channel identity) — but a message still arrives intact in
            // each direction, which is all the C10 clause asks; recorded in the evidence notes.
            if oid == pre.id { run.count("observation_dc_precreate_same_stream_id"); run.notes.insert("observation_dc_precreate".into(), serde_json::json!(format!("offerer channel id {} == answerer channel id {} (both allocated with role None; model: dc_ids_collide_before_negotiation_witness) - outside the C10 clauses", oid, pre.id))); }
        }
        p.off.pc.close(); p.ans.pc.close();
    });

    // (2c) rtcp-mux / RTCP-socket decisions for MIXED policies and compat modes (audit A1, D1, D2): real
    // create_offer / set_remote_description / create_answer in Rtp mode, one audio section, no connection needed
    rt.block_on(async {
        for mo in [true, false] { for lo in [false, true] { for ma in [true, false] { for la in [false, true] {
            let mk = |mux: bool, legacy: bool| { let c = Cfg { mode: Mode::Rtp, mix: Mix::Audio, bundle: 0, mux_require: mux, ice: IceOpt::Full, latching: false, legacy, p_offers: true }; PeerConnection::new(rtc_config(&c, true, &Knobs::default())) };
            let (o, a) = (mk(mo, lo), mk(ma, la));
            for pc in [&o, &a] { pc.add_transceiver(MediaKind::Audio, rustrtc::TransceiverDirection::SendRecv); }
            let r: Result<String, String> = async {
                let offer = o.create_offer().await.map_err(|e| e.to_string())?;
                o.set_local_description(offer.clone()).map_err(|e| e.to_string())?;
                a.set_remote_description(offer.clone()).await.map_err(|e| e.to_string())?;
                let answer = a.create_answer().await.map_err(|e| e.to_string())?;
                let has = |d: &SessionDescription, k: &str| d.media_sections.iter().any(|m| m.attributes.iter().any(|x| x.key == k)) as u8;
                Ok(format!("mux={}/{} rtcp={}/{}", has(&offer, "rtcp-mux"), has(&answer, "rtcp-mux"), has(&offer, "rtcp"), has(&answer, "rtcp")))
            }.await;
            let out = r.unwrap_or_else(|e| format!("err:{e}"));
            run.case("muxsdp", &format!("{} {} {} {}", mo as u8, lo as u8, ma as u8, la as u8), &out, mo != ma || lo != la);
            // oracle: an end that does not multiplex must advertise (= have bound) an RTCP port
            if out == "mux=1/0 rtcp=0/0" || out.ends_with("rtcp=0/0") && out.starts_with("mux=0/0") {
                // OBSERVATION, not a C10 finding (audit r2-E2): no C10 clause mentions RTCP and no connection is
                // attempted for mixed-policy pairs; recorded in the evidence notes.
                run.count("observation_mixed_policy_no_rtcp_port");
                run.notes.insert(format!("observation_mux_mixed_policy_{}{}{}{}", mo as u8, lo as u8, ma as u8, la as u8), serde_json::json!(format!("{out}: the answer drops rtcp-mux and neither end bound an RTCP socket (model: mux_mixed_policy_no_rtcp_socket_witness) - outside the C10 clauses")));
            }
            o.close(); a.close();
        }}}}
    });

    // (2d) the same with TWO media sections (audio + video): BUNDLE decision of offer and answer for mixed
    // compatibility modes (the `!LegacySip` conjunct of the answer's `will_bundle`, audit r2-D1) and the
    // per-section RTCP socket of every non-first non-BUNDLE section (the offer arm of the per-section
    // `needs_rtcp`, audit r2-D2): `a=group:BUNDLE`, and per section `a=rtcp-mux` / `a=rtcp` (Rtp mode writes
    // `a=rtcp` exactly when the section does not multiplex and its transport bound an RTCP socket)
    rt.block_on(async {
        for mo in [true, false] { for lo in [false, true] { for ma in [true, false] { for la in [false, true] {
            let mk = |mux: bool, legacy: bool| { let c = Cfg { mode: Mode::Rtp, mix: Mix::AudioVideo, bundle: 0, mux_require: mux, ice: IceOpt::Full, latching: false, legacy, p_offers: true }; PeerConnection::new(rtc_config(&c, true, &Knobs::default())) };
            let (o, a) = (mk(mo, lo), mk(ma, la));
            for pc in [&o, &a] { pc.add_transceiver(MediaKind::Audio, rustrtc::TransceiverDirection::SendRecv); pc.add_transceiver(MediaKind::Video, rustrtc::TransceiverDirection::SendRecv); }
            let r: Result<String, String> = async {
                let offer = o.create_offer().await.map_err(|e| e.to_string())?;
                o.set_local_description(offer.clone()).map_err(|e| e.to_string())?;
                a.set_remote_description(offer.clone()).await.map_err(|e| e.to_string())?;
                let answer = a.create_answer().await.map_err(|e| e.to_string())?;
                let grp = |d: &SessionDescription| d.session.attributes.iter().any(|x| x.key == "group" && x.value.as_deref().is_some_and(|v| v.starts_with("BUNDLE"))) as u8;
                let per = |d: &SessionDescription, k: &str| d.media_sections.iter().map(|m| if m.attributes.iter().any(|x| x.key == k) { '1' } else { '0' }).collect::<String>();
                let ports = |d: &SessionDescription| { let v: Vec<u16> = d.media_sections.iter().map(|m| m.port).collect(); (v.len() == 2 && v[0] == v[1]) as u8 };
                Ok(format!("grp={}/{} sameport={}/{} mux={}/{} rtcp={}/{}", grp(&offer), grp(&answer), ports(&offer), ports(&answer), per(&offer, "rtcp-mux"), per(&answer, "rtcp-mux"), per(&offer, "rtcp"), per(&answer, "rtcp")))
            }.await;
            let out = r.unwrap_or_else(|e| format!("err:{e}"));
            run.case("muxsdp2", &format!("{} {} {} {}", mo as u8, lo as u8, ma as u8, la as u8), &out, mo != ma || lo != la);
            o.close(); a.close();
        }}}}
    });

    // (2e) MIXED compatibility modes on live pairs (audit r3-3.2): the property fixes only the transport mode; the
    // lattice has the same compat mode at both ends. Direct modes, audio + video, full ICE, the offerer Standard and
    // the answerer LegacySip and vice versa: Connected, one RTP sample per section each way. Implementation-side
    // oracle only (the model's delivery plan takes ONE bundle flag for both ends).
    rt.block_on(async {
        for mode in [Mode::Rtp, Mode::Srtp] { for (lo, la) in [(false, true), (true, false)] {
            let cfg = Cfg { mode, mix: Mix::AudioVideo, bundle: 0, mux_require: true, ice: IceOpt::Full, latching: false, legacy: lo, p_offers: true };
            let name = format!("{}-av-{}offerer-{}answerer", match mode { Mode::Rtp => "rtp", Mode::Srtp => "srtp", _ => "webrtc" }, if lo { "legacy" } else { "std" }, if la { "legacy" } else { "std" });
            let mut p = Pair::create(cfg, &Knobs { q_legacy: Some(la), ..Knobs::default() });
            run.count("mixed_compat_pairs");
            let r: Result<(), String> = async { p.negotiate().await?; p.wait_connected(T_CONNECT).await }.await;
            match r {
                Err(e) => run.fail(&format!("cfgmix:{name}:not-connected"), &format!("mixed {name}"), &e),
                Ok(()) => {
                    let t = Duration::from_secs(3);
                    for (i, m) in p.off.media.iter().enumerate() { if let Err(e) = rtp_roundtrip(m, &p.ans.pc, format!("verif-c10-mix-oa-{i}").as_bytes(), t).await { run.fail(&format!("cfgmix:{name}:rtp-not-delivered:o->a:section{i}"), &format!("mixed {name}"), &e); } }
                    for (i, m) in p.ans.media.iter().enumerate() { if let Err(e) = rtp_roundtrip(m, &p.off.pc, format!("verif-c10-mix-ao-{i}").as_bytes(), t).await { run.fail(&format!("cfgmix:{name}:rtp-not-delivered:a->o:section{i}"), &format!("mixed {name}"), &e); } }
                }
            }
            p.off.pc.close(); p.ans.pc.close();
        }}
    });

    // (2f) a configured RTP port range that is exactly large enough (seed C10-g): both endpoints run on one host and share
    // `rtp_start_port ..= rtp_end_port` = [P, P+2], i.e. two even ports for two endpoints with one transport each. They are
    // compatibly configured, so they must connect (and carry a message / a sample). An endpoint that never probes the last
    // port of its range gathers no host candidate. Implementation-side oracle only; up to 3 attempts on different ranges
    // (another process may take a port between the probe and the bind).
    rt.block_on(async {
        for (name, mode, mix) in [("webrtc-data", Mode::WebRtc, Mix::Data), ("rtp-audio", Mode::Rtp, Mix::Audio)] {
            let cfg = Cfg { mode, mix, bundle: 0, mux_require: true, ice: IceOpt::Full, latching: false, legacy: false, p_offers: true };
            if !cfg.valid() { continue; }
            let mut last = String::new(); let mut ok = false;
            for attempt in 0..3u64 {
                let Some(port) = free_even_udp_pair(rng.next() ^ attempt) else { last = "no free port pair found".into(); continue; };
                let mut p = Pair::create(cfg, &Knobs { rtp_port_range: Some((port, port + 2)), ..Knobs::default() });
                run.count("tight_port_range_pairs");
                let r: Result<(), String> = async {
                    p.negotiate().await?; p.wait_connected(T_CONNECT).await?;
                    if mix.has_data() { p.accept_channel(Duration::from_secs(10)).await?; }
                    for (i, m) in p.off.media.iter().enumerate() { rtp_roundtrip(m, &p.ans.pc, format!("verif-c10-range-{i}").as_bytes(), Duration::from_secs(3)).await?; }
                    Ok(())
                }.await;
                p.off.pc.close(); p.ans.pc.close();
                match r { Ok(()) => { ok = true; break; } Err(e) => last = format!("range {port}..={}: {e}", port + 2) }
            }
            if ok { run.count("tight_port_range_connected"); }
            if !ok { run.fail(&format!("cfgrange:{name}:two-endpoints-sharing-a-two-port-range-do-not-connect"), &format!("portrange {name}"), &last); }
        }
    });

    // (3) pure helpers through hooks
    {
        let ip: std::net::IpAddr = "10.0.0.1".parse().unwrap();
        for mux in [false, true] {
            for explicit in ["-", "g", "0", "1", "5005", "65535", "40001"] {
                for port in [0u16, 1, 9, 5004, 40000, 65534, 65535] {
                    let mut m = MediaSection::new(MediaKind::Audio, "0");
                    if mux { m.attributes.push(Attribute::new("rtcp-mux", None)); }
                    match explicit { "-" => {}, "g" => m.attributes.push(Attribute::new("rtcp", Some("abc IN IP4 1.2.3.4".into()))),
                        p => m.attributes.push(Attribute::new("rtcp", Some(if port % 2 == 0 { p.to_string() } else { format!("{p} IN IP4 10.0.0.9") }))) }
                    let r = PeerConnection::verif_lc_remote_rtcp_addr(&m, std::net::SocketAddr::new(ip, port));
                    run.case("rtcp", &format!("{} {} {}", mux as u8, explicit, port), &r.map(|a| a.port().to_string()).unwrap_or_else(|| "-".into()), !mux);
                }
            }
        }
        for s in ["AES_CM_128_HMAC_SHA1_80", "AES_CM_128_HMAC_SHA1_32", "AEAD_AES_128_GCM", "AEAD_AES_256_GCM", "aes_cm_128_hmac_sha1_80", "AES_256_CM_HMAC_SHA1_80", "x", "NULL_HMAC_SHA1_80"] {
            let r = rustrtc::verif_hooks::lifecycle::map_crypto_suite(s);
            run.case("suite", s, r.map(profile_text).unwrap_or("-"), r.is_some());
        }
    }

    // (4) the configuration lattice on real loopback pairs
    let all = Cfg::all();
    let points: Vec<Cfg> = if args.tier_thorough { all.clone() } else {
        let mut v = pairwise(&all, &mut rng);
        run.notes.insert("pairwise_array_size".into(), serde_json::json!(v.len()));
        while v.len() < 45 { let c = *rng.pick(&all); if !v.contains(&c) { v.push(c); } }
        // the framing-sensitive transport with concurrent media + data must be in every quick run
        for mix in [Mix::DataAudio, Mix::DataAudioVideo] {
            if !v.iter().any(|c| c.ice == IceOpt::Tcp && c.mix == mix) {
                if let Some(c) = all.iter().find(|c| c.ice == IceOpt::Tcp && c.mix == mix) { v.push(*c); }
            }
        }
        v
    };
    run.notes.insert("lattice_valid_points".into(), serde_json::json!(all.len()));
    run.notes.insert("scheduling_lag_note".into(), serde_json::json!("every live time bound (gathering 5 s, Connected 12 s, channel / message / RTP 10 s) is stretched by the scheduling lag measured continuously on the harness runtime (how late a 100 ms sleep fires; factor 1.0 on an idle host, capped at 5.0); messages quote the nominal bound"));
    run.notes.insert("lattice_points_run".into(), serde_json::json!(points.len()));
    let par = 8usize;
    let thorough = args.tier_thorough;
    let t0 = Instant::now();
    let results: Vec<(Cfg, LiveObs)> = rt.block_on(async {
        let sem = Arc::new(tokio::sync::Semaphore::new(par));
        let mut hs = vec![];
        for (i, c) in points.iter().cloned().enumerate() {
            let sem = sem.clone();
            hs.push(tokio::spawn(async move {
                let _p = sem.acquire_owned().await.unwrap();
                // the function-level setup_srtp stream on a subset (it discards the connection's transport)
                let conc = runs_concurrent(&c, thorough);
                let mut o = exec_live(c, i % 3 == 0, conc).await;
                // Retry ONLY a pure timeout (busy host: a handshake retransmission can exceed the bound). A
                // definite failure (peer state Failed / an error reason / wrong roles or keys / altered payload)
                // is reported from the first attempt; every retried first attempt is counted in the evidence.
                let first = live_oracles(&c, &o);
                let timeout_only = !first.is_empty() && first.iter().all(|(_, d)| d.contains("not connected within") || d.contains("no RTP within") || d.contains("within 10s") || d.contains("not delivered within") || d.contains("not open within"));
                let mut retried = false;
                // never retry the points whose time-out IS the listed known finding (Srtp, two non-BUNDLE
                // sections): the retry counter then counts unexpected first-attempt time-outs only
                let known_point = c.mode == Mode::Srtp && c.legacy && c.mix == Mix::AudioVideo;
                if timeout_only && !known_point { retried = true; o = exec_live(c, i % 3 == 0, conc).await; }
                o.retried_after_timeout = retried;
                (c, o)
            }));
        }
        let mut out = vec![];
        for h in hs { match h.await { Ok(r) => out.push(r), Err(e) => eprintln!("live task panicked: {e}") } }
        out
    });
    let mut worst = 0u128;
    for (c, o) in &results { emit_live(&mut run, c, o); worst = worst.max(o.connect_ms); }
    run.notes.insert("lattice_wall_s".into(), serde_json::json!(t0.elapsed().as_secs_f64()));
    run.notes.insert("slowest_connect_ms".into(), serde_json::json!(worst as u64));
    run.notes.insert("pruning_rule".into(), serde_json::json!("data channels only in WebRtc mode; ICE-lite only in Rtp mode and on one side (P); ICE-TCP / UDP-mux only in WebRtc mode; ICE-TCP = offerer active-only, answerer passive-only (the RFC 6544 subset rustrtc implements), no UDP on either side; who-offers varied only for the asymmetric options lite / UDP-mux"));
    run.notes.insert("runtime_facts".into(), serde_json::json!("connected within 12 s, message / RTP within 10 s on 127.0.0.1 (a failing point is retried once) are measured facts of this run (sockets, tokio), not theorems"));
    run.exhaustive = args.tier_thorough;
    let _ = DisconnectReason::LocalClose;
    run.finish();
    // the runtime owns background tasks of closed connections; do not wait for them
    rt.shutdown_timeout(Duration::from_millis(200));
}
