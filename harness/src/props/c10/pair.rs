//! Real loopback `PeerConnection` pairs (shared by C10 and C17): configuration lattice point → two
//! rustrtc endpoints wired offer/answer in-process, with media sources, a data channel and
//! step-by-step negotiation so C17 can stop at phase boundaries.
use bytes::Bytes;
use rustrtc::media::MediaStreamTrack;
use rustrtc::media::frame::{AudioFrame, MediaSample, VideoFrame};
use rustrtc::media::track::{SampleStreamSource, SampleStreamTrack, sample_track};
use rustrtc::transports::sctp::DataChannel;
use rustrtc::{
    BundlePolicy, DataChannelEvent, IceTcpPolicy, MediaKind, PeerConnection, PeerConnectionEvent,
    RtcConfiguration, RtcpMuxPolicy, RtpCodecParameters, SdpCompatibilityMode, SessionDescription,
    TransportMode,
};
use std::sync::Arc;
use std::sync::atomic::{AtomicU16, Ordering};
use std::time::Duration;

#[derive(Clone, Copy, Debug, PartialEq, Eq, Hash, PartialOrd, Ord)]
pub enum Mode { WebRtc, Srtp, Rtp }
#[derive(Clone, Copy, Debug, PartialEq, Eq, Hash, PartialOrd, Ord)]
pub enum Mix { Data, Audio, AudioVideo, DataAudio, DataAudioVideo }
#[derive(Clone, Copy, Debug, PartialEq, Eq, Hash, PartialOrd, Ord)]
pub enum IceOpt { Full, Lite, Tcp, UdpMux }

/// One point of the configuration lattice. `P` is the endpoint that carries the asymmetric ICE option
/// (lite / passive TCP only / UDP mux); `Q` is always a plain full-ICE endpoint with the same
/// mode, mix, policies, latching and compat mode.
#[derive(Clone, Copy, Debug, PartialEq, Eq, Hash, PartialOrd, Ord)]
pub struct Cfg {
    pub mode: Mode,
    pub mix: Mix,
    pub bundle: u8,        // BundlePolicy: 0 Balanced, 1 MaxCompat, 2 MaxBundle
    pub mux_require: bool, // RtcpMuxPolicy::Require / Negotiate
    pub ice: IceOpt,
    pub latching: bool,
    pub legacy: bool,      // SdpCompatibilityMode::LegacySip
    pub p_offers: bool,
}

impl Mix {
    pub fn has_data(self) -> bool { matches!(self, Mix::Data | Mix::DataAudio | Mix::DataAudioVideo) }
    pub fn has_audio(self) -> bool { !matches!(self, Mix::Data) }
    pub fn has_video(self) -> bool { matches!(self, Mix::AudioVideo | Mix::DataAudioVideo) }
    pub fn n_media(self) -> usize { self.has_audio() as usize + self.has_video() as usize }
}

impl Cfg {
    /// The written pruning rule (DESIGN C10): which lattice points are *compatible configurations*.
    /// * data channels exist only in WebRTC mode (SCTP runs over DTLS);
    /// * ICE-lite is only implemented for Rtp mode (`enable_ice_lite` is consulted nowhere else),
    ///   and at most one side may be lite (P);
    /// * ICE-TCP and the single-port UDP mux are gathering variants, i.e. WebRTC mode only (the direct
    ///   modes do not gather); rustrtc's ICE-TCP is the RFC 6544 subset "controlling = active,
    ///   controlled = passive listener" (see `gather`: active candidates only "for controlling clients"),
    ///   so the TCP option configures the offerer active-only and the answerer passive-only (no UDP on
    ///   either side, forcing TCP) and has no separate who-offers variant. (An active-only endpoint as the
    ///   *controlled* side was tried: it never leaves `New` — outside the compatible set.)
    /// * `who offers` only matters when the two ends differ (asymmetric ICE option), so symmetric points
    ///   keep `p_offers = true`.
    pub fn valid(&self) -> bool {
        if self.mix.has_data() && self.mode != Mode::WebRtc { return false; }
        match self.ice {
            IceOpt::Full => { if !self.p_offers { return false; } }
            IceOpt::Lite => { if self.mode != Mode::Rtp { return false; } }
            IceOpt::Tcp => { if self.mode != Mode::WebRtc || !self.p_offers { return false; } }
            IceOpt::UdpMux => { if self.mode != Mode::WebRtc { return false; } }
        }
        true
    }
    pub fn text(&self) -> String {
        format!("{}-{}-b{}-{}-{}-{}-{}-{}",
            match self.mode { Mode::WebRtc => "webrtc", Mode::Srtp => "srtp", Mode::Rtp => "rtp" },
            match self.mix { Mix::Data => "d", Mix::Audio => "a", Mix::AudioVideo => "av", Mix::DataAudio => "da", Mix::DataAudioVideo => "dav" },
            self.bundle,
            if self.mux_require { "muxreq" } else { "muxneg" },
            match self.ice { IceOpt::Full => "full", IceOpt::Lite => "lite", IceOpt::Tcp => "tcp", IceOpt::UdpMux => "udpmux" },
            if self.latching { "latch" } else { "nolatch" },
            if self.legacy { "legacy" } else { "std" },
            if self.p_offers { "poffers" } else { "qoffers" })
    }
    pub fn parse(s: &str) -> Option<Cfg> {
        let f: Vec<&str> = s.split('-').collect();
        if f.len() != 8 { return None; }
        Some(Cfg {
            mode: match f[0] { "webrtc" => Mode::WebRtc, "srtp" => Mode::Srtp, "rtp" => Mode::Rtp, _ => return None },
            mix: match f[1] { "d" => Mix::Data, "a" => Mix::Audio, "av" => Mix::AudioVideo, "da" => Mix::DataAudio, "dav" => Mix::DataAudioVideo, _ => return None },
            bundle: f[2].trim_start_matches('b').parse().ok()?,
            mux_require: f[3] == "muxreq",
            ice: match f[4] { "full" => IceOpt::Full, "lite" => IceOpt::Lite, "tcp" => IceOpt::Tcp, "udpmux" => IceOpt::UdpMux, _ => return None },
            latching: f[5] == "latch",
            legacy: f[6] == "legacy",
            p_offers: f[7] == "poffers",
        })
    }
    pub fn all() -> Vec<Cfg> {
        let mut v = vec![];
        for mode in [Mode::WebRtc, Mode::Srtp, Mode::Rtp] {
        for mix in [Mix::Data, Mix::Audio, Mix::AudioVideo, Mix::DataAudio, Mix::DataAudioVideo] {
        for bundle in 0..3u8 {
        for mux_require in [true, false] {
        for ice in [IceOpt::Full, IceOpt::Lite, IceOpt::Tcp, IceOpt::UdpMux] {
        for latching in [false, true] {
        for legacy in [false, true] {
        for p_offers in [true, false] {
            let c = Cfg { mode, mix, bundle, mux_require, ice, latching, legacy, p_offers };
            if c.valid() { v.push(c); }
        }}}}}}}}
        v
    }
}

static NEXT_MUX_PORT: AtomicU16 = AtomicU16::new(0);
/// A UDP port for the single-port mux that no other pair of this process gets: a per-process counter in a
/// high range (checked to be bindable), so parallel pairs never end up on one shared mux socket by accident.
fn free_udp_port() -> u16 {
    if NEXT_MUX_PORT.load(Ordering::Relaxed) == 0 {
        let base = 41000 + (std::process::id() % 200) as u16 * 100;
        let _ = NEXT_MUX_PORT.compare_exchange(0, base, Ordering::Relaxed, Ordering::Relaxed);
    }
    loop {
        let p = NEXT_MUX_PORT.fetch_add(1, Ordering::Relaxed);
        if p < 41000 { NEXT_MUX_PORT.store(41000, Ordering::Relaxed); continue; }
        if std::net::UdpSocket::bind(("127.0.0.1", p)).is_ok() { return p; }
    }
}

/// Timing knobs (C17 shortens the ICE disconnect threshold / grace so "peer vanished" is observable).
/// Scheduling lag of the host, measured continuously: how late a `sleep(100 ms)` wakes up, as a percentage
/// (100 = on time). A decaying maximum, so a saturation burst keeps the bounds stretched for a few seconds.
pub static LAG_PCT: std::sync::atomic::AtomicU64 = std::sync::atomic::AtomicU64::new(100);
pub static LAG_PCT_MAX: std::sync::atomic::AtomicU64 = std::sync::atomic::AtomicU64::new(100);
/// start the monitor on `h` (idempotent enough: several monitors only sample more often)
pub fn start_lag_monitor(h: &tokio::runtime::Handle) {
    h.spawn(async {
        loop {
            let t = std::time::Instant::now();
            tokio::time::sleep(Duration::from_millis(100)).await;
            let pct = (t.elapsed().as_millis() as u64).max(100);
            let cur = LAG_PCT.load(Ordering::Relaxed);
            let new = pct.max((cur * 95 / 100).max(100));
            LAG_PCT.store(new, Ordering::Relaxed);
            LAG_PCT_MAX.fetch_max(new, Ordering::Relaxed);
        }
    });
}
/// 1.0 on an idle host, up to 5.0 when timers fire 5x late
pub fn lag_factor() -> f64 { (LAG_PCT.load(Ordering::Relaxed) as f64 / 100.0).clamp(1.0, 5.0) }
/// a time bound stretched by the measured scheduling lag (runnable-but-not-scheduled tasks are not a defect of
/// the subject); the nominal bound is what the messages and the evidence quote
pub fn scaled(d: Duration) -> Duration { d.mul_f64(lag_factor()) }

#[derive(Clone, Debug)]
pub struct Knobs {
    pub ice_disconnect_threshold: Option<Duration>,
    pub ice_disconnect_grace: Option<Duration>,
    pub ice_connection_timeout: Option<Duration>,
    pub sctp_max_buffered: Option<usize>,
    /// (heartbeat interval, max heartbeat failures, max association retransmits)
    pub sctp_heartbeat: Option<(Duration, u32, u32)>,
    /// compatibility mode of endpoint Q when it differs from P's (`Cfg::legacy`): mixed-compat pairs
    pub q_legacy: Option<bool>,
    /// runtime for every rustrtc task of endpoint P (resource measurement per endpoint)
    pub p_runtime: Option<tokio::runtime::Handle>,
    /// `rtp_start_port ..= rtp_end_port` configured on BOTH endpoints (they share the range on one host)
    pub rtp_port_range: Option<(u16, u16)>,
}
impl Default for Knobs {
    fn default() -> Self { Knobs { ice_disconnect_threshold: None, ice_disconnect_grace: None, ice_connection_timeout: None, sctp_max_buffered: None, sctp_heartbeat: None, q_legacy: None, p_runtime: None, rtp_port_range: None } }
}

/// an even port P in 20000..30000 (below the ephemeral range) such that P, P+1, P+2, P+3 are free right now (UDP, loopback)
pub fn free_even_udp_pair(seed: u64) -> Option<u16> {
    for i in 0..400u64 {
        let p = 20000 + (((seed.wrapping_mul(6364136223846793005).wrapping_add(i * 7919)) % 4998) * 2) as u16;
        let socks: Vec<_> = (0..4u16).map(|d| std::net::UdpSocket::bind(("127.0.0.1", p + d))).collect();
        if socks.iter().all(|s| s.is_ok()) { drop(socks); return Some(p); }
    }
    None
}

fn free_tcp_port() -> u16 {
    let s = std::net::TcpListener::bind("127.0.0.1:0").unwrap();
    let p = s.local_addr().unwrap().port();
    drop(s);
    p
}

pub fn rtc_config(c: &Cfg, is_p: bool, k: &Knobs) -> RtcConfiguration {
    let mut r = RtcConfiguration::default();
    r.transport_mode = match c.mode { Mode::WebRtc => TransportMode::WebRtc, Mode::Srtp => TransportMode::Srtp, Mode::Rtp => TransportMode::Rtp };
    r.bundle_policy = match c.bundle { 0 => BundlePolicy::Balanced, 1 => BundlePolicy::MaxCompat, _ => BundlePolicy::MaxBundle };
    r.rtcp_mux_policy = if c.mux_require { RtcpMuxPolicy::Require } else { RtcpMuxPolicy::Negotiate };
    r.enable_latching = c.latching;
    let legacy = if is_p { c.legacy } else { k.q_legacy.unwrap_or(c.legacy) };
    r.sdp_compatibility = if legacy { SdpCompatibilityMode::LegacySip } else { SdpCompatibilityMode::Standard };
    r.bind_ip = Some("127.0.0.1".into());
    r.disable_ipv6 = true;
    match c.ice {
        IceOpt::Full => {}
        IceOpt::Lite => { if is_p { r.enable_ice_lite = true; } }
        IceOpt::Tcp => {
            // P offers (controlling, active TCP only); Q answers (controlled, one passive listener)
            r.ice_tcp_policy = IceTcpPolicy::Enabled;
            r.ice_gather_udp_hosts = false;
            if !is_p { let p = free_tcp_port(); r.tcp_port_range_start = Some(p); r.tcp_port_range_end = Some(p.saturating_add(3)); }
        }
        IceOpt::UdpMux => { if is_p { r.ice_udp_mux = true; r.ice_udp_mux_port = Some(free_udp_port()); } }
    }
    if let Some(d) = k.ice_disconnect_threshold { r.ice_disconnect_threshold = d; }
    if let Some(d) = k.ice_disconnect_grace { r.ice_disconnect_grace = d; }
    if let Some(d) = k.ice_connection_timeout { r.ice_connection_timeout = d; }
    if let Some(n) = k.sctp_max_buffered { r.sctp_max_buffered_amount = n; }
    if let Some((d, f, a)) = k.sctp_heartbeat { r.sctp_heartbeat_interval = d; r.sctp_max_heartbeat_failures = f; r.sctp_max_association_retransmits = a; }
    if is_p && let Some(h) = &k.p_runtime { r.runtime_handle = Some(h.clone()); }
    if let Some((a, b)) = k.rtp_port_range { r.rtp_start_port = Some(a); r.rtp_end_port = Some(b); }
    r
}

pub struct Media {
    pub kind: MediaKind,
    pub source: SampleStreamSource,
    pub _track: Arc<SampleStreamTrack>,
}

pub struct Side {
    pub pc: PeerConnection,
    pub media: Vec<Media>,
    pub dc: Option<Arc<DataChannel>>,
}

pub struct Pair {
    pub cfg: Cfg,
    pub off: Side, // the offerer
    pub ans: Side, // the answerer
    pub offer: Option<SessionDescription>,
    pub answer: Option<SessionDescription>,
}

fn add_media(pc: &PeerConnection, mix: Mix) -> Vec<Media> {
    let mut v = vec![];
    if mix.has_audio() {
        let (source, track, _) = sample_track(rustrtc::media::frame::MediaKind::Audio, 100);
        let params = RtpCodecParameters { payload_type: 111, name: "opus".into(), clock_rate: 48000, channels: 2 };
        pc.add_track(track.clone(), params).expect("add_track audio");
        v.push(Media { kind: MediaKind::Audio, source, _track: track });
    }
    if mix.has_video() {
        let (source, track, _) = sample_track(rustrtc::media::frame::MediaKind::Video, 100);
        let params = RtpCodecParameters { payload_type: 96, name: "VP8".into(), clock_rate: 90000, channels: 0 };
        pc.add_track(track.clone(), params).expect("add_track video");
        v.push(Media { kind: MediaKind::Video, source, _track: track });
    }
    v
}

impl Pair {
    /// phase "created": two endpoints with media and (offerer only) a data channel, nothing negotiated.
    pub fn create(cfg: Cfg, knobs: &Knobs) -> Pair {
        let p = PeerConnection::new(rtc_config(&cfg, true, knobs));
        let q = PeerConnection::new(rtc_config(&cfg, false, knobs));
        let (o, a) = if cfg.p_offers { (p, q) } else { (q, p) };
        let om = add_media(&o, cfg.mix);
        let am = add_media(&a, cfg.mix);
        let dc = if cfg.mix.has_data() { Some(o.create_data_channel("verif", None).expect("create_data_channel")) } else { None };
        Pair { cfg, off: Side { pc: o, media: om, dc }, ans: Side { pc: a, media: am, dc: None }, offer: None, answer: None }
    }
    /// offerer: create_offer (+ gathering) and set_local_description.
    pub async fn make_offer(&mut self) -> Result<(), String> {
        let _ = self.off.pc.create_offer().await.map_err(|e| format!("create_offer: {e}"))?;
        tokio::time::timeout(scaled(Duration::from_secs(5)), self.off.pc.wait_for_gathering_complete()).await.map_err(|_| "offer gathering timeout".to_string())?;
        let offer = self.off.pc.create_offer().await.map_err(|e| format!("create_offer2: {e}"))?;
        self.off.pc.set_local_description(offer.clone()).map_err(|e| format!("set_local(offer): {e}"))?;
        self.offer = Some(offer);
        Ok(())
    }
    pub async fn deliver_offer(&mut self) -> Result<(), String> {
        let offer = self.offer.clone().ok_or("no offer")?;
        self.ans.pc.set_remote_description(offer).await.map_err(|e| format!("set_remote(offer): {e}"))
    }
    pub async fn make_answer(&mut self) -> Result<(), String> {
        let _ = self.ans.pc.create_answer().await.map_err(|e| format!("create_answer: {e}"))?;
        tokio::time::timeout(scaled(Duration::from_secs(5)), self.ans.pc.wait_for_gathering_complete()).await.map_err(|_| "answer gathering timeout".to_string())?;
        let answer = self.ans.pc.create_answer().await.map_err(|e| format!("create_answer2: {e}"))?;
        self.ans.pc.set_local_description(answer.clone()).map_err(|e| format!("set_local(answer): {e}"))?;
        self.answer = Some(answer);
        Ok(())
    }
    pub async fn deliver_answer(&mut self) -> Result<(), String> {
        let answer = self.answer.clone().ok_or("no answer")?;
        self.off.pc.set_remote_description(answer).await.map_err(|e| format!("set_remote(answer): {e}"))
    }
    pub async fn negotiate(&mut self) -> Result<(), String> {
        self.make_offer().await?;
        self.deliver_offer().await?;
        self.make_answer().await?;
        self.deliver_answer().await
    }
    pub async fn wait_connected(&self, t: Duration) -> Result<(), String> {
        let a = self.off.pc.wait_for_connected();
        let b = self.ans.pc.wait_for_connected();
        match tokio::time::timeout(scaled(t), async { tokio::try_join!(a, b) }).await {
            Err(_) => Err(format!("not connected within {:?}: offerer={:?} answerer={:?}", t,
                *self.off.pc.subscribe_peer_state().borrow(), *self.ans.pc.subscribe_peer_state().borrow())),
            Ok(Err(e)) => Err(format!("wait_for_connected: {e}; reasons offerer={:?} answerer={:?}", self.off.pc.disconnect_reason(), self.ans.pc.disconnect_reason())),
            Ok(Ok(_)) => Ok(()),
        }
    }
    /// answerer side: wait for the remote-opened data channel to be announced.
    pub async fn accept_channel(&mut self, t: Duration) -> Result<(), String> {
        if self.ans.dc.is_some() || !self.cfg.mix.has_data() { return Ok(()); }
        let pc = self.ans.pc.clone();
        let r = tokio::time::timeout(scaled(t), async move {
            loop {
                match pc.recv().await {
                    Some(PeerConnectionEvent::DataChannel(dc)) => return Some(dc),
                    Some(_) => continue,
                    None => return None,
                }
            }
        }).await;
        match r {
            Ok(Some(dc)) => { self.ans.dc = Some(dc); Ok(()) }
            Ok(None) => Err("event channel closed before DataChannel event".into()),
            Err(_) => Err(format!("no DataChannel event at the answerer within {:?}", t)),
        }
    }
}

/// wait until `pc` announces a channel opened by its peer; it must carry `label`
pub async fn announced_channel(pc: &PeerConnection, label: &str, t: Duration) -> Result<Arc<DataChannel>, String> {
    let r = tokio::time::timeout(scaled(t), async {
        loop {
            match pc.recv().await {
                Some(PeerConnectionEvent::DataChannel(dc)) => return if dc.label == label { Ok(dc) } else { Err(format!("announced channel has label {:?} (stream {}), expected {:?}", dc.label, dc.id, label)) },
                Some(_) => continue,
                None => return Err("event stream ended before the peer's channel was announced".to_string()),
            }
        }
    }).await;
    match r { Ok(x) => x, Err(_) => Err(format!("peer's channel {:?} not announced within {:?}", label, t)) }
}

/// wait until `dc` reports Open (event) — returns Err on Close / timeout
pub async fn wait_open(dc: &Arc<DataChannel>, t: Duration) -> Result<(), String> {
    if dc.state.load(Ordering::SeqCst) == rustrtc::DataChannelState::Open as usize { return Ok(()); }
    let r = tokio::time::timeout(scaled(t), async {
        loop {
            match dc.recv().await {
                Some(DataChannelEvent::Open) => return Ok(()),
                Some(DataChannelEvent::Close) | None => return Err("closed".to_string()),
                Some(_) => {}
            }
        }
    }).await;
    match r { Ok(x) => x, Err(_) => {
        if dc.state.load(Ordering::SeqCst) == rustrtc::DataChannelState::Open as usize { Ok(()) } else { Err(format!("channel not open within {:?}", t)) } } }
}

/// Send `payload` on `from`'s channel id and wait for exactly that message on `to_dc`.
pub async fn dc_roundtrip(from: &PeerConnection, id: u16, to_dc: &Arc<DataChannel>, payload: &[u8], t: Duration) -> Result<(), String> {
    from.send_data(id, payload).await.map_err(|e| format!("send_data: {e}"))?;
    let r = tokio::time::timeout(scaled(t), async {
        loop {
            match to_dc.recv().await {
                Some(DataChannelEvent::Message(m)) => return Ok::<Bytes, String>(m),
                Some(DataChannelEvent::Close) | None => return Err("channel closed while waiting for the message".into()),
                Some(_) => {}
            }
        }
    }).await;
    match r {
        Err(_) => Err(format!("message not delivered within {:?}", t)),
        Ok(Err(e)) => Err(e),
        Ok(Ok(m)) => if m.as_ref() == payload { Ok(()) } else { Err(format!("message altered: got {} bytes", m.len())) },
    }
}

pub const CONC_MEDIA: &[u8] = b"verif-c10 concurrent media \x00\xff";
/// numbered, pattern-filled message `i` of the burst sent by `tag`
pub fn burst_msg(tag: u8, i: u32, len: usize) -> Vec<u8> {
    let mut m = Vec::with_capacity(len);
    m.push(tag); m.extend_from_slice(&i.to_be_bytes());
    for j in 5..len { m.push((i as usize * 31 + j * 7) as u8); }
    m
}

/// Concurrent traffic on the live pair: every media source of both ends is pumped (a sample per millisecond,
/// two pump tasks per source) while BOTH ends send a burst of `n` numbered, pattern-filled messages on the
/// offerer-created channel at the same time. Returns, per direction, whether every message arrived in order
/// and byte-intact. (Framing-sensitive transports — ICE-TCP's RFC 4571 framing — see two writers at once here.)
pub async fn concurrent_media_and_data(p: &Pair, n: u32, len: usize, t: Duration) -> (Result<(), String>, Result<(), String>) {
    let (Some(odc), Some(adc)) = (p.off.dc.clone(), p.ans.dc.clone()) else { return (Err("no channel".into()), Err("no channel".into())); };
    let stop = Arc::new(std::sync::atomic::AtomicBool::new(false));
    let mut pumps = vec![];
    for side in [&p.off, &p.ans] { for m in &side.media { for _ in 0..2 {
        let (src, kind, st) = (m.source.clone(), m.kind, stop.clone());
        pumps.push(tokio::spawn(async move { let mut k = 0u32; while !st.load(Ordering::Relaxed) { if src.send(sample(kind, k, CONC_MEDIA)).is_err() { break; } k += 1; tokio::time::sleep(Duration::from_millis(1)).await; } }));
    } } }
    let send = |pc: PeerConnection, id: u16, tag: u8| tokio::spawn(async move {
        for i in 0..n { if let Err(e) = pc.send_data(id, &burst_msg(tag, i, len)).await { return Err(format!("send_data #{i}: {e}")); } }
        Ok::<(), String>(())
    });
    let recv = |dc: Arc<DataChannel>, tag: u8| async move {
        let mut next = 0u32;
        while next < n {
            match dc.recv().await {
                Some(DataChannelEvent::Message(m)) => {
                    let want = burst_msg(tag, next, len);
                    if m.as_ref() != want.as_slice() {
                        let got_i = if m.len() >= 5 { u32::from_be_bytes([m[1], m[2], m[3], m[4]]) } else { u32::MAX };
                        return Err(format!("message #{next} of {n}: got {} bytes (index field {got_i}, tag {:?}) instead of the expected {} bytes", m.len(), m.first(), want.len()));
                    }
                    next += 1;
                }
                Some(DataChannelEvent::Close) | None => return Err(format!("channel closed after {next} of {n} messages")),
                Some(_) => {}
            }
        }
        Ok::<(), String>(())
    };
    let (so, sa) = (send(p.off.pc.clone(), odc.id, b'o'), send(p.ans.pc.clone(), adc.id, b'a'));
    let tt = scaled(t);
    let (ra, ro) = tokio::join!(tokio::time::timeout(tt, recv(adc.clone(), b'o')), tokio::time::timeout(tt, recv(odc.clone(), b'a')));
    stop.store(true, Ordering::Relaxed);
    for h in pumps { h.abort(); }
    let fin = |r: Result<Result<(), String>, tokio::time::error::Elapsed>, s: tokio::task::JoinHandle<Result<(), String>>| async move {
        match r { Ok(x) => x, Err(_) => { let st = if s.is_finished() { "sender finished".to_string() } else { s.abort(); "sender still blocked".to_string() }; Err(format!("burst not delivered within {:?} ({st})", t)) } }
    };
    (fin(ra, so).await, fin(ro, sa).await)
}

fn sample(kind: MediaKind, n: u32, payload: &[u8]) -> MediaSample {
    match kind {
        MediaKind::Video => MediaSample::Video(VideoFrame { rtp_timestamp: n * 3000, data: Bytes::copy_from_slice(payload), is_last_packet: true, ..Default::default() }),
        _ => MediaSample::Audio(AudioFrame { rtp_timestamp: n * 960, clock_rate: 48000, data: Bytes::copy_from_slice(payload), ..Default::default() }),
    }
}

fn sample_payload(s: &MediaSample) -> Bytes {
    match s { MediaSample::Audio(f) => f.data.clone(), MediaSample::Video(f) => f.data.clone() }
}

/// Push samples with `payload` into `src` until the receiving track of the `idx`-th media transceiver
/// (same kind) of `to` yields a frame with exactly that payload, or `t` elapses.
pub async fn rtp_roundtrip(src: &Media, to: &PeerConnection, payload: &[u8], t: Duration) -> Result<(), String> {
    rtp_roundtrip_skipping(src, to, payload, t, &[]).await
}

/// … ignoring samples that carry exactly one of the `skip` payloads (left-overs of an earlier phase of the same media
/// source: the concurrent pump's payload and the sequential exchange's payload, which on a slow transport such as ICE-TCP can
/// still be queued when this exchange starts); any other payload is an error
pub async fn rtp_roundtrip_skipping(src: &Media, to: &PeerConnection, payload: &[u8], t: Duration, skip: &[&[u8]]) -> Result<(), String> {
    let recv_track = to.get_transceivers().into_iter()
        .find(|tr| tr.kind() == src.kind)
        .and_then(|tr| tr.receiver())
        .map(|r| r.track())
        .ok_or_else(|| "no receiver for this media kind at the peer".to_string())?;
    let source = src.source.clone();
    let kind = src.kind;
    let pl = payload.to_vec();
    let sender = tokio::spawn(async move {
        for n in 0..400u32 {
            if source.send(sample(kind, n, &pl)).is_err() { break; }
            tokio::time::sleep(Duration::from_millis(10)).await;
        }
    });
    let want = payload.to_vec();
    let skip: Vec<Vec<u8>> = skip.iter().map(|s| s.to_vec()).collect();
    let r = tokio::time::timeout(scaled(t), async {
        loop {
            match recv_track.recv().await {
                Ok(s) => { let d = sample_payload(&s);
                    if d.as_ref() == want.as_slice() { return Ok(()); }
                    else if skip.iter().any(|k| k.as_slice() == d.as_ref()) { continue; }
                    else { return Err(format!("payload altered ({} bytes)", d.len())); } }
                Err(e) => return Err(format!("track recv: {e:?}")),
            }
        }
    }).await;
    sender.abort();
    match r { Err(_) => Err(format!("no RTP within {:?}", t)), Ok(x) => x }
}
