//! C17 — closing or losing a connection at any moment ends it cleanly and visibly.
//!
//! Two real loopback `PeerConnection`s are driven to a phase boundary, a terminating event (or two racing
//! events) is injected on the *subject* endpoint X (its peer is Y), and after a settle time the harness
//! reads: peer state, signaling state, disconnect reason, Close events per data channel, the outcome
//! (error-now / ok-now / pending) of `send_data`, `create_offer`, `wait_for_connected` and of the pending
//! `DataChannel::recv`. These are compared with `RtcModel.Lifecycle`: the driver explores *every
//! interleaving* of the model's internal actions from the snapshot taken just before the injection and
//! answers with the observed outcome iff it is one of the model's quiescent outcomes (stream `life`).
//! The reason tables of `propagate_sctp_close_reason` / `close_with_reason` are walked through hooks
//! (streams `prop`, `cwr`).  Runtime facts — tokio tasks alive and socket descriptors back at baseline,
//! latency of calls — are *measured* in dedicated sequential runs and reported as such.
use super::c10::pair::*;
use super::c10::pair::{Pair, Side};
use crate::{Args, Rng, Run};
use bytes::Bytes;
use rustrtc::{DataChannelEvent, DisconnectReason, IceTransportState, PeerConnection, PeerConnectionState, SignalingState};
use rustrtc::transports::dtls::DtlsState;
use rustrtc::transports::sctp::DataChannel;
use std::sync::Arc;
use std::sync::atomic::{AtomicBool, AtomicUsize, Ordering};
use std::time::{Duration, Instant};

#[derive(Clone, Copy, Debug, PartialEq, Eq, Hash, PartialOrd, Ord)]
pub enum Phase { Created, OfferMade, RemoteOfferSet, Checking, IceConnected, DtlsHandshaking, Connected, ChannelsOpen, MediaFlowing, Renegotiating }
#[derive(Clone, Copy, Debug, PartialEq, Eq, Hash, PartialOrd, Ord)]
pub enum Event { Close, CloseTwice, Drop, PeerCloseNotify, PeerClose, PeerAbort, PeerShutdown, PeerShutdownAck, IceStop, PeerVanish, BlockedSenderClose, BlockedSenderVanish, BlockedSenderAbort, BlockedSenderShutdown, BlockedSenderShutdownAck, BlockedSenderHeartbeat, BlockedSenderCloseNotify, CloseChannelTwice, CloseChannelThenClose, IceFail, PeerVanishIceFail, BadFingerprint,
    /// a lower-layer end, settle, then the application's close() (audit r3-M6: nothing was ever called after a lower-layer end)
    IceFailThenClose, PeerAbortThenClose, PeerCloseNotifyThenClose,
    /// silent peer: Disconnected, grace expiry (the recoverable "cycling transport" state), then ICE gives up (r3-M3)
    PeerVanishThenIceFail }

const PHASES: &[(Phase, &str)] = &[(Phase::Created, "created"), (Phase::OfferMade, "offerMade"), (Phase::RemoteOfferSet, "remoteOfferSet"),
    (Phase::Checking, "checking"), (Phase::IceConnected, "iceConnected"), (Phase::DtlsHandshaking, "dtlsHandshaking"),
    (Phase::Connected, "connected"), (Phase::ChannelsOpen, "channelsOpen"), (Phase::MediaFlowing, "mediaFlowing"), (Phase::Renegotiating, "renegotiating")];
const EVENTS: &[(Event, &str)] = &[(Event::Close, "close"), (Event::CloseTwice, "closeTwice"), (Event::Drop, "drop"),
    (Event::PeerCloseNotify, "peerCloseNotify"), (Event::PeerClose, "peerClose"), (Event::PeerAbort, "peerAbort"),
    (Event::PeerShutdown, "peerShutdown"), (Event::PeerShutdownAck, "peerShutdownAck"), (Event::IceStop, "iceStop"),
    (Event::PeerVanish, "peerVanish"), (Event::BlockedSenderClose, "blockedSenderClose"),
    (Event::BlockedSenderVanish, "blockedSenderVanish"), (Event::BlockedSenderAbort, "blockedSenderAbort"), (Event::BlockedSenderShutdown, "blockedSenderShutdown"),
    (Event::BlockedSenderShutdownAck, "blockedSenderShutdownAck"), (Event::BlockedSenderHeartbeat, "blockedSenderHeartbeat"), (Event::BlockedSenderCloseNotify, "blockedSenderCloseNotify"),
    (Event::IceFail, "iceFail"), (Event::PeerVanishIceFail, "peerVanishIceFail"),
    (Event::IceFailThenClose, "iceFailThenClose"), (Event::PeerAbortThenClose, "peerAbortThenClose"), (Event::PeerCloseNotifyThenClose, "peerCloseNotifyThenClose"),
    (Event::PeerVanishThenIceFail, "peerVanishThenIceFail"), (Event::BadFingerprint, "badFingerprint"), (Event::CloseChannelTwice, "closeChannelTwice"), (Event::CloseChannelThenClose, "closeChannelThenClose")];
fn phase_name(p: Phase) -> &'static str { PHASES.iter().find(|x| x.0 == p).unwrap().1 }
fn event_name(e: Event) -> &'static str { EVENTS.iter().find(|x| x.0 == e).unwrap().1 }

#[derive(Clone, Debug, PartialEq, Eq, Hash, PartialOrd, Ord)]
pub struct Scen { pub mode: Mode, pub phase: Phase, pub events: Vec<Event>, pub audio_only: bool, pub variant: u8 }
/// `variant`: 0 = full ICE, one media section; 1 = ICE-TCP; 2 = UDP mux; 3 = two non-BUNDLE sections (LegacySip);
/// 4 = (audio-only) a data channel created after the connection is up: registered, but the connection was
/// negotiated without an application section and never gets an SCTP association
/// 5 = three channels on the connected pair, the middle one dropped by the application before the event
/// (a dead entry in the channel list in front of a live one), the other two watched
const VARIANTS: [&str; 6] = ["", "-tcp", "-udpmux", "-2sec", "-latedc", "-3ch"];
impl Scen {
    pub fn text(&self) -> String {
        format!("{}{}{}:{}:{}", match self.mode { Mode::WebRtc => "webrtc", Mode::Srtp => "srtp", Mode::Rtp => "rtp" }, if self.audio_only { "-audio" } else { "" }, VARIANTS[self.variant as usize],
            phase_name(self.phase), self.events.iter().map(|e| event_name(*e)).collect::<Vec<_>>().join("+"))
    }
    pub fn parse(s: &str) -> Option<Scen> {
        let f: Vec<&str> = s.split(':').collect();
        if f.len() != 3 { return None; }
        let mut m0 = f[0].to_string(); let mut variant = 0u8;
        for (i, v) in VARIANTS.iter().enumerate().skip(1) { if m0.ends_with(v) { variant = i as u8; m0.truncate(m0.len() - v.len()); } }
        let audio_only = m0.ends_with("-audio");
        Some(Scen { audio_only, variant, mode: match m0.trim_end_matches("-audio") { "webrtc" => Mode::WebRtc, "srtp" => Mode::Srtp, "rtp" => Mode::Rtp, _ => return None },
            phase: PHASES.iter().find(|x| x.1 == f[1])?.0,
            events: f[2].split('+').map(|e| EVENTS.iter().find(|x| x.1 == e).map(|x| x.0)).collect::<Option<Vec<_>>>()? })
    }
    fn cfg(&self) -> Cfg {
        Cfg { mode: self.mode, mix: if self.variant == 3 { Mix::AudioVideo } else if self.mode == Mode::WebRtc && !self.audio_only { Mix::DataAudio } else { Mix::Audio }, bundle: 0, mux_require: true,
              ice: match self.variant { 1 => IceOpt::Tcp, 2 => IceOpt::UdpMux, _ => IceOpt::Full }, latching: false, legacy: self.variant == 3,
              // the subject is always endpoint P (whose tasks run on the measured runtime): it offers, except in the
              // remote-offer phase where the subject is the answerer
              p_offers: self.phase != Phase::RemoteOfferSet }
    }
    /// which events make sense where (written rule): peer-side DTLS/SCTP events need an established
    /// WebRTC connection; ICE stop needs negotiation to have started; watcher-injected phases take only
    /// events callable through a cloned handle.
    pub fn valid(&self) -> bool {
        let connected = matches!(self.phase, Phase::Connected | Phase::ChannelsOpen | Phase::MediaFlowing | Phase::Renegotiating);
        if (self.mode != Mode::WebRtc || self.audio_only) && matches!(self.phase, Phase::ChannelsOpen) { return false; }
        if self.variant == 5 && !(self.mode == Mode::WebRtc && !self.audio_only && self.phase == Phase::ChannelsOpen && self.events.len() == 1) { return false; }
        if self.variant == 4 && !(self.mode == Mode::WebRtc && self.audio_only && self.phase == Phase::Connected && self.events.len() == 1) { return false; }
        if self.mode != Mode::WebRtc && matches!(self.phase, Phase::IceConnected | Phase::DtlsHandshaking) { return false; }
        for e in &self.events {
            match e {
                Event::PeerCloseNotify if self.variant == 4 => {}
                Event::PeerCloseNotify | Event::PeerAbort | Event::PeerShutdown | Event::PeerShutdownAck => {
                    if self.mode != Mode::WebRtc || !matches!(self.phase, Phase::ChannelsOpen | Phase::MediaFlowing | Phase::Renegotiating) { return false; } }
                // ICE Failed: forced on the subject's ICE transport (every mode), or produced by its own consent
                // keepalive when the peer is silent for ice_connection_timeout (WebRTC mode only). Only once
                // the connection is up: while checks are still running they would overwrite a forced state.
                Event::IceFail | Event::IceFailThenClose => { if !connected || self.events.len() > 1 { return false; } }
                Event::PeerAbortThenClose | Event::PeerCloseNotifyThenClose => { if self.mode != Mode::WebRtc || self.phase != Phase::ChannelsOpen || self.events.len() > 1 { return false; } }
                Event::PeerVanishThenIceFail => { if !connected || self.events.len() > 1 || self.mode != Mode::WebRtc { return false; } }
                Event::PeerVanishIceFail => { if !connected || self.events.len() > 1 || self.mode != Mode::WebRtc { return false; } }
                // the answer carries a fingerprint that does not match the peer's certificate: the handshake fails
                Event::BadFingerprint => { if self.phase != Phase::Checking || self.events.len() > 1 || self.mode != Mode::WebRtc || self.variant != 0 { return false; } }
                Event::BlockedSenderClose | Event::BlockedSenderVanish | Event::BlockedSenderAbort | Event::BlockedSenderShutdown | Event::BlockedSenderShutdownAck | Event::BlockedSenderHeartbeat | Event::BlockedSenderCloseNotify | Event::CloseChannelTwice | Event::CloseChannelThenClose => { if self.mode != Mode::WebRtc || self.audio_only || self.phase != Phase::ChannelsOpen || self.events.len() > 1 { return false; } }
                // direct modes have no liveness mechanism (ICE consent checks run in WebRTC mode only): a silent peer is by design not an event there
                Event::PeerVanish | Event::PeerClose => { if !connected || self.events.len() > 1 || self.mode != Mode::WebRtc { return false; } }
                Event::Drop => { if self.events.len() > 1 { return false; } }
                Event::CloseTwice => { if self.events.len() > 1 || matches!(self.phase, Phase::IceConnected | Phase::DtlsHandshaking) { return false; } }
                Event::IceStop => { if matches!(self.phase, Phase::Created) { return false; } }
                Event::Close => {}
            }
        }
        if self.events.len() == 2 && (self.events[0] == self.events[1] || matches!(self.phase, Phase::IceConnected | Phase::DtlsHandshaking)) { return false; }
        true
    }
}

fn peer_text(s: PeerConnectionState) -> &'static str {
    match s { PeerConnectionState::New => "new", PeerConnectionState::Connecting => "connecting", PeerConnectionState::Connected => "connected",
              PeerConnectionState::Disconnected => "disconnected", PeerConnectionState::Failed => "failed", PeerConnectionState::Closed => "closed" }
}
fn sig_text(s: SignalingState) -> &'static str {
    match s { SignalingState::Stable => "stable", SignalingState::HaveLocalOffer => "haveLocalOffer", SignalingState::HaveRemoteOffer => "haveRemoteOffer", SignalingState::Closed => "closed" }
}
pub fn reason_text(r: &Option<DisconnectReason>) -> &'static str {
    match r { None => "-", Some(r) => match r {
        DisconnectReason::LocalClose => "localClose", DisconnectReason::Dropped => "dropped", DisconnectReason::IceFailed => "iceFailed",
        DisconnectReason::IceDisconnected => "iceDisconnected", DisconnectReason::DtlsFailed => "dtlsFailed", DisconnectReason::DtlsClosed => "dtlsClosed",
        DisconnectReason::SctpHeartbeatTimeout => "sctpHeartbeatTimeout", DisconnectReason::SctpPeerDead => "sctpPeerDead",
        DisconnectReason::SctpRemoteAbort => "sctpRemoteAbort", DisconnectReason::SctpRemoteShutdown => "sctpRemoteShutdown",
        DisconnectReason::TransportStartFailed(_) => "transportStartFailed", DisconnectReason::Unknown(_) => "unknown" } }
}
fn ice_text(s: IceTransportState) -> &'static str {
    match s { IceTransportState::New => "new", IceTransportState::Checking => "checking", IceTransportState::Connected | IceTransportState::Completed => "connected",
              IceTransportState::Disconnected => "disconnected", IceTransportState::Failed => "failed", IceTransportState::Closed => "closed" }
}
fn dtls_text(pc: &PeerConnection) -> &'static str {
    match pc.verif_lc_dtls_transport().map(|d| d.get_state()) {
        None => "absent", Some(DtlsState::New) | Some(DtlsState::Handshaking) => "handshaking", Some(DtlsState::Connected(..)) => "connected",
        Some(DtlsState::Failed) => "failed", Some(DtlsState::Closed) => "closed" }
}

/// state of X just before the injection (selects the model's start state)
fn snapshot(x: &PeerConnection) -> String {
    format!("{},{},{},{},{},{},{},{}", peer_text(*x.subscribe_peer_state().borrow()), sig_text(x.signaling_state()),
        ice_text(x.ice_transport().state()), dtls_text(x), x.verif_lc_sctp_transport().is_some() as u8,
        x.verif_lc_dtls_role().is_some() as u8, reason_text(&x.disconnect_reason()),
        (x.local_description().is_some() && x.remote_description().is_some()) as u8)
}

pub fn sctp_packet(chunk_type: u8) -> Bytes {
    let mut p = vec![0x13, 0x88, 0x13, 0x88, 0, 0, 0, 0, 0, 0, 0, 0, chunk_type, 0, 0, 4];
    let crc = crc32c::crc32c(&p);
    p[8..12].copy_from_slice(&crc.to_le_bytes());
    Bytes::from(p)
}

/// per-channel collector: counts Close events until `recv` returns `None`
struct ChanWatch { closes: Arc<AtomicUsize>, ended: Arc<AtomicBool>, was_open: bool }
fn watch_channel(dc: &Arc<DataChannel>) -> ChanWatch {
    let closes = Arc::new(AtomicUsize::new(0)); let ended = Arc::new(AtomicBool::new(false));
    let (c, e, d) = (closes.clone(), ended.clone(), dc.clone());
    let was_open = dc.state.load(Ordering::SeqCst) == rustrtc::DataChannelState::Open as usize;
    tokio::spawn(async move {
        loop { match d.recv().await { Some(DataChannelEvent::Close) => { c.fetch_add(1, Ordering::SeqCst); } Some(_) => {} None => { e.store(true, Ordering::SeqCst); break; } } }
    });
    ChanWatch { closes, ended, was_open }
}

#[derive(Clone, Debug, Default)]
pub struct Outcome {
    pub pre: String, pub progress: bool, pub nch: usize, pub has_app: bool,
    pub peer: String, pub sig: String, pub reason: String, pub chan_events: Vec<usize>, pub chan_open_before: Vec<bool>,
    pub recv_ended: Vec<bool>, pub calls: String, pub parked: usize, pub notes: Vec<String>, pub blocked_send_ms: Option<u128>, pub err: Option<String>, pub gather_pending: bool,
}

async fn timed<F: std::future::Future<Output = bool>>(f: F, limit: Duration) -> char {
    // 'e' error now, 'o' ok now, 'p' still pending after `limit`
    match tokio::time::timeout(limit, f).await { Err(_) => 'p', Ok(true) => 'o', Ok(false) => 'e' }
}

/// the blocked-sender family: `send_data` calls parked in SCTP flow control when the event hits
fn is_blocked(ev: Event) -> bool {
    matches!(ev, Event::BlockedSenderClose | Event::BlockedSenderVanish | Event::BlockedSenderAbort | Event::BlockedSenderShutdown
        | Event::BlockedSenderShutdownAck | Event::BlockedSenderHeartbeat | Event::BlockedSenderCloseNotify)
}
/// … of which these keep the peer alive (it keeps acknowledging, the senders park again and again) and end
/// the association from inside the SCTP run loop / the DTLS layer
fn blocked_peer_event(ev: Event) -> Option<Event> {
    match ev {
        Event::BlockedSenderAbort => Some(Event::PeerAbort), Event::BlockedSenderShutdown => Some(Event::PeerShutdown),
        Event::BlockedSenderShutdownAck => Some(Event::PeerShutdownAck), Event::BlockedSenderCloseNotify => Some(Event::PeerCloseNotify), _ => None }
}

async fn inject(ev: Event, x: &PeerConnection, y: &PeerConnection) -> Result<(), String> {
    match ev {
        Event::Close => { x.close(); }
        Event::CloseTwice => {
            // three FIRST closes started together (audit r2-R6): none has run before the others start
            let b = Arc::new(std::sync::Barrier::new(3));
            let hs: Vec<_> = (0..2).map(|_| { let (x2, b2) = (x.clone(), b.clone()); std::thread::spawn(move || { b2.wait(); x2.close(); }) }).collect();
            b.wait(); x.close();
            for h in hs { let _ = h.join(); }
        }
        Event::IceStop => { x.ice_transport().stop(); }
        Event::IceFail => { x.ice_transport().verif_set_state(IceTransportState::Failed); }
        Event::IceFailThenClose | Event::PeerAbortThenClose | Event::PeerCloseNotifyThenClose => {
            let first = match ev { Event::IceFailThenClose => Event::IceFail, Event::PeerAbortThenClose => Event::PeerAbort, _ => Event::PeerCloseNotify };
            Box::pin(inject(first, x, y)).await?;
            // let the lower-layer end be reported (terminal state + reason), then the application closes
            let (mut ps, rs) = (x.subscribe_peer_state(), x.subscribe_disconnect_reason());
            let _ = tokio::time::timeout(Duration::from_secs(5), async { loop {
                if matches!(*ps.borrow_and_update(), PeerConnectionState::Disconnected | PeerConnectionState::Failed) && rs.borrow().is_some() { break; }
                if ps.changed().await.is_err() { break; } } }).await;
            tokio::time::sleep(Duration::from_millis(200)).await;
            x.close();
        }
        Event::PeerVanishThenIceFail => { y.ice_transport().stop(); }
        Event::PeerVanishIceFail => { y.ice_transport().stop(); }
        Event::BadFingerprint => {}
        Event::PeerCloseNotify => { y.verif_lc_dtls_transport().ok_or("peer has no DTLS transport")?.close(); }
        Event::PeerClose => { y.close(); }
        Event::PeerVanish => { y.ice_transport().stop(); }
        Event::PeerAbort => { y.verif_lc_dtls_transport().ok_or("peer has no DTLS transport")?.send(sctp_packet(6)).await.map_err(|e| e.to_string())?; }
        Event::PeerShutdown => {
            let d = y.verif_lc_dtls_transport().ok_or("peer has no DTLS transport")?;
            d.send(sctp_packet(7)).await.map_err(|e| e.to_string())?;
            tokio::time::sleep(Duration::from_millis(100)).await;
            d.send(sctp_packet(14)).await.map_err(|e| e.to_string())?; // SHUTDOWN COMPLETE
        }
        Event::PeerShutdownAck => { y.verif_lc_dtls_transport().ok_or("peer has no DTLS transport")?.send(sctp_packet(8)).await.map_err(|e| e.to_string())?; }
        Event::CloseChannelTwice | Event::CloseChannelThenClose => {
            let t = x.verif_lc_sctp_transport().ok_or("no SCTP transport")?;
            let id = x.verif_lc_channel_states().first().map(|c| c.0).ok_or("no channel")?;
            t.close_data_channel(id).await.map_err(|e| e.to_string())?;
            if ev == Event::CloseChannelTwice { t.close_data_channel(id).await.map_err(|e| e.to_string())?; } else { x.close(); }
        }
        Event::Drop | Event::BlockedSenderClose | Event::BlockedSenderVanish | Event::BlockedSenderAbort | Event::BlockedSenderShutdown | Event::BlockedSenderShutdownAck | Event::BlockedSenderHeartbeat | Event::BlockedSenderCloseNotify => unreachable!(),
    }
    Ok(())
}

/// `exec_once`, repeated (up to 3 attempts) when the *setup* of the pair failed (busy host): a pair that
/// cannot be set up is C10's subject, not a C17 observation.
pub async fn exec(sc: &Scen) -> Outcome {
    let mut o = exec_once(sc, None).await.0;
    for _ in 0..2 { if o.err.as_deref().is_some_and(|e| e.starts_with("setup:")) { o = exec_once(sc, None).await.0; } else { break; } }
    o
}

/// `x_runtime`: run every rustrtc task of the subject endpoint on this runtime and, at the end, do NOT close
/// the endpoints but hand them back (resource measurement while the application still holds its handles).
async fn exec_once(sc: &Scen, x_runtime: Option<tokio::runtime::Handle>) -> (Outcome, Option<Pair>) {
    let mut out = Outcome::default();
    let cfg = sc.cfg();
    let blocked_ev = sc.events.iter().copied().find(|e| is_blocked(*e));
    let hb = blocked_ev == Some(Event::BlockedSenderHeartbeat);
    let icefail_ka = sc.events.contains(&Event::PeerVanishIceFail);
    let vanish_then_fail = sc.events.contains(&Event::PeerVanishThenIceFail);
    let vanish = sc.events.contains(&Event::PeerVanish) || sc.events.contains(&Event::PeerClose) || blocked_ev.is_some() || icefail_ka || vanish_then_fail;
    let keep = x_runtime.is_some();
    // heartbeat variant: the SCTP layer must notice the dead peer first (500 ms x 3), not ICE
    // keepalive-driven ICE failure: the consent timeout (2 s) comes before the disconnect threshold
    let knobs = Knobs { ice_disconnect_threshold: Some(Duration::from_millis(if hb || icefail_ka { 20_000 } else { 1200 })), ice_disconnect_grace: Some(Duration::from_millis(300)),
        // … or after it (threshold 1.2 s, grace 0.3 s, consent timeout 4 s): Disconnected → grace expiry → Failed
        ice_connection_timeout: Some(Duration::from_secs(if icefail_ka { 2 } else if vanish_then_fail { 4 } else { 30 })), sctp_max_buffered: if blocked_ev.is_some() { Some(16 * 1024) } else { None },
        sctp_heartbeat: if hb { Some((Duration::from_millis(500), 3, 3)) } else { None }, q_legacy: None,
        p_runtime: x_runtime.clone(), rtp_port_range: None };
    let mut p = Pair::create(cfg, &knobs);
    out.has_app = cfg.mix.has_data();
    // subject: the offerer, except for the remote-offer phase
    let subject_is_offerer = sc.phase != Phase::RemoteOfferSet;
    let r: Result<(), String> = async {
        match sc.phase {
            Phase::Created => {}
            Phase::OfferMade => { p.make_offer().await?; }
            Phase::RemoteOfferSet => { p.make_offer().await?; p.deliver_offer().await?; }
            Phase::Checking | Phase::IceConnected | Phase::DtlsHandshaking => { p.make_offer().await?; p.deliver_offer().await?; p.make_answer().await?; }
            _ => {
                p.negotiate().await?; p.wait_connected(Duration::from_secs(12)).await?;
                if sc.phase != Phase::Connected && cfg.mix.has_data() {
                    p.accept_channel(Duration::from_secs(9)).await?;
                    wait_open(p.off.dc.as_ref().unwrap(), Duration::from_secs(9)).await?;
                }
                if sc.phase == Phase::Renegotiating {
                    let o = p.off.pc.create_offer().await.map_err(|e| e.to_string())?;
                    p.off.pc.set_local_description(o).map_err(|e| e.to_string())?;
                }
            }
        }
        Ok(())
    }.await;
    if let Err(e) = r { out.err = Some(format!("setup: {e}")); p.off.pc.close(); p.ans.pc.close(); return (out, None); }
    let media_task = if sc.phase == Phase::MediaFlowing {
        let src = p.off.media[0].source.clone();
        Some(tokio::spawn(async move { for n in 0..2000u32 {
            let f = rustrtc::media::frame::AudioFrame { rtp_timestamp: n * 960, clock_rate: 48000, data: Bytes::from_static(b"c17-media"), ..Default::default() };
            if src.send(rustrtc::media::frame::MediaSample::Audio(f)).is_err() { break; }
            tokio::time::sleep(Duration::from_millis(10)).await; } }))
    } else { None };
    if sc.phase == Phase::MediaFlowing { tokio::time::sleep(Duration::from_millis(100)).await; }

    let (xs, ys) = if subject_is_offerer { (&p.off, &p.ans) } else { (&p.ans, &p.off) };
    let x = xs.pc.clone(); let y = ys.pc.clone();
    let peer_rx = x.subscribe_peer_state();
    let reason_rx = x.subscribe_disconnect_reason();
    let sig_rx = x.subscribe_signaling_state();
    let mut chans: Vec<Arc<DataChannel>> = xs.dc.iter().cloned().collect();
    if sc.variant == 5 {
        // [verif, dropped, live]: the application drops the middle channel; the list keeps its dead entry
        let r: Result<(), String> = async {
            let d = x.create_data_channel("dropped", None).map_err(|e| e.to_string())?;
            let l = x.create_data_channel("live", None).map_err(|e| e.to_string())?;
            wait_open(&d, Duration::from_secs(9)).await?; wait_open(&l, Duration::from_secs(9)).await?;
            drop(d); chans.push(l); Ok(())
        }.await;
        if let Err(e) = r { out.err = Some(format!("setup: extra channels: {e}")); }
    }
    if sc.variant == 4 {
        match x.create_data_channel("late", None) { Ok(dc) => chans.push(dc), Err(e) => { out.err = Some(format!("setup: late channel: {e}")); } }
    }
    out.nch = chans.len();
    // a `PeerConnection::recv()` pending across the event (it clones the handle: not for drop scenarios)
    let pcrecv_ended = Arc::new(AtomicBool::new(false));
    if !sc.events.contains(&Event::Drop) && !keep {
        let (x2, e2) = (x.clone(), pcrecv_ended.clone());
        tokio::spawn(async move { while x2.recv().await.is_some() {} e2.store(true, Ordering::SeqCst); });
    }
    let gather_ended = Arc::new(AtomicBool::new(false));
    if !sc.events.contains(&Event::Drop) && !keep {
        let (x2, e2) = (x.clone(), gather_ended.clone());
        tokio::spawn(async move { x2.wait_for_gathering_complete().await; e2.store(true, Ordering::SeqCst); });
    } else { gather_ended.store(true, Ordering::SeqCst); }
    let watches: Vec<ChanWatch> = chans.iter().map(watch_channel).collect();
    out.chan_open_before = watches.iter().map(|w| w.was_open).collect();

    // ---- injection
    let racy = matches!(sc.phase, Phase::Checking | Phase::IceConnected | Phase::DtlsHandshaking);
    out.progress = racy;
    let mut dropped = false;
    let inj: Result<(), String> = async {
        match sc.phase {
            Phase::Checking | Phase::IceConnected | Phase::DtlsHandshaking if sc.events == [Event::Drop] => {
                // drop racing connection establishment: deliver the answer, spin until the phase is reached, drop
                p.deliver_answer().await.ok();
                let t0 = Instant::now();
                loop {
                    let hit = match sc.phase {
                        Phase::Checking => x.ice_transport().state() != IceTransportState::New,
                        Phase::IceConnected => matches!(x.ice_transport().state(), IceTransportState::Connected | IceTransportState::Completed),
                        _ => x.verif_lc_dtls_transport().is_some(),
                    };
                    if hit { break; }
                    if t0.elapsed() > Duration::from_secs(5) { out.notes.push("phase-not-reached".into()); break; }
                    tokio::task::yield_now().await;
                }
                out.pre = snapshot(&x);
                dropped = true;
            }
            Phase::Checking | Phase::IceConnected | Phase::DtlsHandshaking => {
                // the answer is delivered now; ICE / DTLS progress races the event
                let xw = x.clone(); let ph = sc.phase;
                out.pre = snapshot(&x);
                let evs = sc.events.clone(); let y2 = y.clone();
                let watcher = tokio::spawn(async move {
                    let t0 = Instant::now();
                    let mut reached = true;
                    loop {
                        let hit = match ph {
                            // "checking" = the answer has been applied far enough for ICE to have been started
                            // (injecting `ice_transport().stop()` BEFORE `start()` is a different scenario: the later
                            // `start()` revives a transport whose sockets are gone — not reachable through
                            // PeerConnection, whose close() also closes signaling)
                            Phase::Checking => xw.ice_transport().state() != IceTransportState::New,
                            Phase::IceConnected => matches!(xw.ice_transport().state(), IceTransportState::Connected | IceTransportState::Completed),
                            _ => xw.verif_lc_dtls_transport().is_some(),
                        };
                        if hit { break; }
                        if t0.elapsed() > Duration::from_secs(5) { reached = false; break; }
                        tokio::task::yield_now().await;
                    }
                    let pre = snapshot(&xw);
                    for e in evs { let _ = inject(e, &xw, &y2).await; }
                    (pre, reached)
                });
                if sc.events == [Event::BadFingerprint] {
                    // corrupt the certificate fingerprint the peer announces: the DTLS handshake must fail
                    if let Some(a) = p.answer.as_mut() {
                        let flip = |v: &mut Option<String>| { if let Some(t) = v { let last = t.pop().unwrap_or('0'); t.push(if last == '0' { '1' } else { '0' }); } };
                        for at in a.session.attributes.iter_mut().filter(|at| at.key == "fingerprint") { flip(&mut at.value); }
                        for m in a.media_sections.iter_mut() { for at in m.attributes.iter_mut().filter(|at| at.key == "fingerprint") { flip(&mut at.value); } }
                    }
                }
                p.deliver_answer().await.ok();
                // badFingerprint injects nothing at the phase boundary (the event IS the tampered answer): its start
                // state is the snapshot taken before the answer was delivered
                if let Ok((pre, reached)) = watcher.await { if sc.events != [Event::BadFingerprint] { out.pre = pre; } if !reached { out.notes.push("phase-not-reached".into()); } }
            }
            _ => {
                out.pre = snapshot(&x);
                if sc.events == [Event::Drop] {
                    dropped = true;
                } else if let Some(bev) = blocked_ev {
                    // Two senders on DIFFERENT channels (same-channel sends would serialise on the channel's send
                    // lock) push 60 KB messages through a 16 KB send buffer: each is parked in SCTP flow control
                    // practically all the time; the channel's `recv()` is pending too. Then the event:
                    //  * close(), or the peer goes silent (ICE-disconnect grace expiry / SCTP heartbeat timeout must
                    //    release them) — the peer is silenced BEFORE the senders start, they park for good;
                    //  * the association is ended from inside the SCTP run loop (peer ABORT / SHUTDOWN /
                    //    SHUTDOWN-ACK) or by DTLS (close_notify) — the peer stays alive and keeps acknowledging,
                    //    the senders send until they get an error.
                    let peer_ev = blocked_peer_event(bev);
                    if peer_ev.is_none() { y.ice_transport().stop(); }
                    let second = x.create_data_channel("second", Some(rustrtc::transports::sctp::DataChannelConfig { negotiated: Some(40), ..Default::default() })).map_err(|e| e.to_string())?;
                    // the live peer needs the negotiated twin of the second channel
                    let twin = if peer_ev.is_some() { Some(y.create_data_channel("second", Some(rustrtc::transports::sctp::DataChannelConfig { negotiated: Some(40), ..Default::default() })).map_err(|e| e.to_string())?) } else { None };
                    let ids = [chans[0].id, second.id];
                    let done = Arc::new(AtomicUsize::new(0));
                    let mut senders = vec![];
                    for id in ids {
                        let x2 = x.clone(); let d2 = done.clone();
                        senders.push(tokio::spawn(async move { let big = vec![7u8; 60_000]; for _ in 0..100_000 { if x2.send_data(id, &big).await.is_err() { break; } } d2.fetch_add(1, Ordering::SeqCst); }));
                    }
                    tokio::time::sleep(Duration::from_millis(if peer_ev.is_some() { 400 } else { 700 })).await;
                    if done.load(Ordering::SeqCst) != 0 { out.notes.push(format!("senders-not-blocked:{}", done.load(Ordering::SeqCst))); }
                    // heartbeat variant: a SACK within the last 30 s counts as proof of life (hard-coded in
                    // send_heartbeat); the peer is silent from here on, forget the SACKs of the set-up phase
                    if hb { if let Some(t) = x.verif_lc_sctp_transport() { t.verif_lc_forget_last_sack(); } }
                    let t0 = Instant::now();
                    let bound = match bev {
                        Event::BlockedSenderClose => { x.close(); Duration::from_secs(3) }
                        Event::BlockedSenderVanish | Event::BlockedSenderHeartbeat => Duration::from_secs(8),
                        _ => { inject(peer_ev.unwrap(), &x, &y).await?; Duration::from_secs(4) }
                    };
                    let mut worst = 0u128;
                    for h in senders {
                        let left = bound.saturating_sub(t0.elapsed());
                        match tokio::time::timeout(left, h).await { Ok(_) => worst = worst.max(t0.elapsed().as_millis()), Err(_) => { worst = u128::MAX; } }
                    }
                    out.parked = 2 - done.load(Ordering::SeqCst).min(2);
                    out.blocked_send_ms = Some(worst);
                    drop(second); drop(twin);
                } else if sc.events.len() == 2 {
                    let (e1, e2) = (sc.events[0], sc.events[1]);
                    let (x1, y1, x2, y2) = (x.clone(), y.clone(), x.clone(), y.clone());
                    let a = tokio::spawn(async move { inject(e1, &x1, &y1).await });
                    let b = tokio::spawn(async move { inject(e2, &x2, &y2).await });
                    // the two injections race each other too (e.g. the peer's DTLS is already closed when its
                    // ABORT should go out): an injection that could not be delivered is simply an event that did
                    // not happen — the model explores subsets as well (a disabled action is a no-op)
                    for r in [a.await, b.await] { if let Ok(Err(e)) = r { out.notes.push(format!("injection-not-delivered: {e}")); } }
                } else {
                    inject(sc.events[0], &x, &y).await?;
                }
            }
        }
        Ok(())
    }.await;
    if let Err(e) = inj { out.err = Some(format!("inject: {e}")); }
    if let Some(t) = &media_task { t.abort(); }

    if dropped {
        // drop every application handle of X (connection, channel, media sources/tracks)
        drop(x);
        drop(chans);
        let Pair { off, ans, .. } = p;
        let (xs, ys) = if subject_is_offerer { (off, ans) } else { (ans, off) };
        drop(xs);
        tokio::time::sleep(Duration::from_millis(1500)).await;
        out.peer = peer_text(*peer_rx.borrow()).into(); out.sig = sig_text(*sig_rx.borrow()).into(); out.reason = reason_text(&reason_rx.borrow()).into();
        out.chan_events = watches.iter().map(|w| w.closes.load(Ordering::SeqCst)).collect();
        out.recv_ended = watches.iter().map(|w| w.ended.load(Ordering::SeqCst)).collect();
        out.calls = "-".into();
        if keep {
            // hand the still-open peer back (the subject's handles are gone)
            return (out, Some(Pair { cfg, off: Side { pc: ys.pc.clone(), media: vec![], dc: None }, ans: ys, offer: None, answer: None }));
        }
        ys.pc.close();
        return (out, None);
    }
    tokio::time::sleep(Duration::from_millis(if vanish { 4000 } else { 1500 })).await;
    if vanish_then_fail {
        // the second half of the sequence: ICE gives up (consent timeout 4 s) — up to 9 more (lag-scaled) seconds
        let mut ps = peer_rx.clone();
        let _ = tokio::time::timeout(scaled(Duration::from_secs(9)), async { loop { if *ps.borrow_and_update() == PeerConnectionState::Failed { break; } if ps.changed().await.is_err() { break; } } }).await;
    }
    // confirm before reporting (busy host): if the connection is not terminal yet or a channel reader has not
    // returned yet, keep polling for up to 4 more seconds — a genuine hang is still there afterwards
    for _ in 0..40 {
        let term = matches!(*peer_rx.borrow(), PeerConnectionState::Disconnected | PeerConnectionState::Failed | PeerConnectionState::Closed) && reason_rx.borrow().is_some();
        if term && watches.iter().all(|w| w.ended.load(Ordering::SeqCst)) { break; }
        tokio::time::sleep(Duration::from_millis(100)).await;
    }
    out.peer = peer_text(*peer_rx.borrow()).into(); out.sig = sig_text(*sig_rx.borrow()).into(); out.reason = reason_text(&reason_rx.borrow()).into();
    out.chan_events = watches.iter().map(|w| w.closes.load(Ordering::SeqCst)).collect();
    out.recv_ended = watches.iter().map(|w| w.ended.load(Ordering::SeqCst)).collect();
    // subsequent API calls: outcome class within 700 ms
    let lim = Duration::from_millis(700);
    let id = chans.first().map(|c| c.id).unwrap_or(0);
    let c_send = timed(async { x.send_data(id, b"after").await.is_ok() }, lim).await;
    let c_offer = timed(async { x.create_offer().await.is_ok() }, lim).await;
    let c_wfc = timed(async { x.wait_for_connected().await.is_ok() }, lim).await;
    // wait_for_gathering_complete: one pending since before the event and one issued now (implementation-side
    // oracle only: the model has no gathering state)
    out.gather_pending = !gather_ended.load(Ordering::SeqCst) || timed(async { x.wait_for_gathering_complete().await; true }, lim).await != 'o';
    // create_data_channel after the event: refused, or a channel whose recv() ends (never one that hangs)
    let c_cdc = match x.create_data_channel("after-event", None) {
        Err(_) => 'e',
        Ok(dc) => { let closed = matches!(*peer_rx.borrow(), PeerConnectionState::Closed);
            if closed && timed(async { loop { match dc.recv().await { None => break true, Some(_) => {} } } }, lim).await != 'o' { out.notes.push("channel-created-after-close-never-ends".into()); }
            'o' }
    };
    // PeerConnection::recv(): the reader pending since before the event has returned AND a new call ends too
    let c_pcrecv = if pcrecv_ended.load(Ordering::SeqCst) { if timed(async { while x.recv().await.is_some() {} true }, lim).await == 'o' { 'o' } else { 'p' } } else { 'p' };
    let c_recv: String = if watches.is_empty() { "-".into() } else { watches.iter().map(|w| if w.ended.load(Ordering::SeqCst) { 'o' } else { 'p' }).collect() };
    // is `inner.sctp_transport` still held after the event? (close_with_reason must `take()` it)
    let held = x.verif_lc_sctp_transport().is_some() as u8;
    out.calls = format!("{c_send}{c_offer}{c_wfc}{c_pcrecv}{c_cdc}/{c_recv}/h{held}/b{}", out.parked);
    if keep { return (out, Some(p)); }
    p.off.pc.close(); p.ans.pc.close();
    (out, None)
}

fn observed_text(o: &Outcome) -> String {
    format!("{},{},{},{},{}", o.peer, o.sig, o.reason,
        if o.chan_events.is_empty() { "-".to_string() } else { o.chan_events.iter().map(|n| n.to_string()).collect::<Vec<_>>().join(".") }, o.calls)
}

/// one correspondence case per distinct snapshot of a scenario: the *set* of outcomes observed over the
/// repetitions (racy phases are repeated) — the driver answers with the same set iff every member is one of
/// the model's quiescent outcomes AND the model itself has only terminal outcomes for a terminating event.
fn lines(sc: &Scen, os: &[&Outcome]) -> (String, String) {
    let o = os[0];
    let mut set: Vec<String> = os.iter().map(|o| observed_text(o)).collect();
    set.sort(); set.dedup();
    let observed = set.join(";");
    let input = format!("{} {} {} {} {} {} {} | {}", match sc.mode { Mode::WebRtc => "w", Mode::Srtp => "s", Mode::Rtp => "d" }, o.has_app as u8, o.nch, phase_name(sc.phase),
        o.progress as u8, o.pre, sc.events.iter().map(|e| event_name(*e)).collect::<Vec<_>>().join("+"), observed);
    (input + &format!(" # {}", sc.text()), observed)
}

/// signature prefix of a scenario: the **full** scenario (`<mode>[-variant]/<phase>/<events>`), so a known
/// finding covers exactly one phase × event point and nothing else
pub fn sig_class(sc: &Scen) -> String { sc.text().replace(':', "/") }

/// the property itself on the observations
fn oracles(sc: &Scen, o: &Outcome) -> Vec<(String, String)> {
    let mut f = vec![];
    let cls = sig_class(sc);
    if o.err.is_some() { return vec![(format!("run:{cls}:setup-or-injection-failed"), o.err.clone().unwrap())]; }
    let only_shutdown = sc.events == [Event::PeerShutdown];
    let terminal = matches!(o.peer.as_str(), "disconnected" | "failed" | "closed") && o.reason != "-";
    if !terminal && sc.events != [Event::CloseChannelTwice] { f.push((format!("term:{cls}:{}-{}", o.peer, if o.reason == "-" { "noreason" } else { o.reason.as_str() }), format!("peer={} reason={} sig={}", o.peer, o.reason, o.sig))); }
    let _ = only_shutdown;
    let app_closed = sc.events.iter().any(|e| matches!(e, Event::Close | Event::CloseTwice | Event::BlockedSenderClose | Event::CloseChannelThenClose
        | Event::IceFailThenClose | Event::PeerAbortThenClose | Event::PeerCloseNotifyThenClose));
    // the recoverable "cycling transport" state must end when ICE gives up (consent timeout 4 s, observed >= 13 s)
    if sc.events == [Event::PeerVanishThenIceFail] && o.peer == "disconnected" { f.push((format!("term:{cls}:still-disconnected-after-ice-gave-up"), format!("peer={} reason={} (ICE consent timeout 4 s elapsed: the driving loop no longer watches ICE)", o.peer, o.reason))); }
    if app_closed && o.peer != "closed" { f.push((format!("term:{cls}:not-closed-after-close:{}", o.peer), format!("peer={} reason={} sig={}", o.peer, o.reason, o.sig))); }
    if app_closed && o.calls != "-" && o.gather_pending { f.push((format!("hang:{cls}:wait_for_gathering_complete-pending-after-close"), o.calls.clone())); }
    if o.notes.iter().any(|n| n == "channel-created-after-close-never-ends") { f.push((format!("hang:{cls}:channel-created-after-close-never-ends"), o.calls.clone())); }
    for (i, n) in o.chan_events.iter().enumerate() {
        if *n > 1 { f.push((format!("chan:{cls}:close-delivered-{n}-times"), format!("channel {i}"))); }
        if o.chan_open_before.get(i).copied().unwrap_or(false) && *n == 0 { f.push((format!("chan:{cls}:open-channel-never-saw-close"), format!("channel {i}"))); }
        if !o.recv_ended.get(i).copied().unwrap_or(true) && terminal { f.push((format!("hang:{cls}:pending-dc-recv-never-returns"), format!("channel {i} open_before={}", o.chan_open_before[i]))); }
    }
    if o.calls != "-" && terminal {
        let c: Vec<char> = o.calls.chars().collect();
        for (i, name) in ["send_data", "create_offer", "wait_for_connected"].iter().enumerate() {
            // wait_for_connected keeps waiting across an ICE disconnect by design (the transport may recover;
            // it ends when ICE gives up: the peerVanishIceFail scenario)
            // … which IS driven by `peerVanishThenIceFail`: there the exemption does not apply
            if *name == "wait_for_connected" && o.peer == "disconnected" && o.reason == "iceDisconnected" && sc.events != [Event::PeerVanishThenIceFail] { continue; }
            if c.get(i) == Some(&'p') { f.push((format!("hang:{cls}:{name}-pending-after-terminal"), o.calls.clone())); }
        }
        // PeerConnection::recv() is an event stream: it must end once the connection is Closed (in Failed /
        // Disconnected it keeps waiting for events; recorded, not judged)
        if o.peer == "closed" && c.get(3) == Some(&'p') { f.push((format!("hang:{cls}:pc-recv-pending-after-close"), o.calls.clone())); }
        if app_closed && c.first() == Some(&'o') { f.push((format!("call:{cls}:send_data-ok-after-close"), o.calls.clone())); }
    }
    if let Some(ms) = o.blocked_send_ms {
        let bound = if sc.events == [Event::BlockedSenderVanish] || sc.events == [Event::BlockedSenderHeartbeat] { 7000 } else if sc.events == [Event::BlockedSenderClose] { 2000 } else { 3000 };
        if ms > bound { f.push((format!("hang:{cls}:blocked-sender-not-woken"), format!("slowest parked send returned after {} ms ({} still parked)", if ms == u128::MAX { "never".to_string() } else { ms.to_string() }, o.parked))); }
    }
    f
}

fn scenarios(thorough: bool) -> Vec<Scen> {
    let mut v = vec![];
    let s = |mode, phase, events: &[Event]| Scen { mode, phase, events: events.to_vec(), audio_only: false, variant: 0 };
    if thorough {
        for mode in [Mode::WebRtc, Mode::Rtp, Mode::Srtp] { for (ph, _) in PHASES { for (e, _) in EVENTS { let sc = s(mode, *ph, &[*e]); if sc.valid() { v.push(sc); } } } }
        let racers = [Event::Close, Event::PeerCloseNotify, Event::PeerAbort, Event::PeerShutdownAck, Event::IceStop, Event::PeerShutdown];
        for ph in [Phase::Checking, Phase::Connected, Phase::ChannelsOpen, Phase::MediaFlowing] {
            for a in racers { for b in racers { let sc = s(Mode::WebRtc, ph, &[a, b]); if a != b && sc.valid() { v.push(sc); } } }
        }
    } else {
        use Event::*; use Phase::*;
        for (ph, evs) in [(Created, vec![Close, Drop]), (OfferMade, vec![Close]), (RemoteOfferSet, vec![Close]), (Checking, vec![Close, IceStop, Drop, BadFingerprint]),
            (IceConnected, vec![Close, Drop]), (DtlsHandshaking, vec![Close, IceStop, Drop]), (Connected, vec![Close, PeerClose]),
            (ChannelsOpen, vec![Close, CloseTwice, Drop, PeerCloseNotify, PeerClose, PeerAbort, PeerShutdown, PeerShutdownAck, IceStop, PeerVanish, BlockedSenderClose, BlockedSenderVanish, BlockedSenderAbort, BlockedSenderShutdown, BlockedSenderShutdownAck, BlockedSenderHeartbeat, BlockedSenderCloseNotify, CloseChannelTwice, CloseChannelThenClose, IceFail, PeerVanishIceFail,
                IceFailThenClose, PeerAbortThenClose, PeerCloseNotifyThenClose, PeerVanishThenIceFail]),
            (MediaFlowing, vec![Close, PeerAbort, IceFail]), (Renegotiating, vec![Close, PeerCloseNotify])] {
            for e in evs { v.push(s(Mode::WebRtc, ph, &[e])); }
        }
        for pair in [[Close, PeerCloseNotify], [Close, PeerAbort], [PeerAbort, PeerCloseNotify], [Close, IceStop]] { v.push(s(Mode::WebRtc, ChannelsOpen, &pair)); }
        for (ph, evs) in [(Created, vec![Close]), (OfferMade, vec![Drop]), (Connected, vec![Close, Drop, IceStop, CloseTwice, PeerVanish, IceFail, IceFailThenClose]), (MediaFlowing, vec![Close]), (Renegotiating, vec![Close])] {
            for e in evs { v.push(s(Mode::Rtp, ph, &[e])); }
        }
        for e in [Close, Drop, IceFail] { v.push(s(Mode::Srtp, Connected, &[e])); }
        v.push(s(Mode::Srtp, RemoteOfferSet, &[IceStop])); v.push(s(Mode::Srtp, RemoteOfferSet, &[Close])); v.push(s(Mode::Rtp, Checking, &[Close]));
    }
    // a data channel registered on a connection that has no SCTP association (audit r2-A4)
    for e in [Event::Close, Event::PeerCloseNotify, Event::PeerVanish, Event::IceFail, Event::IceStop] {
        v.push(Scen { mode: Mode::WebRtc, phase: Phase::Connected, events: vec![e], audio_only: true, variant: 4 });
    }
    // a dead entry (channel dropped by the application) in front of a live channel (audit r3-M2): the SCTP-initiated
    // ends rely on the association's cleanup guard alone
    for e in [Event::PeerAbort, Event::PeerShutdown, Event::Close] {
        v.push(Scen { mode: Mode::WebRtc, phase: Phase::ChannelsOpen, events: vec![e], audio_only: false, variant: 5 });
    }
    v.retain(|s| s.valid());
    v
}

fn socket_fds() -> usize {
    std::fs::read_dir("/proc/self/fd").map(|d| d.filter_map(|e| e.ok()).filter(|e| std::fs::read_link(e.path()).map(|l| l.to_string_lossy().starts_with("socket:")).unwrap_or(false)).count()).unwrap_or(0)
}

/// what one resource run measured
pub struct LeakObs { pub tasks_x_after_event: usize, pub fds_handle_held: usize, pub fds_after_drop: usize, pub fds_base: usize, pub tasks_main_end: usize, pub peer: String, pub err: Option<String>,
    /// seconds until the task verdict (0 tasks, or a count confirmed stable), scheduling-lag factor used, seconds for the two descriptor verdicts
    pub confirmed_after_s: f64, pub lag: f64, pub fds_held_s: f64, pub fds_drop_s: f64 }

/// resources, measured **while the application still holds the subject's handles** (audit C3): the subject
/// endpoint runs all its rustrtc tasks on its own runtime `rx`; after the event + settle we poll (≤ 12 s)
/// for `rx` to have no live task, then close the peer, count socket descriptors, then drop the subject's
/// handles and count again: everything `close()` / the drop owes must be gone before the handles go.
/// how late does a `sleep(100 ms)` wake up on runtime `h` right now? (1.0 = on time; max of 3 samples)
fn runtime_lag(h: &tokio::runtime::Handle) -> f64 {
    let mut worst = 1.0f64;
    for _ in 0..3 {
        let (tx, rx) = std::sync::mpsc::channel();
        h.spawn(async move { let t = Instant::now(); tokio::time::sleep(Duration::from_millis(100)).await; let _ = tx.send(t.elapsed()); });
        if let Ok(d) = rx.recv_timeout(Duration::from_secs(10)) { worst = worst.max(d.as_secs_f64() / 0.1); } else { worst = worst.max(50.0); }
    }
    worst
}

/// Poll `read()` until it reaches `target`, confirming before reporting (saturated host: tasks are runnable but
/// not scheduled — slow teardown keeps shrinking, a real leak is stable):
/// * up to the nominal bound stretched by the scheduling lag measured on the subject's runtime (cap `HARD`);
/// * past that bound the value is reported only once it has been STABLE for a lag-scaled window (>= 3 s,
///   >= 6 polls); while it keeps shrinking we keep polling with back-off, up to `HARD` (then it is reported too:
///   a teardown that takes longer than a minute is not "bounded" either).
/// Returns (last value, seconds until the verdict, lag factor).
fn poll_until(read: &dyn Fn() -> usize, target: usize, nominal: Duration, h: &tokio::runtime::Handle) -> (usize, f64, f64) {
    const HARD: Duration = Duration::from_secs(60);
    let t0 = Instant::now();
    let lag = runtime_lag(h).clamp(1.0, 5.0);
    let bound = nominal.mul_f64(lag).min(HARD);
    let window = Duration::from_secs(3).mul_f64(lag);
    let mut hist: Vec<(Instant, usize)> = vec![];
    let mut step = Duration::from_millis(100);
    loop {
        let v = read();
        hist.push((Instant::now(), v));
        if v <= target { return (v, t0.elapsed().as_secs_f64(), lag); }
        let el = t0.elapsed();
        if el >= HARD { return (v, el.as_secs_f64(), lag); }
        if el >= bound {
            // stable = unchanged over the whole window and at least 6 polls in it
            let since = Instant::now() - window;
            let recent: Vec<usize> = hist.iter().filter(|(t, _)| *t >= since).map(|(_, v)| *v).collect();
            let covered = hist.first().map(|(t, _)| *t <= since).unwrap_or(false);
            if covered && recent.len() >= 6 && recent.iter().all(|x| *x == v) { return (v, el.as_secs_f64(), lag); }
            step = (step * 2).min(Duration::from_millis(800));
        }
        std::thread::sleep(step);
    }
}

fn leak_run(sc: &Scen) -> LeakObs {
    let rt = tokio::runtime::Builder::new_multi_thread().worker_threads(2).enable_all().build().unwrap();
    let rx = tokio::runtime::Builder::new_multi_thread().worker_threads(2).enable_all().build().unwrap();
    start_lag_monitor(rt.handle());
    let fds_base = socket_fds();
    let sc2 = sc.clone(); let h = rx.handle().clone();
    let (o, kept) = rt.block_on(async move { tokio::spawn(async move { exec_once(&sc2, Some(h)).await }).await }).unwrap_or((Outcome::default(), None));
    let rxh = rx.handle().clone();
    // the lag probe itself is a task on `rx`: it has finished when `runtime_lag` returns
    let (tx, confirmed_after_s, lag) = poll_until(&|| rx.metrics().num_alive_tasks(), 0, Duration::from_secs(12), &rxh);
    // close the peer (Y) only; X's handles stay alive
    if let Some(p) = &kept { let y = if sc.phase == Phase::RemoteOfferSet { &p.off.pc } else { &p.ans.pc }; y.close(); }
    let (fds_held, fds_held_s, _) = poll_until(&socket_fds, fds_base, Duration::from_secs(4), &rxh);
    drop(kept);
    let (fds_drop, fds_drop_s, _) = poll_until(&socket_fds, fds_base, Duration::from_secs(4), &rxh);
    let tm = rt.metrics().num_alive_tasks();
    rx.shutdown_timeout(Duration::from_millis(100));
    rt.shutdown_timeout(Duration::from_millis(100));
    LeakObs { tasks_x_after_event: tx, fds_handle_held: fds_held, fds_after_drop: fds_drop, fds_base, tasks_main_end: tm, peer: o.peer.clone(), err: o.err.clone(),
        confirmed_after_s, lag, fds_held_s, fds_drop_s }
}

const SCTP_REASONS: &[&str] = &["HEARTBEAT_TIMEOUT", "HEARTBEAT_DEAD", "REMOTE_ABORT", "REMOTE_SHUTDOWN", "DTLS_FAILED", "DTLS_CLOSED",
    "DTLS_CHANNEL_CLOSED", "LOCAL_CLOSE", "INIT_TIMEOUT", "TRANSPORT_CLOSED", "INCOMING_CHANNEL_CLOSED", "whatever", ""];

/// reason tables on one connected WebRTC pair: `propagate_sctp_close_reason` for every string (reason
/// reset between), then `close_with_reason(outer)` once per fresh pair for a few strings.
async fn reason_tables(run: &mut Run, thorough: bool) {
    let sc = Scen { mode: Mode::WebRtc, phase: Phase::ChannelsOpen, events: vec![Event::Close], audio_only: false, variant: 0 };
    let mut p = Pair::create(sc.cfg(), &Knobs::default());
    if p.negotiate().await.is_err() || p.wait_connected(Duration::from_secs(12)).await.is_err() { run.fail("run:reason-tables:setup-failed", "prop", "pair did not connect"); return; }
    let x = p.off.pc.clone();
    if let Some(sctp) = x.verif_lc_sctp_transport() {
        for r in SCTP_REASONS {
            x.verif_lc_reset_disconnect_reason();
            sctp.verif_lc_set_close_reason(Some(r.to_string()));
            x.verif_lc_propagate_sctp_close_reason();
            run.case("prop", &format!("{} {}", if r.is_empty() { "<empty>" } else { r }, "-"), reason_text(&x.disconnect_reason()), true);
        }
        // no transport reason at all
        x.verif_lc_reset_disconnect_reason(); sctp.verif_lc_set_close_reason(None); x.verif_lc_propagate_sctp_close_reason();
        run.case("prop", "<none> -", reason_text(&x.disconnect_reason()), false);
        // first reason wins
        sctp.verif_lc_set_close_reason(Some("REMOTE_ABORT".into())); x.verif_lc_propagate_sctp_close_reason();
        sctp.verif_lc_set_close_reason(Some("HEARTBEAT_TIMEOUT".into())); x.verif_lc_propagate_sctp_close_reason();
        run.case("prop", "HEARTBEAT_TIMEOUT sctpRemoteAbort", reason_text(&x.disconnect_reason()), true);
    }
    p.off.pc.close(); p.ans.pc.close();
    // close_with_reason's own copy of the table
    let list: Vec<&str> = if thorough { SCTP_REASONS.to_vec() } else { vec!["REMOTE_ABORT", "LOCAL_CLOSE", "HEARTBEAT_TIMEOUT", "DTLS_CHANNEL_CLOSED", "whatever"] };
    for (i, r) in list.iter().enumerate() {
        let mut p = Pair::create(sc.cfg(), &Knobs::default());
        if p.negotiate().await.is_err() || p.wait_connected(Duration::from_secs(12)).await.is_err() { continue; }
        let x = p.off.pc.clone();
        // precondition of the case: the association object is there and carries exactly this reason string
        let Some(sctp) = x.verif_lc_sctp_transport() else { run.count("cwr_skipped_no_sctp"); p.off.pc.close(); p.ans.pc.close(); continue; };
        sctp.verif_lc_set_close_reason(Some(r.to_string()));
        if sctp.close_reason().as_deref() != Some(*r) || x.disconnect_reason().is_some() { run.count("cwr_skipped_precondition"); p.off.pc.close(); p.ans.pc.close(); continue; }
        let outer = if i % 2 == 0 { DisconnectReason::LocalClose } else { DisconnectReason::Dropped };
        x.verif_lc_close_with_reason(outer.clone());
        run.case("cwr", &format!("{} {}", if r.is_empty() { "<empty>" } else { r }, reason_text(&Some(outer.clone()))), &format!("{} {}", reason_text(&x.disconnect_reason()), peer_text(*x.subscribe_peer_state().borrow())), true);
        // idempotence: a second close with another reason changes nothing
        x.verif_lc_close_with_reason(DisconnectReason::IceFailed);
        run.case("cwr2", &format!("{} {}", if r.is_empty() { "<empty>" } else { r }, reason_text(&Some(outer))), &format!("{} {}", reason_text(&x.disconnect_reason()), peer_text(*x.subscribe_peer_state().borrow())), true);
        p.ans.pc.close();
    }
}

pub fn run(args: &Args) {
    let mut run = Run::new("c17", &args.out);
    if let Some(case) = &args.replay {
        if case.starts_with("cwr") || case.starts_with("prop") {
            let rt = tokio::runtime::Builder::new_multi_thread().worker_threads(4).enable_all().build().unwrap();
            let mut r = Run::new("c17", &args.out);
            rt.block_on(reason_tables(&mut r, true));
            r.finish();
            println!("reason tables re-run: see {}/impl.txt", args.out);
            return;
        }
        let t = case.split_whitespace().last().unwrap_or("");
        let sc = Scen::parse(t).or_else(|| case.split_whitespace().find_map(Scen::parse)).expect("replay: <mode>:<phase>:<event[+event]>");
        let rt = tokio::runtime::Builder::new_multi_thread().worker_threads(4).enable_all().build().unwrap();
        if case.starts_with("leak") {
            let l = leak_run(&sc);
            println!("leak-run {}: tasks_on_subject_runtime_after_event={} fds base={} handle_held_peer_closed={} after_drop={} peer={} err={:?} confirmed_after_s={:.1} lag={:.1}", sc.text(), l.tasks_x_after_event, l.fds_base, l.fds_handle_held, l.fds_after_drop, l.peer, l.err, l.confirmed_after_s, l.lag);
            return;
        }
        let o = rt.block_on(exec(&sc));
        let (i, ou) = lines(&sc, &[&o]);
        println!("op: c17 life 0 {i}\nimpl: {ou}\nnotes: {:?} blocked_send_ms={:?} err={:?} recv_ended={:?} open_before={:?}", o.notes, o.blocked_send_ms, o.err, o.recv_ended, o.chan_open_before);
        for (s, d) in oracles(&sc, &o) { println!("ORACLE-FAIL {s} {d}"); }
        rt.shutdown_timeout(Duration::from_millis(200));
        return;
    }
    let mut rng = Rng::new(args.seed);
    let rt = tokio::runtime::Builder::new_multi_thread().worker_threads(8).enable_all().build().unwrap();
    start_lag_monitor(rt.handle());
    rt.block_on(reason_tables(&mut run, args.tier_thorough));
    let mut scs = scenarios(args.tier_thorough);
    // deterministic order, seed only rotates the start (parallel execution order is irrelevant to the output)
    let rot = rng.below(scs.len() as u64) as usize; scs.rotate_left(rot);
    let t0 = Instant::now();
    // racy scenarios (event injected while the connection is being established) are repeated: the outcome
    // depends on the schedule, one run shows one schedule
    let reps = |sc: &Scen| -> usize { if matches!(sc.phase, Phase::Checking | Phase::IceConnected | Phase::DtlsHandshaking) || sc.events.len() == 2 { if args.tier_thorough { 6 } else { 4 } } else { 1 } };
    let results: Vec<(Scen, Outcome)> = rt.block_on(async {
        let sem = Arc::new(tokio::sync::Semaphore::new(10));
        let mut hs = vec![];
        for sc in scs.iter().cloned() {
            for _ in 0..reps(&sc) {
                let sem = sem.clone(); let sc = sc.clone();
                hs.push(tokio::spawn(async move { let _p = sem.acquire_owned().await.unwrap(); let o = exec(&sc).await; (sc, o) }));
            }
        }
        let mut out = vec![];
        for h in hs { if let Ok(r) = h.await { out.push(r); } }
        out
    });
    let mut strict = 0u64; let mut lenient = 0u64;
    // group repetitions by (scenario, snapshot): one correspondence case per group
    let mut groups: std::collections::BTreeMap<(String, String), Vec<&Outcome>> = Default::default();
    let mut order: Vec<(String, String)> = vec![];
    for (sc, o) in &results {
        let k = (sc.text(), o.pre.clone());
        if !groups.contains_key(&k) { order.push(k.clone()); }
        groups.entry(k).or_default().push(o);
    }
    for k in &order {
        let sc = Scen::parse(&k.0).unwrap();
        let os = &groups[k];
        let (input, out) = lines(&sc, os);
        run.case("life", &input, &out, true);
        run.count_n("life_runs", os.len() as u64);
    }
    for (sc, o) in &results {
        run.count(&format!("phase_{}", phase_name(sc.phase)));
        for e in &sc.events { run.count(&format!("event_{}", event_name(*e))); }
        run.count(&format!("final_peer_{}", o.peer));
        if o.notes.iter().any(|n| n == "phase-not-reached") { run.count("phase_not_reached"); }
        if matches!(o.peer.as_str(), "failed" | "closed") && o.reason != "-" { strict += 1; }
        if matches!(o.peer.as_str(), "disconnected" | "failed" | "closed") && o.reason != "-" { lenient += 1; }
        for (sig, d) in oracles(sc, o) { run.fail(&sig, &format!("life {}", sc.text()), &d); }
    }
    run.notes.insert("scenarios".into(), serde_json::json!(results.len()));
    run.notes.insert("terminal_lenient".into(), serde_json::json!(lenient));
    run.notes.insert("terminal_strict_informational".into(), serde_json::json!(strict));
    run.notes.insert("scenario_wall_s".into(), serde_json::json!(t0.elapsed().as_secs_f64()));
    run.notes.insert("scheduling_lag_max_pct".into(), serde_json::json!(LAG_PCT_MAX.load(Ordering::Relaxed)));
    rt.shutdown_timeout(Duration::from_millis(300));
    // resources (measured runtime facts): sequential, fresh runtime each
    let leak_list: Vec<Scen> = {
        use Event::*; use Phase::*;
        let mk = |m, p, e, audio_only, variant| Scen { mode: m, phase: p, events: vec![e], audio_only, variant };
        let mut l = vec![mk(Mode::WebRtc, ChannelsOpen, Close, false, 0), mk(Mode::WebRtc, ChannelsOpen, Drop, false, 0), mk(Mode::WebRtc, DtlsHandshaking, Close, false, 0),
            mk(Mode::WebRtc, DtlsHandshaking, Close, true, 0), mk(Mode::WebRtc, Checking, Close, false, 0), mk(Mode::WebRtc, OfferMade, Close, false, 0),
            mk(Mode::WebRtc, ChannelsOpen, IceStop, false, 0), mk(Mode::Rtp, Connected, Close, false, 0), mk(Mode::Rtp, Connected, Drop, false, 0),
            // ICE variants and per-section transports (audit C4)
            mk(Mode::WebRtc, ChannelsOpen, Close, false, 1), mk(Mode::WebRtc, ChannelsOpen, Close, false, 2), mk(Mode::Rtp, Connected, Close, false, 3),
            // close() right after creation, before the connection's task has run (round 3: gathering loop)
            mk(Mode::WebRtc, Created, Close, false, 0),
            // non-BUNDLE connections with two media sections (LegacySip, audio + video): every section after the
            // first has its own ICE transport / UDP socket, in Rtp mode also its own RTP transport, in SDES-SRTP
            // mode not (seed C17-c) — from the moment the offer is made
            mk(Mode::Srtp, OfferMade, Close, false, 3), mk(Mode::Srtp, Connected, Close, false, 3), mk(Mode::Srtp, Connected, Drop, false, 3),
            mk(Mode::Rtp, OfferMade, Close, false, 3), mk(Mode::Rtp, Connected, Drop, false, 3),
            // … and the answerer closed right after the offer was applied: close() races the transport start
            // (Rtp) / ends the SDES description wait, which then runs a start on the closed connection
            mk(Mode::Rtp, RemoteOfferSet, Close, false, 3), mk(Mode::Srtp, RemoteOfferSet, Close, false, 3)];
        if args.tier_thorough { l.extend([mk(Mode::WebRtc, Created, Drop, false, 0), mk(Mode::WebRtc, DtlsHandshaking, Drop, false, 0),
            mk(Mode::WebRtc, ChannelsOpen, CloseTwice, false, 0), mk(Mode::Srtp, Connected, Close, false, 0), mk(Mode::Srtp, Connected, Drop, false, 0),
            mk(Mode::WebRtc, MediaFlowing, Close, false, 0), mk(Mode::WebRtc, Renegotiating, Close, false, 0), mk(Mode::WebRtc, Connected, Close, true, 0),
            mk(Mode::WebRtc, ChannelsOpen, Drop, false, 2),
            mk(Mode::Srtp, MediaFlowing, Close, false, 3), mk(Mode::Rtp, MediaFlowing, Close, false, 3), mk(Mode::Srtp, RemoteOfferSet, Drop, false, 3), mk(Mode::Rtp, RemoteOfferSet, Drop, false, 3),
            mk(Mode::Srtp, OfferMade, Drop, false, 3), mk(Mode::Rtp, OfferMade, Drop, false, 3), mk(Mode::Srtp, MediaFlowing, Drop, false, 3)]); }
        // lower-layer ends (no close() by the application): the property owes the release here too (audit r2-C2);
        // judged exactly like the application-initiated ends
        l.push(mk(Mode::WebRtc, ChannelsOpen, PeerAbort, false, 0)); l.push(mk(Mode::WebRtc, ChannelsOpen, PeerCloseNotify, false, 0));
        l.push(mk(Mode::WebRtc, ChannelsOpen, IceFail, false, 0));
        // … and the application's close() AFTER a lower-layer end must release what was left (audit r3-M6)
        l.push(mk(Mode::WebRtc, ChannelsOpen, IceFailThenClose, false, 0));
        l
    };
    let mut leaks = vec![];
    for sc in &leak_list {
        let l = leak_run(sc);
        let app_ended = true;
        leaks.push(serde_json::json!({"scenario": sc.text(), "subject_tasks_alive_after_event_handle_held": l.tasks_x_after_event, "socket_fds_base": l.fds_base,
            "socket_fds_handle_held_peer_closed": l.fds_handle_held, "socket_fds_after_drop": l.fds_after_drop, "peer_state": l.peer, "alarmed": app_ended, "err": l.err,
            "confirmed_after_s": l.confirmed_after_s, "scheduling_lag_factor": l.lag, "fds_held_verdict_s": l.fds_held_s, "fds_drop_verdict_s": l.fds_drop_s}));
        run.count("resource_runs");
        if let Some(e) = &l.err { run.fail(&format!("run:leak:{}:setup-or-injection-failed", sig_class(sc)), &format!("leak {}", sc.text()), e); continue; }
        if app_ended {
            if l.tasks_x_after_event > 0 { run.fail(&format!("leak:{}:tasks-alive-while-handle-held:{}", sig_class(sc), l.tasks_x_after_event), &format!("leak {}", sc.text()), &format!("{} tasks of the subject still alive, count stable, confirmed {:.1} s after the event (nominal bound 12 s, scheduling-lag factor {:.1})", l.tasks_x_after_event, l.confirmed_after_s, l.lag)); }
            if l.fds_handle_held > l.fds_after_drop { run.fail(&format!("leak:{}:sockets-released-only-by-drop:+{}", sig_class(sc), l.fds_handle_held - l.fds_after_drop), &format!("leak {}", sc.text()), &format!("socket fds {} with the handle held, {} after dropping it", l.fds_handle_held, l.fds_after_drop)); }
            if l.fds_after_drop > l.fds_base { run.fail(&format!("leak:{}:sockets-open-after-drop", sig_class(sc)), &format!("leak {}", sc.text()), &format!("socket fds {} -> {}", l.fds_base, l.fds_after_drop)); }
        }
    }
    run.notes.insert("resources_measured".into(), serde_json::json!(leaks));
    run.notes.insert("runtime_facts".into(), serde_json::json!("task / descriptor release is measured per endpoint (the subject runs on its own tokio runtime; RuntimeMetrics::num_alive_tasks polled <= 12 s after the event WHILE the application still holds its handles; /proc/self/fd sockets with the handle held vs after dropping it); lower-layer ends (peer ABORT, peer close_notify, ICE failed) are judged like close() / drop; tasks left on the APPLICATION's runtime (tasks_main_end) are recorded only; 700 ms call bound, 1.5 s settle; 4 s for peer-vanish with threshold 1.2 s + grace 0.3 s) — not theorems"));
    run.exhaustive = args.tier_thorough;
    run.finish();
}
