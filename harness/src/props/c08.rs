//! C08 — generated answers are valid answers to the offer; SDP serialise/parse round-trips.
//! Structured offers × local configurations → REAL `set_remote_description` + `create_answer`;
//! the canonicalised answer is diffed with the Lean model (`RtcModel.Answer.answer`, stream `ans`),
//! `ValidAnswer` is evaluated on the implementation's answer here (oracle, written from the property
//! text) and by the Lean definition (stream `valid`, which ties the two), and every description
//! produced or parsed goes through the text round trip (stream `rt` = real parser + printer vs
//! `RtcModel.SdpLines`; oracle = parse∘print is the identity, literally; where only the printer's stable
//! transport-first partition differs the failure is `rt:attribute-order:<origin>`, a known finding).
use super::c09::sdpgen::*;
use crate::{Args, Rng, Run};
use rustrtc::verif_hooks::peer::PeerSnapshot;
use rustrtc::{
    Attribute, AudioCapability, Direction, MediaCapabilities, MediaKind, MediaSection, PeerConnection, RtcConfiguration,
    RtcpMuxPolicy, SdpCompatibilityMode, SdpType, SessionDescription, TransceiverDirection, TransportMode, VideoCapability,
};

// ------------------------------------------------------------------------------------------------
// protocol coding

fn enc(s: &str) -> String {
    let mut o = String::with_capacity(s.len() + 8);
    for b in s.bytes() {
        if b.is_ascii_alphanumeric() || matches!(b, b'_' | b'.' | b':' | b'/' | b'=' | b';' | b'*' | b'-') { o.push(b as char); }
        else { o.push_str(&format!("%{:02X}", b)); }
    }
    o
}
fn enc_opt(s: &Option<String>) -> String { match s { Some(v) => enc(v), None => "~".into() } }
fn list(sep: &str, xs: Vec<String>) -> String { if xs.is_empty() { "_".into() } else { xs.join(sep) } }
fn kind_ch(k: MediaKind) -> &'static str { match k { MediaKind::Audio => "a", MediaKind::Video => "v", MediaKind::Application => "d", MediaKind::Image => "i" } }
fn dir_s(d: Direction) -> &'static str { match d { Direction::SendRecv => "sr", Direction::SendOnly => "so", Direction::RecvOnly => "ro", Direction::Inactive => "in" } }
fn tdir_s(d: TransceiverDirection) -> &'static str {
    match d { TransceiverDirection::SendRecv => "sr", TransceiverDirection::SendOnly => "so", TransceiverDirection::RecvOnly => "ro", TransceiverDirection::Inactive => "in" }
}
fn attr_s(a: &Attribute) -> String { match &a.value { Some(v) => format!("{}@{}", enc(&a.key), enc(v)), None => enc(&a.key) } }

const MODEL_KEYS: [&str; 13] = ["rtcp-mux", "rtpmap", "fmtp", "rtcp-fb", "extmap", "setup", "sctp-port", "T38FaxVersion",
    "T38MaxBitRate", "T38FaxRateManagement", "T38FaxMaxBuffer", "T38FaxMaxDatagram", "T38FaxUdpEC"];

fn media_s(m: &MediaSection, only_model_keys: bool) -> String {
    let attrs: Vec<String> = m.attributes.iter().filter(|a| !only_model_keys || MODEL_KEYS.contains(&a.key.as_str())).map(attr_s).collect();
    format!("{},{},{},{},{},{}", kind_ch(m.kind), enc(&m.mid), enc(&m.protocol), dir_s(m.direction),
        list("^", m.formats.iter().map(|f| enc(f)).collect()), list("^", attrs))
}
/// `sessionAttrs^|sec!sec`
fn desc_s(d: &SessionDescription) -> String {
    format!("{}|{}", list("^", d.session.attributes.iter().map(attr_s).collect()), list("!", d.media_sections.iter().map(|m| media_s(m, false)).collect()))
}
/// canonical answer `ok|group|sec!sec`
fn answer_s(d: &SessionDescription) -> String {
    let g = d.session.attributes.iter().find(|a| a.key == "group").and_then(|a| a.value.clone());
    format!("ok|{}|{}", enc_opt(&g), list("!", d.media_sections.iter().map(|m| media_s(m, true)).collect()))
}

// ------------------------------------------------------------------------------------------------
// local configuration

#[derive(Clone, Debug)]
pub struct LocalCfg {
    pub mode: TransportMode,
    pub legacy: bool,
    pub mux_require: bool,
    pub audio: Vec<AudioCapability>,
    pub video: Vec<VideoCapability>,
    pub caps_set: bool,
    pub trxs: Vec<(MediaKind, TransceiverDirection)>,
    /// kinds for which a track is added with `add_track` (a transceiver WITH a sender)
    pub tracks: Vec<MediaKind>,
    /// `media_capabilities.image` / `.application` (round 2)
    pub image: Vec<rustrtc::config::T38Capability>,
    pub sctp_port: Option<u16>,
    /// the connection builds an offer of its own first (`create_offer`, discarded): its transceivers then carry
    /// locally assigned mids when the remote offer arrives (a connection that has been an offerer)
    pub offered_first: bool,
}

fn acap(pt: u8, name: &str, clock: u32, ch: u8, fmtp: Option<&str>) -> AudioCapability {
    AudioCapability { payload_type: pt, codec_name: name.into(), clock_rate: clock, channels: ch, fmtp: fmtp.map(|s| s.into()), rtcp_fbs: vec![] }
}
fn vcap(pt: u8, name: &str, fmtp: Option<&str>, fbs: &[&str], rtx: Option<u8>) -> VideoCapability {
    VideoCapability { payload_type: pt, codec_name: name.into(), clock_rate: 90000, fmtp: fmtp.map(|s| s.into()), rtcp_fbs: fbs.iter().map(|s| s.to_string()).collect(), rtx_payload_type: rtx }
}

fn gen_cfg(rng: &mut Rng) -> LocalCfg {
    let mode = rng.pick(&[TransportMode::WebRtc, TransportMode::WebRtc, TransportMode::Rtp, TransportMode::Srtp]).clone();
    let caps_set = rng.chance(2, 3);
    let audio = match rng.below(5) {
        0 => vec![],
        1 => vec![AudioCapability::opus(), AudioCapability::pcmu()],
        2 => vec![AudioCapability::pcmu(), AudioCapability::pcma(), AudioCapability::telephone_event()],
        3 => vec![acap(109, "opus", 48000, 2, Some("useinbandfec=1")), AudioCapability::g722()],
        _ => vec![AudioCapability::pcma(), { let mut c = AudioCapability::opus(); c.rtcp_fbs = vec!["transport-cc".into()]; c }],
    };
    let video = match rng.below(4) {
        0 => vec![],
        1 => vec![VideoCapability::vp8_with_rtx(97)],
        2 => vec![VideoCapability::h264(), vcap(100, "VP8", None, &["nack", "nack pli"], Some(101))],
        _ => vec![vcap(102, "H264", Some("packetization-mode=1"), &["nack"], None), vcap(98, "VP9", None, &[], None)],
    };
    let kinds = [MediaKind::Audio, MediaKind::Video, MediaKind::Application, MediaKind::Audio, MediaKind::Video, MediaKind::Image];
    let dirs = [TransceiverDirection::SendRecv, TransceiverDirection::SendRecv, TransceiverDirection::SendOnly, TransceiverDirection::RecvOnly, TransceiverDirection::Inactive];
    let n = match rng.below(10) { 0..=3 => 0, 4..=6 => 1, 7..=8 => 2, _ => 4 };
    let trxs = (0..n).map(|_| (*rng.pick(&kinds), *rng.pick(&dirs))).collect();
    let tracks = match rng.below(8) { 0 => vec![MediaKind::Audio], 1 => vec![MediaKind::Video], 2 => vec![MediaKind::Audio, MediaKind::Video], _ => vec![] };
    let legacy = rng.chance(1, 6);
    let mux_require = !rng.chance(1, 6);
    let image = match rng.below(6) {
        0 => vec![rustrtc::config::T38Capability { payload_type: 99, version: 2, max_bitrate: 9600, rate_management: rustrtc::config::T38FaxRateManagement::LocalTCF,
                   max_buffer: 512, max_datagram: 176, udp_ec: rustrtc::config::T38UdpEC::T38UDPFEC, fmtp: None }],
        1 => vec![rustrtc::config::T38Capability::default(), rustrtc::config::T38Capability { payload_type: 100, version: 3, max_bitrate: 4800,
                   rate_management: rustrtc::config::T38FaxRateManagement::TransferredTCF, max_buffer: 200, max_datagram: 72, udp_ec: rustrtc::config::T38UdpEC::T38UDPRedundancy, fmtp: None }],
        _ => vec![],
    };
    let sctp_port = if rng.chance(1, 5) { Some(*rng.pick(&[5001u16, 9, 65535])) } else { None };
    let offered_first = rng.chance(1, 8);
    LocalCfg { mode, legacy, mux_require, audio, video, caps_set, trxs, tracks, image, sctp_port, offered_first }
}

fn rtc_config(c: &LocalCfg) -> RtcConfiguration {
    let mut r = RtcConfiguration::default();
    r.transport_mode = c.mode.clone();
    r.bind_ip = Some("127.0.0.1".into());
    r.disable_ipv6 = true;
    r.enable_upnp = false;
    r.sdp_compatibility = if c.legacy { SdpCompatibilityMode::LegacySip } else { SdpCompatibilityMode::Standard };
    r.rtcp_mux_policy = if c.mux_require { RtcpMuxPolicy::Require } else { RtcpMuxPolicy::Negotiate };
    if c.caps_set {
        r.media_capabilities = Some(MediaCapabilities { audio: c.audio.clone(), video: c.video.clone(),
            application: c.sctp_port.map(|p| rustrtc::config::ApplicationCapability { sctp_port: p }), image: c.image.clone() });
    }
    r
}

fn cfg_s(c: &LocalCfg) -> String {
    let (audio, video) = if c.caps_set { (c.audio.clone(), c.video.clone()) } else { (vec![], vec![]) };
    let ac: Vec<String> = audio.iter().map(|a| format!("{},{},{},{},{},{}", a.payload_type, enc(&a.codec_name), a.clock_rate, a.channels,
        enc_opt(&a.fmtp), list("^", a.rtcp_fbs.iter().map(|f| enc(f)).collect()))).collect();
    let vc: Vec<String> = video.iter().map(|v| format!("{},{},{},{},{},{}", v.payload_type, enc(&v.codec_name), v.clock_rate, enc_opt(&v.fmtp),
        list("^", v.rtcp_fbs.iter().map(|f| enc(f)).collect()), v.rtx_payload_type.map(|r| r.to_string()).unwrap_or("~".into()))).collect();
    let ic: Vec<String> = if c.caps_set { c.image.iter().map(|t| format!("{},{},{},{},{},{},{}", t.payload_type, t.version, t.max_bitrate, enc(&t.rate_management.to_string()),
        t.max_buffer, t.max_datagram, enc(&t.udp_ec.to_string()))).collect() } else { vec![] };
    let port = if c.caps_set { c.sctp_port.unwrap_or(rustrtc::config::ApplicationCapability::default().sctp_port) } else { rustrtc::config::ApplicationCapability::default().sctp_port };
    format!("{},{},{},{}|{}|{}|{}", match c.mode { TransportMode::WebRtc => "w", TransportMode::Srtp => "s", TransportMode::Rtp => "r" },
        c.legacy as u8, c.mux_require as u8, port, list("+", ac), list("+", vc), list("+", ic))
}

// ------------------------------------------------------------------------------------------------
// structured offers

fn gen_offer(rng: &mut Rng) -> DescSpec {
    let nsec = match rng.below(10) { 0..=2 => 1, 3..=5 => 2, 6..=7 => 3, 8 => 4, _ => rng.range(5, 6) } as usize;
    let scheme = rng.below(6); // 0,1 numeric; 2 named; 3 absent; 4 mixed; 5 numeric with offset
    let setup: Option<&'static str> = *rng.pick(&[Some("actpass"), Some("actpass"), Some("actpass"), Some("active"), Some("passive"), Some("holdconn"), None]);
    let mut secs = vec![];
    let mut have_app = false;
    for i in 0..nsec {
        let kind = match rng.below(20) { 0..=8 => MediaKind::Audio, 9..=15 => MediaKind::Video, 16..=18 => MediaKind::Application, _ => MediaKind::Image };
        let kind = if kind == MediaKind::Application && have_app { MediaKind::Audio } else { kind };
        have_app |= kind == MediaKind::Application;
        let mid: Option<String> = match scheme {
            0 | 1 => Some(i.to_string()),
            2 => Some(format!("{}{}", match kind { MediaKind::Audio => "audio", MediaKind::Video => "video", MediaKind::Application => "data", MediaKind::Image => "fax" }, i)),
            3 => None,
            4 => if rng.chance(1, 2) { Some(i.to_string()) } else { None },
            _ => Some((i + 3).to_string()),
        };
        let mut s = SecSpec::new(kind, mid.as_deref());
        s.setup = setup;
        s.dir = *rng.pick(&["sendrecv", "sendrecv", "sendrecv", "sendonly", "recvonly", "inactive", ""]);
        s.rtcp_mux = !rng.chance(1, 5);
        match kind {
            MediaKind::Audio => {
                let pool = [opus(), pcmu(), pcma(), g722_static(), telephone_event(), CodecSpec::new(109, "opus", 48000, 2),
                            CodecSpec::new(18, "G729", 8000, 0).no_rtpmap(), CodecSpec::new(0, "PCMU", 8000, 1), CodecSpec::new(96, "opus", 48000, 2).fb("transport-cc")];
                let n = rng.range(1, 4) as usize;
                let mut used = vec![];
                for _ in 0..n { let c = rng.pick(&pool).clone(); if !used.contains(&c.pt) { used.push(c.pt); s.codecs.push(c); } }
                let exts = [URI_AUDIO_LEVEL, URI_ABS_SEND_TIME, URI_SDES_MID, URI_TWCC];
                let mut ids: Vec<u8> = (1..=14).collect();
                for u in exts { if rng.chance(1, 2) { let k = rng.below(ids.len() as u64) as usize; let id = ids.remove(k); s.extmaps.push((id.to_string(), u.to_string())); } }
            }
            MediaKind::Video => {
                let pool = [vp8(96), vp8(100), h264(102), vp9(98), h264(96), CodecSpec::new(35, "AV1", 90000, 0)];
                let n = rng.range(1, 3) as usize;
                let mut used = vec![];
                for _ in 0..n { let c = rng.pick(&pool).clone(); if !used.contains(&c.pt) { used.push(c.pt); s.codecs.push(c); } }
                if rng.chance(1, 2) {
                    let free: Vec<u8> = [97u8, 99, 101, 103].into_iter().filter(|p| !used.contains(p)).collect();
                    s.rtx.push((free[0], used[0]));
                    if used.len() > 1 && rng.chance(1, 2) { s.rtx.push((free[1], used[1])); }
                }
                let exts = [URI_ABS_SEND_TIME, URI_SDES_MID, URI_RID, URI_RRID, URI_TOFFSET, URI_TWCC];
                let mut ids: Vec<u8> = (1..=14).collect();
                for u in exts { if rng.chance(1, 2) { let k = rng.below(ids.len() as u64) as usize; let id = ids.remove(k); s.extmaps.push((id.to_string(), u.to_string())); } }
                s.simulcast = rng.chance(1, 7);
            }
            _ => {}
        }
        // codec names are case-insensitive (RFC 4855) and any codec may be offered on any dynamic payload type (Chrome: DTMF on
        // 110 / 126, SIP phones: static codecs on 96..101): vary the spelling and the number of every codec that has an rtpmap
        if matches!(kind, MediaKind::Audio | MediaKind::Video) {
            let rtx_pts: Vec<u8> = s.rtx.iter().map(|r| r.0).collect();
            for ci in 0..s.codecs.len() {
                if !s.codecs[ci].rtpmap { continue; }
                if rng.chance(1, 6) { s.codecs[ci].name = if rng.chance(1, 2) { s.codecs[ci].name.to_ascii_lowercase() } else { s.codecs[ci].name.to_ascii_uppercase() }; }
                if rng.chance(1, 5) {
                    let old = s.codecs[ci].pt;
                    let taken: Vec<u8> = s.codecs.iter().map(|c| c.pt).chain(rtx_pts.iter().copied()).collect();
                    let free: Vec<u8> = (96u8..=127).filter(|p| !taken.contains(p)).collect();
                    let np = *rng.pick(&free);
                    s.codecs[ci].pt = np;
                    for r in s.rtx.iter_mut() { if r.1 == old { r.1 = np; } }
                }
            }
        }
        if rng.chance(1, 3) { s.ssrc = Some(1000 + i as u32); }
        secs.push(s);
    }
    let all_mids = secs.iter().all(|s| s.mid.is_some());
    let mut d = DescSpec::new(secs);
    d.bundle = all_mids && rng.chance(7, 10);
    d.session_level_fp = rng.chance(1, 4);
    // --- round 2: shapes of the quantifier the first generator never produced
    // a BUNDLE group that leaves one section out
    if d.bundle && d.sections.len() > 1 && rng.chance(1, 6) { d.bundle_omit = vec![rng.below(d.sections.len() as u64) as usize]; }
    // a=setup at session level only
    if rng.chance(1, 10) {
        d.session_setup = Some(*rng.pick(&["actpass", "active", "passive"]));
        for s in &mut d.sections { s.setup = None; }
    } else if d.sections.len() > 1 && rng.chance(1, 10) {
        // sections with differing a=setup
        for s in &mut d.sections { s.setup = Some(*rng.pick(&["actpass", "active", "passive"])); }
    }
    // a=setup on a proper subset of the sections only (the role is derived from the FIRST section that carries one)
    if d.session_setup.is_none() && d.sections.len() > 1 && rng.chance(1, 6) {
        let keep = rng.below(d.sections.len() as u64) as usize;
        for (i, s) in d.sections.iter_mut().enumerate() { if i != keep && rng.chance(2, 3) { s.setup = None; } }
        if rng.chance(1, 2) { d.sections[0].setup = None; if keep == 0 { let k = d.sections.len() - 1; if d.sections[k].setup.is_none() { d.sections[k].setup = Some("active"); } } }
    }
    // both levels at once: a session-level a=setup AND media-level values on some sections (the media level wins)
    if d.session_setup.is_some() && d.sections.len() > 1 && rng.chance(1, 3) {
        for s in d.sections.iter_mut() { if rng.chance(1, 2) { s.setup = Some(*rng.pick(&["actpass", "active", "passive"])); } }
    }
    // a direction at session level, with some sections carrying none of their own (RFC 8866 §6.7)
    if rng.chance(1, 12) {
        d.session_dir = Some(*rng.pick(&["sendonly", "recvonly", "inactive", "sendrecv"]));
        for s in &mut d.sections { if rng.chance(2, 3) { s.dir = ""; } }
    }
    // extmap forms: value-less attribute, direction-qualified id, a URI that contains a probed URI
    for s in &mut d.sections {
        if matches!(s.kind, MediaKind::Audio | MediaKind::Video) && rng.chance(1, 12) {
            match rng.below(3) {
                0 => { let k = rng.below(s.extmaps.len() as u64 + 1) as usize; s.extmaps.insert(k, (String::new(), String::new())); }
                1 => { s.extmaps.retain(|e| e.0 != "3"); s.extmaps.insert(0, ("3/recvonly".into(), URI_ABS_SEND_TIME.to_string())); }
                _ => { s.extmaps.retain(|e| e.0 != "13"); s.extmaps.insert(0, ("13".into(), format!("{URI_SDES_MID}-x"))); }
            }
        }
    }
    d
}

/// a changed re-offer: same section layout, other codecs / directions, possibly one more section
fn mutate_offer(rng: &mut Rng, d: &DescSpec) -> DescSpec {
    let mut n = d.clone();
    n.session_version += 1;
    if rng.chance(1, 5) {
        // the offerer proposes another DTLS role on the re-offer
        let su: Option<&'static str> = *rng.pick(&[Some("actpass"), Some("active"), Some("passive")]);
        for s in &mut n.sections { s.setup = su; }
    }
    for s in &mut n.sections {
        if rng.chance(1, 2) { s.dir = *rng.pick(&["sendrecv", "sendonly", "recvonly", "inactive"]); }
        if s.kind == MediaKind::Audio && rng.chance(1, 2) {
            s.codecs = match rng.below(3) { 0 => vec![pcmu()], 1 => vec![pcma(), opus()], _ => vec![CodecSpec::new(109, "opus", 48000, 2), telephone_event()] };
        }
        if s.kind == MediaKind::Video && rng.chance(1, 3) { s.codecs = vec![h264(102), vp8(96)]; s.rtx = vec![(97, 96)]; }
    }
    if n.sections.len() < 6 && rng.chance(1, 4) {
        let mid = if n.sections.iter().all(|s| s.mid.is_some()) { Some(format!("x{}", n.sections.len())) } else { None };
        let mut s = SecSpec::new(MediaKind::Video, mid.as_deref());
        s.codecs = vec![vp8(96)];
        s.setup = n.sections[0].setup;
        n.sections.push(s);
        if n.bundle && mid.is_none() { n.bundle = false; }
    }
    n
}

// ------------------------------------------------------------------------------------------------
// ValidAnswer oracle (from the property text; independent of the Lean definition)

fn vals<'a>(m: &'a MediaSection, key: &str) -> Vec<&'a str> {
    m.attributes.iter().filter(|a| a.key == key).filter_map(|a| a.value.as_deref()).collect()
}
fn apt_pairs(m: &MediaSection) -> Vec<(u8, u8)> {
    let mut out: Vec<(u8, u8)> = vec![];
    for v in vals(m, "fmtp") {
        let Some((pt, rest)) = v.split_once(' ') else { continue };
        let Ok(pt) = pt.parse::<u8>() else { continue };
        for part in rest.split(';') {
            let part = part.trim();
            if let Some(r) = part.strip_prefix("apt=").or_else(|| part.strip_prefix("APT=")) {
                if let Ok(p) = r.trim().parse::<u8>() { out.retain(|e| e.0 != pt); out.push((pt, p)); }
                break;
            }
        }
    }
    out
}
fn ext_ids(m: &MediaSection) -> Vec<String> {
    vals(m, "extmap").iter().filter_map(|v| v.split_whitespace().next().map(|s| s.to_string())).collect()
}
fn group_mids(d: &SessionDescription) -> Option<Vec<String>> {
    d.session.attributes.iter().find(|a| a.key == "group" && a.value.as_deref().is_some_and(|v| v.starts_with("BUNDLE")))
        .and_then(|a| a.value.as_ref()).map(|v| v.split_whitespace().skip(1).map(|s| s.to_string()).collect())
}

pub struct Verdict { pub n: bool, pub al: bool, pub pt: bool, pub rx: bool, pub ex: bool, pub mx: bool, pub di: bool, pub su: bool, pub bu: bool, pub cb: bool,
    /// oracles outside the Lean `validAnswer` bits (port / c= / session-level direction): part of `all()`, not of `text()`
    pub extra: bool, pub notes: Vec<String>, pub fails: Vec<(String, String)> }
impl Verdict {
    fn clauses(&self) -> bool { self.n && self.al && self.pt && self.rx && self.ex && self.mx && self.di && self.su && self.bu }
    fn all(&self) -> bool { self.clauses() && self.extra }
    fn text(&self) -> String {
        format!("{} n{} al{} pt{} rx{} ex{} mx{} di{} su{} bu{} cb{}", self.clauses() as u8, self.n as u8, self.al as u8, self.pt as u8, self.rx as u8,
            self.ex as u8, self.mx as u8, self.di as u8, self.su as u8, self.bu as u8, self.cb as u8)
    }
}

/// what the oracle knows about the answerer besides the two descriptions: used ONLY to name the root cause of a
/// failure in its signature (so that a failure with another cause is a new signature), never to excuse one.
pub struct Ctx<'a> { pub renegotiation: bool, pub cfg: &'a LocalCfg, pub first_offer: Option<&'a SessionDescription>, pub trx_kinds: Vec<MediaKind>,
    /// the generator's view of the offer: which sections carry NO direction attribute of their own (the parser folds an absent
    /// direction into `sendrecv`, so the parsed description cannot tell)
    pub spec: &'a DescSpec,
    /// (kind, mid) of every transceiver BEFORE this offer was applied (None on a first negotiation)
    pub trx_before: Option<&'a Vec<(MediaKind, Option<String>)>>,
    /// (kind, mid) the transceivers carried before the FIRST remote offer (mids assigned by an earlier create_offer)
    pub own_mids: &'a Vec<(MediaKind, Option<String>)> }

fn local_audio(c: &LocalCfg) -> Vec<AudioCapability> { if c.caps_set && !c.audio.is_empty() { c.audio.clone() } else { vec![AudioCapability::default()] } }
fn local_video(c: &LocalCfg) -> Vec<VideoCapability> { if c.caps_set && !c.video.is_empty() { c.video.clone() } else { vec![VideoCapability::default()] } }
/// (pt, NAME, clock) of every rtpmap of the section
fn bindings(m: &MediaSection) -> Vec<(String, String, String)> {
    vals(m, "rtpmap").iter().filter_map(|v| { let (pt, rest) = v.split_once(' ')?; let mut it = rest.trim().split('/');
        Some((pt.to_string(), it.next()?.to_ascii_uppercase(), it.next().unwrap_or("").to_string())) }).collect()
}
/// (NAME, clock, channels) of every audio format an offered section lists — written from RFC 8866 / RFC 3551 (last rtpmap of a
/// payload type wins; static payload types without rtpmap from the RFC 3551 table plus the stack's conventions for 111 / 101),
/// NOT by calling the implementation's `to_audio_capabilities`
fn offered_audio(m: &MediaSection) -> Vec<(String, u32, u8)> {
    let mut out = vec![];
    for f in &m.formats {
        let Ok(pt) = f.parse::<u8>() else { continue };
        let mut found: Option<(String, u32, u8)> = None;
        for v in vals(m, "rtpmap") {
            let Some((p, rest)) = v.split_once(' ') else { continue };
            if p.parse::<u8>().ok() != Some(pt) { continue; }
            let parts: Vec<&str> = rest.split('/').collect();
            let clock = parts.get(1).and_then(|c| c.parse().ok()).unwrap_or(8000);
            let ch = parts.get(2).and_then(|c| c.parse().ok()).unwrap_or(1);
            found = Some((parts[0].to_ascii_uppercase(), clock, ch));
        }
        out.push(found.filter(|x| !x.0.is_empty()).unwrap_or_else(|| match pt { 0 => ("PCMU".into(), 8000, 1), 8 => ("PCMA".into(), 8000, 1), 9 => ("G722".into(), 8000, 1),
            18 => ("G729".into(), 8000, 1), 111 => ("OPUS".into(), 48000, 2), 101 => ("TELEPHONE-EVENT".into(), 8000, 1), _ => ("UNKNOWN".into(), 8000, 1) }));
    }
    out
}
/// (id token, URI) of every `a=extmap`
fn ext_pairs(m: &MediaSection) -> Vec<(String, String)> {
    vals(m, "extmap").iter().filter_map(|v| { let mut it = v.split_whitespace(); Some((it.next()?.to_string(), it.next()?.to_string())) }).collect()
}
/// the offerer's `a=setup` for a section: media level, else session level
fn offered_setup<'a>(offer: &'a SessionDescription, o: &'a MediaSection) -> (Option<&'a str>, bool) {
    if let Some(v) = vals(o, "setup").first() { return (Some(*v), false); }
    let sv = offer.session.attributes.iter().find(|a| a.key == "setup").and_then(|a| a.value.as_deref());
    (sv, sv.is_some())
}

pub fn valid_answer(offer: &SessionDescription, ans: &SessionDescription, cx: &Ctx) -> Verdict {
    let mut v = Verdict { n: true, al: true, pt: true, rx: true, ex: true, mx: true, di: true, su: true, bu: true, cb: true, extra: true, notes: vec![], fails: vec![] };
    let neg = if cx.renegotiation { "renegotiation" } else { "first-negotiation" };
    let legacy = cx.cfg.legacy;
    let nm = offer.media_sections.iter().filter(|m| !m.mid.is_empty()).count();
    let ms = if nm == offer.media_sections.len() { "mids-all" } else if nm == 0 { "mids-none" } else { "mids-mixed" };
    if offer.media_sections.len() != ans.media_sections.len() {
        v.n = false;
        v.fails.push(("ans:count".into(), format!("offer has {} sections, answer {}", offer.media_sections.len(), ans.media_sections.len())));
    }
    let offered_bundle = group_mids(offer).is_some();
    let setups: Vec<Option<&str>> = offer.media_sections.iter().map(|o| offered_setup(offer, o).0).collect();
    let setups_differ = setups.iter().any(|x| *x != setups[0]);
    for (i, (o, a)) in offer.media_sections.iter().zip(ans.media_sections.iter()).enumerate() {
        let k = kind_ch(o.kind);
        if o.kind != a.kind { v.al = false; v.fails.push((format!("ans:kind:{neg}:{ms}"), format!("section {i}: offer {:?}, answer {:?}", o.kind, a.kind))); }
        if o.mid != a.mid {
            v.al = false;
            // LegacySip: EVERY mid is dropped; a mid that is wrong rather than dropped is something else
            let class = if legacy && a.mid.is_empty() { "legacy-sip" } else if a.mid.is_empty() && !offered_bundle && offer.media_sections.len() > 1 { "cleared-no-bundle-multi-section" }
                else if o.mid.is_empty() && cx.cfg.offered_first && !offer.media_sections.iter().any(|m2| m2.mid == a.mid)
                    && cx.own_mids.iter().any(|(k2, m)| *k2 == o.kind && m.as_deref() == Some(a.mid.as_str())) { "own-mid-on-midless-section" } else { "other" };
            v.fails.push((format!("ans:mids:{class}"), format!("section {i}: offer mid {:?}, answer mid {:?}", o.mid, a.mid)));
        }
        // ---- the answer accepts the section: non-zero port, a connection address (RFC 3264 §6: port 0 = rejected)
        if a.port == 0 { v.extra = false; v.fails.push((format!("ans:port-zero:{k}"), format!("section {i}: the answer rejects the section (m= port 0) although the stack keeps a transceiver for it"))); }
        if a.connection.is_none() && ans.session.connection.is_none() { v.extra = false; v.fails.push((format!("ans:no-connection-address:{k}"), format!("section {i}: neither a media-level nor a session-level c= line"))); }
        // ---- payload types
        let unoffered = a.formats.iter().find(|f| !o.formats.contains(f));
        let rebound = { let ob = bindings(o); bindings(a).into_iter().find(|(pt, n, c)| o.formats.contains(pt) && ob.iter().any(|(p2, n2, c2)| p2 == pt && (n2 != n || c2 != c))) };
        if let Some(f) = unoffered {
            let cause = match o.kind {
                MediaKind::Audio => {
                    let la = local_audio(cx.cfg);
                    let local_pts: Vec<String> = la.iter().map(|c| c.payload_type.to_string()).collect();
                    let common = offered_audio(o).iter().any(|r| la.iter().any(|l| l.codec_name.eq_ignore_ascii_case(&r.0) && l.clock_rate == r.1 && l.channels == r.2));
                    if !common && a.formats == local_pts { "no-common-codec-local-list" } else if common { "common-codec-exists" } else { "other" }
                }
                MediaKind::Video => {
                    // known: the local list is answered unchanged. Shape: the answered primaries are exactly the local list AND the
                    // offer shares no payload type number with it that it binds to the same codec (otherwise something else is wrong too)
                    let rtx_pts: Vec<String> = apt_pairs(a).iter().map(|p| p.0.to_string()).collect();
                    let prim: Vec<&String> = a.formats.iter().filter(|f| !rtx_pts.contains(f)).collect();
                    let lv: Vec<String> = local_video(cx.cfg).iter().filter(|c| !c.codec_name.eq_ignore_ascii_case("rtx")).map(|c| c.payload_type.to_string()).collect();
                    if prim.len() == lv.len() && prim.iter().zip(lv.iter()).all(|(x, y)| *x == y) { "local-video-list-not-intersected" } else { "other" }
                }
                MediaKind::Image => if o.formats == ["t38"] && !a.formats.is_empty() && a.formats.iter().all(|f| f.parse::<u8>().is_ok()) { "t38-answered-as-number" } else { "other" },
                MediaKind::Application => "other",
            };
            v.pt = false;
            let head = if o.kind == MediaKind::Image { "ans:image-format".to_string() } else { format!("ans:codecs:{neg}:{k}") };
            v.fails.push((format!("{head}:{cause}"), format!("section {i}: answer format {f} was not offered (offer {:?}, answer {:?})", o.formats, a.formats)));
        }
        // not a clause of the property (it speaks of payload type NUMBERS): counted and reported as bit `cb`, never a failure
        if rebound.is_some() { v.cb = false; v.notes.push(format!("pt_rebound_{k}")); }
        // ---- RTX: only associations this section offered
        let (oa, aa) = (apt_pairs(o), apt_pairs(a));
        if let Some(p) = aa.iter().find(|p| !oa.contains(p)) {
            v.rx = false;
            v.fails.push((format!("ans:rtx:{neg}:{k}"), format!("section {i}: apt {:?} not offered {:?}", p, oa)));
        }
        // ---- header extensions: only (id, URI) bindings this section offered; no duplicate ids
        let (oe, ae) = (ext_ids(o), ext_ids(a));
        if let Some(id) = ae.iter().find(|id| !oe.contains(id)) {
            v.ex = false;
            v.fails.push((format!("ans:extmap-id-not-offered:{k}"), format!("section {i}: id {id}, offered {:?}", oe)));
        } else if let Some((id, uri)) = ext_pairs(a).into_iter().find(|p| !ext_pairs(o).contains(p)) {
            v.ex = false;
            let cause = if ext_pairs(o).iter().any(|(i2, u2)| *i2 == id && u2.contains(uri.as_str())) { "uri-matched-as-substring" } else { "other" };
            v.fails.push((format!("ans:extmap-binding:{k}:{cause}"), format!("section {i}: answer binds id {id} to {uri}; the offer binds {:?}", ext_pairs(o))));
        }
        let mut s = ae.clone(); s.sort(); s.dedup();
        if s.len() != ae.len() { v.ex = false; v.fails.push((format!("ans:extmap-duplicate-id:{k}:{ms}"), format!("section {i}: {:?}", ae))); }
        let has = |m: &MediaSection, key: &str| m.attributes.iter().any(|x| x.key == key);
        if has(a, "rtcp-mux") && !has(o, "rtcp-mux") { v.mx = false; v.fails.push((format!("ans:rtcp-mux-not-offered:{k}:{ms}"), format!("section {i}"))); }
        // ---- direction
        let dir_ok = match o.direction {
            Direction::SendRecv => true,
            Direction::SendOnly => matches!(a.direction, Direction::RecvOnly | Direction::Inactive),
            Direction::RecvOnly => matches!(a.direction, Direction::SendOnly | Direction::Inactive),
            Direction::Inactive => a.direction == Direction::Inactive,
        };
        if !dir_ok {
            v.di = false;
            // known root cause: on a re-offer without mids the three matching loops (handle_reinvite, set_remote_description,
            // create_answer) pick different transceivers when the first negotiation left a transceiver of the kind unbound (mid None):
            // set_remote_description binds THAT one first on the re-offer, create_answer the first of the kind
            // … i.e. a transceiver of the kind existed BEFORE this re-offer and had no mid (a regression that makes set_remote_description
            // create or bind another transceiver does not satisfy this by its own side effect)
            let spare = cx.trx_before.is_some_and(|tb| tb.iter().any(|(k2, m)| *k2 == o.kind && m.is_none()));
            let cause = if cx.renegotiation && o.mid.is_empty() && spare { "midless-reoffer-rebinds-spare-transceiver" } else { "other" };
            v.fails.push((format!("ans:direction:{neg}:{cause}"), format!("section {i}: offered {}, answered {}", dir_s(o.direction), dir_s(a.direction))));
        }
        // session-level direction (RFC 8866 §6.7: applies to every section that has none of its own)
        if let (Some(sd), true) = (cx.spec.session_dir, cx.spec.sections.get(i).is_some_and(|s2| s2.dir.is_empty())) {
            let ok = match sd { "sendonly" => matches!(a.direction, Direction::RecvOnly | Direction::Inactive), "recvonly" => matches!(a.direction, Direction::SendOnly | Direction::Inactive),
                "inactive" => a.direction == Direction::Inactive, _ => true };
            if !ok { v.extra = false; v.fails.push((format!("ans:direction:session-level-direction-not-read:{sd}"), format!("section {i} has no direction of its own, the session says a={sd}; answered {}", dir_s(a.direction)))); }
        }
        // ---- DTLS setup
        if let Some(su) = vals(a, "setup").first() {
            let (os, session_level) = offered_setup(offer, o);
            let ok = *su != "actpass" && match os { Some("active") => *su == "passive", Some("passive") => *su == "active", _ => *su == "active" || *su == "passive" };
            if !ok {
                v.su = false;
                // what the two known defects produce: ONE role for the connection, derived from the first media-level a=setup of the
                // first offer (never re-derived, session level not read); role unset -> "active"
                let first_setup = offer.media_sections.iter().find_map(|m| vals(m, "setup").first().copied());
                let known_answer = match first_setup { Some("active") | Some("actpass") => "passive", _ => "active" };
                // (session-level a=setup and the role of a re-offer are read since the round-3 fixes: no excuse for those any more)
                let _ = session_level;
                let cause = if *su == known_answer && setups_differ { "sections-differ-first-setup-wins" } else { "other" };
                v.fails.push((format!("ans:setup:{}-answered-{}:{cause}", os.unwrap_or("none"), su), format!("section {i}")));
            }
        }
    }
    { // the mids of an answer are pairwise different (what the mid counter's skipping of remote mids is for)
        let mut mids: Vec<&str> = ans.media_sections.iter().map(|s2| s2.mid.as_str()).filter(|m| !m.is_empty()).collect();
        let n0 = mids.len(); mids.sort(); mids.dedup();
        if mids.len() != n0 && { let mut om: Vec<&str> = offer.media_sections.iter().map(|s2| s2.mid.as_str()).filter(|m| !m.is_empty()).collect(); let k0 = om.len(); om.sort(); om.dedup(); om.len() == k0 } {
            v.extra = false; v.fails.push(("ans:duplicate-mid".into(), format!("answer mids {:?}", ans.media_sections.iter().map(|s2| s2.mid.clone()).collect::<Vec<_>>())));
        }
    }
    if let Some(g) = ans.session.attributes.iter().find(|a| a.key == "group").and_then(|a| a.value.as_ref()) {
        let am: Vec<&str> = g.split_whitespace().skip(1).collect();
        match group_mids(offer) {
            Some(om) => if let Some(m) = am.iter().find(|m| !om.iter().any(|x| x == *m)) {
                v.bu = false;
                // known shape: the answer bundles EVERY section (its group lists all its mids, in order)
                let all: Vec<&str> = ans.media_sections.iter().map(|s2| s2.mid.as_str()).collect();
                let cause = if am == all { "every-section-bundled" } else { "other" };
                v.fails.push((format!("ans:bundle:section-outside-offered-group:{cause}"), format!("answer group `{g}` lists mid {m}; the offer's group is {:?}", om)));
            },
            None => { v.bu = false; v.fails.push(("ans:bundle:group-not-offered".into(), format!("answer group {g}"))); }
        }
    }
    v
}

// ------------------------------------------------------------------------------------------------
// text round trip

fn norm(d: &SessionDescription) -> SessionDescription {
    let mut n = d.clone();
    for m in &mut n.media_sections {
        let is_t = |a: &Attribute| matches!(a.key.as_str(), "ice-ufrag" | "ice-pwd" | "fingerprint" | "setup" | "candidate");
        let (t, rest): (Vec<Attribute>, Vec<Attribute>) = m.attributes.iter().cloned().partition(|a| is_t(a));
        m.attributes = t.into_iter().chain(rest).collect();
    }
    n
}

/// stream `rt` on a text (what the stack parsed) + the round-trip oracle. `origin`: where the text came from.
fn round_trip_text(run: &mut Run, case: &str, origin: &str, text: &str) {
    let input = format!("{case} {}", enc(text));
    match SessionDescription::parse(SdpType::Offer, text) {
        Err(e) => {
            let class = match e { rustrtc::SdpError::MissingLine(l) => format!("err:missing:{l}"), rustrtc::SdpError::Parse(m) if m.starts_with("invalid SDP line") => "err:invalidLine".into(), _ => "err:parse".to_string() };
            run.case("rt", &input, &class, false);
            run.count("rt_parse_error");
        }
        Ok(d1) => {
            let t1 = d1.to_sdp_string();
            run.case("rt", &input, &format!("ok {}", enc(&t1)), d1.media_sections.len() > 0);
            run.count(&format!("rt_{origin}"));
            round_trip_desc(run, case, origin, &d1);
        }
    }
}

/// the property on a description the stack holds (parsed or produced): print → parse gives the same
/// description (up to the printer's stable transport/media partition); a second trip is exact.
fn round_trip_desc(run: &mut Run, case: &str, origin: &str, d: &SessionDescription) {
    let t1 = d.to_sdp_string();
    match SessionDescription::parse(d.sdp_type, &t1) {
        Err(e) => run.fail(&format!("rt:reparse-fails:{origin}"), case, &format!("printed description does not parse: {e}")),
        Ok(d2) => {
            if d2 != *d && d2 == norm(d) {
                // the literal clause fails; the ONLY difference is the printer's transport-first attribute partition
                // descriptions the stack produced are in serialiser order since the round-3 fix: for them this is a defect again
                let sig = if origin.starts_with("produced") { format!("rt:produced-description-not-exact:{origin}") } else { format!("rt:attribute-order:{origin}") };
                run.fail(&sig, case, "parse(print(d)) != d: the printer moved ice-ufrag / ice-pwd / fingerprint / setup / candidate ahead of the other attributes of a section");
                run.count("rt_not_exact_attribute_order");
            } else if d2 == *d { run.count("rt_exact"); }
            if d2 != norm(d) {
                let what = if d2.session != d.session {
                    // known shape: NOTHING but the attributes with ':' in their key differ, each re-read as key = part before the first ':'
                    let mut exp = d.session.clone();
                    for a in exp.attributes.iter_mut() { if let Some((k, rest)) = a.key.clone().split_once(':') { a.value = Some(match &a.value { Some(v) => format!("{rest}:{v}"), None => rest.to_string() }); a.key = k.to_string(); } }
                    if exp != d.session && d2.session == exp { "session:colon-in-unknown-line-prefix" } else { "session" } } else if d2.media_sections.len() != d.media_sections.len() { "section-count" }
                    else {
                        let n = norm(d);
                        let i = (0..n.media_sections.len()).find(|i| n.media_sections[*i] != d2.media_sections[*i]).unwrap_or(0);
                        let (a, b) = (&n.media_sections[i], &d2.media_sections[i]);
                        if a.mid != b.mid { "mid" } else if a.attributes != b.attributes { "attributes" } else if a.formats != b.formats { "formats" }
                        else if a.connection != b.connection { "connection" } else { "media-field" }
                    };
                run.fail(&format!("rt:differs:{what}:{origin}"), case, "parse(print(d)) != d (modulo the printer's attribute partition)");
            }
            let t2 = d2.to_sdp_string();
            if t2 != t1 { run.fail(&format!("rt:second-print-differs:{origin}"), case, "print(parse(print(d))) != print(d)"); }
            match SessionDescription::parse(d.sdp_type, &t2) {
                Ok(d3) if d3 == d2 => {}
                _ => run.fail(&format!("rt:second-trip-not-exact:{origin}"), case, "parse(print(d2)) != d2 for d2 = parse(print(d))"),
            }
        }
    }
}

// ------------------------------------------------------------------------------------------------
// one answer case

fn trxs_s(s: &PeerSnapshot) -> String {
    list("+", s.transceivers.iter().map(|t| format!("{},{},{},{},{}", kind_ch(t.kind), enc_opt(&t.mid), tdir_s(t.direction), t.has_sender as u8, t.has_sender_ssrc as u8)).collect())
}
fn role_s(r: Option<bool>) -> &'static str { match r { None => "-", Some(true) => "c", Some(false) => "s" } }

pub struct AnsCase { pub cfg: LocalCfg, pub offer1: Option<DescSpec>, pub offer: DescSpec }

pub fn gen_case(seed: u64, index: u64) -> AnsCase {
    let mut rng = Rng::new(seed.wrapping_mul(0x9E37_79B9).wrapping_add(index.wrapping_mul(0x1000_0001)));
    let cfg = gen_cfg(&mut rng);
    let o = gen_offer(&mut rng);
    if rng.chance(35, 100) { let o2 = mutate_offer(&mut rng, &o); AnsCase { cfg, offer1: Some(o), offer: o2 } } else { AnsCase { cfg, offer1: None, offer: o } }
}

fn err_class(e: &rustrtc::RtcError) -> String {
    let m = e.to_string();
    if m.contains("no transceivers") { "err:noTransceivers".into() } else if m.contains("No transceiver found") { "err:noMatch".into() }
    else if m.contains("without remote description") { "err:noRemote".into() } else { format!("err:other:{}", enc(&m)) }
}

/// answer to the current remote offer: snapshot → real create_answer → `ans`, `valid`, `rt`, oracles
async fn answer_step(run: &mut Run, case: &str, c: &LocalCfg, pc: &PeerConnection, offer: &SessionDescription, spec: &DescSpec, reneg: bool, first_offer: Option<&SessionDescription>,
    trx_before: Option<&Vec<(MediaKind, Option<String>)>>, own_mids: &Vec<(MediaKind, Option<String>)>) -> Option<SessionDescription> {
    let snap = pc.verif_snapshot();
    let remote = snap.remote_description.as_ref().map(desc_s).unwrap_or("-".into());
    let input = format!("{case} {} {} {} {} {}", cfg_s(c), trxs_s(&snap), snap.next_mid, role_s(snap.dtls_role), remote);
    match pc.create_answer().await {
        Err(e) => {
            // the offer was ACCEPTED (set_remote_description returned Ok) and is well-formed by construction: no answer = no valid answer
            run.case("ans", &input, &err_class(&e), false); run.count("answer_error");
            run.fail(&format!("ans:no-answer:{}", err_class(&e).split(':').take(2).collect::<Vec<_>>().join(":")), case, &format!("create_answer failed on an accepted offer: {e}"));
            None
        }
        Ok(ans) => {
            let a_s = answer_s(&ans);
            run.case("ans", &input, &a_s, true);
            run.count(if reneg { "answers_renegotiation" } else { "answers_first" });
            run.count(&format!("answer_sections_{}", ans.media_sections.len()));
            let cx = Ctx { renegotiation: reneg, cfg: c, first_offer, trx_kinds: snap.transceivers.iter().map(|t| t.kind).collect(), spec, trx_before, own_mids };
            let v = valid_answer(offer, &ans, &cx);
            run.case("valid", &format!("{case} {} {}", desc_s(offer), a_s), &v.text(), !v.all());
            if v.all() { run.count("answers_valid"); } else { run.count("answers_invalid"); }
            for n in &v.notes { run.count(n); }
            for (sig, detail) in v.fails { run.fail(&sig, case, &detail); }
            round_trip_desc(run, case, "produced-answer", &ans);
            round_trip_text(run, case, "answer-text", &ans.to_sdp_string());
            Some(ans)
        }
    }
}

/// after the answer has been applied (RFC 3264 §6.1: the answerer sends with payload types FROM THE OFFER): a sender whose codec the
/// offered section lists stamps a payload type the offer binds to that codec. Section of a transceiver: the answer section with its
/// mid when that is unambiguous, else the only section of its kind; the offered section is the one at the same index.
fn sender_pt_oracle(run: &mut Run, case: &str, pc: &PeerConnection, offer: &SessionDescription, ans: &SessionDescription) {
    let snap = pc.verif_snapshot();
    let neg = pc.verif_negotiated();
    for t in &snap.transceivers {
        let Some(p) = neg.iter().find(|n| n.id == t.id).and_then(|n| n.sender_params.clone()) else { continue };
        let by_mid: Vec<usize> = t.mid.as_deref().filter(|m| !m.is_empty()).map(|m| (0..ans.media_sections.len()).filter(|i| ans.media_sections[*i].mid == m).collect()).unwrap_or_default();
        let idx = if by_mid.len() == 1 { by_mid[0] } else {
            let of_kind: Vec<usize> = (0..ans.media_sections.len()).filter(|i| ans.media_sections[*i].kind == t.kind).collect();
            if of_kind.len() == 1 && snap.transceivers.iter().filter(|x| x.kind == t.kind).count() == 1 { of_kind[0] } else { continue } };
        let (Some(o), sec) = (offer.media_sections.get(idx), &ans.media_sections[idx]) else { continue };
        if sec.kind != t.kind || o.kind != t.kind || !matches!(sec.direction, Direction::SendRecv | Direction::SendOnly) { continue; }
        let offered_for_codec: Vec<String> = bindings(o).into_iter().filter(|(pt, n, _)| n.eq_ignore_ascii_case(&p.name) && o.formats.contains(pt)).map(|(pt, _, _)| pt).collect();
        if offered_for_codec.is_empty() { run.count("sender_codec_not_offered"); continue; }
        run.count("sender_pt_checked");
        if !offered_for_codec.contains(&p.payload_type.to_string()) {
            run.fail(&format!("snd:sender-pt-not-the-offered-one:{}", kind_ch(t.kind)), case,
                &format!("sender of transceiver mid {:?} stamps payload type {} ({}); the offered section binds {} to {:?} (answer lists {:?})", t.mid, p.payload_type, p.name, p.name, offered_for_codec, sec.formats));
        }
    }
}

pub async fn exec_case(run: &mut Run, case: &str, ac: &AnsCase) {
    let c = &ac.cfg;
    let pc = PeerConnection::new(rtc_config(c));
    for (k, d) in &c.trxs { pc.add_transceiver(*k, *d); }
    let mut keep = vec![];
    for k in &c.tracks {
        let (src, track, fb) = rustrtc::media::track::sample_track(
            if *k == MediaKind::Audio { rustrtc::media::frame::MediaKind::Audio } else { rustrtc::media::frame::MediaKind::Video }, 16);
        let params = if *k == MediaKind::Audio { rustrtc::RtpCodecParameters { payload_type: 111, name: "opus".into(), clock_rate: 48000, channels: 2 } }
                     else { rustrtc::RtpCodecParameters { payload_type: 96, name: "VP8".into(), clock_rate: 90000, channels: 0 } };
        let _ = pc.add_track(track, params);
        keep.push((src, fb));
        run.count("local_tracks");
    }
    run.count(&format!("mode_{}", match c.mode { TransportMode::WebRtc => "webrtc", TransportMode::Srtp => "srtp", TransportMode::Rtp => "rtp" }));
    if c.legacy { run.count("cfg_legacy_sip"); }
    if c.offered_first && (!c.trxs.is_empty() || !c.tracks.is_empty()) {
        if pc.create_offer().await.is_ok() { run.count("connections_that_offered_first"); }
    }
    let mut reneg = false;
    let mut first: Option<SessionDescription> = None;
    let own_mids: Vec<(MediaKind, Option<String>)> = pc.verif_snapshot().transceivers.iter().map(|t| (t.kind, t.mid.clone())).collect();
    let mut trx_before: Option<Vec<(MediaKind, Option<String>)>> = None;
    for spec in ac.offer1.iter().chain(std::iter::once(&ac.offer)) {
        let text = render(&c.mode, spec);
        round_trip_text(run, case, "offer-text", &text);
        let offer = match SessionDescription::parse(SdpType::Offer, &text) { Ok(o) => o, Err(_) => { run.count("offer_unparsable"); break; } };
        if let Err(e) = pc.set_remote_description(offer.clone()).await {
            // acceptance floor: every generated offer is well-formed and arrives in the Stable state; the unchanged stack accepts all of them
            let why = e.to_string(); let why = why.split(':').next().unwrap_or("?").replace(' ', "-");
            run.count(&format!("offer_rejected:{why}"));
            run.fail(&format!("accept:well-formed-offer-rejected:{why}"), case, &format!("set_remote_description rejected a well-formed offer: {e}"));
            break;
        }
        run.count(&format!("offer_sections_{}", offer.media_sections.len()));
        let Some(ans) = answer_step(run, case, c, &pc, &offer, spec, reneg, first.as_ref(), trx_before.as_ref(), &own_mids).await else { break };
        if let Err(e) = pc.set_local_description(ans.clone()) {
            run.count("answer_not_accepted_locally");
            run.fail("accept:own-answer-rejected", case, &format!("set_local_description rejected the answer create_answer had just produced: {e}"));
            break;
        }
        sender_pt_oracle(run, case, &pc, &offer, &ans);
        // the description the application actually sends: the stored local description once gathering has completed
        if c.mode == TransportMode::WebRtc && !reneg {
            let _ = tokio::time::timeout(std::time::Duration::from_millis(300), pc.wait_for_gathering_complete()).await;
            if let Some(ld) = pc.local_description() { run.count("stored_local_descriptions"); round_trip_desc(run, case, "produced-stored-local", &ld); }
        }
        trx_before = Some(pc.verif_snapshot().transceivers.iter().map(|t| (t.kind, t.mid.clone())).collect());
        if first.is_none() { first = Some(offer.clone()); }
        reneg = true;
    }
    // the negotiated connection becomes an offerer: one more transceiver, a new offer. Its mids are pairwise different — what
    // set_remote_description's skipping of the remote mids in the mid counter is for.
    if reneg {
        pc.add_transceiver(MediaKind::Audio, TransceiverDirection::SendRecv);
        if let Ok(off) = pc.create_offer().await {
            run.count("produced_reoffers");
            let mut mids: Vec<&str> = off.media_sections.iter().map(|m| m.mid.as_str()).filter(|m| !m.is_empty()).collect();
            let n0 = mids.len(); mids.sort(); mids.dedup();
            if mids.len() != n0 && !c.offered_first {
                run.fail("off:duplicate-mid-in-reoffer", case, &format!("offer after the negotiation carries mids {:?}", off.media_sections.iter().map(|m| m.mid.clone()).collect::<Vec<_>>()));
            }
            round_trip_desc(run, case, "produced-reoffer", &off);
        }
    }
    pc.close();
    drop(keep);
    // a description the stack PRODUCES as an offerer, same configuration: text round trip
    if !c.trxs.is_empty() {
        let pc2 = PeerConnection::new(rtc_config(c));
        for (k, d) in &c.trxs { pc2.add_transceiver(*k, *d); }
        if let Ok(offer) = pc2.create_offer().await {
            round_trip_desc(run, case, "produced-offer", &offer);
            round_trip_text(run, case, "produced-offer-text", &offer.to_sdp_string());
            run.count("produced_offers");
        }
        pc2.close();
    }
}

// ------------------------------------------------------------------------------------------------
// SDP literals found in the repository's tests (browser / SIP phone descriptions)

fn verif_root() -> std::path::PathBuf {
    let exe = std::env::current_exe().unwrap();
    exe.ancestors().nth(4).map(|p| p.to_path_buf()).unwrap_or_else(|| std::path::PathBuf::from("."))
}
fn repo_root() -> std::path::PathBuf {
    if let Ok(p) = std::env::var("VERIF_REPO") { return p.into(); }
    std::fs::read_to_string(verif_root().join(".verif_repo")).map(|s| std::path::PathBuf::from(s.trim())).unwrap_or_else(|_| "/repo".into())
}

/// crude Rust string-literal reader: every literal that contains `v=0`
fn sdp_literals(src: &str) -> Vec<String> {
    let b: Vec<char> = src.chars().collect();
    let mut out = vec![];
    let mut i = 0;
    while i < b.len() {
        if b[i] == '"' {
            let mut s = String::new();
            i += 1;
            while i < b.len() && b[i] != '"' {
                if b[i] == '\\' && i + 1 < b.len() {
                    i += 1;
                    match b[i] {
                        'r' => s.push('\r'), 'n' => s.push('\n'), 't' => s.push('\t'), '\\' => s.push('\\'), '"' => s.push('"'), '0' => s.push('\0'),
                        '\n' => { while i + 1 < b.len() && b[i + 1].is_whitespace() { i += 1; } }
                        c => { s.push('\\'); s.push(c); }
                    }
                } else { s.push(b[i]); }
                i += 1;
            }
            if s.contains("v=0") && s.contains("m=") && s.is_ascii() { out.push(s); }
        } else if b[i] == '\'' && i + 2 < b.len() && b[i + 1] == '"' && b[i + 2] == '\'' { i += 2; }
        i += 1;
    }
    out
}

fn corpus() -> Vec<(String, String)> {
    let root = repo_root();
    let mut files: Vec<std::path::PathBuf> = vec![];
    for dir in ["tests", "src", "examples"] {
        let mut stack = vec![root.join(dir)];
        while let Some(d) = stack.pop() {
            let Ok(rd) = std::fs::read_dir(&d) else { continue };
            for e in rd.flatten() {
                let p = e.path();
                if p.is_dir() { stack.push(p); } else if p.extension().is_some_and(|x| x == "rs") { files.push(p); }
            }
        }
    }
    files.sort();
    let mut out = vec![];
    for f in files {
        let Ok(src) = std::fs::read_to_string(&f) else { continue };
        for (n, s) in sdp_literals(&src).into_iter().enumerate() {
            let name = f.strip_prefix(&root).unwrap_or(&f).to_string_lossy().replace(' ', "_");
            out.push((format!("corpus:{name}:{n}"), s));
        }
    }
    out
}

// ------------------------------------------------------------------------------------------------
// primitives and public helper functions compared one by one (boundary inputs the composite rarely hits)

fn prim_streams(run: &mut Run, rng: &mut Rng, n: usize) {
    let nums = ["0", "5", "05", "+5", "++5", "-0", "-1", "255", "256", "65535", "65536", "4294967295", "4294967296",
        "18446744073709551615", "18446744073709551616", "99999999999999999999999", "", "+", " 5", "5 ", "5a", "a", "1_0", "0x10", "1e3", "1.0", "+0", "000"];
    let mut texts: Vec<String> = nums.iter().map(|s| s.to_string()).collect();
    let alphabet = [" ", "\t", "\x0b", "\x0c", "\r", "a", "b", "9", "0", "+", "/", ":", ";", "=", "apt", "APT", "Apt", "96", "rtx", " ", "  "];
    for _ in 0..n {
        let k = rng.range(0, 8) as usize;
        let mut t = String::new();
        for _ in 0..k { t.push_str(&rng.pick(&alphabet).replace("\\t", "\t").replace("\\x0b", "\u{b}").replace("\\x0c", "\u{c}").replace("\\r", "\r")); }
        texts.push(t);
    }
    for t in &texts {
        let e = format!(".{}", enc(t)); // leading dot keeps the empty string a token
        let so = |o: Option<u64>| o.map(|n| n.to_string()).unwrap_or("-".into());
        run.case("prim", &format!("p u8 {e}"), &so(t.parse::<u8>().ok().map(|n| n as u64)), true);
        run.case("prim", &format!("p u16 {e}"), &so(t.parse::<u16>().ok().map(|n| n as u64)), true);
        run.case("prim", &format!("p u32 {e}"), &so(t.parse::<u32>().ok().map(|n| n as u64)), true);
        run.case("prim", &format!("p u64 {e}"), &so(t.parse::<u64>().ok()), true);
        run.case("prim", &format!("p ws {e}"), &list("^", t.split_whitespace().map(enc).collect()), true);
        run.case("prim", &format!("p trim {e}"), &format!("[{}]", enc(t.trim())), true);
        run.case("prim", &format!("p slash {e}"), &t.split('/').map(|x| format!("[{}]", enc(x))).collect::<Vec<_>>().join("^"), true);
        run.case("prim", &format!("p colon {e}"), &attr_s(&Attribute::from_line(t)), true);
        run.case("prim", &format!("p apt {e}"), &so(rustrtc::rtx::parse_apt(t).map(|n| n as u64)), true);
    }
    run.count_n("prim_texts", texts.len() as u64);
    for (a, b) in [("opus", "OPUS"), ("Telephone-Event", "telephone-event"), ("rtx", "RTX "), ("", ""), ("VP8", "vp9"), ("k", "K")] {
        run.case("prim", &format!("p ci .{}", enc(&format!("{a}|{b}"))), &(a.eq_ignore_ascii_case(b) as u8).to_string(), true);
    }
    // apt maps / audio capabilities / video clocks read back from sections
    let fmtps = ["97 apt=96", "97 apt=96;rtx-time=3000", "97 rtx-time=3000;apt=96", "97 APT=96", "97 apt= 96 ", "97  apt=96", "97 apt=300", "97 apt=",
        "x apt=96", "97", "97 apt=96 ", "256 apt=1", "99 apt=98", "97 apt=100", "111 minptime=10;useinbandfec=1", "97 apt=9x;apt=96", "+97 apt=+96"];
    let rtpmaps = ["111 opus/48000/2", "0 PCMU/8000", "0 PCMU/8000/1", "8 PCMA", "9 G722/x", "101 telephone-event/8000", "111 OPUS/48000/x", "111  opus/48000/2",
        "96 VP8/90000", "97 rtx/90000", "96 RTX/90000", "96 H264/x", "300 x/1", "x y/1", "18 /8000", "111 opus/48000/2/9", "96 VP8/4294967296"];
    let fbs = ["111 transport-cc", "96 nack", "96 nack pli", "* nack", "x y", "96"];
    for _ in 0..n {
        let kind = if rng.chance(1, 2) { MediaKind::Audio } else { MediaKind::Video };
        let mut m = MediaSection::new(kind, "0");
        let nf = rng.range(0, 5);
        for _ in 0..nf { m.formats.push((*rng.pick(&["0", "8", "9", "18", "96", "97", "101", "111", "x", "300", "+8", "08", "35"])).to_string()); }
        let na = rng.range(0, 7);
        for _ in 0..na {
            let (k, v) = match rng.below(4) { 0 => ("fmtp", *rng.pick(&fmtps)), 1 | 2 => ("rtpmap", *rng.pick(&rtpmaps)), _ => ("rtcp-fb", *rng.pick(&fbs)) };
            m.attributes.push(Attribute::new(k, if rng.chance(1, 15) { None } else { Some(v.to_string()) }));
        }
        let attrs = list("^", m.attributes.iter().map(attr_s).collect());
        let mut am: Vec<(u8, u8)> = rustrtc::rtx::extract_rtx_apt_map_from_attrs(&m.attributes).into_iter().collect();
        am.sort();
        run.case("aptmap", &format!("p {attrs}"), &list(",", am.iter().map(|(r, p)| format!("{r}>{p}")).collect()), !am.is_empty());
        let ms = media_s(&m, false);
        let caps = m.to_audio_capabilities();
        run.case("acaps", &format!("p {ms}"), &list("+", caps.iter().map(|a| format!("{},{},{},{},{},{}", a.payload_type, enc(&a.codec_name), a.clock_rate, a.channels,
            enc_opt(&a.fmtp), list("^", a.rtcp_fbs.iter().map(|f| enc(f)).collect()))).collect()), !caps.is_empty());
        let pt = *rng.pick(&[96u8, 97, 0, 35]);
        let clock = m.to_video_capabilities().into_iter().find(|c| c.payload_type == pt).map(|c| c.clock_rate).unwrap_or(90_000);
        run.case("vclock", &format!("p {ms} {pt}"), &clock.to_string(), kind == MediaKind::Video);
    }
    run.count_n("helper_sections", n as u64);
}

// ------------------------------------------------------------------------------------------------

pub fn run(args: &Args) {
    let mut rt = super::c09::Rt::new();
    let mut run = Run::new("c08", &args.out);
    if let Some(case) = &args.replay {
        let id = case.split_whitespace().next().unwrap_or("");
        let p: Vec<&str> = id.split(':').collect();
        if p[0] == "ans" && p.len() >= 3 {
            let ac = gen_case(p[1].parse().unwrap_or(1), p[2].parse().unwrap_or(0));
            println!("config: {:?}", ac.cfg);
            for spec in ac.offer1.iter().chain(std::iter::once(&ac.offer)) { println!("--- offer\n{}", render(&ac.cfg.mode, spec)); }
            rt.get().block_on(exec_case(&mut run, id, &ac));
        } else if p[0] == "corpus" {
            for (name, text) in corpus() { if name == id { println!("--- text\n{text}"); round_trip_text(&mut run, &name, "corpus", &text); } }
        }
        for f in &run.fails { println!("ORACLE-FAIL {} {}", f.signature, f.detail); }
        println!("cases: {}", run.n_cases);
        return;
    }
    // (1) structured offers × local configurations
    let n = if args.tier_thorough { 60_000 } else { 1_500 };
    for i in 0..n {
        let id = format!("ans:{}:{}", args.seed, i);
        let ac = gen_case(args.seed, i);
        let r = rt.get();
        if let Err(p) = crate::catch(std::panic::AssertUnwindSafe(|| r.block_on(exec_case(&mut run, &id, &ac)))) {
            run.fail(&format!("panic:{}", p.split(": ").next().unwrap_or("?")), &id, &p);
        }
    }
    run.count_n("generated_cases", n);
    // (2) SDP literals of the repository (tests/, src/, examples/)
    for (name, text) in corpus() { round_trip_text(&mut run, &name, "corpus", &text); }
    // (3) malformed / boundary texts for the parser-printer correspondence
    let base = render(&TransportMode::WebRtc, &DescSpec::new(vec![audio(Some("0"), vec![opus(), pcmu()]), video(Some("1"), vec![vp8(96)])]));
    let mut rng = Rng::new(args.seed ^ 0x5151);
    let nm = if args.tier_thorough { 4000 } else { 400 };
    for i in 0..nm {
        let lines: Vec<&str> = base.split("\r\n").filter(|l| !l.is_empty()).collect();
        let mut ls: Vec<String> = lines.iter().map(|s| s.to_string()).collect();
        let nmut = if rng.chance(1, 3) { 2 } else { 1 }; // two faults in one text: which error is reported first
        for _ in 0..nmut { match rng.below(11) {
            9 => { for l in ls.iter_mut() { if l.starts_with("s=") { *l = (*rng.pick(&["s= ", "s=", "s=a b", "s=-  "])).to_string(); } } }
            10 => { // c= at session level AND (equal or different) at media level — ordinary SIP
                let sc = *rng.pick(&["c=IN IP4 0.0.0.0", "c=IN IP4 127.0.0.1", "c=IN IP6 ::1"]);
                if let Some(k) = ls.iter().position(|l| l.starts_with("t=")) { ls.insert(k, sc.to_string()); }
            }
            0 => { let k = rng.below(ls.len() as u64) as usize; ls.remove(k); }
            1 => { let k = rng.below(ls.len() as u64) as usize; ls[k] = ls[k].replace('=', " "); }
            2 => { let k = rng.below(ls.len() as u64) as usize; ls.insert(k, (*rng.pick(&["b=AS:128", "i=title", "a=foo", "a=foo:", "a=:x", "k=clear:abc", "b:x=y", "a:b=c", "i:=", "a=mid", "a=sendonly", "x", "=", "a=", "z=0 0"])).to_string()); }
            3 => { ls[1] = (*rng.pick(&["o=- 1 2 IN IP6 ::1", "o=- 18446744073709551616 2 IN IP4 1.2.3.4", "o=- 1 2 in ip4 h", "o=a b c", "o=- 1 2 IN IP4 a extra", "o=-  1  2  IN  IP4  a"])).to_string(); }
            4 => { for l in ls.iter_mut() { if l.starts_with("m=") { *l = (*rng.pick(&["m=audio 9 RTP/AVP", "m=audio 65536 RTP/AVP 0", "m=text 9 RTP/AVP 0", "m=audio  9  RTP/AVP  0  8", "m=video +5 x 96 97"])).to_string(); break; } } }
            5 => { ls[0] = (*rng.pick(&["v=1", "v=256", "v=x", "v=+0", "v= 0"])).to_string(); }
            6 => { let k = rng.below(ls.len() as u64) as usize; ls[k] = format!("  {}  ", ls[k]); }
            7 => { for l in ls.iter_mut() { if l.starts_with("t=") { *l = (*rng.pick(&["t=0", "t=1 2 3", "t=a b", "t=18446744073709551615 0"])).to_string(); } } }
            _ => { let k = rng.below(ls.len() as u64) as usize; ls.insert(k, String::new()); }
        } }
        let sep = if rng.chance(1, 4) { "\n" } else { "\r\n" };
        let text = ls.join(sep) + if rng.chance(1, 2) { sep } else { "" };
        round_trip_text(&mut run, &format!("mal:{}:{}", args.seed, i), "malformed", &text);
    }
    run.count_n("malformed_texts", nm);
    // (3b) two faults at chosen positions: a line without `=` at every position × a faulty v= / o= / t= / m= line — the parser
    // reports the FIRST faulty line
    {
        let lines: Vec<String> = base.split("\r\n").filter(|l| !l.is_empty()).map(|s| s.to_string()).collect();
        let mut n2 = 0;
        for k in 0..lines.len() {
            for (prefix, bad) in [("v=", "v=x"), ("o=", "o=a b c"), ("t=", "t=a b"), ("m=", "m=audio 65536 RTP/AVP 0"), ("m=", "m=text 9 RTP/AVP 0")] {
                let mut ls = lines.clone();
                let Some(j) = (if prefix == "m=" { ls.iter().rposition(|l| l.starts_with(prefix)) } else { ls.iter().position(|l| l.starts_with(prefix)) }) else { continue };
                if j == k { continue; }
                ls[j] = bad.to_string();
                ls[k] = "x".to_string();
                round_trip_text(&mut run, &format!("mal2:{k}:{j}:{}", &bad[..3]), "malformed", &(ls.join("\r\n") + "\r\n"));
                n2 += 1;
            }
        }
        run.count_n("malformed_two_fault_texts", n2);
    }
    // (4) primitives / helper functions
    prim_streams(&mut run, &mut rng, if args.tier_thorough { 5000 } else { 500 });
    run.finish();
}
