//! C13 — the SCTP sender obeys packet-size, checksum, tag, window and quiescence rules.
//! (a) function level: `transmit_chunks_with_tag` (batching + packet assembly), `create_data_chunk`,
//!     `sctp_crc32c(_append)` against the Lean wire model (CRC also against the `crc32c` crate);
//! (b) every datagram captured on the link of live two-endpoint runs (small receive windows with a
//!     held-back packet, burst / cwnd / RTO grid, fault scripts) is checked by the Lean `wireCheck`
//!     and by the harness' own independent reader; every endpoint trace is checked by `epCheck`
//!     (window arithmetic of each `transmit()`, advertised window in use, no retransmission after a
//!     covering SACK); SACK chunks seen on the wire are re-encoded by the model byte for byte.
use crate::props::c01::link::*;
use crate::props::c01::{case_text, parse_case, payload, show_gaps, show_u32s};
use crate::{Args, Rng, Run, hex};
use bytes::Bytes;
use rustrtc::verif_hooks::sctp as hook;
use std::time::Duration;

fn tsn_gt(a: u32, b: u32) -> bool { (a.wrapping_sub(b) as i32) > 0 }

// ------------------------------------------------------------------------------------------
// (a) function level

fn func_cases(run: &mut Run, rng: &mut Rng, thorough: bool) {
    let rt = tokio::runtime::Builder::new_current_thread().enable_all().build().unwrap();
    rt.block_on(async {
        let mut ep = Endpoint::new(59_000, 59_001, true, &EpCfg::default(), &[]).await;
        // batching: all chunk-size lists up to 4 (thorough: 5) chunks from the boundary pool + random
        let pool = [4usize, 16, 600, 1184, 1188];
        let maxn = if thorough { 5 } else { 4 };
        let mut lists: Vec<Vec<usize>> = vec![vec![]];
        let mut frontier: Vec<Vec<usize>> = vec![vec![]];
        for _ in 0..maxn {
            let mut next = vec![];
            for l in &frontier { for s in pool { let mut m = l.clone(); m.push(s); next.push(m); } }
            lists.extend(next.iter().cloned());
            frontier = next;
        }
        let nrand = if thorough { 3000 } else { 400 };
        for _ in 0..nrand {
            let n = rng.range(1, 12) as usize;
            lists.push((0..n).map(|_| *rng.pick(&[4usize, 8, 20, 100, 300, 596, 600, 604, 1000, 1180, 1184, 1188, 1192, 2000])).collect());
        }
        for sizes in &lists {
            let tag = rng.next() as u32;
            let chunks: Vec<Bytes> = sizes.iter().map(|s| Bytes::from(rng.bytes(*s))).collect();
            let _ = ep.sctp.verif_transmit_chunks(chunks.clone(), tag).await;
            let mut pkts = vec![];
            while let Ok(p) = ep.out_rx.try_recv() { pkts.push(p); }
            // oracle: nothing lost / reordered; size rule when every chunk fits alone
            let body: Vec<u8> = pkts.iter().flat_map(|p| p[12..].to_vec()).collect();
            let want: Vec<u8> = chunks.iter().flat_map(|c| c.to_vec()).collect();
            let input = format!("59000 59001 {tag} {}", chunks.iter().map(|c| hex(c)).collect::<Vec<_>>().join(" "));
            if body != want { run.fail("batch:chunks-lost-or-reordered", &format!("batch {input}"), "concatenated packet bodies differ from the chunk list"); }
            if sizes.iter().all(|s| *s <= 1188) {
                for p in &pkts { if p.len() > 1200 { run.fail("size:packet-exceeds-1200", &format!("batch {input}"), &format!("{} bytes", p.len())); } }
            }
            for p in &pkts {
                let mut z = p.to_vec(); z[8..12].copy_from_slice(&[0; 4]);
                if crc32c::crc32c(&z).to_le_bytes() != p[8..12] { run.fail("crc:bad-checksum-on-own-packet", &format!("batch {input}"), "reference CRC-32C differs"); }
            }
            let out = if pkts.is_empty() { "-".to_string() } else { pkts.iter().map(|p| hex(p)).collect::<Vec<_>>().join(" ") };
            run.case("batch", &input, &out, pkts.len() > 1);
        }
        run.count_n("batch_lists", lists.len() as u64);
        // create_data_chunk
        let nd = if thorough { 4000 } else { 600 };
        for k in 0..nd {
            let len = if k < 40 { k } else { *rng.pick(&[0usize, 1, 2, 3, 4, 5, 100, 1169, 1170, 1171, 1172]) };
            let data = rng.bytes(len);
            let (sid, ppid, ssn, fl, tsn) = (rng.next() as u16, *rng.pick(&[50u32, 51, 53, 0, 0xFFFF_FFFF]), rng.next() as u16,
                (rng.below(8)) as u8, *rng.pick(&[0u32, 1, 0xFFFF_FFFF, 0x8000_0000, rng.0 as u32]));
            let c = ep.sctp.verif_create_data_chunk(sid, ppid, &data, ssn, fl, tsn);
            if c.len() % 4 != 0 || c.len() > 1188 { run.fail("size:data-chunk-not-padded-or-too-large", &format!("datachunk len={len}"), &format!("{}", c.len())); }
            run.case("datachunk", &format!("{sid} {ppid} {ssn} {fl} {tsn} {}", hex(&data)), &hex(&c), true);
        }
        run.count_n("datachunk_cases", nd as u64);
        // CRC
        let nc = if thorough { 4000 } else { 600 };
        for k in 0..nc {
            let len = if k < 70 { k } else { rng.range(0, 1300) as usize };
            let d = rng.bytes(len);
            let v = hook::crc32c(&d);
            if v != crc32c::crc32c(&d) { run.fail("crc:differs-from-reference", &format!("crc {}", hex(&d)), "sctp_crc32c != crc32c crate"); }
            run.case("crc", &hex(&d), &v.to_string(), true);
            if k % 3 == 0 {
                let c0 = rng.next() as u32;
                let v2 = hook::crc32c_append(c0, &d);
                run.case("crc", &format!("{c0} {}", hex(&d)), &v2.to_string(), true);
            }
        }
        run.count_n("crc_cases", nc as u64);
        ep.adopt_new();
        ep.shutdown();
    });
}

fn ms_text(v: u64) -> String { if (50_000..150_000).contains(&v) { "N".into() } else { v.to_string() } }
fn srec_text(r: &hook::VRecord) -> String {
    format!("{},{},{},{},{},{},{},{},{},{},{},{},{}", r.tsn, r.len, ms_text(r.sent_ms), r.transmit_count, r.missing_reports,
        r.abandoned as u8, r.fast_retransmit as u8, r.needs_retransmit as u8,
        r.fast_retransmit_ms.map(ms_text).unwrap_or("-".into()), r.in_flight as u8, r.acked as u8,
        r.max_retransmits.map(|v| v.to_string()).unwrap_or("-".into()), r.has_expiry as u8)
}
fn q_text(q: &[hook::VRecord]) -> String { if q.is_empty() { "-".into() } else { q.iter().map(srec_text).collect::<Vec<_>>().join(" ") } }

fn rand_queue(rng: &mut Rng, maxn: u64) -> Vec<hook::VRecord> {
    let r0 = rng.next() as u32;
    let base = *rng.pick(&[100u32, 0xFFFF_FFFA, 0x7FFF_FFFC, 0, r0]);
    let n = rng.range(0, maxn) as usize;
    let mut m = std::collections::BTreeMap::new();
    for _ in 0..n {
        let tsn = base.wrapping_add(rng.below(12) as u32);
        let pr = rng.chance(1, 4);
        m.insert(tsn, hook::VRecord { tsn, len: *rng.pick(&[16usize, 20, 300, 1188, 1188]), sent_ms: *rng.pick(&[0u64, 500, 900, 200_000]),
            transmit_count: *rng.pick(&[1u32, 1, 2, 7, 8, 9]), missing_reports: rng.below(4) as u8, abandoned: rng.chance(1, 8),
            fast_retransmit: rng.chance(1, 5), needs_retransmit: rng.chance(1, 4), fast_retransmit_ms: None, in_flight: rng.chance(2, 3),
            acked: rng.chance(1, 5), stream_id: 1, ssn: 0, flags: 3, max_retransmits: if pr { Some(rng.below(3) as u16) } else { None },
            has_expiry: pr && rng.chance(1, 3) });
    }
    m.into_values().collect()
}

/// `handle_timeout`, the TLP probe and `transmit()` run as functions on loaded sender states
fn sender_cases(run: &mut Run, rng: &mut Rng, thorough: bool) {
    let rt = tokio::runtime::Builder::new_current_thread().enable_all().build().unwrap();
    rt.block_on(async {
        let mut eps = vec![];
        for (i, mb) in [0usize, 1, 16].iter().enumerate() {
            let mut cfg = EpCfg::default();
            cfg.max_burst = *mb;
            eps.push((*mb, Endpoint::new(58_000 + 2 * i as u16, 58_001 + 2 * i as u16, true, &cfg, &[]).await));
        }
        let n = if thorough { 12_000 } else { 2_000 };
        for k in 0..n {
            let q = rand_queue(rng, 9);
            let cwnd = *rng.pick(&[4800usize, 6000, 12_000, 100_000]);
            let flight: usize = q.iter().filter(|r| r.in_flight).map(|r| r.len).sum();
            match k % 3 {
                0 => {
                    let ep = &eps[0].1;
                    ep.sctp.verif_load_sender(&q, &[], cwnd, flight, 100_000, 7, false);
                    let _ = ep.sctp.verif_handle_timeout().await;
                    let s = ep.sctp.verif_snapshot();
                    let after = ep.sctp.verif_sent_queue();
                    let marked = after.iter().filter(|r| r.needs_retransmit).count() as i64 - q.iter().filter(|r| r.needs_retransmit).count() as i64;
                    if marked > 4 { run.fail("t3:marks-more-than-retransmit-burst", &format!("t3 {}", q_text(&q)), &format!("{marked} newly marked")); }
                    run.case("t3", &format!("{cwnd} {flight} 120 8 {}", q_text(&q)), &format!("cwnd={} flight={} | {}", s.cwnd, s.flight_size, q_text(&after)), after != q);
                }
                1 => {
                    let ep = &eps[0].1;
                    ep.sctp.verif_load_sender(&q, &[], cwnd, flight, 100_000, 7, false);
                    let _ = ep.sctp.verif_tlp_probe();
                    let s = ep.sctp.verif_snapshot();
                    let after = ep.sctp.verif_sent_queue();
                    run.case("tlp", &format!("{flight} {}", q_text(&q)), &format!("flight={} | {}", s.flight_size, q_text(&after)), after != q);
                }
                _ => {
                    let (mb, ep) = { let e = &mut eps[rng.below(3) as usize]; (e.0, &mut e.1) };
                    let no = rng.range(0, 12) as usize;
                    let out: Vec<(u16, u32, u16, u8, usize, Option<u16>, bool)> = (0..no).map(|j| (1u16, 53u32, j as u16, 3u8,
                        *rng.pick(&[0usize, 1, 3, 100, 1171, 1172, 1172, 1172]), if rng.chance(1, 6) { Some(2u16) } else { None }, false)).collect();
                    let rwnd = *rng.pick(&[0u32, 1000, 1188, 2000, 4096, 6000, 100_000]);
                    let fl = *rng.pick(&[flight, flight, 0, flight + 3000]);
                    let next = q.last().map(|r| r.tsn.wrapping_add(1)).unwrap_or(*rng.pick(&[5u32, 0xFFFF_FFFE]));
                    let sack = rng.chance(1, 4);
                    ep.sctp.verif_load_sender(&q, &out, cwnd, fl, rwnd, next, sack);
                    while ep.out_rx.try_recv().is_ok() {}
                    let _ = ep.sctp.verif_transmit().await;
                    let mut bytes = 0usize; let mut pk = 0usize;
                    while let Ok(p) = ep.out_rx.try_recv() { bytes += p.len() - 12; pk += 1; if p.len() > 1200 && q.iter().all(|r| r.len <= 1188) { run.fail("size:packet-exceeds-1200", "tx", &format!("{}", p.len())); } }
                    let s = ep.sctp.verif_snapshot();
                    let after = ep.sctp.verif_sent_queue();
                    let newc = no - s.outbound_queue.len();
                    // oracle: with the window closed nothing new leaves
                    let fl_after_rex: usize = fl + q.iter().filter(|r| r.needs_retransmit && !r.acked && !r.in_flight).map(|r| r.len).sum::<usize>();   // (a gap-acked record is not retransmitted: 5ac86b5)
                    if (rwnd as usize) <= fl_after_rex && newc > 0 && !(rwnd == 0 && fl == 0 && newc == 1) /* one chunk is the zero-window probe: 31af4d4 */ { run.fail("window:new-data-with-no-available-window", &format!("tx rwnd={rwnd} flight={fl_after_rex}"), &format!("{newc} new chunks")); }
                    if newc > 0 { run.count("tx_new_data"); }
                    if s.outbound_queue.len() > 0 { run.count("tx_window_limited"); }
                    let input = format!("{cwnd} {fl} {rwnd} {next} {} {mb} {} / {}", sack as u8, q_text(&q),
                        out.iter().map(|o| format!("{},{},{},{},{},{},{}", o.0, o.1, o.2, o.3, o.4, o.5.map(|v| v.to_string()).unwrap_or("-".into()), o.6 as u8)).collect::<Vec<_>>().join(" "));
                    run.case("tx", &input, &format!("bytes={bytes} pk={pk} flight={} next={} outq={} | {}", s.flight_size, s.next_tsn, s.outbound_queue.len(), q_text(&after)), bytes > 0);
                }
            }
        }
        run.count_n("sender_function_cases", n as u64);
        for (_, e) in &eps { e.shutdown(); }
    });
}

// ------------------------------------------------------------------------------------------
// (b) live runs

pub struct WireVerdict { pub text: String, pub fails: Vec<(String, String)> }

/// harness' own reading of the captured wire (independent of the Lean reader): same verdict text
pub fn wire_verdict(wire: &[(usize, Bytes)]) -> WireVerdict {
    let mut tag: [Option<u32>; 2] = [None, None];
    let mut next: [Option<u32>; 2] = [None, None];
    let (mut newd, mut rex) = ([0u64; 2], [0u64; 2]);
    let mut maxlen = 0;
    let mut fails = vec![];
    let mut viol: Option<String> = None;
    for (idx, (s, p)) in wire.iter().enumerate() {
        if viol.is_some() { break; }
        maxlen = maxlen.max(p.len());
        if p.len() > 1200 { viol = Some(format!("size@{idx}")); fails.push(("size:packet-exceeds-1200".to_string(), format!("packet {idx}: {} bytes", p.len()))); break; }
        if p.len() < 12 { viol = Some(format!("crc@{idx}")); fails.push(("crc:bad-checksum-on-own-packet".into(), format!("packet {idx} shorter than a header"))); break; }
        let mut z = p.to_vec(); z[8..12].copy_from_slice(&[0; 4]);
        if crc32c::crc32c(&z).to_le_bytes() != p[8..12] { viol = Some(format!("crc@{idx}")); fails.push(("crc:bad-checksum-on-own-packet".into(), format!("packet {idx}"))); break; }
        let vtag = u32::from_be_bytes([p[4], p[5], p[6], p[7]]);
        let chunks = chunks_of(p);
        // oracle only (not part of the verdict text shared with the Lean reader): a datagram without a chunk, or a DATA chunk
        // without user data and without the B|E pair of an empty message — e.g. a gap-acked record (payload freed)
        // that was still marked for retransmission
        if chunks.is_empty() { fails.push(("wire:datagram-without-chunks".to_string(), format!("packet {idx} from {}: {} bytes, no chunk", ["A", "B"][*s], p.len()))); }
        let is_init = chunks.first().map(|c| c.0 == 1).unwrap_or(false);
        let ok = if is_init { vtag == 0 } else { tag[1 - *s] == Some(vtag) };
        if !ok { viol = Some(format!("vtag@{idx}")); fails.push(("vtag:not-the-peers-tag".into(), format!("packet {idx} from {}: tag {vtag:#x}, peer announced {:?}", ["A", "B"][*s], tag[1 - *s]))); break; }
        for (t, _f, v) in &chunks {
            if (*t == 1 || *t == 2) && v.len() >= 16 {
                let tg = u32::from_be_bytes([v[0], v[1], v[2], v[3]]);
                let itsn = u32::from_be_bytes([v[12], v[13], v[14], v[15]]);
                match tag[*s] { Some(t0) => if t0 != tg { viol = Some(format!("tag-changed@{idx}")); fails.push(("vtag:initiate-tag-changed".into(), format!("packet {idx}"))); }
                    None => { tag[*s] = Some(tg); next[*s] = Some(itsn); } }
            } else if *t == 0 {
                if v.len() < 12 { viol = Some(format!("short-data@{idx}")); break; }
                let tsn = u32::from_be_bytes([v[0], v[1], v[2], v[3]]);
                match next[*s] {
                    None => { viol = Some(format!("data-before-init@{idx}")); fails.push(("tsn:data-before-init".into(), format!("packet {idx}"))); }
                    Some(nx) => if tsn == nx { next[*s] = Some(nx.wrapping_add(1)); newd[*s] += 1; }
                        else if tsn_gt(nx, tsn) { rex[*s] += 1; }
                        else { viol = Some(format!("tsn-gap@{idx}")); fails.push(("tsn:new-data-not-consecutive".into(), format!("packet {idx}: tsn {tsn}, expected {nx}"))); }
                }
            }
            if viol.is_some() { break; }
        }
    }
    let text = match viol { Some(v) => format!("viol:{v}"),
        None => format!("ok pk={} max={maxlen} newA={} rexA={} newB={} rexB={}", wire.len(), newd[0], rex[0], newd[1], rex[1]) };
    WireVerdict { text, fails }
}

/// ops tokens + implementation line for one endpoint's trace (stream `txw`) and the oracle failures.
/// The harness keeps its own books, written from the property text and independent of the code's
/// `flight_size`: DATA chunks seen going out and not acknowledged by any SACK seen coming in.
pub fn txw_lines(side: usize, c: &Case, o: &Outcome) -> (String, String, Vec<(String, String)>) {
    let mut toks: Vec<String> = c.chans[side].iter().map(|ch| format!("mp,{},{}", ch.id, ch.max_payload.unwrap_or(1200))).collect();
    let nmp = toks.len();
    let mut outs = vec![];
    let mut fails: Vec<(String, String)> = vec![];
    let mut code_rwnd: u64 = 262_144;          // what the code's peer_rwnd holds: the last a_rwnd received
    let mut best: (Option<u32>, u64) = (None, 262_144); // serially newest cumulative TSN processed and its a_rwnd
    let mut next: Option<u32> = None;
    let mut unacked: Vec<(u32, u64, bool)> = vec![];
    let mut queued: std::collections::VecDeque<usize> = Default::default(); // payload sizes in the outbound queue
    let (mut ever_sent, mut owes_sack) = (false, false);
    let mut free_sacks = 0u32;
    let mut after_t3 = false;
    let (mut t3_count, mut max_rwnd) = (0u64, 0u64);
    let (mut rexmits, mut quiet_tx, mut max_over) = (0u64, 0u64, 0u64);
    let mut viol: Option<String> = None;
    let who = ["A", "B"][side];
    let mps_of = |chan: u64| c.chans[side].iter().find(|ch| ch.id as u64 == chan).map(|ch| ch.max_payload.unwrap_or(1200).min(1172)).unwrap_or(1172);
    for ev in &o.traces[side] {
        let idx = toks.len() - nmp;
        let idle = ever_sent && unacked.is_empty() && queued.is_empty();
        match ev {
            hook::Ev::Mark("loop", _) => toks.push("L".into()),
            hook::Ev::Mark("t3", _) => { toks.push("3".into()); after_t3 = !unacked.is_empty(); t3_count = if unacked.is_empty() { 0 } else { t3_count + 1 }; }
            hook::Ev::Mark("tx_window", v) => {
                toks.push(format!("W,{},{},{},{},{}", v[0], v[1], v[2], v[3], v[4]));
                // correspondence only: the code's own window, reported as the code computed it
                outs.push(format!("w{}", v[4]));
                let _ = code_rwnd;
            }
            hook::Ev::Mark("tx_new", v) => {
                toks.push(format!("N,{},{},{},{}", v[0], v[1], v[2], v[3]));
                outs.push(format!("n{},{},{}", v[1], v[2], v[3]));
                for _ in 0..v[1] { queued.pop_front(); }
            }
            hook::Ev::Mark("enqueue", v) => {
                toks.push(format!("E,{},{},{}", v[0], v[1], v[2]));
                let (mps, len) = (mps_of(v[0]), v[2] as usize);
                if len == 0 { queued.push_back(0); } else { let mut r = len; while r > 0 { let n = r.min(mps); queued.push_back(n); r -= n; } }
            }
            hook::Ev::Mark(_, _) => {}
            hook::Ev::Rx(p) => {
                toks.push(format!("R,{}", hex(p)));
                free_sacks = 0;
                let mut z = p.to_vec();
                if z.len() >= 12 { z[8..12].copy_from_slice(&[0; 4]); }
                if p.len() >= 12 && crc32c::crc32c(&z).to_le_bytes() == p[8..12] {
                    for (t, _f, v) in chunks_of(p) {
                        if (t == 1 || t == 2) && v.len() >= 16 {
                            code_rwnd = u32::from_be_bytes([v[4], v[5], v[6], v[7]]) as u64;
                            max_rwnd = max_rwnd.max(code_rwnd);
                            if best.0.is_none() { best.1 = code_rwnd; }
                        }
                        if t == 0 || t == 192 { owes_sack = true; }
                        if t == 3 && v.len() >= 12 {
                            let cum = u32::from_be_bytes([v[0], v[1], v[2], v[3]]);
                            let arw = u32::from_be_bytes([v[4], v[5], v[6], v[7]]) as u64;
                            let ng = u16::from_be_bytes([v[8], v[9]]) as usize;
                            let gaps: Vec<(u32, u32)> = (0..ng).filter(|i| v.len() >= 16 + 4 * i).map(|i| (u16::from_be_bytes([v[12 + 4 * i], v[13 + 4 * i]]) as u32, u16::from_be_bytes([v[14 + 4 * i], v[15 + 4 * i]]) as u32)).collect();
                            if !matches!(best.0, Some(old) if tsn_gt(old, cum)) { code_rwnd = arw; }
                            max_rwnd = max_rwnd.max(arw);
                            let newer = match best.0 { Some(old) => !tsn_gt(old, cum), None => true };
                            if newer {
                                if best.0 != Some(cum) { t3_count = 0; }   // the T3 excuse counts expiries since the last SACK that moved the cumulative TSN
                                // at an unchanged cumulative TSN the receiver's window can only have shrunk
                                best = (Some(cum), if best.0 == Some(cum) { best.1.min(arw) } else { arw });
                                unacked.retain(|e| tsn_gt(e.0, cum));
                            }
                            for e in unacked.iter_mut() { let off = e.0.wrapping_sub(cum); if gaps.iter().any(|g| g.0 <= off && off <= g.1) { e.2 = true; } }
                            if newer { after_t3 = after_t3 && !unacked.is_empty(); if unacked.is_empty() { t3_count = 0; } }
                        }
                    }
                }
            }
            hook::Ev::Tx(p) => {
                toks.push(format!("T,{}", hex(p)));
                if idle { quiet_tx += 1; }
                for (t, _f, v) in chunks_of(p) {
                    let idle_now = ever_sent && unacked.is_empty() && queued.is_empty();
                    let is_new_data = t == 0 && v.len() >= 12 && next == Some(u32::from_be_bytes([v[0], v[1], v[2], v[3]]));
                    let free_sack = t == 3 && !owes_sack;
                    if free_sack { free_sacks += 1; }
                    if idle_now && ((t == 0 && !is_new_data) || t == 192 || t == 1 || t == 10 || (free_sack && free_sacks > 1)) {
                        if viol.is_none() { viol = Some(format!("not-quiescent:{t}@{idx}")); }
                        fails.push((format!("quiescence:{}-after-everything-acknowledged", ct_name(t)), format!("{who}: datagram #{idx} of its trace carries a {} chunk although all its data is acknowledged and nothing is queued", ct_name(t))));
                    }
                    if (t == 1 || t == 2) && v.len() >= 16 { next = Some(u32::from_be_bytes([v[12], v[13], v[14], v[15]])); }
                    if t == 3 { owes_sack = false; }
                    if t == 0 && v.len() >= 12 {
                        let tsn = u32::from_be_bytes([v[0], v[1], v[2], v[3]]);
                        let wire = (4 + v.len() + (4 - (4 + v.len()) % 4) % 4) as u64;
                        let is_new = next == Some(tsn);
                        if is_new {
                            next = Some(tsn.wrapping_add(1)); ever_sent = true; unacked.push((tsn, wire, false));
                            let outstanding: u64 = unacked.iter().filter(|e| !e.2).map(|e| e.1).sum();
                            let over = outstanding.saturating_sub(best.1);
                            max_over = max_over.max(over);
                            if over > 1200 {
                                // causes the code is known for: flight restarted by T3; an older SACK with the same cumulative TSN
                                // (indistinguishable from a window update for the sender) taken at face value
                                // only a bounded overshoot: one more window (plus a chunk) per T3 expiry; the stale window plus a packet
                                let t3_excuse = after_t3 && over <= t3_count * (max_rwnd + 1200) + 1200;
                                let stale_excuse = code_rwnd > best.1 && outstanding <= code_rwnd + 1200;
                                let cause = if t3_excuse { ":after-t3-restarted-flight-size" } else if stale_excuse { ":older-sack-with-same-cumulative-tsn" } else { "" };
                                if viol.is_none() { viol = Some(format!("window-overshoot{}:{outstanding}>{}@{idx}", if t3_excuse { "-after-t3" } else if stale_excuse { "-stale-sack" } else { "" }, best.1)); }
                                fails.push((format!("window:new-data-beyond-advertised-window-plus-one-packet{cause}"),
                                    format!("{who}: {outstanding} unacknowledged bytes on the wire after new TSN {tsn}, newest advertised window {}", best.1)));
                            }
                        } else { rexmits += 1; }
                        if !is_new && v.len() > 12 && unacked.iter().any(|e| e.0 == tsn && e.2) {
                            if viol.is_none() { viol = Some(format!("rexmit-after-gap-ack:{tsn}@{idx}")); }
                            fails.push(("rexmit:data-after-covering-gap-ack".to_string(), format!("{who}: TSN {tsn} sent again with user data after a SACK whose gap block covers it was processed")));
                        }
                        if let Some(ca) = best.0 { if !tsn_gt(tsn, ca) {
                            if viol.is_none() { viol = Some(format!("rexmit-after-sack:{tsn}@{idx}")); }
                            fails.push(("rexmit:after-covering-sack".to_string(), format!("{who}: TSN {tsn} sent again after a SACK with cumulative TSN {ca} was processed")));
                        } }
                    }
                }
            }
        }
    }
    fails.dedup_by(|a, b| a.0 == b.0);
    let out = format!("{} | {} rex={rexmits} q={} quiet={quiet_tx} over={max_over}", if outs.is_empty() { "-".to_string() } else { outs.join(" ") },
        viol.map(|v| format!("viol:{v}")).unwrap_or("ok".into()), o.snaps[side].outbound_queue.len());
    (toks.join(" "), out, fails)
}

fn c13_case(rwnd: usize, burst: usize, cwnd: usize, rto: u64, sizes: &[usize], faults: Vec<Fault>, tsn: Option<u32>) -> Case {
    let mut cfg = [EpCfg::default(), EpCfg::default()];
    for e in cfg.iter_mut() { e.rwnd = rwnd; e.max_burst = burst; e.max_cwnd = cwnd; e.rto_initial_ms = rto; e.rto_min_ms = rto / 2; e.rto_max_ms = rto * 4; }
    cfg[0].seed_tsn = tsn; cfg[1].seed_tsn = tsn.map(|t| t ^ 0x3333);
    let mut msgs: Vec<Msg> = sizes.iter().enumerate().map(|(i, l)| Msg { side: 0, chan: 1, data: payload(0, 1, i, *l), phase: 0, task: 0 }).collect();
    msgs.push(Msg { side: 1, chan: 1, data: payload(1, 1, 0, 700), phase: 0, task: 0 });
    Case { cfg, chans: [vec![ChanSpec::reliable(1)], vec![ChanSpec::reliable(1)]], msgs, faults,
        deadline: Duration::from_secs(15), settle: Duration::from_millis(rto * 5), closes: vec![], end: End::None }
}

fn cases(args: &Args, rng: &mut Rng) -> Vec<Case> {
    let mut v = vec![];
    let hold = |ord: u32, k: u32| Fault { side: 0, ctype: 0, ordinal: ord, action: Action::Delay(k) };
    // zero-window: small receive windows with a held-back DATA packet, over the burst / cwnd / RTO grid
    let rwnds: &[usize] = if args.tier_thorough { &[4096, 8192, 16384, 65536] } else { &[4096, 16384, 65536] };
    let bursts: &[usize] = if args.tier_thorough { &[0, 1, 4, 16] } else { &[0, 1, 16] };
    let cwnds: &[usize] = if args.tier_thorough { &[4800, 65536, 256 * 1024] } else { &[4800, 256 * 1024] };
    let rtos: &[u64] = if args.tier_thorough { &[50, 200, 1000] } else { &[60, 200] };
    for &rw in rwnds { for &b in bursts { for &cw in cwnds { for &rto in rtos {
        if !args.tier_thorough && (rw + b + cw + rto as usize) % 3 == 1 { continue; }
        let tsn = if (rw / 4096 + b + rto as usize) % 2 == 0 { None } else { Some(0xFFFF_FFFA) };
        v.push(c13_case(rw, b, cw, rto, &[24_000], vec![hold(2, 9)], tsn));
        // the chunk after the first is lost 3 times: everything behind it piles up in the receive queue
        if rw <= 16384 {
            v.push(c13_case(rw, b, cw, rto, &[24_000], vec![Fault { side: 0, ctype: 254, ordinal: 1, action: Action::DropN(3) }], tsn));
            // a window of exactly two queued chunks: the advertised window reaches 0
            if rw == 4096 { v.push(c13_case(2 * 1184, b, cw, rto, &[24_000], vec![Fault { side: 0, ctype: 254, ordinal: 1, action: Action::DropN(3) }], tsn)); }
        }
    } } } }
    // plain loss / duplication / reordering of DATA and SACK on a medium window
    for f in ["A.DATA.3.drop", "B.SACK.2.drop+B.SACK.3.drop", "A.DATA.2.dup", "B.SACK.1.late4", "A.DATA.4.delay3+A.DATA.6.drop", "-"] {
        v.push(c13_case(32_768, 0, 256 * 1024, 80, &[9000, 0, 300], faults_parse(f), None));
        v.push(c13_case(32_768, 4, 65_536, 80, &[9000, 0, 300], faults_parse(f), Some(0xFFFF_FFFC)));
    }
    // TSN wrap inside the sent queue with only the first chunk arriving (the late-SACK filter history)
    v.push(c13_case(131_072, 0, 256 * 1024, 120, &[4500], faults_parse("A.TSN.1.dropn1+A.TSN.2.dropn1+A.TSN.3.dropn1"), Some(0xFFFF_FFFE)));
    v.push(c13_case(131_072, 0, 256 * 1024, 120, &[9000], faults_parse("A.TSN.2.dropn2+A.TSN.3.dropn1+A.TSN.5.dropn1"), Some(0xFFFF_FFFD)));
    // every SACK of the first flight lost: T3 restarts the flight-size count while nothing is acknowledged (known finding)
    v.push(c13_case(8192, 16, 256 * 1024, 120, &[30_000], faults_parse("B.SACK.1.drop+B.SACK.2.drop+B.SACK.3.drop+B.SACK.4.drop+B.SACK.5.drop+B.SACK.6.drop+B.SACK.7.drop"), None));
    // SACKs that arrive after newer ones: with a smaller cumulative TSN (ignored since 5cfc04a) and with the same one (known finding)
    v.push(c13_case(4096, 16, 256 * 1024, 200, &[30_000], faults_parse("A.TSN.5.dropn3+B.SACK.1.late4"), None));
    v.push(c13_case(4096, 16, 256 * 1024, 200, &[30_000], faults_parse("A.TSN.1.dropn3+B.SACK.1.late3"), None));
    // the TSN space wraps early in the transfer and the receive window closes *after* the wrap (a chunk behind the wrap is
    // lost three times, everything after it piles up): the zero / small a_rwnd of those SACKs has to be honoured
    for k in [1u32, 2, 4] { for (rw, b) in [(4096usize, 16usize), (8192, 4), (2 * 1184, 16)] {
        if !args.tier_thorough && (k as usize + rw / 1000) % 2 == 1 { continue; }
        v.push(c13_case(rw, b, 256 * 1024, 120, &[30_000], vec![Fault { side: 0, ctype: 254, ordinal: k + 2, action: Action::DropN(3) }], Some(0u32.wrapping_sub(k))));
    } }
    // HEARTBEAT / HEARTBEAT-ACK on a checked wire (the default interval of 15 s outlives every run): size, CRC and tag
    // rule for these two chunk types, and "silent apart from heartbeats"
    {
        let mut c = c13_case(32_768, 4, 65_536, 80, &[3000], vec![], None);
        for e in c.cfg.iter_mut() { e.heartbeat_ms = 100; }
        c.settle = Duration::from_millis(700);
        v.push(c);
        let mut c = c13_case(32_768, 4, 65_536, 80, &[3000], faults_parse("A.DATA.2.drop"), Some(0xFFFF_FFFD));
        for e in c.cfg.iter_mut() { e.heartbeat_ms = 150; }
        c.settle = Duration::from_millis(700);
        v.push(c);
    }
    // a partially reliable channel with loss: FORWARD-TSN is legitimate while something abandoned is unacknowledged,
    // and has to stop once the peer's cumulative ack has passed it (quiescence)
    for (f, mr) in [("A.TSN.1.dropn2", 0u16), ("A.TSN.2.dropn3+B.SACK.2.drop", 1), ("-", 0)] {
        let mut c = c13_case(32_768, 4, 65_536, 80, &[3000, 200, 5000], faults_parse(f), None);
        for side in 0..2 { c.chans[side][0].max_retransmits = Some(mr); }
        v.push(c);
    }
    // the SCTP *server* as the bulk sender: its sender state (next_tsn, peer_rwnd, peer_cumulative_ack, advanced_peer_ack_tsn)
    // is seeded by handle_init / handle_cookie_echo, not by the client-side handlers. Every third case so far, mirrored
    // (roles of A and B exchanged; B then carries A's initial TSN, i.e. upper-half / wrapping values too) …
    let mirrored: Vec<Case> = v.iter().enumerate().filter(|(i, _)| args.tier_thorough || i % 3 == 0).map(|(_, c)| mirror(c)).collect();
    v.extend(mirrored);
    // … and a late / duplicated COOKIE-ECHO reaching the server while it is in the middle of a bulk transfer into a small window
    for f in ["A.COOKIEECHO.1.late3+B.DATA.4.delay9", "A.COOKIEECHO.1.late5+B.DATA.3.delay9", "A.COOKIEECHO.1.late8+B.TSN.2.dropn2", "A.INIT.1.dup+B.DATA.2.delay9"] {
        for (tb, rw) in [(Some(5000u32), 4096usize), (Some(0xFFFF_FFF0), 8192)] {
            let mut c = mirror(&c13_case(rw, 16, 256 * 1024, 200, &[24_000], vec![], None));
            c.faults = faults_parse(f);
            c.cfg[0].seed_tsn = Some(1000); c.cfg[1].seed_tsn = tb;
            v.push(c);
        }
    }
    let nrand = if args.tier_thorough { 200 } else { 10 };
    for _ in 0..nrand {
        let nf = rng.range(1, 4) as usize;
        let fs: Vec<Fault> = (0..nf).map(|_| { let side = rng.below(2) as usize;
            Fault { side, ctype: if side == 0 { 0 } else { 3 }, ordinal: rng.range(1, 8) as u32,
                action: match rng.below(4) { 0 => Action::Drop, 1 => Action::Dup, 2 => Action::Delay(rng.range(1, 9) as u32), _ => Action::Late(rng.range(1, 5) as u32) } } }).collect();
        let mut fs2: Vec<Fault> = vec![];
        for f in fs { if !fs2.iter().any(|g| g.side == f.side && g.ordinal == f.ordinal) { fs2.push(f); } }
        v.push(c13_case(*rng.pick(&[4096usize, 8192, 32_768]), *rng.pick(&[0usize, 1, 4]), *rng.pick(&[4800usize, 65_536]), 80,
            &[rng.range(1, 30_000) as usize, rng.range(0, 3000) as usize], fs2, *rng.pick(&[None, Some(0xFFFF_FFF0u32)])));
    }
    v
}

fn run_one(c: &Case, port: u16) -> Outcome {
    let rt = tokio::runtime::Builder::new_current_thread().enable_all().build().unwrap();
    rt.block_on(run_case(c, port))
}

fn emit_run(run: &mut Run, c: &Case, o: &Outcome, replay: bool) {
    let text = case_text(c);
    let wv = wire_verdict(&o.wire);
    let wops = o.wire.iter().map(|(s, p)| format!("{},{}", ["A", "B"][*s], hex(p))).collect::<Vec<_>>().join(" ");
    if replay { println!("wire: {}", wv.text); }
    run.case("wire", &wops, &wv.text, !o.wire.is_empty());
    for (sig, d) in &wv.fails { run.fail(sig, &text, d); if replay { println!("ORACLE-FAIL {sig} {d}"); } }
    for side in 0..2 {
        let (ops, out, fails) = txw_lines(side, c, o);
        if replay { println!("txw[{}]: {}", ["A", "B"][side], &out[out.rfind('|').unwrap_or(0)..]); }
        run.case("txw", &ops, &out, true);
        for (sig, d) in fails { run.fail(&sig, &text, &d); if replay { println!("ORACLE-FAIL {sig} {d}"); } }
    }
    // SACK chunks seen on the wire: the model re-encodes the parsed content byte for byte
    let mut ns = 0;
    for (_s, p) in &o.wire {
        let mut off = 12;
        while off + 4 <= p.len() {
            let len = u16::from_be_bytes([p[off + 2], p[off + 3]]) as usize;
            if len < 4 || off + len > p.len() { break; }
            let padded = len + (4 - len % 4) % 4;
            if p[off] == 3 && len >= 16 && ns < 40 {
                let v = &p[off + 4..off + len];
                let cum = u32::from_be_bytes([v[0], v[1], v[2], v[3]]);
                let rw = u32::from_be_bytes([v[4], v[5], v[6], v[7]]);
                let ng = u16::from_be_bytes([v[8], v[9]]) as usize;
                let nd = u16::from_be_bytes([v[10], v[11]]) as usize;
                if v.len() == 12 + 4 * ng + 4 * nd {
                    let gaps: Vec<(u16, u16)> = (0..ng).map(|i| (u16::from_be_bytes([v[12 + 4 * i], v[13 + 4 * i]]), u16::from_be_bytes([v[14 + 4 * i], v[15 + 4 * i]]))).collect();
                    let dups: Vec<u32> = (0..nd).map(|i| { let k = 12 + 4 * ng + 4 * i; u32::from_be_bytes([v[k], v[k + 1], v[k + 2], v[k + 3]]) }).collect();
                    let end = (off + padded).min(p.len());
                    run.case("sackchunk", &format!("{cum} {rw} {} {}", show_gaps(&gaps), show_u32s(&dups)), &hex(&p[off..end]), ng + nd > 0);
                    ns += 1;
                }
            }
            off += padded;
        }
    }
    let hb = o.wire.iter().filter(|(_, p)| p.len() > 12 && (p[12] == 4 || p[12] == 5)).count();
    if hb > 0 { run.count("runs_with_heartbeat"); }
    if c.cfg[0].heartbeat_ms < 1000 && o.wire.iter().filter(|(_, p)| p.len() > 12 && p[12] == 4).count() == 0 { run.fail("coverage:no-heartbeat-on-the-wire", &text, "a run with a 100 ms heartbeat interval and 700 ms of idle time shows no HEARTBEAT"); }
    if c.cfg[0].heartbeat_ms < 1000 && o.wire.iter().filter(|(_, p)| p.len() > 12 && p[12] == 5).count() == 0 { run.fail("coverage:no-heartbeat-ack-on-the-wire", &text, "HEARTBEATs are not answered"); }
    if o.traces[0].iter().any(|e| matches!(e, hook::Ev::Mark("t3", _))) { run.count("runs_with_t3"); }
    if o.traces[0].iter().any(|e| matches!(e, hook::Ev::Mark("tx_new", v) if v[3] == 1)) { run.count("runs_window_limited"); }
    if o.traces[0].iter().any(|e| matches!(e, hook::Ev::Mark("tx_new", v) if v[3] == 1 && v[0] == 0)) { run.count("runs_blocked_with_data_queued"); }
    // delivery must still be complete (a stalled sender is a C01 matter, but it would make this check vacuous)
    for (k, d) in crate::props::c01::oracle(c, o) { run.fail(&format!("c01:{k}"), &text, &d); if replay { println!("ORACLE-FAIL c01:{k} {d}"); } }
}

// ------------------------------------------------------------------------------------------
// (c) directed interleaving on the real sender: DATA sent, the retransmission timer (or the tail-loss probe) marks
// records for retransmission, a SACK whose gap blocks cover some of the marked records is processed BEFORE the
// retransmission pass runs (in the run loop: `timer_notify` and the incoming SACK ready in the same iteration, e.g. a
// SACK held back for about one RTO while an earlier TSN is lost), then `transmit()` — which `handle_sack` ends with.

/// `t3gap <base> <n> <len> <mode: t3|tlp> <cum offset from base, -1 = nothing> <gaps a-b,…|->`
pub struct T3Gap { pub base: u32, pub n: usize, pub len: usize, pub tlp: bool, pub cum_off: i64, pub gaps: Vec<(u16, u16)> }
impl T3Gap {
    pub fn text(&self) -> String { format!("{} {} {} {} {} {}", self.base, self.n, self.len, if self.tlp { "tlp" } else { "t3" }, self.cum_off, show_gaps(&self.gaps)) }
    pub fn parse(t: &str) -> Option<T3Gap> {
        let f: Vec<&str> = t.split_whitespace().collect();
        if f.len() != 6 { return None; }
        let gaps = if f[5] == "-" { vec![] } else { f[5].split(',').filter_map(|g| { let (a, b) = g.split_once('-')?; Some((a.parse().ok()?, b.parse().ok()?)) }).collect() };
        Some(T3Gap { base: f[0].parse().ok()?, n: f[1].parse().ok()?, len: f[2].parse().ok()?, tlp: f[3] == "tlp", cum_off: f[4].parse().ok()?, gaps })
    }
}

/// Oracle on everything the sender puts on the wire after the SACK was delivered to it:
/// no DATA chunk with user data leaves for a TSN that this SACK (cumulative TSN or a gap block) covers;
/// and nothing malformed leaves either (a datagram without a chunk, a DATA chunk shorter than its header).
pub async fn emit_t3gap(run: &mut Run, g: &T3Gap, port: u16, verbose: bool) {
    let mut cfg = EpCfg::default();
    cfg.rto_initial_ms = 20; cfg.rto_min_ms = 10; cfg.rto_max_ms = 80; cfg.max_burst = 16;
    let mut ep = Endpoint::new(port, port + 1, true, &cfg, &[]).await;
    for _ in 0..20 { tokio::task::yield_now().await; }
    ep.sctp.verif_set_state(rustrtc::transports::sctp::SctpState::Connected);
    let out: Vec<(u16, u32, u16, u8, usize, Option<u16>, bool)> = (0..g.n).map(|j| (1u16, 53u32, j as u16, 3u8, g.len, None, false)).collect();
    ep.sctp.verif_load_sender(&[], &out, 100_000, 0, 100_000, g.base, false);
    ep.sctp.verif_set_sack_history(g.base.wrapping_sub(1), 0);
    let _ = ep.sctp.verif_transmit().await;
    let mut first: Vec<u32> = vec![];
    while let Ok(p) = ep.out_rx.try_recv() { for (t, _f, v) in chunks_of(&p) { if t == 0 && v.len() >= 12 { first.push(u32::from_be_bytes([v[0], v[1], v[2], v[3]])); } } }
    let text = format!("t3gap {}", g.text());
    if first.len() != g.n { run.fail("coverage:t3gap-setup-did-not-send-the-data", &text, &format!("first flight {first:?}")); ep.shutdown(); return; }
    // the timer: wait out the RTO, mark (no retransmission yet: `handle_timeout` only notifies the run loop)
    let marked: Vec<u32>;
    if g.tlp { let _ = ep.sctp.verif_tlp_probe(); } else { tokio::time::sleep(Duration::from_millis(60)).await; let _ = ep.sctp.verif_handle_timeout().await; }
    marked = ep.sctp.verif_sent_queue().iter().filter(|r| r.needs_retransmit).map(|r| r.tsn).collect();
    while ep.out_rx.try_recv().is_ok() {}
    // the SACK, then (inside handle_sack) the retransmission pass
    let cum = g.base.wrapping_add(g.cum_off as u32);
    let mut v = Vec::new();
    v.extend_from_slice(&cum.to_be_bytes()); v.extend_from_slice(&100_000u32.to_be_bytes());
    v.extend_from_slice(&(g.gaps.len() as u16).to_be_bytes()); v.extend_from_slice(&0u16.to_be_bytes());
    for (a, b) in &g.gaps { v.extend_from_slice(&a.to_be_bytes()); v.extend_from_slice(&b.to_be_bytes()); }
    let _ = ep.sctp.verif_handle_sack(Bytes::from(v)).await;
    let covered = |t: u32| (t.wrapping_sub(cum) as i32) <= 0 || g.gaps.iter().any(|(a, b)| { let o = t.wrapping_sub(cum); *a as u32 <= o && o <= *b as u32 });
    let mut wire: Vec<String> = vec![];
    let mut marked_and_covered = 0;
    for t in &marked { if covered(*t) { marked_and_covered += 1; } }
    while let Ok(p) = ep.out_rx.try_recv() {
        let chunks = chunks_of(&p);
        if chunks.is_empty() {
            wire.push(format!("empty({})", p.len()));
            run.fail("wire:datagram-without-chunks", &text, &format!("after the SACK the sender emitted a {}-byte datagram that carries no chunk (retransmission pass on a record whose payload was freed by the gap ack)", p.len()));
        }
        for (t, _f, v) in chunks {
            if t != 0 { wire.push(format!("c{t}")); continue; }
            if v.len() < 12 { wire.push("short-data".into()); run.fail("wire:data-chunk-shorter-than-its-header", &text, &format!("{} value bytes", v.len())); continue; }
            let tsn = u32::from_be_bytes([v[0], v[1], v[2], v[3]]);
            wire.push(format!("D{tsn}:{}", v.len() - 12));
            if covered(tsn) && v.len() > 12 {
                run.fail("rexmit:data-after-covering-gap-ack", &text, &format!("TSN {tsn} ({} bytes of user data) was put on the wire again after a SACK covering it (cum {cum}, gaps {}) had been delivered to the sender; marked by the timer: {marked:?}", v.len() - 12, show_gaps(&g.gaps)));
            }
        }
    }
    if verbose { println!("first flight {first:?}; marked {marked:?}; after the SACK: [{}]", wire.join(" ")); for f in &run.fails { println!("ORACLE-FAIL {} {}", f.signature, f.detail); } }
    if marked_and_covered > 0 { run.count("t3gap_marked_then_gap_acked"); }
    run.count("t3gap_cases");
    ep.shutdown();
}

fn t3gap_cases(run: &mut Run, thorough: bool) {
    let rt = tokio::runtime::Builder::new_current_thread().enable_all().build().unwrap();
    rt.block_on(async {
        let mut port = 54_000u16;
        let mut v: Vec<T3Gap> = vec![];
        // the first chunk is lost, the SACK reports some of the later ones; T3 marks the first RETRANSMIT_BURST records
        for base in [5000u32, 0xFFFF_FFFE] { for (n, gaps) in [(3usize, vec![(2u16, 3u16)]), (5, vec![(2, 2), (4, 5)]), (6, vec![(3, 4)]), (4, vec![(2, 4)]), (6, vec![(2, 6)])] {
            v.push(T3Gap { base, n, len: 100, tlp: false, cum_off: -1, gaps: gaps.clone() });
            if thorough || base == 5000 { v.push(T3Gap { base, n, len: 1172, tlp: false, cum_off: 0, gaps: gaps.iter().map(|(a, b)| (*a, (*b).min(n as u16 - 1))).filter(|(a, b)| a <= b).collect() }); }
        } }
        // the tail-loss probe marks the last record; the SACK covers it by a gap block / by the cumulative TSN / not at all
        for (n, cum_off, gaps) in [(4usize, -1i64, vec![(4u16, 4u16)]), (4, 0, vec![(3, 3)]), (3, 2, vec![]), (4, 1, vec![])] {
            v.push(T3Gap { base: 700, n, len: 300, tlp: true, cum_off, gaps });
        }
        for g in &v { emit_t3gap(run, g, port, false).await; port += 2; }
    });
    if run.dist.get("t3gap_marked_then_gap_acked").copied().unwrap_or(0) == 0 { run.fail("coverage:t3gap-never-reached-marked-then-gap-acked", "t3gap", "no directed case had a record marked for retransmission and then covered by the SACK"); }
}

pub fn run(args: &Args) {
    if let Some(case) = &args.replay {
        if let Some(rest) = case.strip_prefix("t3gap ") {
            let mut run = Run::new("c13", &format!("{}/replay", args.out));
            match T3Gap::parse(rest) { Some(g) => { let rt = tokio::runtime::Builder::new_current_thread().enable_all().build().unwrap(); rt.block_on(emit_t3gap(&mut run, &g, 41_200, true)); }
                None => println!("cannot parse case: {case}") }
            return;
        }
        let Some(c) = parse_case(case) else { println!("cannot parse case: {case}"); return; };
        let o = run_one(&c, 41_000);
        println!("case: {}", case_text(&c));
        println!("connected={} elapsed={}ms packets={}", o.connected, o.elapsed_ms, o.wire.len());
        let mut run = Run::new("c13", &format!("{}/replay", args.out));
        emit_run(&mut run, &c, &o, true);
        return;
    }
    let mut run = Run::new("c13", &args.out);
    let mut rng = Rng::new(args.seed);
    func_cases(&mut run, &mut rng, args.tier_thorough);
    sender_cases(&mut run, &mut rng, args.tier_thorough);
    // `handle_sack` as a function (window variable, flight accounting, retransmissions it triggers) on SACK histories
    crate::props::c01::hsack_cases(&mut run, &mut rng, args.tier_thorough);
    t3gap_cases(&mut run, args.tier_thorough);
    let cs = cases(args, &mut rng);
    let nthreads = std::env::var("VERIF_THREADS").ok().and_then(|v| v.parse().ok()).unwrap_or(6usize);
    let next = std::sync::atomic::AtomicUsize::new(0);
    let results: Vec<parking_lot::Mutex<Option<Outcome>>> = cs.iter().map(|_| parking_lot::Mutex::new(None)).collect();
    std::thread::scope(|s| {
        for t in 0..nthreads {
            let (next, results, cs) = (&next, &results, &cs);
            s.spawn(move || loop {
                let i = next.fetch_add(1, std::sync::atomic::Ordering::SeqCst);
                if i >= cs.len() { break; }
                *results[i].lock() = Some(run_one(&cs[i], 3000 + (t as u16) * 4));
            });
        }
    });
    for (i, c) in cs.iter().enumerate() {
        let o = results[i].lock().take().unwrap();
        emit_run(&mut run, c, &o, false);
    }
    run.count_n("link_runs", cs.len() as u64);
    run.finish();
}
