//! Free-running stress of the real track queue (no scheduler installed: the yield points are
//! no-ops): 1–4 producer threads on cloned and/or shared handles using send / try_send /
//! send_many, one consumer, capacities 1–64, optional `stop()` and source drops at random points.
//! This is the property oracle on the implementation; nothing here is compared with the model.
use super::payload::{Registry, decode, make_sample};
use crate::{Args, Rng, Run};
use rustrtc::media::error::MediaError;
use rustrtc::media::frame::MediaKind;
use rustrtc::media::track::{MediaStreamTrack, SampleStreamSource, sample_track};
use std::future::Future;
use std::io::Write;
use std::sync::Arc;
use std::sync::atomic::{AtomicBool, Ordering};
use std::task::{Context, Poll, Wake, Waker};
use std::time::{Duration, Instant};

struct ThreadWaker { th: std::thread::Thread, flag: AtomicBool }
impl Wake for ThreadWaker {
    fn wake(self: Arc<Self>) { self.flag.store(true, Ordering::SeqCst); self.th.unpark(); }
}

fn block_on_deadline<F: Future>(fut: F, deadline: Instant) -> Option<F::Output> {
    let mut fut = std::pin::pin!(fut);
    let tw = Arc::new(ThreadWaker { th: std::thread::current(), flag: AtomicBool::new(false) });
    let waker = Waker::from(tw.clone());
    let mut cx = Context::from_waker(&waker);
    loop {
        if let Poll::Ready(v) = fut.as_mut().poll(&mut cx) { return Some(v); }
        while !tw.flag.swap(false, Ordering::SeqCst) {
            let now = Instant::now();
            if now >= deadline { return None; }
            std::thread::park_timeout((deadline - now).min(Duration::from_millis(50)));
        }
    }
}

#[derive(Clone, Debug)]
pub struct Round { pub cap: usize, pub nprod: usize, pub mode: u8, pub ops: usize, pub stop: bool, pub seed: u64 }

impl Round {
    pub fn text(&self) -> String { format!("stress,{},{},{},{},{},{}", self.cap, self.nprod, self.mode, self.ops, self.stop as u8, self.seed) }
    pub fn parse(s: &str) -> Option<Round> {
        let f: Vec<&str> = s.split(',').collect();
        if f.len() != 7 || f[0] != "stress" { return None; }
        Some(Round { cap: f[1].parse().ok()?, nprod: f[2].parse().ok()?, mode: f[3].parse().ok()?, ops: f[4].parse().ok()?,
                     stop: f[5] == "1", seed: f[6].parse().ok()? })
    }
}

pub struct RoundResult { pub fails: Vec<(String, String)>, pub received: usize, pub created: usize, pub hang: bool }

/// pipeline.rs pair: one `SampleQueueSender` shared by reference between the producer threads
fn run_round_pipe(r: &Round) -> RoundResult {
    let sig = |w: &str| format!("stress-pipe:{}:{}", r.nprod, w);
    let mut fails: Vec<(String, String)> = vec![];
    let reg = Registry::new(r.nprod * (r.ops * 4 + 8) + 16);
    let (sender, mut receiver) = rustrtc::media::pipeline::verif_sample_queue_channel(r.cap);
    let queue = receiver.verif_queue();
    let sender = Arc::new(sender);
    let go = Arc::new(AtomicBool::new(false));
    let mut rng = Rng::new(r.seed);
    let mut joins = vec![];
    for i in 0..r.nprod {
        let (reg, go, ops, h) = (reg.clone(), go.clone(), r.ops, sender.clone());
        let mut rg = rng.fork();
        joins.push(std::thread::spawn(move || {
            while !go.load(Ordering::Acquire) { std::hint::spin_loop(); }
            let mut val = 1u64;
            let mut errs = 0u64;
            for _ in 0..ops {
                val += 1;
                if rg.below(3) == 0 { let _ = h.try_send(make_sample(&reg, i as u64, val - 1)); }
                else if h.send(make_sample(&reg, i as u64, val - 1)).is_err() { errs += 1; }
                match rg.below(16) { 0 => std::thread::yield_now(), 1 => { for _ in 0..rg.below(200) { std::hint::spin_loop(); } } _ => {} }
            }
            drop(h);
            errs
        }));
    }
    drop(sender);
    let consumer = {
        let go = go.clone();
        std::thread::spawn(move || {
            while !go.load(Ordering::Acquire) { std::hint::spin_loop(); }
            let deadline = Instant::now() + Duration::from_secs(20);
            let mut got: Vec<Result<(u64, u64), String>> = vec![];
            loop {
                match block_on_deadline(receiver.recv(), deadline) {
                    None => return (got, false, true),
                    Some(Some(s)) => got.push(decode(&s)),
                    Some(None) => return (got, true, false),
                }
            }
        })
    };
    go.store(true, Ordering::Release);
    let mut errs = 0;
    for j in joins { errs += j.join().unwrap_or(1); }
    let (got, eos, hang) = consumer.join().unwrap_or((vec![], false, true));
    if errs > 0 { fails.push((sig("send-error-on-live-receiver"), format!("{errs} sends failed although the receiver was alive"))); }
    if hang { fails.push((sig("consumer-hang"), "recv() did not return 20 s after the sender was dropped".into())); }
    let mut last: std::collections::BTreeMap<u64, u64> = Default::default();
    let mut seen: std::collections::BTreeSet<(u64, u64)> = Default::default();
    for g in &got {
        match g {
            Err(e) => fails.push((sig("corrupt-sample"), e.clone())),
            Ok((p, v)) => {
                if !seen.insert((*p, *v)) { fails.push((sig("duplicate-sample"), format!("p{p} v{v} received twice"))); }
                if let Some(l) = last.get(p) { if *v <= *l { fails.push((sig("reordered-sample"), format!("p{p}: v{v} after v{l}"))); } }
                last.insert(*p, *v);
            }
        }
    }
    let queued = { let (h, t) = queue.verif_indices(); t.wrapping_sub(h) };
    if eos && queued != 0 { fails.push((sig("eos-before-drained"), format!("{queued} sample(s) left in the queue at end-of-stream"))); }
    let received = got.len();
    drop(got);
    if !hang {
        match Arc::try_unwrap(queue) { Ok(q) => drop(q), Err(_) => fails.push((sig("teardown"), "queue still shared".into())) }
        let (leaked, multi) = reg.balance();
        if leaked > 0 { fails.push((sig("leaked-sample"), format!("{leaked} of {} payloads never dropped", reg.created()))); }
        if multi > 0 { fails.push((sig("double-drop"), format!("{multi} of {} payloads dropped more than once", reg.created()))); }
    }
    RoundResult { fails, received, created: reg.created(), hang }
}

pub fn run_round(r: &Round) -> RoundResult {
    if r.mode == 3 { return run_round_pipe(r); }
    let sig = |w: &str| format!("stress:{}:{}", r.nprod, w);
    let mut fails: Vec<(String, String)> = vec![];
    let reg = Registry::new(r.nprod * (r.ops * 4 + 8) + 16);
    let (source, track, _fb) = sample_track(MediaKind::Audio, r.cap);
    // handles: mode 0 = one clone per thread, 1 = one shared Arc, 2 = two Arcs (each a clone) shared pairwise
    let mut handles: Vec<Arc<SampleStreamSource>> = vec![];
    match r.mode {
        0 => { for _ in 0..r.nprod { handles.push(Arc::new(source.clone())); } }
        1 => { let a = Arc::new(source.clone()); for _ in 0..r.nprod { handles.push(a.clone()); } }
        _ => { let a = Arc::new(source.clone()); let b = Arc::new(source.clone());
               for i in 0..r.nprod { handles.push(if i % 2 == 0 { a.clone() } else { b.clone() }); } }
    }
    drop(source);
    let go = Arc::new(AtomicBool::new(false));
    let mut rng = Rng::new(r.seed);
    let mut joins = vec![];
    for (i, h) in handles.into_iter().enumerate() {
        let (reg, go, ops) = (reg.clone(), go.clone(), r.ops);
        let mut rg = rng.fork();
        joins.push(std::thread::spawn(move || {
            while !go.load(Ordering::Acquire) { std::hint::spin_loop(); }
            let mut val = 1u64;
            let n = if rg.chance(1, 3) { rg.range(0, ops as u64) } else { ops as u64 };
            let mut closed_err = 0u64;
            for _ in 0..n {
                let res = match rg.below(10) {
                    0..=4 => { val += 1; h.send(make_sample(&reg, i as u64, val - 1)) }
                    5..=7 => { val += 1; match h.try_send(make_sample(&reg, i as u64, val - 1)) { Err(MediaError::WouldBlock) => Ok(()), x => x } }
                    _ => { let k = rg.range(1, 4); let v: Vec<_> = (0..k).map(|j| make_sample(&reg, i as u64, val + j)).collect(); val += k; h.send_many(v) }
                };
                if res.is_err() { closed_err += 1; }
                match rg.below(16) { 0 => std::thread::yield_now(), 1 => { for _ in 0..rg.below(200) { std::hint::spin_loop(); } } _ => {} }
            }
            drop(h);
            closed_err
        }));
    }
    let stopper = if r.stop {
        let (t, go) = (track.clone(), go.clone());
        let spins = rng.below(20_000);
        Some(std::thread::spawn(move || {
            while !go.load(Ordering::Acquire) { std::hint::spin_loop(); }
            for _ in 0..spins { std::hint::spin_loop(); }
            t.stop();
        }))
    } else { None };
    let consumer = {
        let (t, go) = (track.clone(), go.clone());
        std::thread::spawn(move || {
            while !go.load(Ordering::Acquire) { std::hint::spin_loop(); }
            let deadline = Instant::now() + Duration::from_secs(20);
            let mut got: Vec<Result<(u64, u64), String>> = vec![];
            loop {
                match block_on_deadline(t.recv(), deadline) {
                    None => return (got, false, true),
                    Some(Ok(s)) => got.push(decode(&s)),
                    Some(Err(MediaError::EndOfStream)) => return (got, true, false),
                    Some(Err(e)) => { got.push(Err(format!("unexpected error {e:?}"))); return (got, false, false); }
                }
            }
        })
    };
    go.store(true, Ordering::Release);
    let mut unexpected_closed = 0;
    for j in joins { unexpected_closed += j.join().unwrap_or(1); }
    if let Some(s) = stopper { let _ = s.join(); }
    let (got, eos, hang) = consumer.join().unwrap_or((vec![], false, true));
    if unexpected_closed > 0 { fails.push((sig("send-error-on-live-source"), format!("{unexpected_closed} sends failed on a live source"))); }
    if hang { fails.push((sig("consumer-hang"), "recv() did not return 20 s after every source was dropped".into())); }
    let mut last: std::collections::BTreeMap<u64, u64> = Default::default();
    let mut seen: std::collections::BTreeSet<(u64, u64)> = Default::default();
    for g in &got {
        match g {
            Err(e) => fails.push((sig("corrupt-sample"), e.clone())),
            Ok((p, v)) => {
                if !seen.insert((*p, *v)) { fails.push((sig("duplicate-sample"), format!("p{p} v{v} received twice"))); }
                if let Some(l) = last.get(p) { if *v <= *l { fails.push((sig("reordered-sample"), format!("p{p}: v{v} after v{l}"))); } }
                last.insert(*p, *v);
            }
        }
    }
    let queued = { let (h, t) = track.verif_queue().verif_indices(); t.wrapping_sub(h) };
    if eos && !r.stop && queued != 0 {
        fails.push((sig("eos-before-drained"), format!("{queued} sample(s) left in the queue at end-of-stream")));
    }
    let received = got.len();
    drop(got);
    if !hang {
        match Arc::try_unwrap(track) { Ok(t) => drop(t), Err(_) => fails.push((sig("teardown"), "track still shared".into())) }
        let (leaked, multi) = reg.balance();
        if leaked > 0 { fails.push((sig("leaked-sample"), format!("{leaked} of {} payloads never dropped", reg.created()))); }
        if multi > 0 { fails.push((sig("double-drop"), format!("{multi} of {} payloads dropped more than once", reg.created()))); }
    }
    RoundResult { fails, received, created: reg.created(), hang }
}

fn rounds(args: &Args, batch: u64, per_batch: usize) -> Vec<Round> {
    let mut rng = Rng::new(args.seed ^ 0xC20 ^ (batch << 32));
    (0..per_batch).map(|_| {
        let cap = match rng.below(4) { 0 => 1, 1 => rng.range(2, 4) as usize, 2 => rng.range(5, 16) as usize, _ => rng.range(17, 64) as usize };
        Round { cap, nprod: rng.range(1, 4) as usize, mode: rng.below(4) as u8,
                ops: *rng.pick(&[20usize, 200, 1000, 3000]), stop: rng.chance(1, 6), seed: rng.next() }
    }).collect()
}

pub fn child(spec: &str, args: &Args, out: &mut dyn Write) {
    let list: Vec<Round> = if spec.starts_with("stress,") { vec![Round::parse(spec).expect("bad stress spec")] } else {
        let f: Vec<&str> = spec.split(':').collect(); // batch:<id>:<n>
        rounds(args, f[1].parse().unwrap(), f[2].parse().unwrap())
    };
    for r in list {
        let _ = writeln!(out, "BEGIN {}", r.text());
        let _ = out.flush();
        let res = run_round(&r);
        let _ = writeln!(out, "STRESS {}\t{}\t{}", r.text(), res.received, res.created);
        for (s, d) in &res.fails { let _ = writeln!(out, "FAIL {}\t{}\t{}", s, r.text(), d); }
        if res.hang { break; }
    }
}

pub fn parent(run: &mut Run, args: &Args) {
    let (batches, per) = if args.tier_thorough { (16u64, 150usize) } else { (4, 40) };
    let results: Vec<super::ChildResult> = std::thread::scope(|sc| {
        let hs: Vec<_> = (0..batches).map(|b| sc.spawn(move || super::run_child(&format!("stress:batch:{b}:{per}"), args, 1800))).collect();
        hs.into_iter().map(|h| h.join().unwrap()).collect()
    });
    for res in results {
        for l in &res.lines {
            if let Some(c) = l.strip_prefix("STRESS ") {
                let f: Vec<&str> = c.split('\t').collect();
                run.count("stress_rounds");
                if let Some(r) = Round::parse(f[0]) {
                    run.count(&format!("stress_producers:{}", r.nprod));
                    run.count(&format!("stress_mode:{}", ["cloned", "shared", "mixed", "pipeline"][r.mode as usize % 4]));
                    run.count(&format!("stress_cap:{}", match r.cap { 1 => "1", 2..=4 => "2-4", 5..=16 => "5-16", _ => "17-64" }));
                    if r.stop { run.count("stress_with_stop"); }
                }
                run.count_n("stress_samples_created", f.get(2).and_then(|x| x.parse().ok()).unwrap_or(0));
                run.count_n("stress_samples_received", f.get(1).and_then(|x| x.parse().ok()).unwrap_or(0));
            } else if let Some(c) = l.strip_prefix("FAIL ") {
                let f: Vec<&str> = c.split('\t').collect();
                if f.len() >= 3 { run.fail(f[0], f[1], f[2]); }
            }
        }
        if !res.ok {
            let np = Round::parse(&res.last_begin).map(|r| r.nprod).unwrap_or(0);
            run.fail(&format!("stress:{}:crash-{}", np, res.status), &res.last_begin,
                     "child process running the free-running stress died (memory error / abort / hang)");
        }
    }
}
