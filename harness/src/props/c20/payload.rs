//! Tagged, drop-counted sample payloads: every sample carries (producer, value) redundantly in all
//! of its fields so that "bit-identical to one pushed sample" is checkable on receipt, and its
//! buffer is owned by a `Tracked` whose `Drop` is counted (leak / double-free detection).
use bytes::Bytes;
use rustrtc::media::frame::{AudioFrame, MediaSample};
use std::sync::Arc;
use std::sync::atomic::{AtomicU32, AtomicUsize, Ordering};

pub struct Registry {
    drops: Vec<AtomicU32>,
    next: AtomicUsize,
}

impl Registry {
    pub fn new(max: usize) -> Arc<Self> {
        Arc::new(Registry { drops: (0..max).map(|_| AtomicU32::new(0)).collect(), next: AtomicUsize::new(0) })
    }
    pub fn created(&self) -> usize { self.next.load(Ordering::SeqCst).min(self.drops.len()) }
    /// (never dropped, dropped more than once)
    pub fn balance(&self) -> (usize, usize) {
        let n = self.created();
        let mut leaked = 0;
        let mut multi = 0;
        for d in &self.drops[..n] {
            match d.load(Ordering::SeqCst) { 0 => leaked += 1, 1 => {}, _ => multi += 1 }
        }
        (leaked, multi)
    }
}

struct Tracked { reg: Arc<Registry>, idx: usize, bytes: [u8; 24] }
impl AsRef<[u8]> for Tracked { fn as_ref(&self) -> &[u8] { &self.bytes } }
impl Drop for Tracked {
    fn drop(&mut self) {
        if self.idx < self.reg.drops.len() { self.reg.drops[self.idx].fetch_add(1, Ordering::SeqCst); }
    }
}

const MAGIC: u64 = 0xC20C_20C2_0C20_C20C;

pub fn make_sample(reg: &Arc<Registry>, prod: u64, v: u64) -> MediaSample {
    let idx = reg.next.fetch_add(1, Ordering::SeqCst);
    let mut bytes = [0u8; 24];
    bytes[..8].copy_from_slice(&prod.to_be_bytes());
    bytes[8..16].copy_from_slice(&v.to_be_bytes());
    bytes[16..].copy_from_slice(&(MAGIC ^ prod.rotate_left(17) ^ v).to_be_bytes());
    MediaSample::Audio(AudioFrame {
        rtp_timestamp: v as u32,
        clock_rate: 48_000,
        data: Bytes::from_owner(Tracked { reg: reg.clone(), idx, bytes }),
        sequence_number: Some(v as u16),
        payload_type: Some(prod as u8),
        marker: v & 1 == 1,
        ..Default::default()
    })
}

/// Check that a received sample is bit-identical to a sample built by `make_sample`; returns its tag.
pub fn decode(s: &MediaSample) -> Result<(u64, u64), String> {
    let f = match s { MediaSample::Audio(f) => f, MediaSample::Video(_) => return Err("kind changed to video".into()) };
    let d = &f.data;
    if d.len() != 24 { return Err(format!("payload length {}", d.len())); }
    let prod = u64::from_be_bytes(d[..8].try_into().unwrap());
    let v = u64::from_be_bytes(d[8..16].try_into().unwrap());
    let chk = u64::from_be_bytes(d[16..].try_into().unwrap());
    if chk != MAGIC ^ prod.rotate_left(17) ^ v { return Err(format!("payload checksum mismatch prod={prod} v={v}")); }
    if f.rtp_timestamp != v as u32 || f.clock_rate != 48_000 || f.sequence_number != Some(v as u16)
        || f.payload_type != Some(prod as u8) || f.marker != (v & 1 == 1)
        || f.header_extension.is_some() || f.source_addr.is_some() || f.raw_packet.is_some() {
        return Err(format!("frame fields do not match payload tag prod={prod} v={v}"));
    }
    Ok((prod, v))
}
