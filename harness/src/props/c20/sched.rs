//! Schedule replay on the REAL code through the H4 yield points.
//!
//! Every logical thread of a case (producers `p0..`, the consumer `c`, the stopper `x`) is an OS
//! thread that installed a scheduler callback: at every `verif_yield(point)` it reports the point
//! and blocks until the controller grants it one step. A *label* lets one thread perform the
//! shared-memory access following its current yield point (and run on to its next yield point or
//! the end of its operation); an idle thread needs a label that names the operation to start.
//! The per-label tokens (yield point reached / operation result / blocked) are the observable
//! that is compared with the Lean model's run of the same label list.
use super::payload::{Registry, decode, make_sample};
use rustrtc::media::error::MediaError;
use rustrtc::media::frame::MediaKind;
use rustrtc::media::frame::MediaSample;
use rustrtc::media::pipeline::{ChannelMediaSource, MediaSource, SampleQueueReceiver, SampleQueueSender};
use rustrtc::media::spsc::SpscRing;
use rustrtc::media::track::{MediaStreamTrack, SampleStreamSource, SampleStreamTrack};
use rustrtc::verif_hooks::media as hook;
use std::cell::Cell;
use std::future::Future;
use std::pin::Pin;
use std::rc::Rc;
use std::sync::atomic::{AtomicBool, Ordering};
use std::sync::mpsc::{Receiver, RecvTimeoutError, Sender, channel};
use std::sync::{Arc, Mutex};
use std::task::{Context, Poll, Wake, Waker};
use std::time::Duration;

#[derive(Clone, Debug, PartialEq, Eq)]
pub enum Op {
    Send(Vec<u64>),   // one value: `send`; several: `send_many`
    TrySend(u64),
    CloneTo(usize),
    DropSrc,
    Recv,
    DropRecv, // pipeline.rs receiver only
    Stop,
}

#[derive(Clone, Copy, Debug, PartialEq, Eq, PartialOrd, Ord)]
pub enum Tid { Prod(usize), Cons, Stop }

#[derive(Clone, Debug, PartialEq, Eq)]
pub struct Label { pub tid: Tid, pub op: Option<Op> }

impl Label {
    pub fn text(&self) -> String {
        let t = match self.tid { Tid::Prod(i) => format!("p{i}"), Tid::Cons => "c".into(), Tid::Stop => "x".into() };
        match &self.op {
            None => t,
            Some(Op::Send(vs)) if vs.len() == 1 => format!("{t}:s{}", vs[0]),
            Some(Op::Send(vs)) => format!("{t}:m{}", vs.iter().map(|v| v.to_string()).collect::<Vec<_>>().join(".")),
            Some(Op::TrySend(v)) => format!("{t}:t{v}"),
            Some(Op::CloneTo(j)) => format!("{t}:c{j}"),
            Some(Op::DropSrc) => format!("{t}:d"),
            Some(Op::Recv) => format!("{t}:r"),
            Some(Op::DropRecv) => format!("{t}:d"),
            Some(Op::Stop) => format!("{t}:s"),
        }
    }
    pub fn parse(s: &str) -> Option<Label> {
        let (t, o) = match s.split_once(':') { Some((a, b)) => (a, Some(b)), None => (s, None) };
        let tid = if t == "c" { Tid::Cons } else if t == "x" { Tid::Stop }
                  else { Tid::Prod(t.strip_prefix('p')?.parse().ok()?) };
        let op = match o {
            None => None,
            Some(o) => Some(match (tid, o.chars().next()?) {
                (Tid::Cons, 'r') => Op::Recv,
                (Tid::Cons, 'd') => Op::DropRecv,
                (Tid::Stop, 's') => Op::Stop,
                (Tid::Prod(_), 's') => Op::Send(vec![o[1..].parse().ok()?]),
                (Tid::Prod(_), 'm') => Op::Send(if o.len() == 1 { vec![] } else {
                    o[1..].split('.').map(|x| x.parse().ok()).collect::<Option<Vec<u64>>>()? }),
                (Tid::Prod(_), 't') => Op::TrySend(o[1..].parse().ok()?),
                (Tid::Prod(_), 'c') => Op::CloneTo(o[1..].parse().ok()?),
                (Tid::Prod(_), 'd') => Op::DropSrc,
                _ => return None,
            }),
        };
        Some(Label { tid, op })
    }
}

enum Cmd { Start(Op), Step, Free, Quit }
enum Ev { Yield(u32), Done(String), Pending }

#[derive(Clone, Copy, Debug, PartialEq, Eq)]
pub enum WState {
    Idle,
    Parked(u32),
    Pending,
    /// granted a step into a blocking `lock()` that is held by another thread: the thread now sits
    /// inside the real `lock()` call and will go on by itself when the holder releases the lock
    InLock(u32),
}

/// the pipeline.rs queue pair: one sender shared by reference between the producer threads
struct Pipe {
    queue: Arc<SpscRing<MediaSample>>,
    pop_lock: Arc<parking_lot::Mutex<()>>,
    closed: Arc<AtomicBool>,
    sender: std::sync::Weak<SampleQueueSender>,
    senders: Mutex<Vec<Option<Arc<SampleQueueSender>>>>,
    receiver: Mutex<Option<SampleQueueReceiver>>,
}

struct Shared {
    track: Option<Arc<SampleStreamTrack>>,
    pipe: Option<Pipe>,
    reg: Arc<Registry>,
    mailbox: Mutex<Vec<Option<SampleStreamSource>>>,
    woken: AtomicBool,
    received: Mutex<Vec<Result<(u64, u64), String>>>,
}

struct WakeFlag(Arc<Shared>);
impl Wake for WakeFlag {
    fn wake(self: Arc<Self>) { self.0.woken.store(true, Ordering::SeqCst); }
}

struct Worker { tx: Sender<Cmd>, rx: Receiver<Ev>, state: WState, join: Option<std::thread::JoinHandle<()>> }

fn err_text(e: &MediaError) -> &'static str {
    match e {
        MediaError::EndOfStream => "eos", MediaError::Lagged => "lag", MediaError::Closed => "cl",
        MediaError::WouldBlock => "wb", MediaError::KindMismatch { .. } => "km",
    }
}

fn spawn_worker(tid: Tid, sh: Arc<Shared>) -> Worker {
    let (tx_cmd, rx_cmd) = channel::<Cmd>();
    let (tx_ev, rx_ev) = channel::<Ev>();
    let join = std::thread::spawn(move || {
        let rx_cmd = Rc::new(rx_cmd);
        let free = Rc::new(Cell::new(false));
        {
            let (rx_cmd, free, tx_ev) = (rx_cmd.clone(), free.clone(), tx_ev.clone());
            hook::install_scheduler(Box::new(move |p| {
                if free.get() { return; }
                let _ = tx_ev.send(Ev::Yield(p));
                match rx_cmd.recv() {
                    Ok(Cmd::Step) => {}
                    _ => free.set(true), // Free / Quit / controller gone: run on without control
                }
            }));
        }
        let mut src: Option<SampleStreamSource> = None;
        let mut psend: Option<Arc<SampleQueueSender>> = None;
        // the pipeline pair is consumed through its public `MediaSource` wrapper (own `ended` latch)
        let mut precv: Option<ChannelMediaSource> = None;
        loop {
            let op = match rx_cmd.recv() { Ok(Cmd::Start(op)) => op, Ok(Cmd::Free) => { free.set(true); continue; } _ => break };
            if let Tid::Prod(i) = tid {
                if src.is_none() { src = sh.mailbox.lock().unwrap()[i].take(); }
                if let Some(p) = &sh.pipe { if psend.is_none() { psend = p.senders.lock().unwrap()[i].take(); } }
            }
            if let (Tid::Cons, Some(p)) = (tid, &sh.pipe) { if precv.is_none() { precv = p.receiver.lock().unwrap().take().map(|r| ChannelMediaSource::new(Arc::from("verif"), MediaKind::Audio, r)); } }
            let res: String = match (&op, tid) {
                (Op::Send(vs), Tid::Prod(i)) if sh.pipe.is_some() => {
                    let s = psend.as_ref().expect("producer without sender");
                    let mut r = "ok";
                    for v in vs { if s.send(make_sample(&sh.reg, i as u64, *v)).is_err() { r = "cl"; break; } }
                    r.into()
                }
                (Op::TrySend(v), Tid::Prod(i)) if sh.pipe.is_some() => {
                    match psend.as_ref().expect("producer without sender").try_send(make_sample(&sh.reg, i as u64, *v)) {
                        Ok(()) => "ok".into(), Err(_) => "err".into() }
                }
                (Op::DropSrc, Tid::Prod(_)) if sh.pipe.is_some() => { drop(psend.take()); "dropped".into() }
                (Op::Recv, Tid::Cons) if sh.pipe.is_some() => {
                    let mut rx = precv.take().expect("receiver already dropped");
                    let mut fut: Pin<Box<dyn Future<Output = _>>> = Box::pin(async move { let r = rx.next_sample().await; (rx, r) });
                    let waker = Waker::from(Arc::new(WakeFlag(sh.clone())));
                    let mut cx = Context::from_waker(&waker);
                    loop {
                        match fut.as_mut().poll(&mut cx) {
                            Poll::Ready((rx, Ok(s))) => {
                                precv = Some(rx);
                                let d = decode(&s);
                                let t = match &d { Ok((p, v)) => format!("v{p}.{v}"), Err(_) => "corrupt".into() };
                                sh.received.lock().unwrap().push(d);
                                break t;
                            }
                            Poll::Ready((rx, Err(e))) => { precv = Some(rx); break err_text(&e).into(); }
                            Poll::Pending => {
                                if free.get() { break "abandoned".into(); }
                                let _ = tx_ev.send(Ev::Pending);
                                match rx_cmd.recv() { Ok(Cmd::Step) => {}, _ => { free.set(true); break "abandoned".into(); } }
                            }
                        }
                    }
                }
                (Op::DropRecv, Tid::Cons) if sh.pipe.is_some() => { drop(precv.take()); "dropped".into() }
                (Op::Send(vs), Tid::Prod(i)) => {
                    let s = src.as_ref().expect("producer without handle");
                    let r = if vs.len() == 1 { s.send(make_sample(&sh.reg, i as u64, vs[0])) }
                            else { s.send_many(vs.iter().map(|v| make_sample(&sh.reg, i as u64, *v)).collect::<Vec<_>>()) };
                    match r { Ok(()) => "ok".into(), Err(e) => err_text(&e).into() }
                }
                (Op::TrySend(v), Tid::Prod(i)) => {
                    match src.as_ref().expect("producer without handle").try_send(make_sample(&sh.reg, i as u64, *v)) {
                        Ok(()) => "ok".into(), Err(e) => err_text(&e).into() }
                }
                (Op::CloneTo(j), Tid::Prod(_)) => {
                    let c = src.as_ref().expect("producer without handle").clone();
                    sh.mailbox.lock().unwrap()[*j] = Some(c);
                    "cloned".into()
                }
                (Op::DropSrc, Tid::Prod(_)) => { drop(src.take()); "dropped".into() }
                (Op::Recv, Tid::Cons) => {
                    let track = sh.track.clone().expect("track backend");
                    let mut fut: Pin<Box<dyn Future<Output = _>>> = Box::pin(async move { track.recv().await });
                    let waker = Waker::from(Arc::new(WakeFlag(sh.clone())));
                    let mut cx = Context::from_waker(&waker);
                    loop {
                        match fut.as_mut().poll(&mut cx) {
                            Poll::Ready(Ok(s)) => {
                                let d = decode(&s);
                                let t = match &d { Ok((p, v)) => format!("v{p}.{v}"), Err(_) => "corrupt".into() };
                                sh.received.lock().unwrap().push(d);
                                break t;
                            }
                            Poll::Ready(Err(e)) => break err_text(&e).into(),
                            Poll::Pending => {
                                if free.get() { break "abandoned".into(); }
                                let _ = tx_ev.send(Ev::Pending);
                                match rx_cmd.recv() { Ok(Cmd::Step) => {}, _ => { free.set(true); break "abandoned".into(); } }
                            }
                        }
                    }
                }
                (Op::Stop, Tid::Stop) => { sh.track.as_ref().expect("track backend").stop(); "stopped".into() }
                _ => "bad-op".into(),
            };
            let _ = tx_ev.send(Ev::Done(res));
        }
        drop(src);
        drop(psend);
        drop(precv);
        hook::remove_scheduler();
    });
    Worker { tx: tx_cmd, rx: rx_ev, state: WState::Idle, join: Some(join) }
}

pub struct Init { pub cap: usize, pub start: usize, pub nprod: usize, pub pipe: bool }

/// What the controller can tell about a thread before granting it a step.
#[derive(Clone, Copy, Debug, PartialEq, Eq)]
pub enum Avail { NeedsOp, Runnable, Blocked, NoHandle }

const PROBE_WAIT: Duration = Duration::from_millis(12);

pub struct Case {
    pub init: Init,
    sh: Arc<Shared>,
    prods: Vec<Option<Worker>>,
    cons: Option<Worker>,
    stop: Option<Worker>,
    /// handle bookkeeping mirrored from the operations granted so far:
    /// 0 never had, 1 has, 2 gone, 3 reserved (a clone for this thread is in progress)
    pub handle: Vec<u8>,
    clone_target: Vec<usize>,
    push_lock: Option<Arc<parking_lot::Mutex<()>>>,
    pub recv_dropped: bool,
    /// end-of-stream returned (no stop() started before) with samples queued / source not closed
    pub eos_early: Option<(usize, bool)>,
    /// who is inside the producer-lock / consumer-lock region (tracked from the yield points passed)
    holder_push: Option<Tid>,
    holder_pop: Option<Tid>,
    /// steps that happened without a grant: a thread waiting inside `lock()` acquired it
    implicit: Vec<(Label, String)>,
    /// a thread went through a lock that the model (and the real mutex state) says is held
    pub lock_fail: Option<String>,
    pub probes: usize,
    /// how long a probed thread is given to come back through a held lock
    pub probe_wait: Duration,
    pub stop_called: bool,
    pub eos_seen: bool,
    pub timeout: bool,
}

pub const MAX_PROD: usize = 4;
const STEP_TIMEOUT: Duration = Duration::from_secs(4);

impl Case {
    pub fn new(init: Init) -> Case {
        let reg = Registry::new(4096);
        let mut handle = vec![0u8; MAX_PROD];
        let n = init.nprod.clamp(1, MAX_PROD);
        let (sh, push_lock) = if init.pipe {
            let (sender, receiver) = if init.start == 0 { rustrtc::media::pipeline::verif_sample_queue_channel(init.cap) }
                else { rustrtc::media::pipeline::verif_sample_queue_channel_with_start(init.cap, init.start) };
            let sender = Arc::new(sender);
            let pipe = Pipe { queue: receiver.verif_queue(), pop_lock: receiver.verif_pop_lock(), closed: receiver.verif_closed_flag(),
                sender: Arc::downgrade(&sender),
                senders: Mutex::new((0..MAX_PROD).map(|j| if j < n { Some(sender.clone()) } else { None }).collect()),
                receiver: Mutex::new(Some(receiver)) };
            drop(sender);
            for h in handle.iter_mut().take(n) { *h = 1; }
            (Arc::new(Shared { track: None, pipe: Some(pipe), reg, mailbox: Mutex::new((0..MAX_PROD).map(|_| None).collect()),
                woken: AtomicBool::new(false), received: Mutex::new(vec![]) }), None)
        } else {
            // the plain public constructor unless the run needs the ring indices to start elsewhere
            let (source, track) = if init.start == 0 {
                let (s, t, _fb) = rustrtc::media::track::sample_track(MediaKind::Audio, init.cap);
                (s, t)
            } else {
                rustrtc::media::track::verif_sample_track_with_start(MediaKind::Audio, init.cap, init.start)
            };
            let push_lock = source.verif_push_lock();
            let sh = Arc::new(Shared { track: Some(track), pipe: None, reg, mailbox: Mutex::new((0..MAX_PROD).map(|_| None).collect()),
                woken: AtomicBool::new(false), received: Mutex::new(vec![]) });
            {
                // unscheduled set-up: `nprod` cloned handles (no scheduler is installed on this thread)
                let mut mb = sh.mailbox.lock().unwrap();
                for j in 1..n { mb[j] = Some(source.clone()); handle[j] = 1; }
                mb[0] = Some(source); handle[0] = 1;
            }
            (sh, Some(push_lock))
        };
        Case { init, sh, prods: (0..MAX_PROD).map(|_| None).collect(), cons: None, stop: None, handle,
               clone_target: vec![0; MAX_PROD], push_lock, recv_dropped: false, eos_early: None, holder_push: None, holder_pop: None, implicit: vec![], lock_fail: None, probes: 0, probe_wait: PROBE_WAIT, stop_called: false, eos_seen: false, timeout: false }
    }

    fn worker(&mut self, t: Tid) -> &mut Worker {
        let sh = self.sh.clone();
        let slot = match t { Tid::Prod(i) => &mut self.prods[i], Tid::Cons => &mut self.cons, Tid::Stop => &mut self.stop };
        slot.get_or_insert_with(|| spawn_worker(t, sh))
    }
    pub fn state(&self, t: Tid) -> WState {
        let slot = match t { Tid::Prod(i) => &self.prods[i], Tid::Cons => &self.cons, Tid::Stop => &self.stop };
        slot.as_ref().map(|w| w.state).unwrap_or(WState::Idle)
    }
    pub fn push_locked(&self) -> bool {
        match (&self.push_lock, &self.sh.pipe) {
            (Some(l), _) => l.is_locked(),
            (None, Some(p)) => p.sender.upgrade().map(|s| s.verif_push_locked()).unwrap_or(false),
            _ => false,
        }
    }
    pub fn pop_locked(&self) -> bool {
        match (&self.sh.track, &self.sh.pipe) { (Some(t), _) => t.verif_pop_locked(), (None, Some(p)) => p.pop_lock.is_locked(), _ => false }
    }
    fn indices(&self) -> (usize, usize) {
        match (&self.sh.track, &self.sh.pipe) { (Some(t), _) => t.verif_queue().verif_indices(), (None, Some(p)) => p.queue.verif_indices(), _ => (0, 0) }
    }

    pub fn avail(&self, t: Tid) -> Avail {
        if let Tid::Prod(i) = t { if i >= MAX_PROD || (self.handle[i] != 1 && self.state(t) == WState::Idle) { return Avail::NoHandle; } }
        match self.state(t) {
            WState::Idle => Avail::NeedsOp,
            WState::Parked(p) if p == hook::point::RECV_LOCK_POP && self.pop_locked() => Avail::Blocked,
            WState::Parked(p) if p == hook::point::SRC_LOCK_PUSH && self.push_locked() => Avail::Blocked,
            WState::Parked(_) => Avail::Runnable,
            WState::Pending => if self.sh.woken.load(Ordering::SeqCst) { Avail::Runnable } else { Avail::Blocked },
            WState::InLock(_) => Avail::Blocked,
        }
    }

    /// A blocked thread that can be *probed*: it is parked in front of a blocking `lock()` and no
    /// other thread is already waiting inside that lock.
    pub fn probeable(&self, t: Tid) -> bool {
        match self.state(t) {
            WState::Parked(p) if p == hook::point::SRC_LOCK_PUSH || p == hook::point::RECV_LOCK_POP =>
                self.avail(t) == Avail::Blocked && !self.all_tids().iter().any(|u| self.state(*u) == WState::InLock(p)),
            _ => false,
        }
    }
    fn all_tids(&self) -> Vec<Tid> { let mut v: Vec<Tid> = (0..MAX_PROD).map(Tid::Prod).collect(); v.push(Tid::Cons); v.push(Tid::Stop); v }

    /// points at which a thread is inside the consumer-side lock region
    fn in_pop_region(p: u32) -> bool {
        use hook::point::*;
        matches!(p, RECV_LOAD_CLOSED | POP_LOAD_HEAD | POP_LOAD_TAIL | POP_READ_SLOT | POP_STORE_HEAD | POP_RETURN_NONE | RECV_STORE_ENDED)
    }

    /// bookkeeping after thread `t` moved from `before` to its current state
    fn track_regions(&mut self, t: Tid, before: WState) -> Vec<u32> {
        let after = self.state(t);
        let was_push = self.holder_push == Some(t);
        let was_pop = self.holder_pop == Some(t);
        // producer lock: entered by passing y20, left when the operation ends or the next sample starts
        if before == WState::Parked(hook::point::SRC_LOCK_PUSH) && matches!(after, WState::Parked(p) if p != hook::point::SRC_LOCK_PUSH) { self.holder_push = Some(t); }
        if was_push && matches!(after, WState::Idle | WState::Parked(hook::point::SRC_LOCK_PUSH)) { self.holder_push = None; }
        // consumer-side lock: entered by passing y41 (recv) or a successful y22 (drop-oldest)
        match (before, after) {
            (WState::Parked(b), WState::Parked(a)) if b == hook::point::RECV_LOCK_POP && Self::in_pop_region(a) => self.holder_pop = Some(t),
            (WState::Parked(b), WState::Parked(a)) if b == hook::point::SRC_TRYLOCK_POP && a == hook::point::POP_LOAD_HEAD => self.holder_pop = Some(t),
            _ => {}
        }
        if was_pop {
            let still = match (t, after) {
                (Tid::Prod(_), WState::Parked(p)) => p != hook::point::SRC_LOCK_PUSH, // producer keeps it to the end of the call
                (_, WState::Parked(p)) => Self::in_pop_region(p),
                _ => false,
            };
            if !still { self.holder_pop = None; }
        }
        // a released lock is taken at once by the thread waiting inside `lock()`, if any
        let released: Vec<u32> = [(was_push && self.holder_push.is_none(), hook::point::SRC_LOCK_PUSH),
                                  (was_pop && self.holder_pop.is_none(), hook::point::RECV_LOCK_POP)]
            .iter().filter(|x| x.0).map(|x| x.1).collect();
        let waiters: Vec<(u32, Tid)> = released.iter().filter_map(|p|
            self.all_tids().into_iter().find(|u| self.state(*u) == WState::InLock(*p)).map(|u| (*p, u))).collect();
        let mut raw: Vec<(u32, Tid, String)> = vec![];
        for (p, u) in &waiters {
            let tok = self.await_event(*u);
            // the waiter now holds the lock it was waiting for
            if *p == hook::point::SRC_LOCK_PUSH { self.holder_push = Some(*u); } else { self.holder_pop = Some(*u); }
            raw.push((*p, *u, tok));
        }
        // tokens in hand-over order; the lock bits are those of the state in which the later
        // hand-overs have not happened yet (what the model sees label by label)
        for (k, (_p, u, tok)) in raw.iter().enumerate() {
            let later: Vec<u32> = raw[k + 1..].iter().map(|x| x.0).collect();
            let mut tok = tok.clone();
            if self.push_locked() && !later.contains(&hook::point::SRC_LOCK_PUSH) { tok.push('+'); }
            if self.pop_locked() && !later.contains(&hook::point::RECV_LOCK_POP) { tok.push('*'); }
            self.implicit.push((Label { tid: *u, op: None }, tok));
        }
        waiters.iter().map(|w| w.0).collect()
    }

    /// labels that executed without being granted (see `WState::InLock`), with their tokens
    pub fn take_implicit(&mut self) -> Vec<(Label, String)> { std::mem::take(&mut self.implicit) }

    /// Grant a step to a thread that is blocked in front of `lock()`: if the lock works the thread
    /// does not come back (token `B`, it now waits inside the lock); if it does come back the lock
    /// did not block — a violation with this very schedule as its replay.
    fn probe(&mut self, t: Tid) -> String {
        let p = match self.state(t) { WState::Parked(p) => p, _ => return "B".into() };
        self.probes += 1;
        let _ = self.worker(t).tx.send(Cmd::Step);
        let wait = self.probe_wait;
        match self.worker(t).rx.recv_timeout(wait) {
            Err(_) => { self.worker(t).state = WState::InLock(p); "B".into() }
            Ok(ev) => {
                let tok = match ev {
                    Ev::Yield(q) => { self.worker(t).state = WState::Parked(q); format!("{q}") }
                    Ev::Pending => { self.worker(t).state = WState::Pending; "P".into() }
                    Ev::Done(r) => { self.worker(t).state = WState::Idle; format!("={r}") }
                };
                self.lock_fail = Some(format!("thread at yield point {p} went through a lock that another thread holds (next: {tok})"));
                tok
            }
        }
    }

    fn await_event(&mut self, t: Tid) -> String {
        let ev = self.worker(t).rx.recv_timeout(STEP_TIMEOUT);
        match ev {
            Ok(Ev::Yield(p)) => { self.worker(t).state = WState::Parked(p); format!("{p}") }
            Ok(Ev::Pending) => { self.worker(t).state = WState::Pending; "P".into() }
            Ok(Ev::Done(r)) => {
                self.worker(t).state = WState::Idle;
                if r == "eos" {
                    self.eos_seen = true;
                    // judged at the moment end-of-stream is returned: without a stop() so far it may
                    // only be returned when every source is gone and nothing is queued any more
                    if !self.stop_called && self.eos_early.is_none() {
                        let (cl, _) = self.flags();
                        let q = self.queue_len();
                        if q != 0 || !cl { self.eos_early = Some((q, cl)); }
                    }
                }
                if let (Tid::Prod(i), "cloned") = (t, r.as_str()) { let j = self.clone_target[i]; self.handle[j] = 1; }
                format!("={r}")
            }
            Err(RecvTimeoutError::Timeout) | Err(RecvTimeoutError::Disconnected) => { self.timeout = true; "TIMEOUT".into() }
        }
    }

    /// Execute one label; returns its token: what the thread did (`-` nothing to do, `B` blocked,
    /// `P` recv pending, `=res` operation finished, else the yield point it is now parked at)
    /// followed by `+` if the producer lock and `*` if the consumer-side lock is held afterwards.
    pub fn step(&mut self, l: &Label) -> String {
        let before = self.state(l.tid);
        let mut t = if self.probeable(l.tid) { self.probe(l.tid) } else { self.step_inner(l) };
        let handed = if matches!(self.state(l.tid), WState::InLock(_)) { vec![] } else { self.track_regions(l.tid, before) };
        if self.push_locked() && !handed.contains(&hook::point::SRC_LOCK_PUSH) { t.push('+'); }
        if self.pop_locked() && !handed.contains(&hook::point::RECV_LOCK_POP) { t.push('*'); }
        t
    }

    fn step_inner(&mut self, l: &Label) -> String {
        if self.timeout { return "TIMEOUT".into(); }
        match self.avail(l.tid) {
            Avail::NoHandle => "-".into(),
            Avail::Blocked => "B".into(),
            Avail::NeedsOp => {
                let op = match &l.op { Some(op) => op.clone(), None => return "-".into() };
                if let (Tid::Prod(i), Op::CloneTo(j)) = (l.tid, &op) {
                    if *j >= MAX_PROD || self.handle[*j] != 0 || *j == i { return "-".into(); }
                    self.handle[*j] = 3;
                    self.clone_target[i] = *j;
                }
                if let (Tid::Prod(i), Op::DropSrc) = (l.tid, &op) { self.handle[i] = 2; }
                if op == Op::Stop { self.stop_called = true; }
                if self.is_pipe() && matches!(op, Op::CloneTo(_) | Op::Stop) { return "-".into(); }
                if self.is_pipe() && self.recv_dropped && matches!(op, Op::Recv | Op::DropRecv) { return "-".into(); }
                if !self.is_pipe() && op == Op::DropRecv { return "-".into(); }
                if op == Op::DropRecv { self.recv_dropped = true; }
                let _ = self.worker(l.tid).tx.send(Cmd::Start(op));
                self.await_event(l.tid)
            }
            Avail::Runnable => {
                if self.state(l.tid) == WState::Pending { self.sh.woken.store(false, Ordering::SeqCst); }
                let _ = self.worker(l.tid).tx.send(Cmd::Step);
                self.await_event(l.tid)
            }
        }
    }

    /// Observable shared state (compared with the model after the last label).
    pub fn end_token(&self) -> String {
        let (h, t) = self.indices();
        let (cl, en) = self.flags();
        format!("end:h={h},t={t},cl={},en={},pl={}", cl as u8, en as u8, self.pop_locked() as u8)
    }

    pub fn consumer_stuck(&self) -> bool {
        self.state(Tid::Cons) == WState::Pending && !self.sh.woken.load(Ordering::SeqCst)
    }
    pub fn all_producers_gone(&self) -> bool {
        (0..MAX_PROD).all(|i| self.handle[i] != 1 && self.handle[i] != 3 && self.state(Tid::Prod(i)) == WState::Idle)
    }
    pub fn stopper_idle(&self) -> bool { self.state(Tid::Stop) == WState::Idle }
    pub fn all_idle(&self) -> bool {
        (0..MAX_PROD).all(|i| self.state(Tid::Prod(i)) == WState::Idle) && self.state(Tid::Cons) == WState::Idle && self.stopper_idle()
    }
    /// number of queued samples from the raw indices (`len()` saturates across the index wrap-around)
    pub fn queue_len(&self) -> usize { let (h, t) = self.indices(); t.wrapping_sub(h) }
    pub fn flags(&self) -> (bool, bool) {
        match (&self.sh.track, &self.sh.pipe) { (Some(t), _) => t.verif_flags(), (None, Some(p)) => (p.closed.load(Ordering::SeqCst), false), _ => (false, false) }
    }
    pub fn is_pipe(&self) -> bool { self.sh.pipe.is_some() }
    pub fn received(&self) -> Vec<Result<(u64, u64), String>> { self.sh.received.lock().unwrap().clone() }

    /// Let every thread run on without control, join them, drop everything; returns
    /// (payloads created, never dropped, dropped more than once, clean shutdown).
    pub fn finish(mut self) -> (usize, usize, usize, bool) {
        let mut clean = true;
        let mut ws: Vec<Worker> = self.prods.drain(..).flatten().collect();
        ws.extend(self.cons.take());
        ws.extend(self.stop.take());
        for w in &ws { let _ = w.tx.send(Cmd::Free); }
        for w in &ws { let _ = w.tx.send(Cmd::Quit); }
        for mut w in ws {
            if let Some(j) = w.join.take() {
                // join with a deadline: a thread that never finishes is a hang (deadlock)
                let t0 = std::time::Instant::now();
                while !j.is_finished() && t0.elapsed() < STEP_TIMEOUT { std::thread::sleep(Duration::from_micros(50)); }
                if j.is_finished() { let _ = j.join(); } else { clean = false; }
            }
        }
        let reg = self.sh.reg.clone();
        self.sh.mailbox.lock().unwrap().iter_mut().for_each(|s| { s.take(); });
        if let Some(p) = &self.sh.pipe { p.senders.lock().unwrap().iter_mut().for_each(|s| { s.take(); }); p.receiver.lock().unwrap().take(); }
        let sh = self.sh.clone();
        drop(self);
        if clean {
            // the track (and with it the ring) is dropped here: `Drop for SpscRing` drains the slots
            match Arc::try_unwrap(sh) { Ok(s) => drop(s), Err(_) => clean = false }
        }
        let (leaked, multi) = reg.balance();
        (reg.created(), leaked, multi, clean)
    }
}

impl Drop for Case {
    fn drop(&mut self) {
        for w in self.prods.iter().chain([&self.cons, &self.stop]).flatten() { let _ = w.tx.send(Cmd::Free); let _ = w.tx.send(Cmd::Quit); }
    }
}
