//! C20 — track sample queue under concurrency.
//!
//! (1) Schedule replay: exact interleavings of small programs are executed on the real
//!     `SampleStreamSource` / `SampleStreamTrack` / `SpscRing` through the H4 yield points
//!     (`sched.rs`) and the per-step observations are compared with the Lean model
//!     (`RtcModel.SpscTrack`, stream `sched`). Exhaustive for tiny programs, seeded random otherwise.
//! (2) Property oracles evaluated directly on the implementation for every replayed schedule and
//!     for a free-running multi-threaded stress (`stress.rs`): received samples are bit-identical to
//!     pushed ones, never duplicated, per-producer order kept, drop balance (every payload dropped
//!     exactly once), end-of-stream only after draining, no hang after close/stop.
//! All of it runs in child processes of this executable, because a broken queue corrupts memory.
pub mod payload;
pub mod sched;
pub mod stress;

use crate::{Args, Rng, Run};
use sched::{Avail, Case, Init, Label, Op, Tid, WState, MAX_PROD};
use std::io::{BufRead, Write};

// ------------------------------------------------------------------------------------------------
// programs

#[derive(Clone, Debug)]
pub struct Program {
    pub name: String,
    pub init: (usize, usize, usize), // cap, start, nprod
    pub pipe: bool,                  // the pipeline.rs queue pair instead of the track pair
    pub probe: bool,                 // granting a thread that waits in front of a held lock is a choice
    pub prods: Vec<Vec<Op>>,
    pub cons: Vec<Op>,
    pub stop: Vec<Op>,
}

impl Program {
    fn ops(&self, t: Tid) -> &[Op] {
        match t { Tid::Prod(i) => self.prods.get(i).map(|v| &v[..]).unwrap_or(&[]), Tid::Cons => &self.cons, Tid::Stop => &self.stop }
    }
    fn tids(&self) -> Vec<Tid> {
        let mut v: Vec<Tid> = (0..self.prods.len()).map(Tid::Prod).collect();
        v.push(Tid::Cons);
        v.push(Tid::Stop);
        v
    }
}

pub struct Outcome {
    pub pipe: bool,
    pub input: String,
    pub output: String,
    pub fails: Vec<(String, String)>,
    pub preemptions: usize,
    pub steps: usize,
    pub blocked_tokens: usize,
    pub probes: usize,
}

fn init_text(i: &(usize, usize, usize), pipe: bool) -> String { format!("{},{},{},{}", if pipe { "pinit" } else { "init" }, i.0, i.1, i.2) }

/// `<producers>` part of the signature `sched:<producers>:<violated invariant>`
pub fn sig_tag(i: &(usize, usize, usize)) -> String {
    i.2.to_string()
}

#[allow(non_snake_case)]
fn MAX_PROD_IDLE(case: &Case) -> bool { (0..MAX_PROD).all(|i| case.state(Tid::Prod(i)) == WState::Idle) }

/// Property oracles on one finished schedule (independent of the model).
fn oracles(case: Case, nprod_sig: &str, fails: &mut Vec<(String, String)>) {
    let pfx = if case.is_pipe() { "pipe" } else { "sched" };
    let sig = |what: &str| format!("{}:{}:{}", pfx, nprod_sig, what);
    let recvd = case.received();
    let mut last: std::collections::BTreeMap<u64, u64> = Default::default();
    let mut seen: std::collections::BTreeSet<(u64, u64)> = Default::default();
    for r in &recvd {
        match r {
            Err(e) => fails.push((sig("corrupt-sample"), e.clone())),
            Ok((p, v)) => {
                if !seen.insert((*p, *v)) { fails.push((sig("duplicate-sample"), format!("p{p} v{v} received twice"))); }
                if let Some(l) = last.get(p) { if *v <= *l { fails.push((sig("reordered-sample"), format!("p{p}: v{v} after v{l}"))); } }
                last.insert(*p, *v);
            }
        }
    }
    let (closed, _ended) = case.flags();
    if let Some((q, cl)) = case.eos_early {
        if q != 0 { fails.push((sig("eos-before-drained"), format!("end-of-stream returned (no stop() before it) with {q} sample(s) queued at that moment"))); }
        else if !cl { fails.push((sig("eos-without-close"), "end-of-stream returned although neither stop() was called nor the source closed".into())); }
    } else if case.eos_seen && !case.stop_called && case.all_idle() && case.queue_len() != 0 {
        fails.push((sig("eos-before-drained"), format!("end-of-stream returned with {} sample(s) still queued", case.queue_len())));
    }
    if case.consumer_stuck() && closed && case.all_producers_gone() && !case.stop_called {
        fails.push((sig("close-never-wakes-consumer"), "all sources dropped, recv() future pending and its waker never invoked".into()));
    }
    if case.consumer_stuck() && case.stop_called && case.stopper_idle() {
        fails.push((sig("stop-never-wakes-consumer"), "stop() returned, recv() future pending and its waker never invoked".into()));
    }
    if case.consumer_stuck() && case.queue_len() != 0 && !case.stop_called && !closed
        && MAX_PROD_IDLE(&case) {
        fails.push((sig("data-never-wakes-consumer"), format!("recv() future pending and never woken although {} sample(s) are queued and no producer is inside an operation", case.queue_len())));
    }
    if let Some(d) = &case.lock_fail { fails.push((sig("lock-does-not-block"), d.clone())); }
    if case.timeout { fails.push((sig("step-timeout"), "a granted step did not reach its next yield point within the scheduler's step timeout (4 s)".into())); }
    let (created, leaked, multi, clean) = case.finish();
    if !clean { fails.push((sig("teardown-hang"), "threads did not finish after the schedule".into())); }
    else {
        if leaked > 0 { fails.push((sig("leaked-sample"), format!("{leaked} of {created} payloads never dropped"))); }
        if multi > 0 { fails.push((sig("double-drop"), format!("{multi} of {created} payloads dropped more than once"))); }
    }
}

/// Execute an explicit label list.
pub fn exec_labels(init: (usize, usize, usize), pipe: bool, labels: &[Label]) -> Outcome {
    let mut case = Case::new(Init { cap: init.0, start: init.1, nprod: init.2, pipe });
    let mut toks = vec![];
    let (mut pre, mut blocked) = (0, 0);
    let mut prev: Option<Tid> = None;
    let mut executed: Vec<Label> = vec![];
    let mut skip = 0usize; // explicit labels that already happened as hand-overs of a released lock
    for l in labels {
        if skip > 0 { skip -= 1; continue; }
        if let Some(p) = prev { if p != l.tid && case.state(p) != WState::Idle { pre += 1; } }
        let t = case.step(l);
        if t.starts_with('B') { blocked += 1; }
        toks.push(t);
        executed.push(l.clone());
        prev = Some(l.tid);
        for (il, itok) in case.take_implicit() { executed.push(il); toks.push(itok); skip += 1; }
    }
    let labels = &executed[..];
    toks.push(case.end_token());
    let probes = case.probes;
    let mut fails = vec![];
    oracles(case, &sig_tag(&init), &mut fails);
    Outcome { pipe, input: format!("{} {}", init_text(&init, pipe), labels.iter().map(|l| l.text()).collect::<Vec<_>>().join(" ")),
              output: toks.join(" "), fails, preemptions: pre, steps: labels.len(), blocked_tokens: blocked, probes }
}

/// Run a program under a chooser: at each point the chooser sees the enabled labels (and the
/// currently blocked ones) and picks; the run ends when nothing is enabled.
fn exec_program(prog: &Program, choose: &mut dyn FnMut(usize, &[Label], &[Label]) -> Label) -> Outcome {
    let mut case = Case::new(Init { cap: prog.init.0, start: prog.init.1, nprod: prog.init.2, pipe: prog.pipe });
    // a few walks wait long for a probed thread, so that a lock with a bounded wait (`try_lock_for`)
    // up to that bound is seen to let the thread through
    if prog.name.contains("probe-long") { case.probe_wait = std::time::Duration::from_millis(400); }
    let mut next_op: std::collections::BTreeMap<Tid, usize> = Default::default();
    let mut labels = vec![];
    let mut toks = vec![];
    let (mut pre, mut blocked_n) = (0, 0);
    let mut prev: Option<Tid> = None;
    let mut depth = 0;
    loop {
        let (mut enabled, mut blocked) = (vec![], vec![]);
        for t in prog.tids() {
            match case.avail(t) {
                Avail::Runnable => enabled.push(Label { tid: t, op: None }),
                // a thread in front of a held lock can be *probed* (really granted the step): in the
                // programs that ask for it this is an ordinary choice of the exploration
                Avail::Blocked if prog.probe && case.probeable(t) => enabled.push(Label { tid: t, op: None }),
                Avail::Blocked => blocked.push(Label { tid: t, op: None }),
                Avail::NeedsOp => {
                    let k = *next_op.get(&t).unwrap_or(&0);
                    if let Some(op) = prog.ops(t).get(k) { enabled.push(Label { tid: t, op: Some(op.clone()) }); }
                }
                Avail::NoHandle => {}
            }
        }
        if enabled.is_empty() || labels.len() > 400 { break; }
        let l = choose(depth, &enabled, &blocked);
        depth += 1;
        if let Some(p) = prev { if p != l.tid && case.state(p) != WState::Idle { pre += 1; } }
        let was_idle = case.avail(l.tid) == Avail::NeedsOp;
        let tok = case.step(&l);
        if tok.starts_with('B') { blocked_n += 1; }
        if was_idle && l.op.is_some() && !tok.starts_with('-') { *next_op.entry(l.tid).or_insert(0) += 1; }
        prev = Some(l.tid);
        labels.push(l);
        toks.push(tok);
        for (il, itok) in case.take_implicit() { labels.push(il); toks.push(itok); }
    }
    toks.push(case.end_token());
    let probes = case.probes;
    let mut fails = vec![];
    // a program that cannot finish: some thread is still inside an operation and nothing is enabled
    let unfinished = prog.tids().iter().any(|t| matches!(case.state(*t), WState::Parked(_) | WState::InLock(_)));
    if unfinished { fails.push((format!("{}:{}:deadlock", if prog.pipe { "pipe" } else { "sched" }, sig_tag(&prog.init)), "threads parked at blocking points, none enabled".into())); }
    oracles(case, &sig_tag(&prog.init), &mut fails);
    Outcome { pipe: prog.pipe, input: format!("{} {}", init_text(&prog.init, prog.pipe), labels.iter().map(|l| l.text()).collect::<Vec<_>>().join(" ")),
              output: toks.join(" "), fails, preemptions: pre, steps: labels.len(), blocked_tokens: blocked_n, probes }
}

/// All interleavings (depth-first, re-executing from scratch), at most `limit`.
/// `prefix`: explore only the subtree below these first choices (used to split a big tree over
/// several child processes; the subtrees of all prefixes of one length partition the tree).
fn explore_exhaustive(prog: &Program, limit: usize, prefix: &[usize], sink: &mut dyn FnMut(Outcome)) -> (usize, bool) {
    let mut choices: Vec<usize> = prefix.to_vec();
    let mut n = 0;
    loop {
        let mut widths: Vec<usize> = vec![];
        let pre = choices.clone();
        let out = exec_program(prog, &mut |d, en, _bl| {
            widths.push(en.len());
            let k = if d < pre.len() { pre[d].min(en.len() - 1) } else { 0 };
            en[k].clone()
        });
        sink(out);
        n += 1;
        if n >= limit { return (n, false); }
        // backtrack
        let mut full: Vec<usize> = (0..widths.len()).map(|d| if d < pre.len() { pre[d] } else { 0 }).collect();
        loop {
            if full.len() <= prefix.len() { return (n, true); }
            match full.pop() {
                None => return (n, true),
                Some(c) => {
                    let d = full.len();
                    if c + 1 < widths[d] { full.push(c + 1); break; }
                }
            }
        }
        choices = full;
    }
}

fn explore_random(prog: &Program, count: usize, rng: &mut Rng, sink: &mut dyn FnMut(Outcome)) {
    let long_probe = prog.name.contains("probe-long");
    for _ in 0..count {
        // preemption-biased random walk: mostly keep running the same thread, switch with prob 1/3;
        // sometimes grant a blocked thread (the step must then be a no-op on both sides)
        let mut r = rng.fork();
        let mut cur: Option<Tid> = None;
        let out = exec_program(prog, &mut |_d, en, bl| {
            if !bl.is_empty() && r.chance(1, if long_probe { 3 } else { 30 }) { return r.pick(bl).clone(); }
            if let Some(c) = cur { if !r.chance(1, 3) { if let Some(l) = en.iter().find(|l| l.tid == c) { return l.clone(); } } }
            let l = r.pick(en).clone();
            cur = Some(l.tid);
            l
        });
        sink(out);
    }
}

// ------------------------------------------------------------------------------------------------
// the program list

fn s1(v: u64) -> Op { Op::Send(vec![v]) }

pub fn programs(thorough: bool, rng: &mut Rng) -> Vec<(Program, usize, usize)> {
    // (program, exhaustive limit (0 = none), random count)
    let mut v: Vec<(Program, usize, usize)> = vec![];
    let p = |name: &str, init: (usize, usize, usize), prods: Vec<Vec<Op>>, cons: Vec<Op>, stop: Vec<Op>| Program {
        name: name.into(), init, pipe: name.starts_with("pipe-"), probe: name.contains("probe"), prods, cons, stop };
    let k = if thorough { 5 } else { 1 };
    // exhaustive (all interleavings) only where the whole tree fits the tier; random walks otherwise
    let big = if thorough { 40_000 } else { 0 };
    // one producer, one consumer
    // the complete send ‖ recv interleaving tree (24 310 schedules) is part of BOTH tiers
    v.push((p("1p-send-recv", (1, 0, 1), vec![vec![s1(1)]], vec![Op::Recv], vec![]), 60_000, 0));
    v.push((p("1p-try-recv", (2, 0, 1), vec![vec![Op::TrySend(1)]], vec![Op::Recv], vec![]), big, 300 * k));
    v.push((p("1p-full-dropoldest", (1, 0, 1), vec![vec![s1(1), s1(2)]], vec![Op::Recv], vec![]), 0, 700 * k));
    v.push((p("1p-try-full", (1, 0, 1), vec![vec![Op::TrySend(1), Op::TrySend(2)]], vec![Op::Recv], vec![]), 0, 400 * k));
    v.push((p("1p-many-cap2", (2, 0, 1), vec![vec![Op::Send(vec![1, 2, 3])]], vec![Op::Recv, Op::Recv], vec![]), 0, 300 * k));
    v.push((p("1p-send-drop-recv", (2, 0, 1), vec![vec![s1(1), Op::DropSrc]], vec![Op::Recv, Op::Recv], vec![]), 0, 900 * k));
    v.push((p("1p-drop-recv", (1, 0, 1), vec![vec![Op::DropSrc]], vec![Op::Recv], vec![]), 1000, 0));
    v.push((p("1p-send-stop", (2, 0, 1), vec![vec![s1(1)]], vec![Op::Recv, Op::Recv], vec![Op::Stop]), 0, 400 * k));
    v.push((p("stop-recv", (1, 0, 1), vec![vec![]], vec![Op::Recv], vec![Op::Stop]), 1000, 0));
    v.push((p("stop-send", (1, 0, 1), vec![vec![s1(1)]], vec![], vec![Op::Stop]), 1000, 0));
    v.push((p("drop-stop-recv", (1, 0, 1), vec![vec![Op::DropSrc]], vec![Op::Recv], vec![Op::Stop]), big, 300 * k));
    // two and three producers (cloned handles)
    v.push((p("2p-send-send", (2, 0, 2), vec![vec![s1(1)], vec![s1(1)]], vec![], vec![]), 1000, 0));
    v.push((p("2p-try-send", (1, 0, 2), vec![vec![Op::TrySend(1)], vec![s1(1)]], vec![], vec![]), 1000, 0));
    v.push((p("2p-send-send-recv", (2, 0, 2), vec![vec![s1(1)], vec![s1(1)]], vec![Op::Recv], vec![]), 0, 500 * k));
    v.push((p("2p-cap1-overflow", (1, 0, 2), vec![vec![s1(1), s1(2)], vec![Op::TrySend(1), s1(2)]], vec![Op::Recv, Op::Recv], vec![]), 0, 500 * k));
    v.push((p("2p-clone-drop", (2, 0, 1), vec![vec![Op::CloneTo(1), s1(1), Op::DropSrc], vec![s1(1), Op::DropSrc]], vec![Op::Recv, Op::Recv, Op::Recv], vec![]), 0, 500 * k));
    v.push((p("4p-cap2", (2, 0, 4), vec![vec![s1(1), s1(2)], vec![Op::TrySend(1), s1(2)], vec![Op::Send(vec![1, 2])], vec![s1(1), Op::DropSrc]], vec![Op::Recv, Op::Recv, Op::Recv], vec![]), 0, 300 * k));
    v.push((p("3p-mixed", (3, 0, 3), vec![vec![Op::Send(vec![1, 2])], vec![Op::TrySend(1), Op::DropSrc], vec![s1(1), s1(2)]], vec![Op::Recv, Op::Recv], vec![Op::Stop]), 0, 300 * k));
    // index wrap-around of the ring (power-of-two capacity: harmless; see NOTES for capacity 3)
    v.push((p("wrap-cap2", (2, usize::MAX - 1, 1), vec![vec![Op::Send(vec![1, 2, 3])]], vec![Op::Recv, Op::Recv], vec![]), 0, 100 * k));
    // index wrap × close × parked consumer: the producer's single push wraps `tail` to 0 while `head` is
    // still usize::MAX, then the last source is dropped (complete trees, track and pipeline)
    v.push((p("wrap-drop-recv", (2, usize::MAX, 1), vec![vec![s1(1), Op::DropSrc]], vec![Op::Recv, Op::Recv], vec![]), 0, 500 * k));
    v.push((p("wrap-send-drop-park", (2, usize::MAX, 1), vec![vec![s1(1), Op::DropSrc]], vec![Op::Recv], vec![]), 0, 500 * k));
    v.push((p("pipe-wrap-drop-recv", (2, usize::MAX, 1), vec![vec![s1(1), Op::DropSrc]], vec![Op::Recv, Op::Recv], vec![]), 0, 400 * k));
    v.push((p("wrap-cap3-2p-drop", (3, usize::MAX - 1, 2), vec![vec![Op::Send(vec![1, 2]), Op::DropSrc], vec![s1(1), Op::DropSrc]], vec![Op::Recv, Op::Recv, Op::Recv, Op::Recv], vec![]), 0, 300 * k));
    // regression for the fixed finding `wrap-npot`: capacity 3 across the index wrap-around (sequential + random)
    v.push((p("wrap-npot-cap3", (3, usize::MAX - 2, 1), vec![vec![s1(1), s1(2), s1(3), s1(4)]], vec![Op::Recv, Op::Recv, Op::Recv, Op::Recv], vec![]), 0, 150 * k));
    v.push((p("wrap-cap5-2p", (5, usize::MAX - 3, 2), vec![vec![Op::Send(vec![1, 2, 3])], vec![s1(1), Op::TrySend(2), s1(3)]], vec![Op::Recv, Op::Recv, Op::Recv], vec![]), 0, 150 * k));
    // pipeline.rs queue pair (SampleQueueSender shared by reference / SampleQueueReceiver)
    v.push((p("pipe-send-recv", (1, 0, 1), vec![vec![s1(1)]], vec![Op::Recv], vec![]), big, 500 * k));
    v.push((p("pipe-full-dropoldest", (1, 0, 1), vec![vec![s1(1), s1(2)]], vec![Op::Recv], vec![]), 0, 400 * k));
    v.push((p("pipe-send-drop-recv", (2, 0, 1), vec![vec![s1(1), Op::DropSrc]], vec![Op::Recv, Op::Recv], vec![]), 0, 700 * k));
    v.push((p("pipe-drop-recv", (1, 0, 1), vec![vec![Op::DropSrc]], vec![Op::Recv], vec![]), 1000, 0));
    v.push((p("pipe-2p-send-send", (2, 0, 2), vec![vec![s1(1)], vec![s1(1)]], vec![], vec![]), 1000, 0));
    v.push((p("pipe-2p-try-send", (1, 0, 2), vec![vec![Op::TrySend(1)], vec![s1(1)]], vec![], vec![]), 1000, 0));
    v.push((p("pipe-2p-overflow", (1, 0, 2), vec![vec![s1(1), s1(2), Op::DropSrc], vec![Op::TrySend(1), s1(2), Op::DropSrc]], vec![Op::Recv, Op::Recv, Op::Recv], vec![]), 0, 600 * k));
    v.push((p("pipe-3p-cap3", (3, 0, 3), vec![vec![Op::Send(vec![1, 2])], vec![Op::TrySend(1), Op::DropSrc], vec![s1(1), s1(2)]], vec![Op::Recv, Op::Recv], vec![]), 0, 300 * k));
    v.push((p("pipe-wrap-cap3", (3, usize::MAX - 2, 2), vec![vec![Op::Send(vec![1, 2, 3])], vec![s1(1), Op::TrySend(2)]], vec![Op::Recv, Op::Recv, Op::Recv], vec![]), 0, 150 * k));
    v.push((p("pipe-recvdrop", (2, 0, 1), vec![vec![s1(1), s1(2), Op::TrySend(3)]], vec![Op::Recv, Op::DropRecv], vec![]), 0, 300 * k));
    // lock probing: a thread in front of a held lock is really granted the step; it must not come back
    v.push((p("probe-2p-send-send", (2, 0, 2), vec![vec![s1(1)], vec![s1(1)]], vec![], vec![]), 3000, 0));
    v.push((p("probe-2p-try-send", (1, 0, 2), vec![vec![Op::TrySend(1)], vec![s1(1)]], vec![], vec![]), 3000, 0));
    v.push((p("pipe-probe-2p-send-send", (2, 0, 2), vec![vec![s1(1)], vec![s1(1)]], vec![], vec![]), 3000, 0));
    v.push((p("probe-long-2p", (2, 0, 2), vec![vec![s1(1)], vec![s1(1)]], vec![Op::Recv], vec![]), 0, if thorough { 40 } else { 10 }));
    v.push((p("pipe-probe-long-2p", (2, 0, 2), vec![vec![s1(1)], vec![s1(1)]], vec![Op::Recv], vec![]), 0, if thorough { 40 } else { 10 }));
    v.push((p("probe-3p-cap1", (1, 0, 3), vec![vec![s1(1), s1(2)], vec![s1(1)], vec![Op::TrySend(1)]], vec![Op::Recv], vec![]), 0, 120 * k));
    v.push((p("probe-dropoldest-recv", (1, 0, 1), vec![vec![s1(1), s1(2), s1(3)]], vec![Op::Recv, Op::Recv], vec![]), 0, 150 * k));
    v.push((p("pipe-probe-dropoldest-recv", (1, 0, 2), vec![vec![s1(1), s1(2)], vec![s1(1), s1(2)]], vec![Op::Recv, Op::Recv], vec![]), 0, 120 * k));
    // random programs
    let nrand = if thorough { 120 } else { 20 };
    for i in 0..nrand {
        let cap = *rng.pick(&[1usize, 1, 2, 2, 3, 4, 5, 8, 13, 16, 33, 64]);
        let nprod = rng.range(1, 4) as usize;
        let mut prods = vec![];
        for _ in 0..nprod {
            let mut ops = vec![];
            let mut val = 1;
            for _ in 0..rng.range(1, 3) {
                let o = match rng.below(10) {
                    0..=3 => { val += 1; s1(val - 1) }
                    4..=5 => { val += 1; Op::TrySend(val - 1) }
                    6..=7 => { let n = rng.range(0, 3); let vs: Vec<u64> = (0..n).map(|j| val + j).collect(); val += n; Op::Send(vs) }
                    8 => { ops.push(Op::DropSrc); break; }
                    _ => Op::CloneTo(rng.below(MAX_PROD as u64) as usize),
                };
                ops.push(o);
            }
            prods.push(ops);
        }
        while prods.len() < MAX_PROD { prods.push(vec![s1(50)]); } // only reachable through a clone
        let cons = (0..rng.range(0, 3)).map(|_| Op::Recv).collect();
        let stop = if rng.chance(1, 4) { vec![Op::Stop] } else { vec![] };
        let start = if rng.chance(1, 4) { usize::MAX - rng.below(6) as usize } else { 0 };
        v.push((p(&format!("rand{i}"), (cap, start, nprod), prods, cons, stop), 0, if thorough { 60 } else { 25 }));
    }
    v
}

// ------------------------------------------------------------------------------------------------
// child process plumbing

fn child_main(args: &Args) {
    let out = std::io::stdout();
    let mut out = out.lock();
    let job = std::env::var("VH_C20_CHILD").unwrap();
    let emit = |o: Outcome, out: &mut dyn Write| {
        let _ = writeln!(out, "CASE {}\t{}\t{}\t{}\t{}\t{}\t{}", o.input, o.output, o.preemptions, o.steps, o.blocked_tokens, if o.pipe { "psched" } else { "sched" }, o.probes);
        for (s, d) in o.fails { let _ = writeln!(out, "FAIL {}\t{}\t{}", s, o.input, d); }
    };
    if let Some(rest) = job.strip_prefix("replay:") {
        let (init, pipe, labels) = parse_case(rest).expect("bad case text");
        let _ = writeln!(out, "BEGIN {rest}");
        let _ = out.flush();
        emit(exec_labels(init, pipe, &labels), &mut out);
    } else if let Some(idx) = job.strip_prefix("prog:") {
        let mut f = idx.split(':');
        let idx: usize = f.next().unwrap().parse().unwrap();
        let part: Option<(usize, usize)> = f.next().and_then(|p| { let (a, n) = p.split_once('/')?; Some((a.parse().ok()?, n.parse().ok()?)) });
        let mut rng = Rng::new(args.seed);
        let progs = programs(args.tier_thorough, &mut rng);
        let (prog, exh, nrand) = &progs[idx];
        let _ = writeln!(out, "BEGIN program {} {:?}", prog.name, prog);
        let _ = out.flush();
        if prog.name == "wrap-npot-cap3" {
            let seq = "p0:s1 p0 p0 p0 p0 p0 p0 p0 p0:s2 p0 p0 p0 p0 p0 p0 p0 p0:s3 p0 p0 p0 p0 p0 p0 p0 c:r c c c c c c c c \
                       p0:s4 p0 p0 p0 p0 p0 p0 p0 c:r c c c c c c c c c:r c c c c c c c c c:r c c c c c c c c";
            let labels: Vec<Label> = seq.split_whitespace().map(|t| Label::parse(t).unwrap()).collect();
            let input = format!("{} {}", init_text(&prog.init, prog.pipe), labels.iter().map(|l| l.text()).collect::<Vec<_>>().join(" "));
            let _ = writeln!(out, "BEGIN {input}");
            let _ = out.flush();
            emit(exec_labels(prog.init, prog.pipe, &labels), &mut out);
        }
        if *exh > 0 {
            // optional `:part/nparts` — this child explores the subtrees of the 3-choice prefixes
            // (both threads are enabled during the first three steps) whose number ≡ part (mod nparts)
            let prefixes: Vec<Vec<usize>> = match part {
                None => vec![vec![]],
                Some((a, n)) => (0..8usize).filter(|x| x % n == a).map(|x| vec![x & 1, (x >> 1) & 1, (x >> 2) & 1]).collect(),
            };
            let (mut total, mut all) = (0, true);
            for pre in &prefixes {
                let (n, complete) = explore_exhaustive(prog, *exh, pre, &mut |o| emit(o, &mut out));
                total += n;
                all &= complete;
            }
            let _ = writeln!(out, "COUNT exhaustive_schedules:{} {}", prog.name, total);
            let _ = writeln!(out, "COUNT exhaustive_incomplete_parts:{} {}", prog.name, (!all) as u8);
        }
        // quick tier: 60 % of the listed random walks (keeps the tier well under two minutes on a loaded machine)
        let nrand = &(if args.tier_thorough { *nrand } else { *nrand * 6 / 10 });
        if *nrand > 0 && part.map(|p| p.0 == 0).unwrap_or(true) {
            let mut r = Rng::new(args.seed ^ (idx as u64 + 1).wrapping_mul(0x9E37_79B9));
            explore_random(prog, *nrand, &mut r, &mut |o| emit(o, &mut out));
            let _ = writeln!(out, "COUNT random_schedules:{} {}", prog.name, nrand);
        }
    } else if let Some(spec) = job.strip_prefix("stress:") {
        stress::child(spec, args, &mut out);
    }
    let _ = writeln!(out, "END");
    let _ = out.flush();
}

pub struct ChildResult { pub lines: Vec<String>, pub status: String, pub ok: bool, pub last_begin: String }

pub fn run_child(job: &str, args: &Args, timeout_s: u64) -> ChildResult {
    let exe = std::env::current_exe().unwrap();
    let mut cmd = std::process::Command::new(exe);
    cmd.arg("c20").arg("--tier").arg(if args.tier_thorough { "thorough" } else { "quick" })
        .arg("--seed").arg(args.seed.to_string()).arg("--out").arg(&args.out)
        .env("VH_C20_CHILD", job).stdout(std::process::Stdio::piped()).stderr(std::process::Stdio::null());
    let mut child = cmd.spawn().expect("spawn child");
    let stdout = child.stdout.take().unwrap();
    let (tx, rx) = std::sync::mpsc::channel::<String>();
    let reader = std::thread::spawn(move || {
        for l in std::io::BufReader::new(stdout).lines() { match l { Ok(l) => { let _ = tx.send(l); } Err(_) => break } }
    });
    let t0 = std::time::Instant::now();
    let mut lines = vec![];
    let mut last_begin = String::new();
    let mut ended = false;
    let mut timed_out = false;
    loop {
        match rx.recv_timeout(std::time::Duration::from_millis(200)) {
            Ok(l) => {
                if let Some(b) = l.strip_prefix("BEGIN ") { last_begin = b.to_string(); }
                else if let Some(c) = l.strip_prefix("CASE ") { last_begin = c.split('\t').next().unwrap_or("").to_string(); lines.push(l); }
                else if l == "END" { ended = true; } else { lines.push(l); }
            }
            Err(std::sync::mpsc::RecvTimeoutError::Disconnected) => break,
            Err(std::sync::mpsc::RecvTimeoutError::Timeout) => {
                if t0.elapsed().as_secs() > timeout_s { timed_out = true; let _ = child.kill(); break; }
            }
        }
    }
    let st = child.wait();
    let _ = reader.join();
    let status = match &st {
        _ if timed_out => "timeout".to_string(),
        Ok(s) if s.success() && ended => "ok".to_string(),
        Ok(s) => {
            #[cfg(unix)]
            { use std::os::unix::process::ExitStatusExt; if let Some(sig) = s.signal() { format!("signal-{sig}") } else { format!("exit-{}", s.code().unwrap_or(-1)) } }
            #[cfg(not(unix))]
            { format!("exit-{}", s.code().unwrap_or(-1)) }
        }
        Err(e) => format!("wait-error-{e}"),
    };
    ChildResult { lines, ok: status == "ok", status, last_begin }
}

fn absorb(run: &mut Run, res: &ChildResult, nprod_sig: &str) {
    for l in &res.lines {
        if let Some(c) = l.strip_prefix("CASE ") {
            let f: Vec<&str> = c.split('\t').collect();
            if f.len() < 5 { continue; }
            let pre: usize = f[2].parse().unwrap_or(0);
            let stream = if f.get(5) == Some(&"psched") { "psched" } else { "sched" };
            run.case(stream, f[0], f[1], pre > 0);
            if stream == "psched" { run.count("pipeline_schedules"); }
            run.count("schedules");
            run.count_n("schedule_steps", f[3].parse().unwrap_or(0));
            run.count_n("blocked_steps_granted", f[4].parse().unwrap_or(0));
            run.count(&format!("preemptions:{}", match pre { 0 => "0", 1..=2 => "1-2", 3..=5 => "3-5", _ => "6+" }));
            if f[1].contains("=eos") { run.count("schedules_with_eos"); }
            run.count_n("lock_probes", f.get(6).and_then(|x| x.parse().ok()).unwrap_or(0));
            if f[1].contains(" P") { run.count("schedules_with_pending_recv"); }
            if f[1].contains("=v") { run.count("schedules_with_delivery"); }
            if f[0].contains(",18446744073709551") { run.count("schedules_across_index_wrap"); }
        } else if let Some(c) = l.strip_prefix("FAIL ") {
            let f: Vec<&str> = c.split('\t').collect();
            if f.len() >= 3 { run.fail(f[0], f[1], f[2]); }
        } else if let Some(c) = l.strip_prefix("COUNT ") {
            let f: Vec<&str> = c.split(' ').collect();
            if f.len() == 2 { run.count_n(f[0], f[1].parse().unwrap_or(0)); }
        }
    }
    if !res.ok {
        run.fail(&format!("{}:{}:crash-{}", if res.last_begin.contains("pinit,") || res.last_begin.contains("pipe-") { "pipe" } else { "sched" }, nprod_sig, res.status), &res.last_begin,
                 "child process executing the real code died (memory error / abort / hang)");
    }
}

pub fn parse_case(s: &str) -> Option<((usize, usize, usize), bool, Vec<Label>)> {
    let mut it = s.split_whitespace();
    let ini: Vec<&str> = it.next()?.split(',').collect();
    if ini.len() != 4 || (ini[0] != "init" && ini[0] != "pinit") { return None; }
    let pipe = ini[0] == "pinit";
    let init = (ini[1].parse().ok()?, ini[2].parse().ok()?, ini[3].parse().ok()?);
    let labels = it.map(Label::parse).collect::<Option<Vec<_>>>()?;
    Some((init, pipe, labels))
}

pub fn run(args: &Args) {
    if std::env::var("VH_C20_CHILD").is_ok() { child_main(args); return; }
    if let Some(case) = &args.replay {
        let job = if case.starts_with("stress,") { format!("stress:{case}") } else { format!("replay:{case}") };
        let res = run_child(&job, args, 120);
        for l in &res.lines {
            if let Some(c) = l.strip_prefix("CASE ") { let f: Vec<&str> = c.split('\t').collect(); println!("impl: {}", f.get(1).unwrap_or(&"")); }
            else if let Some(c) = l.strip_prefix("FAIL ") { let f: Vec<&str> = c.split('\t').collect(); println!("ORACLE-FAIL {} {}", f[0], f.get(2).unwrap_or(&"")); }
            else { println!("{l}"); }
        }
        if !res.ok { println!("ORACLE-FAIL sched:{}:crash-{}", parse_case(case).map(|c| sig_tag(&c.0)).unwrap_or_default(), res.status); }
        return;
    }
    let mut run = Run::new("c20", &args.out);
    let mut rng = Rng::new(args.seed);
    let progs = programs(args.tier_thorough, &mut rng);
    // children in parallel, a few at a time
    // jobs: one child per program; a big exhaustive tree is split over 4 children
    let mut jobs: Vec<(usize, String)> = vec![];
    for (i, (_, exh, _)) in progs.iter().enumerate() {
        if *exh >= 10_000 { for a in 0..4 { jobs.push((i, format!("prog:{i}:{a}/4"))); } } else { jobs.push((i, format!("prog:{i}"))); }
    }
    let par = 6;
    let mut idx = 0;
    while idx < jobs.len() {
        let hi = (idx + par).min(jobs.len());
        let results: Vec<(usize, ChildResult)> = std::thread::scope(|sc| {
            let hs: Vec<_> = jobs[idx..hi].iter().map(|(i, j)| sc.spawn(move || (*i, run_child(j, args, 900)))).collect();
            hs.into_iter().map(|h| h.join().unwrap()).collect()
        });
        for (i, res) in results { absorb(&mut run, &res, &sig_tag(&progs[i].0.init)); }
        idx = hi;
    }
    stress::parent(&mut run, args);
    run.notes.insert("programs".into(), serde_json::json!(progs.iter().map(|p| p.0.name.clone()).collect::<Vec<_>>()));
    run.finish();
}
