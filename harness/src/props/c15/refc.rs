//! Independent reference implementation (webrtc-rs `rtp` / `rtcp` 0.17): conversions to the canonical
//! text of `text.rs`, so both directions of "an independent implementation parses the same fields"
//! can be evaluated.  Documented convention differences are normalised here (and only here):
//!  * `ReceptionReport.total_lost` is the raw 24-bit field (u32) — sign-extended to compare with i32;
//!  * a BYE without reason and a BYE with an empty reason are the same thing for the reference;
//!  * FIR `media_ssrc` is not represented in rustrtc (written as 0, ignored on parse);
//!  * REMB bitrate is an `f32` in the reference (exact for every 18-bit mantissa << exponent < 2^64);
//!  * TWCC chunks/deltas are opaque payload bytes in rustrtc.
use super::text::*;
use crate::catch;
use bytes::Bytes;
use rtcp::goodbye::Goodbye as RGoodbye;
use rtcp::packet::Packet as RPacket;
use rtcp::payload_feedbacks::full_intra_request::{FirEntry, FullIntraRequest as RFir};
use rtcp::payload_feedbacks::picture_loss_indication::PictureLossIndication as RPli;
use rtcp::payload_feedbacks::receiver_estimated_maximum_bitrate::ReceiverEstimatedMaximumBitrate as RRemb;
use rtcp::receiver_report::ReceiverReport as RRr;
use rtcp::reception_report::ReceptionReport;
use rtcp::sender_report::SenderReport as RSr;
use rtcp::source_description::{SdesType, SourceDescription as RSdes, SourceDescriptionChunk, SourceDescriptionItem};
use rtcp::transport_feedbacks::transport_layer_cc::TransportLayerCc as RTwcc;
use rtcp::transport_feedbacks::transport_layer_nack::{NackPair, TransportLayerNack as RNack};
use rustrtc::rtp::*;
use webrtc_util::marshal::{Marshal, Unmarshal};

// ------------------------------------------------------------------------------------------- RTP

pub fn ref_parse_rtp(b: &[u8]) -> Result<rtp::packet::Packet, String> {
    let v = b.to_vec();
    match catch(move || { let mut s = &v[..]; rtp::packet::Packet::unmarshal(&mut s) }) {
        Ok(Ok(p)) => Ok(p),
        Ok(Err(e)) => Err(format!("err:{e}")),
        Err(p) => Err(format!("panic:{p}")),
    }
}

/// first differing field between rustrtc's and the reference's view of one packet
pub fn cmp_rtp(p: &RtpPacket, r: &rtp::packet::Packet) -> Option<String> {
    let (h, rh) = (&p.header, &r.header);
    if h.marker != rh.marker { return Some("marker".into()); }
    if h.payload_type != rh.payload_type { return Some("pt".into()); }
    if h.sequence_number != rh.sequence_number { return Some("seq".into()); }
    if h.timestamp != rh.timestamp { return Some("ts".into()); }
    if h.ssrc != rh.ssrc { return Some("ssrc".into()); }
    if h.csrcs != rh.csrc { return Some("csrc".into()); }
    if p.payload != r.payload { return Some("payload".into()); }
    if h.extension.is_some() != rh.extension { return Some("xbit".into()); }
    if let Some(e) = &h.extension {
        if e.profile != rh.extension_profile { return Some("ext-profile".into()); }
        if e.profile == 0xBEDE || e.profile == 0x1000 {
            let mut seen = vec![];
            for x in &rh.extensions {
                if seen.contains(&x.id) { continue; }
                seen.push(x.id);
                if h.get_extension(x.id).as_deref() != Some(&x.payload[..]) { return Some(format!("ext-elem-{}", x.id)); }
            }
            // and nothing else is visible to rustrtc
            let maxid = if e.profile == 0xBEDE { 14u8 } else { 255 };
            for id in 1..=maxid {
                if !seen.contains(&id) && h.get_extension(id).is_some() { return Some(format!("ext-extra-{id}")); }
            }
        } else if rh.extensions.len() != 1 || rh.extensions[0].payload != e.data {
            return Some("ext-raw".into());
        }
    }
    None
}

pub fn ref_marshal_rtp(r: &rtp::packet::Packet) -> Option<Vec<u8>> {
    let r = r.clone();
    match catch(move || r.marshal()) { Ok(Ok(b)) => Some(b.to_vec()), _ => None }
}

// ------------------------------------------------------------------------------------------ RTCP

fn sext24(v: u32) -> i32 { ((v << 8) as i32) >> 8 }

fn rr_text(r: &ReceptionReport) -> String {
    format!("{}:{}:{}:{}:{}:{}:{}", r.ssrc, r.fraction_lost, sext24(r.total_lost), r.last_sequence_number, r.jitter,
        r.last_sender_report, r.delay)
}

fn sdes_ty(t: SdesType) -> u8 { t as u8 }

/// canonical text of one reference packet (`raw` = the bytes of exactly this packet, for TWCC payload)
pub fn ref_text(p: &(dyn RPacket + Send + Sync), raw: &[u8]) -> Option<String> {
    let a = p.as_any();
    if let Some(s) = a.downcast_ref::<RSr>() {
        if !s.profile_extensions.is_empty() { return None; }
        return Some(format!("SR,{},{},{},{},{},{},{}", s.ssrc, (s.ntp_time >> 32) as u32, s.ntp_time as u32, s.rtp_time,
            s.packet_count, s.octet_count, show_list(s.reports.iter().map(rr_text).collect(), ";")));
    }
    if let Some(s) = a.downcast_ref::<RRr>() {
        if !s.profile_extensions.is_empty() { return None; }
        return Some(format!("RR,{},{}", s.ssrc, show_list(s.reports.iter().map(rr_text).collect(), ";")));
    }
    if let Some(s) = a.downcast_ref::<RSdes>() {
        return Some(format!("SDES,{}", show_list(s.chunks.iter().map(|c| {
            let mut v = vec![c.source.to_string()];
            v.extend(c.items.iter().map(|i| format!("{}={}", sdes_ty(i.sdes_type), crate::hex(&i.text))));
            v.join(":") }).collect(), ";")));
    }
    if let Some(s) = a.downcast_ref::<RGoodbye>() {
        return Some(format!("BYE,{},{}", show_list(s.sources.iter().map(|x| x.to_string()).collect(), ";"),
            if s.reason.is_empty() { "n".to_string() } else { format!("r={}", crate::hex(&s.reason)) }));
    }
    if let Some(s) = a.downcast_ref::<RPli>() { return Some(format!("PLI,{},{}", s.sender_ssrc, s.media_ssrc)); }
    if let Some(s) = a.downcast_ref::<RFir>() {
        return Some(format!("FIR,{},{}", s.sender_ssrc,
            show_list(s.fir.iter().map(|r| format!("{}:{}", r.ssrc, r.sequence_number)).collect(), ";")));
    }
    if let Some(s) = a.downcast_ref::<RNack>() {
        let mut lost = vec![];
        for n in &s.nacks { lost.extend(n.packet_list()); }
        return Some(format!("NACK,{},{},{}", s.sender_ssrc, s.media_ssrc,
            show_list(lost.iter().map(|x| x.to_string()).collect(), ";")));
    }
    if let Some(s) = a.downcast_ref::<RRemb>() {
        if !(s.bitrate.is_finite() && s.bitrate >= 0.0 && s.bitrate < 1.8e19) { return None; }
        return Some(format!("REMB,{},{},{}", s.sender_ssrc, s.bitrate as u64,
            show_list(s.ssrcs.iter().map(|x| x.to_string()).collect(), ";")));
    }
    if let Some(s) = a.downcast_ref::<RTwcc>() {
        // payload = everything after the 20 fixed bytes, without RTCP padding
        if raw.len() < 20 { return None; }
        let pad = if raw[0] & 0x20 != 0 { raw[raw.len() - 1] as usize } else { 0 };
        if 20 + pad > raw.len() { return None; }
        return Some(format!("TWCC,{},{},{},{},{},{},{}", s.sender_ssrc, s.media_ssrc, s.base_sequence_number,
            s.packet_status_count, s.reference_time, s.fb_pkt_count, crate::hex(&raw[20..raw.len() - pad])));
    }
    None
}

/// text the reference is expected to show for a rustrtc packet (the normalisations listed at the top)
pub fn expect_ref_text(p: &RtcpPacket) -> String {
    match p {
        RtcpPacket::Goodbye(b) if b.reason.as_deref() == Some("") => show_rtcp(&RtcpPacket::Goodbye(Goodbye { sources: b.sources.clone(), reason: None })),
        _ => show_rtcp(p),
    }
}

/// Parse a compound packet with the reference; one canonical text per packet (None = type the
/// reference models differently / not convertible).
pub fn ref_parse_rtcp(b: &[u8]) -> Result<Vec<Option<String>>, String> {
    let v = b.to_vec();
    let r = catch(move || { let mut s = &v[..]; rtcp::packet::unmarshal(&mut s) });
    match r {
        Ok(Ok(ps)) => {
            // split raw into per-packet slices by the length field
            let mut out = vec![]; let mut off = 0usize;
            for p in &ps {
                if off + 4 > b.len() { return Err("split".into()); }
                let l = (u16::from_be_bytes([b[off + 2], b[off + 3]]) as usize + 1) * 4;
                if off + l > b.len() { return Err("split".into()); }
                out.push(ref_text(p.as_ref(), &b[off..off + l]));
                off += l;
            }
            Ok(out)
        }
        Ok(Err(e)) => Err(format!("err:{e}")),
        Err(p) => Err(format!("panic:{p}")),
    }
}

fn to_ref_block(b: &ReportBlock) -> ReceptionReport {
    ReceptionReport { ssrc: b.ssrc, fraction_lost: b.fraction_lost, total_lost: (b.packets_lost as u32) & 0x00FF_FFFF,
        last_sequence_number: b.highest_sequence, jitter: b.jitter, last_sender_report: b.last_sender_report,
        delay: b.delay_since_last_sender_report }
}

/// Build the reference's packet for a rustrtc logical packet (None when the reference cannot express it).
pub fn to_ref(p: &RtcpPacket) -> Option<Box<dyn RPacket + Send + Sync>> {
    Some(match p {
        RtcpPacket::SenderReport(s) => Box::new(RSr { ssrc: s.sender_ssrc, ntp_time: ((s.ntp_most as u64) << 32) | s.ntp_least as u64,
            rtp_time: s.rtp_timestamp, packet_count: s.packet_count, octet_count: s.octet_count,
            reports: s.report_blocks.iter().map(to_ref_block).collect(), profile_extensions: Bytes::new() }),
        RtcpPacket::ReceiverReport(s) => Box::new(RRr { ssrc: s.sender_ssrc,
            reports: s.report_blocks.iter().map(to_ref_block).collect(), profile_extensions: Bytes::new() }),
        RtcpPacket::SourceDescription(s) => {
            let mut chunks = vec![];
            for c in &s.chunks {
                let mut items = vec![];
                for i in &c.items {
                    if !(1..=8).contains(&i.ty) { return None; }
                    items.push(SourceDescriptionItem { sdes_type: SdesType::from(i.ty), text: Bytes::copy_from_slice(i.text.as_bytes()) });
                }
                chunks.push(SourceDescriptionChunk { source: c.ssrc, items });
            }
            Box::new(RSdes { chunks })
        }
        RtcpPacket::Goodbye(b) => Box::new(RGoodbye { sources: b.sources.clone(),
            reason: Bytes::copy_from_slice(b.reason.as_deref().unwrap_or("").as_bytes()) }),
        RtcpPacket::PictureLossIndication(p) => Box::new(RPli { sender_ssrc: p.sender_ssrc, media_ssrc: p.media_ssrc }),
        RtcpPacket::FullIntraRequest(f) => Box::new(RFir { sender_ssrc: f.sender_ssrc, media_ssrc: 0,
            fir: f.requests.iter().map(|r| FirEntry { ssrc: r.ssrc, sequence_number: r.sequence_number }).collect() }),
        RtcpPacket::GenericNack(n) => Box::new(RNack { sender_ssrc: n.sender_ssrc, media_ssrc: n.media_ssrc,
            nacks: ref_pairs(&n.lost_packets) }),
        RtcpPacket::RemoteBitrateEstimate(r) => {
            let f = r.bitrate_bps as f32;
            if f as u64 != r.bitrate_bps { return None; }
            Box::new(RRemb { sender_ssrc: r.sender_ssrc, bitrate: f, ssrcs: r.ssrcs.clone() })
        }
        RtcpPacket::TransportWideCc(_) => return None,
    })
}

/// The reference's own packing (`nack_pairs_from_sequence_numbers` requires a sorted list).
pub fn ref_pairs(lost: &[u16]) -> Vec<NackPair> {
    let mut v = lost.to_vec(); v.sort_unstable(); v.dedup();
    rtcp::transport_feedbacks::transport_layer_nack::nack_pairs_from_sequence_numbers(&v)
}

pub fn ref_marshal_rtcp(ps: Vec<Box<dyn RPacket + Send + Sync>>) -> Option<Vec<u8>> {
    match catch(std::panic::AssertUnwindSafe(move || rtcp::packet::marshal(&ps))) { Ok(Ok(b)) => Some(b.to_vec()), _ => None }
}
