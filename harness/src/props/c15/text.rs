//! Canonical text for RTP / RTCP logical packets (the line-protocol formats of `Drv/C15.lean`).
use crate::{hex, unhex};
use bytes::Bytes;
use rustrtc::errors::RtpError;
use rustrtc::rtp::*;

pub fn show_err(e: &RtpError) -> String {
    match e {
        RtpError::PacketTooShort => "err:short".into(),
        RtpError::UnsupportedVersion(v) => format!("err:ver:{v}"),
        RtpError::InvalidHeader(m) => format!("err:hdr:{}", m.replace(' ', "_")),
        RtpError::InvalidRtcp(m) => format!("err:rtcp:{}", m.replace(' ', "_")),
        RtpError::LengthMismatch => "err:len".into(),
    }
}

pub fn show_list(xs: Vec<String>, sep: &str) -> String {
    if xs.is_empty() { "-".into() } else { xs.join(sep) }
}
pub fn list_of<'a>(s: &'a str, sep: char) -> Vec<&'a str> {
    if s == "-" { vec![] } else { s.split(sep).collect() }
}

pub fn show_ext(e: &Option<RtpHeaderExtension>) -> String {
    match e { None => "-".into(), Some(x) => format!("{}:{}", x.profile, hex(&x.data)) }
}
pub fn parse_ext(s: &str) -> Option<RtpHeaderExtension> {
    if s == "-" { return None; }
    let (p, d) = s.split_once(':').unwrap();
    Some(RtpHeaderExtension { profile: p.parse().unwrap(), data: Bytes::from(unhex(d)) })
}

pub fn show_pkt(p: &RtpPacket) -> String {
    let h = &p.header;
    format!("{},{},{},{},{},{},{},{},{}", h.marker as u8, h.payload_type, h.sequence_number, h.timestamp, h.ssrc,
        show_list(h.csrcs.iter().map(|c| c.to_string()).collect(), ";"), show_ext(&h.extension),
        hex(&p.payload), p.padding_len)
}
pub fn parse_pkt(s: &str) -> RtpPacket {
    let f: Vec<&str> = s.split(',').collect();
    assert_eq!(f.len(), 9, "bad packet text {s}");
    let mut h = RtpHeader::new(f[1].parse().unwrap(), f[2].parse().unwrap(), f[3].parse().unwrap(), f[4].parse().unwrap());
    h.marker = f[0] == "1";
    h.csrcs = list_of(f[5], ';').iter().map(|x| x.parse().unwrap()).collect();
    h.extension = parse_ext(f[6]);
    RtpPacket { header: h, payload: Bytes::from(unhex(f[7])), padding_len: f[8].parse().unwrap() }
}

fn show_block(b: &ReportBlock) -> String {
    format!("{}:{}:{}:{}:{}:{}:{}", b.ssrc, b.fraction_lost, b.packets_lost, b.highest_sequence, b.jitter,
        b.last_sender_report, b.delay_since_last_sender_report)
}
fn parse_block(s: &str) -> ReportBlock {
    let f: Vec<&str> = s.split(':').collect();
    ReportBlock { ssrc: f[0].parse().unwrap(), fraction_lost: f[1].parse().unwrap(), packets_lost: f[2].parse().unwrap(),
        highest_sequence: f[3].parse().unwrap(), jitter: f[4].parse().unwrap(), last_sender_report: f[5].parse().unwrap(),
        delay_since_last_sender_report: f[6].parse().unwrap() }
}
fn show_u32s(xs: &[u32]) -> String { show_list(xs.iter().map(|x| x.to_string()).collect(), ";") }
fn parse_u32s(s: &str) -> Vec<u32> { list_of(s, ';').iter().map(|x| x.parse().unwrap()).collect() }

pub fn show_rtcp(p: &RtcpPacket) -> String {
    match p {
        RtcpPacket::SenderReport(s) => format!("SR,{},{},{},{},{},{},{}", s.sender_ssrc, s.ntp_most, s.ntp_least,
            s.rtp_timestamp, s.packet_count, s.octet_count, show_list(s.report_blocks.iter().map(show_block).collect(), ";")),
        RtcpPacket::ReceiverReport(r) => format!("RR,{},{}", r.sender_ssrc,
            show_list(r.report_blocks.iter().map(show_block).collect(), ";")),
        RtcpPacket::SourceDescription(s) => format!("SDES,{}", show_list(s.chunks.iter().map(|c| {
            let mut v = vec![c.ssrc.to_string()];
            v.extend(c.items.iter().map(|i| format!("{}={}", i.ty, hex(i.text.as_bytes()))));
            v.join(":") }).collect(), ";")),
        RtcpPacket::Goodbye(b) => format!("BYE,{},{}", show_u32s(&b.sources),
            match &b.reason { None => "n".to_string(), Some(r) => format!("r={}", hex(r.as_bytes())) }),
        RtcpPacket::PictureLossIndication(p) => format!("PLI,{},{}", p.sender_ssrc, p.media_ssrc),
        RtcpPacket::FullIntraRequest(f) => format!("FIR,{},{}", f.sender_ssrc,
            show_list(f.requests.iter().map(|r| format!("{}:{}", r.ssrc, r.sequence_number)).collect(), ";")),
        RtcpPacket::GenericNack(n) => format!("NACK,{},{},{}", n.sender_ssrc, n.media_ssrc,
            show_list(n.lost_packets.iter().map(|x| x.to_string()).collect(), ";")),
        RtcpPacket::RemoteBitrateEstimate(r) => format!("REMB,{},{},{}", r.sender_ssrc, r.bitrate_bps, show_u32s(&r.ssrcs)),
        RtcpPacket::TransportWideCc(t) => format!("TWCC,{},{},{},{},{},{},{}", t.sender_ssrc, t.media_ssrc, t.base_sequence,
            t.packet_status_count, t.reference_time_64ms, t.feedback_packet_count, hex(&t.payload)),
    }
}
pub fn show_rtcps(ps: &[RtcpPacket]) -> String { show_list(ps.iter().map(show_rtcp).collect(), " ") }

fn text_of(hexs: &str) -> String { String::from_utf8(unhex(hexs)).expect("logical SDES/BYE text must be UTF-8") }

pub fn parse_rtcp(s: &str) -> RtcpPacket {
    let f: Vec<&str> = s.split(',').collect();
    match f[0] {
        "SR" => RtcpPacket::SenderReport(SenderReport { sender_ssrc: f[1].parse().unwrap(), ntp_most: f[2].parse().unwrap(),
            ntp_least: f[3].parse().unwrap(), rtp_timestamp: f[4].parse().unwrap(), packet_count: f[5].parse().unwrap(),
            octet_count: f[6].parse().unwrap(), report_blocks: list_of(f[7], ';').iter().map(|b| parse_block(b)).collect() }),
        "RR" => RtcpPacket::ReceiverReport(ReceiverReport { sender_ssrc: f[1].parse().unwrap(),
            report_blocks: list_of(f[2], ';').iter().map(|b| parse_block(b)).collect() }),
        "SDES" => RtcpPacket::SourceDescription(SourceDescription { chunks: list_of(f[1], ';').iter().map(|c| {
            let g: Vec<&str> = c.split(':').collect();
            SdesChunk { ssrc: g[0].parse().unwrap(), items: g[1..].iter().map(|i| {
                let (t, x) = i.split_once('=').unwrap();
                SdesItem { ty: t.parse().unwrap(), text: text_of(x) } }).collect() } }).collect() }),
        "BYE" => RtcpPacket::Goodbye(Goodbye { sources: parse_u32s(f[1]),
            reason: if f[2] == "n" { None } else { Some(text_of(f[2].strip_prefix("r=").unwrap())) } }),
        "PLI" => RtcpPacket::PictureLossIndication(PictureLossIndication { sender_ssrc: f[1].parse().unwrap(), media_ssrc: f[2].parse().unwrap() }),
        "FIR" => RtcpPacket::FullIntraRequest(FullIntraRequest { sender_ssrc: f[1].parse().unwrap(),
            requests: list_of(f[2], ';').iter().map(|r| { let (a, q) = r.split_once(':').unwrap();
                FirRequest { ssrc: a.parse().unwrap(), sequence_number: q.parse().unwrap() } }).collect() }),
        "NACK" => RtcpPacket::GenericNack(GenericNack { sender_ssrc: f[1].parse().unwrap(), media_ssrc: f[2].parse().unwrap(),
            lost_packets: list_of(f[3], ';').iter().map(|x| x.parse().unwrap()).collect() }),
        "REMB" => RtcpPacket::RemoteBitrateEstimate(RemoteBitrateEstimate { sender_ssrc: f[1].parse().unwrap(),
            bitrate_bps: f[2].parse().unwrap(), ssrcs: parse_u32s(f[3]) }),
        "TWCC" => RtcpPacket::TransportWideCc(TransportWideCc { sender_ssrc: f[1].parse().unwrap(), media_ssrc: f[2].parse().unwrap(),
            base_sequence: f[3].parse().unwrap(), packet_status_count: f[4].parse().unwrap(),
            reference_time_64ms: f[5].parse().unwrap(), feedback_packet_count: f[6].parse().unwrap(), payload: unhex(f[7]) }),
        x => panic!("bad rtcp text {x}"),
    }
}
