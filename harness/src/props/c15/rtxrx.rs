//! RTX on the receive side through the PRODUCTION writers (no `verif_set_rtx_state`):
//!  * `rtx_sdp`: remote SDP → `PeerConnection::set_remote_description` → `extract_rtx_apt_map_from_attrs`,
//!    `RtpReceiver::{set_ssrc, set_rtx_ssrc, set_rtx_apt_map}` → `maybe_unwrap_rtx`;
//!  * `rtx_loop`: `RtpReceiverBuilder` → `set_rtx_ssrc` / `set_rtx_apt_map` → `set_transport` → packets into the
//!    receiver's channel → the real `run_loop` (`maybe_unwrap_rtx`, SSRC latch) → what an interceptor sees.
use super::text::*;
use super::Fails;
use crate::{unhex, Run};
use rustrtc::peer_connection::{RtpReceiverBuilder, RtpReceiverInterceptor};
use rustrtc::rtp::{RtcpPacket, RtpHeader, RtpPacket};
use std::cell::RefCell;
use std::collections::HashMap;
use std::net::SocketAddr;
use std::sync::Arc;

thread_local! { static RT: RefCell<(Option<tokio::runtime::Runtime>, usize)> = RefCell::new((None, 0)); }

/// one current-thread runtime, replaced every few hundred cases so that the tasks of finished cases are dropped
fn with_rt<T>(f: impl FnOnce(&tokio::runtime::Runtime) -> T) -> T {
    RT.with(|c| {
        let mut g = c.borrow_mut();
        g.1 += 1;
        if g.0.is_none() || g.1 % 200 == 0 { g.0 = None; g.0 = Some(tokio::runtime::Builder::new_current_thread().enable_all().build().unwrap()); }
        f(g.0.as_ref().unwrap())
    })
}

fn restored_ok(p: &RtpPacket, u: &RtpPacket, ssrc: u32, ppt: u8) -> bool {
    p.payload.len() >= 2 && u.header.ssrc == ssrc && u.header.payload_type == ppt && u.payload[..] == p.payload[2..]
        && u.header.sequence_number == u16::from_be_bytes([p.payload[0], p.payload[1]]) && u.header.timestamp == p.header.timestamp
        && u.header.marker == p.header.marker
}

/// `rtx_sdp <rtx pt> <fmtp parameters, hex> <fid "p:r" | -> <a=ssrc values ;-list | -> <packet>`
/// which `set_remote_description` path builds the receiver
#[derive(Clone, Copy, PartialEq)]
pub enum SdpPath { NewFromOffer, ExistingFromOffer, AnswerToOurOffer }

pub fn s_rtx_sdp(_run: &mut Run, a: &[&str], path: SdpPath) -> (String, Fails) {
    let rtx_pt: u8 = a[0].parse().unwrap();
    let fmtp = String::from_utf8(unhex(a[1])).expect("utf-8");
    let fid: Option<(u32, u32)> = if a[2] == "-" { None } else { let (p, r) = a[2].split_once(':').unwrap(); Some((p.parse().unwrap(), r.parse().unwrap())) };
    let ssrcs: Vec<u32> = list_of(a[3], ';').iter().map(|x| x.parse().unwrap()).collect();
    let p = parse_pkt(a[4]);
    let mut sdp = format!("v=0\r\no=- 1 1 IN IP4 127.0.0.1\r\ns=-\r\nt=0 0\r\nm=video 9 UDP/TLS/RTP/SAVPF 96 {rtx_pt}\r\nc=IN IP4 127.0.0.1\r\na=mid:0\r\na=sendrecv\r\n\
a=rtpmap:96 VP8/90000\r\na=rtpmap:{rtx_pt} rtx/90000\r\na=fmtp:{rtx_pt} {fmtp}\r\n\
a=fingerprint:sha-256 AA:BB:CC:DD:EE:FF:00:11:22:33:44:55:66:77:88:99:AA:BB:CC:DD:EE:FF:00:11:22:33:44:55:66:77:88:99\r\na=setup:passive\r\n");
    if let Some((pr, rx)) = fid { sdp.push_str(&format!("a=ssrc-group:FID {pr} {rx}\r\n")); }
    for s in &ssrcs { sdp.push_str(&format!("a=ssrc:{s} cname:c\r\n")); }
    let mut f: Fails = vec![];
    let r = with_rt(|rt| rt.block_on(async {
        let pc = rustrtc::PeerConnection::new(rustrtc::RtcConfiguration::default());
        let ty = match path {
            SdpPath::NewFromOffer => rustrtc::SdpType::Offer,
            // a transceiver the application created before the offer arrives (also the shape of every re-offer)
            SdpPath::ExistingFromOffer => { pc.add_transceiver(rustrtc::MediaKind::Video, rustrtc::TransceiverDirection::SendRecv); rustrtc::SdpType::Offer }
            // this stack is the offerer: the peer's RTX association arrives in the ANSWER
            SdpPath::AnswerToOurOffer => {
                pc.add_transceiver(rustrtc::MediaKind::Video, rustrtc::TransceiverDirection::SendRecv);
                let o = match pc.create_offer().await { Ok(o) => o, Err(e) => return Err(format!("create-offer:{e:?}")) };
                if let Err(e) = pc.set_local_description(o) { return Err(format!("set-local:{e:?}")); }
                rustrtc::SdpType::Answer }
        };
        let d = match rustrtc::SessionDescription::parse(ty, &sdp) { Ok(d) => d, Err(e) => return Err(format!("sdp-parse:{e:?}")) };
        if let Err(e) = pc.set_remote_description(d).await { return Err(format!("set-remote:{e:?}")); }
        let rx = match pc.get_transceivers().first().and_then(|t| t.receiver()) { Some(r) => r, None => return Err("no-receiver".into()) };
        let out = (rx.verif_maybe_unwrap_rtx(p.clone()), rx.ssrc(), rx.rtx_ssrc());
        pc.close();
        Ok(out)
    }));
    let (r, ssrc, rtx_ssrc) = match r { Ok(x) => x, Err(e) => { f.push(("codec:rtx:sdp-setup".into(), e.clone())); return (format!("setup-error {e}"), f); } };
    // what the SDP says (RFC 5576 §4.2 FID: primary first, then the repair flow; RFC 4588 §8.6 apt)
    let want_ssrc = match fid { Some((pr, _)) => if ssrcs.contains(&pr) { pr } else { 0 }, None => ssrcs.first().copied().unwrap_or(0) };
    if ssrc != want_ssrc { f.push(("codec:rtx:sdp-primary-ssrc".into(), format!("{ssrc} vs {want_ssrc}"))); }
    // (an existing transceiver takes the RTX association only together with a declared primary SSRC: an FID group whose
    //  sources have no `a=ssrc` line gets no verdict there)
    let undeclared = path == SdpPath::ExistingFromOffer && want_ssrc == 0;
    if rtx_ssrc != fid.map(|x| x.1) && !undeclared { f.push(("codec:rtx:sdp-rtx-ssrc".into(), format!("{rtx_ssrc:?}"))); }
    if let Some(assoc) = super::spec_apt_pub(&fmtp) {
        // the fmtp line associates (or not) the RTX payload type with a primary one — decided by the RFC reading
        let mapped = if p.header.payload_type == rtx_pt { assoc } else { None };
        if undeclared && mapped.is_some() { return (match r { None => "none".into(), Some(u) => format!("some {}", show_pkt(&u)) }, f); }
        match mapped {
            Some(ppt) => {
                if want_ssrc != 0 && p.payload.len() >= 2 { match &r { None => f.push(("codec:rtx:sdp-retransmission-dropped".into(), format!("apt={ppt} negotiated, fid {fid:?}"))),
                    Some(u) => if !restored_ok(&p, u, want_ssrc, ppt) { f.push(("codec:rtx:sdp-restore".into(), show_pkt(u))); } } }
                else if r.is_some() { f.push(("codec:rtx:sdp-unrestorable-not-dropped".into(), String::new())); }
            }
            None => { if undeclared { /* no verdict */ } else if fid.map(|x| x.1) != Some(p.header.ssrc) { if r.as_ref() != Some(&p) { f.push(("codec:rtx:sdp-primary-not-passed".into(), String::new())); } }
                      else if r.is_some() { f.push(("codec:rtx:sdp-unmapped-on-rtx-ssrc-not-dropped".into(), String::new())); } }
        }
    }
    (match r { None => "none".into(), Some(u) => format!("some {}", show_pkt(&u)) }, f)
}

struct Seen(parking_lot::Mutex<Vec<RtpPacket>>, tokio::sync::Notify);
#[async_trait::async_trait]
impl RtpReceiverInterceptor for Seen {
    async fn on_packet_received(&self, packet: &RtpPacket, _src: SocketAddr, _local: SocketAddr) -> Option<RtcpPacket> {
        self.0.lock().push(packet.clone()); self.1.notify_one(); None
    }
}

const SENTINEL_SSRC: u32 = 0xFFFF_FFF0;

/// `rtx_loop <apt> <rtx ssrc | -> <initial primary ssrc> <packet> …`
pub fn s_rtx_loop(_run: &mut Run, a: &[&str]) -> (String, Fails) {
    let apt: Vec<(u8, u8)> = list_of(a[0], ';').iter().map(|x| { let (p, q) = x.split_once(':').unwrap(); (p.parse().unwrap(), q.parse().unwrap()) }).collect();
    let rtx_ssrc: Option<u32> = if a[1] == "-" { None } else { Some(a[1].parse().unwrap()) };
    let ssrc0: u32 = a[2].parse().unwrap();
    let pkts: Vec<RtpPacket> = a[3..].iter().map(|t| parse_pkt(t)).collect();
    let mut f: Fails = vec![];
    let addr: SocketAddr = "127.0.0.1:9".parse().unwrap();
    let res = with_rt(|rt| rt.block_on(async {
        let seen = Arc::new(Seen(parking_lot::Mutex::new(vec![]), tokio::sync::Notify::new()));
        let rx = RtpReceiverBuilder::new(rustrtc::MediaKind::Video, ssrc0).interceptor(seen.clone()).build();
        // the order `set_remote_description` uses for a new receiver: RTX SSRC, apt map, then the transport
        if let Some(s) = rtx_ssrc { rx.set_rtx_ssrc(s); }
        rx.set_rtx_apt_map(apt.iter().copied().collect::<HashMap<u8, u8>>());
        let (_stx, srx) = tokio::sync::watch::channel::<Option<rustrtc::transports::ice::IceSocketWrapper>>(None);
        let tr = Arc::new(rustrtc::transports::rtp::RtpTransport::new(rustrtc::transports::ice::conn::IceConn::new(srx, addr, None), false));
        rx.set_transport(tr.clone(), None, None);
        let tx = match rx.packet_tx() { Some(t) => t, None => return Err("no packet channel after set_transport".to_string()) };
        let mut outs: Vec<Option<RtpPacket>> = vec![];
        for p in &pkts {
            let n0 = seen.0.lock().len();
            if tx.send((p.clone(), addr)).await.is_err() { return Err("receiver loop gone".into()); }
            // current-thread runtime: yielding hands the CPU to the receiver's loop task, which handles the packet
            // completely (nothing in its path awaits anything pending) before it waits for the next one
            for _ in 0..16 { tokio::task::yield_now().await; }
            let got: Vec<RtpPacket> = seen.0.lock()[n0..].to_vec();
            if got.len() > 1 { return Err(format!("one packet in, {} out", got.len())); }
            outs.push(got.into_iter().next());
        }
        let latched = rx.ssrc();
        // cross-check of the step boundaries: a sentinel primary packet must come out after everything else, and
        // nothing may have arrived late
        let free_pt = (0..=127u8).find(|p| !apt.iter().any(|(k, _)| k == p)).unwrap_or(0);
        let n1 = seen.0.lock().len();
        let sent = RtpPacket { header: RtpHeader::new(free_pt, 0xFFFF, 0, SENTINEL_SSRC), payload: bytes::Bytes::from_static(b"--"), padding_len: 0 };
        if tx.send((sent, addr)).await.is_err() { return Err("receiver loop gone".into()); }
        let deadline = tokio::time::Instant::now() + std::time::Duration::from_secs(20);
        loop {
            if seen.0.lock().iter().any(|q| q.header.ssrc == SENTINEL_SSRC && q.header.sequence_number == 0xFFFF) { break; }
            if tokio::time::timeout_at(deadline, seen.1.notified()).await.is_err() { return Err("receiver loop did not deliver the sentinel within 20 s".into()); }
        }
        if seen.0.lock().len() != n1 + 1 || n1 != outs.iter().filter(|o| o.is_some()).count() { return Err("a packet was delivered after its step".into()); }
        Ok((outs, latched))
    }));
    let (outs, latched) = match res { Ok(x) => x, Err(e) => { f.push(("codec:rtx:loop-setup".into(), e.clone())); return (format!("setup-error {e}"), f); } };
    // independent bookkeeping of the documented behaviour
    let mut cur = ssrc0;
    for (p, o) in pkts.iter().zip(&outs) {
        let mapped = apt.iter().find(|(k, _)| *k == p.header.payload_type).map(|(_, v)| *v);
        match mapped {
            None if rtx_ssrc != Some(p.header.ssrc) => { if o.as_ref() != Some(p) { f.push(("codec:rtx:loop-primary-not-delivered".into(), show_pkt(p))); } cur = p.header.ssrc; }
            None => if o.is_some() { f.push(("codec:rtx:loop-unmapped-on-rtx-ssrc-delivered".into(), show_pkt(p))); },
            Some(ppt) => {
                if cur != 0 && p.payload.len() >= 2 { match o { None => f.push(("codec:rtx:loop-retransmission-dropped".into(), format!("latched {cur}"))),
                    Some(u) => if !restored_ok(p, u, cur, ppt) { f.push(("codec:rtx:loop-restore".into(), show_pkt(u))); } } }
                else if o.is_some() { f.push(("codec:rtx:loop-unrestorable-delivered".into(), String::new())); }
            }
        }
        if let (Some(_), Some(u)) = (mapped, o) { cur = u.header.ssrc; }
    }
    // the loop latches the SSRC of whatever it passed on
    if latched != cur { f.push(("codec:rtx:loop-latch".into(), format!("{latched} vs {cur}"))); }
    let out = outs.iter().map(|o| match o { None => "none".to_string(), Some(u) => show_pkt(u) }).collect::<Vec<_>>().join(" ");
    (format!("{out} #{latched}"), f)
}

/// `rtx_sender <primary pt> <rtx pt>`: the SENDER side of the negotiation — `add_track` + `create_offer` with a video capability
/// that enables RTX; what `build_description` hands to `RtpSender::set_rtx` must be the RTX association the local SDP announces
pub fn s_rtx_sender(_run: &mut Run, a: &[&str]) -> (String, Fails) {
    let (ppt, rtx_pt): (u8, u8) = (a[0].parse().unwrap(), a[1].parse().unwrap());
    let mut f: Fails = vec![];
    let r = with_rt(|rt| rt.block_on(async {
        let mut cfg = rustrtc::RtcConfiguration::default();
        let mut v = rustrtc::config::VideoCapability::vp8_with_rtx(rtx_pt); v.payload_type = ppt;
        cfg.media_capabilities = Some(rustrtc::config::MediaCapabilities { audio: vec![], video: vec![v], application: None, image: vec![] });
        let pc = rustrtc::PeerConnection::new(cfg);
        let (_src, track, _) = rustrtc::media::track::sample_track(rustrtc::media::frame::MediaKind::Video, 8);
        let params = rustrtc::peer_connection::RtpCodecParameters { payload_type: ppt, name: "VP8".into(), clock_rate: 90000, channels: 0 };
        let sender = match pc.add_track(track, params) { Ok(s) => s, Err(e) => return Err(format!("add-track:{e:?}")) };
        let offer = match pc.create_offer().await { Ok(o) => o, Err(e) => return Err(format!("create-offer:{e:?}")) };
        let cfg = sender.interceptors().iter().find_map(|i| i.clone().as_sender_nack_handler()).and_then(|h| h.rtx_config());
        let sdp = offer.to_sdp_string();
        pc.close();
        Ok((cfg, sdp))
    }));
    let (cfg, sdp) = match r { Ok(x) => x, Err(e) => { f.push(("codec:rtx:sender-setup".into(), e.clone())); return (format!("setup-error {e}"), f); } };
    // read the local description like a peer would (RFC 4588 §8.6, RFC 5576 §4.2)
    let mut assoc: Option<u8> = None; let mut fid: Option<(u32, u32)> = None;
    for l in sdp.lines() {
        if let Some(v) = l.strip_prefix("a=fmtp:") { if let Some((pt, rest)) = v.split_once(' ') { if let (Ok(pt), Some(Some(p))) = (pt.parse::<u8>(), super::spec_apt_pub(rest)) { if p == ppt { assoc = Some(pt); } } } }
        if let Some(v) = l.strip_prefix("a=ssrc-group:FID ") { let w: Vec<&str> = v.split_whitespace().collect(); if w.len() == 2 { if let (Ok(p), Ok(r)) = (w[0].parse(), w[1].parse()) { fid = Some((p, r)); } } }
    }
    match (assoc, cfg) {
        (Some(pt), Some(c)) => { if c.rtx_payload_type != pt { f.push(("codec:rtx:sender-rtx-pt".into(), format!("retransmissions would carry PT {}, the offer says a=fmtp:{pt} apt={ppt}", c.rtx_payload_type))); }
            if fid.map(|x| x.1) != Some(c.rtx_ssrc) { f.push(("codec:rtx:sender-rtx-ssrc".into(), format!("{:?} vs FID {:?}", c.rtx_ssrc, fid))); } }
        (Some(pt), None) => f.push(("codec:rtx:sender-rtx-not-configured".into(), format!("offer announces a=fmtp:{pt} apt={ppt}"))),
        (None, Some(c)) => f.push(("codec:rtx:sender-rtx-unannounced".into(), format!("{c:?}"))),
        (None, None) => {}
    }
    (match cfg { None => "none".into(), Some(c) => format!("some:{}", c.rtx_payload_type) }, f)
}
