//! Generators for C15: logical RTP / RTCP packets from the repo's own types with boundary pools,
//! header-extension blocks (well-formed and malformed), byte-level mutations.
use crate::Rng;
use bytes::Bytes;
use rustrtc::rtp::*;

#[macro_export]
macro_rules! pk { ($r:expr, [$($x:expr),* $(,)?]) => {{ let arr = [$($x),*]; *$r.pick(&arr) }} }

pub const U32_POOL: [u32; 8] = [0, 1, 0x7FFF_FFFF, 0x8000_0000, 0xFFFF_FFFF, 0x1234_5678, 0x00FF_00FF, 0xFF00_0001];
pub fn g32(r: &mut Rng) -> u32 { if r.chance(1, 3) { *r.pick(&U32_POOL) } else { r.next() as u32 } }
pub fn g16(r: &mut Rng) -> u16 { if r.chance(1, 3) { pk!(r, [0u16, 1, 0x7FFF, 0x8000, 0xFFFF, 0xFFFE]) } else { r.next() as u16 } }
pub fn g8(r: &mut Rng) -> u8 { if r.chance(1, 3) { pk!(r, [0u8, 1, 0x7F, 0x80, 0xFF]) } else { r.next() as u8 } }

/// RFC 8285 one-byte-header block: elements (id 1..14, len 1..16), optional padding between, aligned
pub fn one_byte_block(r: &mut Rng) -> (Vec<u8>, Vec<(u8, Vec<u8>)>) {
    let n = r.below(5) as usize;
    let mut out = vec![]; let mut elems: Vec<(u8, Vec<u8>)> = vec![];
    for _ in 0..n {
        let id = r.range(1, 14) as u8;
        let len = pk!(r, [1usize, 1, 2, 3, 4, 8, 16, r.range(1, 16) as usize]);
        let data = r.bytes(len);
        if r.chance(1, 5) { for _ in 0..r.below(3) { out.push(0); } }
        out.push((id << 4) | (len as u8 - 1));
        out.extend_from_slice(&data);
        elems.push((id, data));
    }
    while out.len() % 4 != 0 { out.push(0); }
    (out, elems)
}

pub fn two_byte_block(r: &mut Rng) -> (Vec<u8>, Vec<(u8, Vec<u8>)>) {
    let n = r.below(4) as usize;
    let mut out = vec![]; let mut elems = vec![];
    for _ in 0..n {
        let id = pk!(r, [1u8, 2, 14, 15, 16, 255, r.range(1, 255) as u8]);
        let len = pk!(r, [0usize, 1, 2, 17, 40, r.below(20) as usize]);
        let data = r.bytes(len);
        if r.chance(1, 5) { out.push(0); }
        out.push(id); out.push(len as u8); out.extend_from_slice(&data);
        elems.push((id, data));
    }
    while out.len() % 4 != 0 { out.push(0); }
    (out, elems)
}

/// malformed / adversarial one-byte blocks: overrunning elements, id 15, id 0 with a length, garbage
pub fn bad_block(r: &mut Rng) -> Vec<u8> {
    match r.below(7) {
        0 => { let n = r.below(24) as usize; r.bytes(n) }
        1 => { let (mut b, _) = one_byte_block(r); let k = r.below(b.len() as u64 + 1) as usize; b.truncate(k); b }
        2 => { let (mut b, _) = one_byte_block(r); let k = r.below(b.len() as u64 + 1) as usize; b.insert(k, 0xF0 | r.below(16) as u8); b }
        3 => { let (mut b, _) = one_byte_block(r); let k = r.below(b.len() as u64 + 1) as usize; b.insert(k, r.range(1, 15) as u8); b }
        4 => vec![0x1F, 0, 0, 0],
        5 => { let (mut b, _) = one_byte_block(r); b.push((r.range(1, 14) as u8) << 4 | 0x0F); let k = r.below(16) as usize; b.extend(r.bytes(k)); b }
        _ => { let (mut b, _) = one_byte_block(r); if !b.is_empty() { let k = r.below(b.len() as u64) as usize; b[k] ^= 1 << r.below(8); } b }
    }
}

pub fn payload(r: &mut Rng) -> Vec<u8> {
    let n = pk!(r, [0usize, 1, 2, 3, 4, 5, 12, 33, 160, r.below(64) as usize, r.below(64) as usize]);
    let n = if r.chance(1, 60) { 1200 } else { n };
    r.bytes(n)
}

/// `valid` = inside the ranges `RtpPacket::marshal` accepts and the wire can carry
pub fn rtp_packet(r: &mut Rng, valid: bool) -> RtpPacket {
    let pt = if valid || r.chance(1, 2) { pk!(r, [0u8, 96, 111, 127, r.below(128) as u8]) } else { pk!(r, [128u8, 200, 255]) };
    let mut h = RtpHeader::new(pt, g16(r), g32(r), g32(r));
    h.marker = r.chance(1, 2);
    let ncs = if valid { pk!(r, [0usize, 0, 0, 1, 2, 15, r.below(16) as usize]) } else { pk!(r, [0usize, 1, 15, 16, 17, 31, 32]) };
    h.csrcs = (0..ncs).map(|_| g32(r)).collect();
    h.extension = match r.below(10) {
        0..=3 => None,
        4 | 5 => Some(RtpHeaderExtension::new(0xBEDE, one_byte_block(r).0)),
        6 => Some(RtpHeaderExtension::new(0x1000, two_byte_block(r).0)),
        7 => Some(RtpHeaderExtension::new(pk!(r, [0u16, 0x1234, 0x1001, 0xFFFF]), { let n = 4 * r.below(6) as usize; r.bytes(n) })),
        8 => Some(RtpHeaderExtension::new(0xBEDE, { let mut b = bad_block(r); while b.len() % 4 != 0 { b.push(0); } b })),
        _ => Some(RtpHeaderExtension::new(pk!(r, [0xBEDEu16, 0x4321]), { let n = pk!(r, [0usize, 4, 252, 1020, 1024, 1028, 2048, 4 * 300]); let mut b = r.bytes(n); for x in b.iter_mut().step_by(3) { *x &= 0x0F; } b })),
    };
    if !valid && r.chance(1, 2) {
        let n = pk!(r, [1usize, 2, 3, 5, 7]);
        h.extension = Some(RtpHeaderExtension::new(0xBEDE, r.bytes(n)));
    }
    let pad = if r.chance(3, 5) { 0 } else { pk!(r, [1u8, 2, 4, 255, r.range(1, 255) as u8]) };
    RtpPacket { header: h, payload: Bytes::from(payload(r)), padding_len: pad }
}

/// byte-level mutations of a valid encoding
pub fn mutate(r: &mut Rng, b: &[u8]) -> Vec<u8> {
    let mut v = b.to_vec();
    match r.below(6) {
        0 => { let k = r.below(v.len() as u64 + 1) as usize; v.truncate(k); }
        1 => if !v.is_empty() { let k = r.below(v.len() as u64) as usize; v[k] ^= 1 << r.below(8); }
        2 => if !v.is_empty() { let k = r.below(v.len().min(20) as u64) as usize; v[k] = pk!(r, [0u8, 1, 0x7F, 0x80, 0xFF, 0x20, 0x10]); }
        3 => { let n = r.below(6) as usize + 1; v.extend(r.bytes(n)); }
        4 => if v.len() >= 4 { let k = pk!(r, [2usize, 3]); v[k] = v[k].wrapping_add(pk!(r, [1u8, 0xFF, 2])); }
        _ => if !v.is_empty() { v[0] ^= pk!(r, [0x20u8, 0x10, 0x40, 0x80, 0x0F, 0x01]); }
    }
    v
}

// ------------------------------------------------------------------------------------------ RTCP

pub const LOST_POOL: [i32; 12] = [0, 1, -1, 8_388_607, -8_388_608, 8_388_608, -8_388_609, i32::MAX, i32::MIN, 65_536, -65_536, 12345];

pub fn block(r: &mut Rng, in_range: bool) -> ReportBlock {
    let lost = loop {
        let v = if r.chance(2, 3) { *r.pick(&LOST_POOL) } else { (r.next() as i32) >> r.below(24) };
        if !in_range || (-8_388_608..=8_388_607).contains(&v) { break v; }
    };
    ReportBlock { ssrc: g32(r), fraction_lost: g8(r), packets_lost: lost, highest_sequence: g32(r), jitter: g32(r),
        last_sender_report: g32(r), delay_since_last_sender_report: g32(r) }
}

fn count(r: &mut Rng, in_range: bool) -> usize {
    if in_range { pk!(r, [0usize, 1, 1, 2, 3, 31, r.below(5) as usize]) } else { pk!(r, [32usize, 33, 40, 1, 31]) }
}

const CHARS: [&str; 8] = ["a", "Z", "@", "é", "ß", "漢", "😀", " "];
/// UTF-8 text of exactly `n` bytes when possible (multi-byte characters at the end / the cut)
pub fn text(r: &mut Rng, n: usize) -> String {
    let mut s = String::new();
    while s.len() < n {
        let c = *r.pick(&CHARS);
        if s.len() + c.len() <= n { s.push_str(c); } else { s.push('x'); }
    }
    s
}
pub fn text_len(r: &mut Rng, in_range: bool) -> usize {
    if in_range { pk!(r, [0usize, 1, 2, 9, 16, 254, 255, r.below(40) as usize, r.below(40) as usize]) }
    else { pk!(r, [256usize, 257, 300, 512, 255, 3]) }
}

pub fn rtcp_packet(r: &mut Rng, kind: u64, in_range: bool) -> RtcpPacket {
    match kind {
        0 => RtcpPacket::SenderReport(SenderReport { sender_ssrc: g32(r), ntp_most: g32(r), ntp_least: g32(r), rtp_timestamp: g32(r),
            packet_count: g32(r), octet_count: g32(r), report_blocks: (0..count(r, in_range)).map(|_| block(r, in_range)).collect() }),
        1 => RtcpPacket::ReceiverReport(ReceiverReport { sender_ssrc: g32(r),
            report_blocks: (0..count(r, in_range)).map(|_| block(r, in_range)).collect() }),
        2 => {
            let nch = if in_range { pk!(r, [0usize, 1, 1, 1, 2, 3, 31]) } else { pk!(r, [1usize, 2, 32, 33]) };
            let mut chunks = vec![];
            for _ in 0..nch {
                let ni = pk!(r, [0usize, 1, 1, 2, 3]);
                let items = (0..ni).map(|_| {
                    let ty = if in_range { pk!(r, [1u8, 1, 2, 3, 6, 8, 9, 255]) } else { pk!(r, [1u8, 2, 8, 0, 0]) };
                    let n = if nch > 4 { r.below(6) as usize } else { text_len(r, in_range) };
                    SdesItem { ty, text: text(r, n) } }).collect();
                chunks.push(SdesChunk { ssrc: g32(r), items });
            }
            RtcpPacket::SourceDescription(SourceDescription { chunks })
        }
        3 => {
            let ns = count(r, in_range);
            let reason = match r.below(4) { 0 => None, 1 => Some(String::new()), _ => { let n = text_len(r, in_range); Some(text(r, n)) } };
            RtcpPacket::Goodbye(Goodbye { sources: (0..ns).map(|_| g32(r)).collect(), reason })
        }
        4 => RtcpPacket::PictureLossIndication(PictureLossIndication { sender_ssrc: g32(r), media_ssrc: g32(r) }),
        5 => { let n = pk!(r, [0usize, 1, 2, 3, 40]);
            RtcpPacket::FullIntraRequest(FullIntraRequest { sender_ssrc: g32(r),
                requests: (0..n).map(|_| FirRequest { ssrc: g32(r), sequence_number: g8(r) }).collect() }) }
        6 => RtcpPacket::GenericNack(GenericNack { sender_ssrc: g32(r), media_ssrc: g32(r), lost_packets: nack_set(r, in_range) }),
        7 => {
            let br = if in_range {
                let m = pk!(r, [0u64, 1, 0x3FFFF, 0x20000, 0x2AAAA, r.below(0x40000)]);
                let e = if m == 0 { 0 } else { r.below(m.leading_zeros() as u64 + 1) };
                m << e
            } else { pk!(r, [0x40001u64, 0x7FFFF, u64::MAX, (1 << 63) | 1, 750_001, 0xFFFFF]) };
            let ns = if in_range { pk!(r, [0usize, 1, 2, 3, 255]) } else { pk!(r, [1usize, 255, 256, 300]) };
            RtcpPacket::RemoteBitrateEstimate(RemoteBitrateEstimate { sender_ssrc: g32(r), bitrate_bps: br, ssrcs: (0..ns).map(|_| g32(r)).collect() })
        }
        _ => {
            let n = if in_range { pk!(r, [0usize, 4, 8, 1, 2, 3, 5, 7, 13, 20]) } else { r.below(9) as usize };
            let rt = if in_range { pk!(r, [0u32, 1, 0x00FF_FFFF, 0x0080_0000, (r.next() as u32) & 0x00FF_FFFF]) }
                     else { pk!(r, [0x0100_0000u32, 0xFFFF_FFFF, 5]) };
            RtcpPacket::TransportWideCc(TransportWideCc { sender_ssrc: g32(r), media_ssrc: g32(r), base_sequence: g16(r),
                packet_status_count: g16(r), reference_time_64ms: rt, feedback_packet_count: g8(r), payload: r.bytes(n) })
        }
    }
}

/// NACK lost lists: windows around the wrap, bursts, duplicates, unsorted input
pub fn nack_set(r: &mut Rng, in_range: bool) -> Vec<u16> {
    if !in_range && r.chance(1, 2) { return vec![]; }
    let base = pk!(r, [65_520u16, 65_535, 0, 100, 32_760, r.next() as u16]);
    let n = pk!(r, [1usize, 2, 3, 5, 17, 18, 40, r.below(30) as usize + 1]);
    let span = pk!(r, [1u64, 2, 16, 17, 18, 40, 300]);
    let mut v: Vec<u16> = (0..n).map(|_| base.wrapping_add(r.below(span * n as u64 / 2 + 1) as u16)).collect();
    if r.chance(1, 4) { let x = v[0]; v.push(x); }
    if r.chance(1, 4) { v.push(base.wrapping_add(16)); v.push(base.wrapping_add(17)); v.push(base); }
    v
}
