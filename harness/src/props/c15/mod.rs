//! C15 — RTP / RTCP codecs are mutually inverse and standards-conformant.
//! Drives the real `rustrtc::rtp`, `rustrtc::rtx` and the NACK helpers of `peer_connection`, writes
//! one case per line for the Lean model (`RtcModel.C15*`), and evaluates the property's own oracles
//! on the implementation: round trips, semantic stability, framing integrity, extension get/set laws,
//! NACK set preservation, RTX restore (hook, SDP path, run loop), RFC field offsets in both directions, RTCP padding
//! transparency — plus agreement with the webrtc-rs `rtp` / `rtcp` crates.
pub mod gens;
pub mod nackh;
pub mod refc;
pub mod rtxrx;
pub mod text;

use crate::pk;
use crate::{Args, Rng, Run, catch, hex, unhex};
use bytes::Bytes;
use rustrtc::rtp::*;
use text::*;

pub type Fails = Vec<(String, String)>;

fn kind(p: &RtcpPacket) -> &'static str {
    match p {
        RtcpPacket::SenderReport(_) => "sr", RtcpPacket::ReceiverReport(_) => "rr", RtcpPacket::SourceDescription(_) => "sdes",
        RtcpPacket::Goodbye(_) => "bye", RtcpPacket::PictureLossIndication(_) => "pli", RtcpPacket::FullIntraRequest(_) => "fir",
        RtcpPacket::GenericNack(_) => "nack", RtcpPacket::RemoteBitrateEstimate(_) => "remb", RtcpPacket::TransportWideCc(_) => "twcc",
    }
}

// ------------------------------------------------------------------------------------------------
// the property's field ranges (written from the property text / RFCs, not from the code)

fn lost_in_range(b: &ReportBlock) -> bool { (-(1 << 23)..(1 << 23)).contains(&b.packets_lost) }

fn remb_representable(v: u64) -> bool {
    if v == 0 { return true; }
    let bits = 64 - v.leading_zeros();
    bits <= 18 || v.trailing_zeros() >= bits - 18
}

/// None = inside the ranges of the property; Some(class) = first range that is exceeded
pub fn range_class(p: &RtcpPacket) -> Option<&'static str> {
    match p {
        RtcpPacket::SenderReport(SenderReport { report_blocks: b, .. }) | RtcpPacket::ReceiverReport(ReceiverReport { report_blocks: b, .. }) => {
            if b.len() > 31 { Some("blocks>31") } else if !b.iter().all(lost_in_range) { Some("lost-outside-24bit") } else { None } }
        RtcpPacket::SourceDescription(s) => {
            if s.chunks.len() > 31 { Some("chunks>31") }
            else if s.chunks.iter().any(|c| c.items.iter().any(|i| i.ty == 0)) { Some("item-type-0") }
            else if s.chunks.iter().any(|c| c.items.iter().any(|i| i.text.len() > 255)) { Some("text>255") } else { None } }
        RtcpPacket::Goodbye(b) => {
            if b.sources.len() > 31 { Some("sources>31") } else if b.reason.as_ref().map_or(false, |r| r.len() > 255) { Some("reason>255") } else { None } }
        RtcpPacket::PictureLossIndication(_) | RtcpPacket::FullIntraRequest(_) => None,
        RtcpPacket::GenericNack(n) => if n.lost_packets.is_empty() { Some("empty") } else { None },
        RtcpPacket::RemoteBitrateEstimate(r) => {
            if r.ssrcs.len() > 255 { Some("ssrcs>255") } else if !remb_representable(r.bitrate_bps) { Some("bitrate-not-representable") } else { None } }
        RtcpPacket::TransportWideCc(t) => {
            // (the opaque status/delta payload may have any length: the packet is aligned with RTCP padding)
            if t.reference_time_64ms >= 1 << 24 { Some("reftime>24bit") } else { None } }
    }
}

fn align4(n: usize) -> usize { (n + 3) & !3 }

/// Independent statement of what serialising then parsing must do to one logical packet, written from the
/// RFC field widths: `Err(class)` = the value cannot be put on the wire (the marshaller must refuse it),
/// `Ok(q)` = it can, and `q` must come back: the packet itself, except for the three lossy fields the
/// formats define — cumulative loss saturates at 24-bit signed (RFC 3550 §6.4.1), a REMB bitrate keeps its
/// 18 most significant bits (mantissa/exponent), a NACK is the ascending set of its sequence numbers, a TWCC
/// reference time is a 24-bit counter that wraps — and a BYE reason, which this stack cuts to the longest
/// prefix of whole characters that fits 255 bytes.
pub fn spec_roundtrip(p: &RtcpPacket) -> Result<RtcpPacket, &'static str> {
    const MAX_BODY: usize = 65_535 * 4;
    let sat = |b: &ReportBlock| ReportBlock { packets_lost: b.packets_lost.clamp(-(1 << 23), (1 << 23) - 1), ..b.clone() };
    match p {
        RtcpPacket::SenderReport(s) => { if s.report_blocks.len() > 31 { return Err("blocks>31"); }
            Ok(RtcpPacket::SenderReport(SenderReport { report_blocks: s.report_blocks.iter().map(sat).collect(), ..s.clone() })) }
        RtcpPacket::ReceiverReport(s) => { if s.report_blocks.len() > 31 { return Err("blocks>31"); }
            Ok(RtcpPacket::ReceiverReport(ReceiverReport { report_blocks: s.report_blocks.iter().map(sat).collect(), ..s.clone() })) }
        RtcpPacket::SourceDescription(s) => {
            if s.chunks.len() > 31 { return Err("chunks>31"); }
            let mut size = 0;
            for c in &s.chunks { let mut n = 4; for i in &c.items {
                if i.ty == 0 { return Err("item-type-0"); } if i.text.len() > 255 { return Err("text>255"); } n += 2 + i.text.len(); }
                size += align4(n + 1); }
            if size > MAX_BODY { return Err("body-too-long"); }
            Ok(p.clone()) }
        RtcpPacket::Goodbye(b) => { if b.sources.len() > 31 { return Err("sources>31"); }
            Ok(RtcpPacket::Goodbye(Goodbye { sources: b.sources.clone(), reason: b.reason.as_ref().map(|r| {
                let mut n = r.len().min(255); while !r.is_char_boundary(n) { n -= 1; } r[..n].to_string() }) })) }
        RtcpPacket::PictureLossIndication(_) => Ok(p.clone()),
        RtcpPacket::FullIntraRequest(f) => if 8 + 8 * f.requests.len() > MAX_BODY { Err("body-too-long") } else { Ok(p.clone()) },
        RtcpPacket::GenericNack(n) => { if n.lost_packets.is_empty() { return Err("empty"); } Ok(norm(p)) }
        RtcpPacket::RemoteBitrateEstimate(r) => { if r.ssrcs.len() > 255 { return Err("ssrcs>255"); }
            let bits = 64 - r.bitrate_bps.leading_zeros(); let e = bits.saturating_sub(18);
            Ok(RtcpPacket::RemoteBitrateEstimate(RemoteBitrateEstimate { bitrate_bps: (r.bitrate_bps >> e) << e, ..r.clone() })) }
        // the reference time is a wrapping 24-bit counter of 64 ms ticks: a wider count goes out modulo 2^24
        RtcpPacket::TransportWideCc(t) => { if align4(16 + t.payload.len()) > MAX_BODY { return Err("body-too-long"); }
            Ok(RtcpPacket::TransportWideCc(TransportWideCc { reference_time_64ms: t.reference_time_64ms & 0x00FF_FFFF, ..t.clone() })) }
    }
}

fn be32(b: &[u8], i: usize) -> u32 { u32::from_be_bytes([b[i], b[i + 1], b[i + 2], b[i + 3]]) }
fn be16(b: &[u8], i: usize) -> u16 { u16::from_be_bytes([b[i], b[i + 1]]) }

/// RFC conformance of ONE serialised packet, read by absolute octet offsets from the packet diagrams
/// (RFC 3550 §6.4/§6.6, RFC 4585 §6.1-6.3, RFC 5104 §4.3.1.1, REMB draft §2, TWCC draft §3.1) —
/// independent of the stack's own parser, so a field the builder and the parser misplace *in the same way*
/// (or a reserved word that is not zero) is still seen. `want` is the canonical packet (`spec_roundtrip`).
pub fn rfc_layout(want: &RtcpPacket, b: &[u8]) -> Option<String> {
    if b.len() < 4 || b.len() % 4 != 0 { return Some("length not a multiple of 4".into()); }
    if b[0] >> 6 != 2 { return Some("version".into()); }
    if be16(b, 2) as usize != b.len() / 4 - 1 { return Some("length field".into()); }
    let (p, cnt, pt) = (b[0] & 0x20 != 0, (b[0] & 0x1F) as usize, b[1]);
    let blk = |o: usize, r: &ReportBlock| -> bool {
        be32(b, o) == r.ssrc && b[o + 4] == r.fraction_lost
            && (((b[o + 5] as i32) << 16 | (b[o + 6] as i32) << 8 | b[o + 7] as i32) << 8 >> 8) == r.packets_lost
            && be32(b, o + 8) == r.highest_sequence && be32(b, o + 12) == r.jitter && be32(b, o + 16) == r.last_sender_report
            && be32(b, o + 20) == r.delay_since_last_sender_report };
    let bad = |w: &str| Some(w.to_string());
    match want {
        RtcpPacket::SenderReport(s) => {
            if pt != 200 || p || cnt != s.report_blocks.len() || b.len() != 28 + 24 * cnt { return bad("sr header"); }
            if be32(b, 4) != s.sender_ssrc || be32(b, 8) != s.ntp_most || be32(b, 12) != s.ntp_least || be32(b, 16) != s.rtp_timestamp
                || be32(b, 20) != s.packet_count || be32(b, 24) != s.octet_count { return bad("sr sender info"); }
            if !s.report_blocks.iter().enumerate().all(|(i, r)| blk(28 + 24 * i, r)) { return bad("sr report block"); } }
        RtcpPacket::ReceiverReport(s) => {
            if pt != 201 || p || cnt != s.report_blocks.len() || b.len() != 8 + 24 * cnt || be32(b, 4) != s.sender_ssrc { return bad("rr header"); }
            if !s.report_blocks.iter().enumerate().all(|(i, r)| blk(8 + 24 * i, r)) { return bad("rr report block"); } }
        RtcpPacket::SourceDescription(s) => {
            if pt != 202 || p || cnt != s.chunks.len() { return bad("sdes header"); }
            let mut o = 4;
            for c in &s.chunks {
                if o + 4 > b.len() || be32(b, o) != c.ssrc { return bad("sdes chunk ssrc"); } o += 4;
                for i in &c.items { if o + 2 + i.text.len() > b.len() || b[o] != i.ty || b[o + 1] as usize != i.text.len() || &b[o + 2..o + 2 + i.text.len()] != i.text.as_bytes() { return bad("sdes item"); } o += 2 + i.text.len(); }
                let end = (o + 4) & !3;      // at least one null octet, then nulls up to the boundary
                if end > b.len() || b[o..end].iter().any(|x| *x != 0) { return bad("sdes chunk terminator / padding"); } o = end; }
            if o != b.len() { return bad("sdes trailing octets"); } }
        RtcpPacket::Goodbye(g) => {
            if pt != 203 || p || cnt != g.sources.len() || b.len() < 4 + 4 * cnt { return bad("bye header"); }
            if !g.sources.iter().enumerate().all(|(i, x)| be32(b, 4 + 4 * i) == *x) { return bad("bye sources"); }
            let o = 4 + 4 * cnt;
            match &g.reason { None => if b.len() != o { return bad("bye: octets after the sources"); },
                Some(r) => { if o + 1 + r.len() > b.len() || b[o] as usize != r.len() || &b[o + 1..o + 1 + r.len()] != r.as_bytes()
                    || b[o + 1 + r.len()..].iter().any(|x| *x != 0) || b.len() != (o + 1 + r.len() + 3) & !3 { return bad("bye reason"); } } } }
        RtcpPacket::PictureLossIndication(x) => if pt != 206 || p || cnt != 1 || b.len() != 12 || be32(b, 4) != x.sender_ssrc || be32(b, 8) != x.media_ssrc { return bad("pli"); },
        RtcpPacket::FullIntraRequest(f) => {
            if pt != 206 || p || cnt != 4 || b.len() != 12 + 8 * f.requests.len() || be32(b, 4) != f.sender_ssrc { return bad("fir header"); }
            if be32(b, 8) != 0 { return bad("fir: media source SSRC must be 0 (RFC 5104 §4.3.1.2)"); }
            for (i, r) in f.requests.iter().enumerate() { let o = 12 + 8 * i;
                if be32(b, o) != r.ssrc || b[o + 4] != r.sequence_number { return bad("fir entry"); }
                if b[o + 5..o + 8] != [0, 0, 0] { return bad("fir: reserved octets must be 0"); } } }
        RtcpPacket::GenericNack(n) => {
            if pt != 205 || p || cnt != 1 || b.len() < 16 || be32(b, 4) != n.sender_ssrc || be32(b, 8) != n.media_ssrc { return bad("nack header"); }
            let mut set = vec![];
            for k in 0..(b.len() - 12) / 4 { let (pid, blp) = (be16(b, 12 + 4 * k), be16(b, 14 + 4 * k)); set.push(pid);
                for i in 0..16 { if blp >> i & 1 == 1 { set.push(pid.wrapping_add(i + 1)); } } }
            set.sort_unstable(); set.dedup();
            if set != n.lost_packets { return bad("nack FCI does not denote the lost set"); } }
        RtcpPacket::RemoteBitrateEstimate(r) => {
            if pt != 206 || p || cnt != 15 || b.len() != 20 + 4 * r.ssrcs.len() || be32(b, 4) != r.sender_ssrc { return bad("remb header"); }
            if be32(b, 8) != 0 { return bad("remb: media source SSRC must be 0"); }
            if &b[12..16] != b"REMB" || b[16] as usize != r.ssrcs.len() { return bad("remb identifier / count"); }
            let (e, m) = ((b[17] >> 2) as u32, ((b[17] as u64 & 3) << 16) | (b[18] as u64) << 8 | b[19] as u64);
            if (m as u128) << e != r.bitrate_bps as u128 { return bad("remb mantissa/exponent"); }
            if !r.ssrcs.iter().enumerate().all(|(i, x)| be32(b, 20 + 4 * i) == *x) { return bad("remb ssrcs"); } }
        RtcpPacket::TransportWideCc(t) => {
            let pad = if p { b[b.len() - 1] as usize } else { 0 };
            if pt != 205 || cnt != 15 || b.len() < 20 + pad || (p && pad == 0) || (!p && (16 + t.payload.len()) % 4 != 0) { return bad("twcc header / padding"); }
            if be32(b, 4) != t.sender_ssrc || be32(b, 8) != t.media_ssrc || be16(b, 12) != t.base_sequence || be16(b, 14) != t.packet_status_count
                || (be32(b, 16) >> 8) != t.reference_time_64ms || b[19] != t.feedback_packet_count { return bad("twcc fixed fields"); }
            if b[20..b.len() - pad] != t.payload[..] { return bad("twcc payload"); }
            if pad > 3 { return bad("twcc: more padding than needed"); } }
    }
    None
}

/// The PARSE direction against the RFC diagrams: `p` is what the stack's parser returned for the single packet `b`
/// (any bytes a peer may send — reserved fields, trailing octets and padding are not judged); every field of `p` must
/// be what the RFC puts at that octet offset. Independent of the stack's parser and of the Lean model.
pub fn rfc_fields_of_parsed(p: &RtcpPacket, b: &[u8]) -> Option<String> {
    let pad = if b[0] & 0x20 != 0 { b[b.len() - 1] as usize } else { 0 };
    // (a packet whose P bit is set and whose count octet is 0 or exceeds the body is invalid: RFC 3550 §6.4.1 / App. A.2)
    if b[0] & 0x20 != 0 && (pad == 0 || pad > b.len() - 4) { return Some("parsed although the padding count is invalid".into()); }
    let end = b.len() - pad;                       // content ends here
    let cnt = (b[0] & 0x1F) as usize;
    let bad = |w: &str| Some(w.to_string());
    let s24 = |o: usize| (((b[o] as i32) << 16 | (b[o + 1] as i32) << 8 | b[o + 2] as i32) << 8) >> 8;
    let blk = |o: usize, r: &ReportBlock| be32(b, o) == r.ssrc && b[o + 4] == r.fraction_lost && s24(o + 5) == r.packets_lost && be32(b, o + 8) == r.highest_sequence
        && be32(b, o + 12) == r.jitter && be32(b, o + 16) == r.last_sender_report && be32(b, o + 20) == r.delay_since_last_sender_report;
    match p {
        RtcpPacket::SenderReport(s) => {
            if b[1] != 200 || s.report_blocks.len() != cnt || end < 28 + 24 * cnt { return bad("sr header"); }
            if be32(b, 4) != s.sender_ssrc || be32(b, 8) != s.ntp_most || be32(b, 12) != s.ntp_least || be32(b, 16) != s.rtp_timestamp || be32(b, 20) != s.packet_count || be32(b, 24) != s.octet_count { return bad("sr sender info"); }
            if !s.report_blocks.iter().enumerate().all(|(i, r)| blk(28 + 24 * i, r)) { return bad("sr report block"); } }
        RtcpPacket::ReceiverReport(s) => {
            if b[1] != 201 || s.report_blocks.len() != cnt || end < 8 + 24 * cnt || be32(b, 4) != s.sender_ssrc { return bad("rr header"); }
            if !s.report_blocks.iter().enumerate().all(|(i, r)| blk(8 + 24 * i, r)) { return bad("rr report block"); } }
        RtcpPacket::SourceDescription(s) => {
            if b[1] != 202 || s.chunks.len() != cnt { return bad("sdes header"); }
            let mut o = 4;
            for c in &s.chunks {
                if o + 4 > end || be32(b, o) != c.ssrc { return bad("sdes chunk ssrc"); } o += 4;
                for i in &c.items { if o + 2 > end || b[o] != i.ty || o + 2 + b[o + 1] as usize > end { return bad("sdes item header"); }
                    let l = b[o + 1] as usize; if String::from_utf8_lossy(&b[o + 2..o + 2 + l]) != i.text { return bad("sdes item text"); } o += 2 + l; }
                // the item list ends at a null octet (or at the end of the packet); the next chunk starts on a 32-bit boundary
                if o < end { if b[o] != 0 { return bad("sdes: items after the last returned one"); } o = (o + 4) & !3; } } }
        RtcpPacket::Goodbye(g) => {
            if b[1] != 203 || g.sources.len() != cnt || end < 4 + 4 * cnt { return bad("bye header"); }
            if !g.sources.iter().enumerate().all(|(i, x)| be32(b, 4 + 4 * i) == *x) { return bad("bye sources"); }
            let o = 4 + 4 * cnt;
            match &g.reason { None => if o != end { return bad("bye: reason present on the wire"); },
                Some(r) => if o >= end || o + 1 + b[o] as usize > end || String::from_utf8_lossy(&b[o + 1..o + 1 + b[o] as usize]) != *r { return bad("bye reason"); } } }
        RtcpPacket::PictureLossIndication(x) => if b[1] != 206 || cnt != 1 || end < 12 || be32(b, 4) != x.sender_ssrc || be32(b, 8) != x.media_ssrc { return bad("pli"); },
        RtcpPacket::FullIntraRequest(f) => {
            if b[1] != 206 || cnt != 4 || end < 12 || be32(b, 4) != f.sender_ssrc || f.requests.len() != (end - 12) / 8 { return bad("fir header / entry count"); }
            for (i, r) in f.requests.iter().enumerate() { let o = 12 + 8 * i; if be32(b, o) != r.ssrc || b[o + 4] != r.sequence_number { return bad("fir entry"); } } }
        RtcpPacket::GenericNack(n) => {
            if b[1] != 205 || cnt != 1 || end < 12 || be32(b, 4) != n.sender_ssrc || be32(b, 8) != n.media_ssrc { return bad("nack header"); }
            let mut want = vec![];
            for k in 0..(end - 12) / 4 { let (pid, blp) = (be16(b, 12 + 4 * k), be16(b, 14 + 4 * k)); want.push(pid);
                for i in 0..16 { if blp >> i & 1 == 1 { want.push(pid.wrapping_add(i + 1)); } } }
            if want != n.lost_packets { return bad("nack: PID/BLP expansion"); } }
        RtcpPacket::RemoteBitrateEstimate(r) => {
            if b[1] != 206 || cnt != 15 || end < 20 || be32(b, 4) != r.sender_ssrc || &b[12..16] != b"REMB" { return bad("remb header"); }
            let n = b[16] as usize; if end < 20 + 4 * n || r.ssrcs.len() != n || !r.ssrcs.iter().enumerate().all(|(i, x)| be32(b, 20 + 4 * i) == *x) { return bad("remb ssrcs"); }
            let (e, m) = ((b[17] >> 2) as u32, ((b[17] as u64 & 3) << 16) | (b[18] as u64) << 8 | b[19] as u64);
            if ((m as u128) << e) as u64 != r.bitrate_bps { return bad("remb mantissa/exponent"); } }
        RtcpPacket::TransportWideCc(t) => {
            if b[1] != 205 || cnt != 15 || end < 20 { return bad("twcc header"); }
            if be32(b, 4) != t.sender_ssrc || be32(b, 8) != t.media_ssrc || be16(b, 12) != t.base_sequence || be16(b, 14) != t.packet_status_count
                || (be32(b, 16) >> 8) != t.reference_time_64ms || b[19] != t.feedback_packet_count || b[20..end] != t.payload[..] { return bad("twcc fields"); } }
    }
    None
}

/// what a round trip is allowed to change: a NACK is a *set* of sequence numbers
fn norm(p: &RtcpPacket) -> RtcpPacket {
    match p {
        RtcpPacket::GenericNack(n) => { let mut v = n.lost_packets.clone(); v.sort_unstable(); v.dedup();
            RtcpPacket::GenericNack(GenericNack { lost_packets: v, ..n.clone() }) }
        _ => p.clone(),
    }
}

fn rtp_wf(p: &RtpPacket) -> bool {
    p.header.payload_type < 128 && p.header.csrcs.len() <= 15
        && p.header.extension.as_ref().map_or(true, |e| e.data.len() % 4 == 0 && e.data.len() / 4 <= 65535)
}
/// everything outside the wire ranges must be an error (no masking, no truncated length field)
fn rtp_marshalable(p: &RtpPacket) -> bool { rtp_wf(p) }

/// RFC 8285 walk written from the RFC: Some(elements) iff the block is well formed
fn spec_elems(profile: u16, d: &[u8]) -> Option<Vec<(u8, Vec<u8>)>> {
    let mut out = vec![]; let mut i = 0;
    if profile == 0xBEDE {
        while i < d.len() {
            let b = d[i];
            if b == 0 { i += 1; continue; }
            let (id, len) = (b >> 4, (b & 15) as usize + 1);
            if id == 15 { break; }
            if i + 1 + len > d.len() { return None; }
            out.push((id, d[i + 1..i + 1 + len].to_vec())); i += 1 + len;
        }
        Some(out)
    } else if profile & 0xFFF0 == 0x1000 {
        while i < d.len() {
            let id = d[i];
            if id == 0 { i += 1; continue; }
            if i + 1 >= d.len() { return None; }
            let len = d[i + 1] as usize;
            if i + 2 + len > d.len() { return None; }
            out.push((id, d[i + 2..i + 2 + len].to_vec())); i += 2 + len;
        }
        Some(out)
    } else { None }
}

/// The reference (`rtp` 0.17) mishandles the RFC 8285 "stop" id 15 (it leaves the rest of the block in
/// the payload) and panics on overrunning elements; those blocks are outside the comparison.
fn ref_fair_ext(e: &Option<RtpHeaderExtension>) -> bool {
    match e {
        None => true,
        // (the reference knows the two-byte form only as exactly 0x1000)
        Some(x) if (0x1001..=0x100F).contains(&x.profile) => false,
        Some(x) if x.profile != 0xBEDE && x.profile != 0x1000 => true,
        Some(x) => spec_elems(x.profile, &x.data).is_some()
            && !(x.profile == 0xBEDE && has_stop15(&x.data)),
    }
}
fn has_stop15(d: &[u8]) -> bool {
    let mut i = 0;
    while i < d.len() { let b = d[i]; if b == 0 { i += 1; continue; } if b >> 4 == 15 { return true; } i += 2 + (b & 15) as usize; }
    false
}

/// what the reference (`rtcp` 0.17) can represent faithfully: SDES item types 1..8, REMB bitrate ≠ 0
/// (it decodes mantissa 0 as 2^23), TWCC only with a status/delta payload it accepts itself.
fn ref_comparable(p: &RtcpPacket, twcc_ok: bool) -> bool {
    match p {
        RtcpPacket::SourceDescription(s) => s.chunks.iter().all(|c| c.items.iter().all(|i| (1..=8).contains(&i.ty))),
        RtcpPacket::RemoteBitrateEstimate(r) => r.bitrate_bps != 0,
        RtcpPacket::TransportWideCc(_) => twcc_ok,
        _ => true,
    }
}

/// number of records a packet carries (report blocks / chunks+items / sources / FIR entries / SSRCs)
fn cardinality(p: &RtcpPacket) -> Vec<usize> {
    match p {
        RtcpPacket::SenderReport(s) => vec![s.report_blocks.len()],
        RtcpPacket::ReceiverReport(s) => vec![s.report_blocks.len()],
        RtcpPacket::SourceDescription(s) => std::iter::once(s.chunks.len()).chain(s.chunks.iter().map(|c| c.items.len())).collect(),
        RtcpPacket::Goodbye(b) => vec![b.sources.len(), b.reason.is_some() as usize],
        RtcpPacket::FullIntraRequest(f) => vec![f.requests.len()],
        RtcpPacket::RemoteBitrateEstimate(r) => vec![r.ssrcs.len()],
        _ => vec![],
    }
}

// ------------------------------------------------------------------------------------------------
// streams: each takes the canonical input text, returns (implementation output, oracle failures)

fn res_hex(r: Result<Vec<u8>, rustrtc::errors::RtpError>) -> String { match r { Ok(b) => format!("ok {}", hex(&b)), Err(e) => show_err(&e) } }

fn first_diff(a: &RtpPacket, b: &RtpPacket) -> &'static str {
    if a.header.marker != b.header.marker { "marker" } else if a.header.payload_type != b.header.payload_type { "pt" }
    else if a.header.sequence_number != b.header.sequence_number { "seq" } else if a.header.timestamp != b.header.timestamp { "ts" }
    else if a.header.ssrc != b.header.ssrc { "ssrc" } else if a.header.csrcs != b.header.csrcs { "csrc" }
    else if a.header.extension != b.header.extension { "ext" } else if a.payload != b.payload { "payload" }
    else if a.padding_len != b.padding_len { "padding" } else { "?" }
}

pub fn s_rtp_marshal(run: &mut Run, t: &str) -> (String, Fails) {
    let q = parse_pkt(t);
    let mut f = vec![];
    let r = q.marshal();
    if !rtp_marshalable(&q) && r.is_ok() { f.push(("codec:rtp:marshal-accepts-invalid".into(), "PT>127, csrc>15, unaligned or over-long extension accepted".into())); }
    if rtp_wf(&q) {
        match &r {
            Err(e) => f.push(("codec:rtp:marshal-rejects-wellformed".into(), show_err(e))),
            Ok(b) => {
                match RtpPacket::parse(b) {
                    Ok(p) if p == q => {}
                    Ok(p) => f.push((format!("codec:rtp:roundtrip:{}", first_diff(&q, &p)), show_pkt(&p))),
                    Err(e) => f.push(("codec:rtp:roundtrip:unparsable".into(), show_err(&e))),
                }
                let ext_plain = ref_fair_ext(&q.header.extension);
                match refc::ref_parse_rtp(b) {
                    Ok(rp) => { run.count("rtp_ref_parsed");
                        // rustrtc's padding_len is not part of the reference's view; payload is
                        if let Some(d) = refc::cmp_rtp(&q, &rp) { if ext_plain { f.push((format!("codec:rtp:ref-parse:{d}"), format!("{:?}", rp.header))); } } }
                    Err(e) => { run.count("rtp_ref_rejected"); if ext_plain { f.push(("codec:rtp:ref-rejects".into(), e)); } }
                }
            }
        }
    }
    // the bridge fast path `marshal_into` reuses a caller buffer and must produce the same bytes
    // — whatever the buffer held before: shorter than the packet, or (the relay reuses ONE buffer for every packet) longer,
    // left over from a bigger packet
    let mut buf = vec![0xEEu8; 7];
    let q2 = q.clone();
    let into = match catch(move || { q2.marshal_into(&mut buf); buf }) { Ok(b) => b, Err(p) => { f.push(("panic:marshal_into".into(), p)); vec![] } };
    if let Ok(b) = &r { if *b != into { f.push(("codec:rtp:marshal_into-differs".into(), hex(&into))); } }
    { let q3 = q.clone();
      let reused = catch(move || { let mut big = q3.clone(); let mut pl = big.payload.to_vec(); pl.extend([0xEE; 41]); big.payload = Bytes::from(pl);
          let mut buf = Vec::with_capacity(1500); big.marshal_into(&mut buf); q3.marshal_into(&mut buf); buf });
      match reused { Ok(b2) => if b2 != into { f.push(("codec:rtp:marshal_into-keeps-stale-buffer-bytes".into(), format!("{} bytes after a longer packet, {} on a fresh buffer", b2.len(), into.len()))); },
          Err(p) => f.push(("panic:marshal_into".into(), p)) } }
    // … and for a header the wire cannot carry it must not emit a packet that reads as something else
    // (`marshal` refuses these; the fast path has no `validate` — known finding, one signature per field)
    if !rtp_wf(&q) && !into.is_empty() {
        // (class = the violated limit that damages the framing most: CC, then the extension length, then the payload type)
        let class = if q.header.csrcs.len() > 15 { "csrc>15" }
            else if q.header.extension.as_ref().map_or(false, |e| e.data.len() % 4 != 0) { "ext-unaligned" }
            else if q.header.extension.as_ref().map_or(false, |e| e.data.len() / 4 > 65535) { "ext>65535w" } else { "pt>127" };
        match RtpPacket::parse(&into) { Ok(p) if p == q => {}
            Ok(p) => f.push((format!("codec:rtp:marshal_into-masks:{class}"), format!("reads back with a different {}", first_diff(&q, &p)))),
            // (its own signature: output that does not even parse is a different failure from output that reads back differently)
            Err(e) => f.push((format!("codec:rtp:marshal_into-masks:{class}:unparsable"), format!("emits an unparsable packet: {}", show_err(&e)))) }
    }
    // RFC 5761 §4: with the marker bit set, payload types 64..=80 put 192..=208 into the second octet — the stack's own
    // demultiplexer (`is_rtcp`) then takes its own RTP output for RTCP (known finding; theorem `is_rtcp_rtp_iff`)
    // (the range is written here, not taken from the code: anything outside it is a NEW collision with its own signature)
    if let Ok(b) = &r { if is_rtcp(b) {
        let inside = q.header.marker && (64..=80).contains(&q.header.payload_type);
        f.push((if inside { "codec:rtp:rtcp-mux-collision:marker+pt64-80".to_string() } else { format!("codec:rtp:rtcp-mux-collision:outside-marker+pt64-80:m{}pt{}", q.header.marker as u8, q.header.payload_type) },
            format!("M={} PT={}", q.header.marker as u8, q.header.payload_type))); } }
    (format!("{} into:{}", res_hex(r), hex(&into)), f)
}

pub fn s_rtp_parse(run: &mut Run, hx: &str, from_ref: bool) -> (String, Fails) {
    let b = unhex(hx);
    let mut f = vec![];
    let b2 = b.clone();
    let out = match catch(move || RtpPacket::parse(&b2)) {
        Err(p) => { f.push(("panic:rtp_parse".into(), p.clone())); "panic".into() }
        Ok(Err(e)) => { if from_ref { f.push(("codec:rtp:parse-of-ref-bytes:rejected".into(), show_err(&e))); }
            if rfc_must_accept_rtp(&b) { f.push(("codec:rtp:parse-refuses-rfc-valid".into(), show_err(&e))); }
            show_err(&e) }
        Ok(Ok(p)) => {
            let m = p.marshal();
            // `RtpHeader::parse` on a plain slice (the SRTP path) sees the same header and leaves the body unread
            { let mut sl = &b[..];
              match RtpHeader::parse(&mut sl) {
                Ok((h, pad)) => { if h != p.header || pad != (b[0] & 0x20 != 0) || sl.len() != p.payload.len() + p.padding_len as usize {
                    f.push(("codec:rtp:header-parse-differs".into(), format!("{:?} pad={pad} rest={}", h, sl.len()))); } }
                Err(e) => f.push(("codec:rtp:header-parse-differs".into(), show_err(&e))),
              } }
            // canonical wire encoding (padding, if any, written as count bytes) is reproduced byte for byte
            let canonical = b[0] & 0x20 == 0 || (p.padding_len != 0 && b[b.len() - p.padding_len as usize..].iter().all(|x| *x == p.padding_len));
            if canonical { if let Ok(mb) = &m { if *mb != b { f.push(("codec:rtp:bytes-not-reproduced".into(), hex(mb))); } else { run.count("rtp_bytes_reproduced"); } } }
            match &m {
                Err(e) => f.push(("codec:rtp:parsed-not-marshalable".into(), show_err(e))),
                Ok(mb) => match RtpPacket::parse(mb) {
                    Ok(p2) if p2 == p => {}
                    Ok(p2) => f.push((format!("codec:rtp:semantic-stable:{}", first_diff(&p, &p2)), show_pkt(&p2))),
                    Err(e) => f.push(("codec:rtp:semantic-stable:unparsable".into(), show_err(&e))),
                },
            }
            if !ref_fair_ext(&p.header.extension) { run.count("rtp_parse_ref_skipped_malformed_ext"); } else { match refc::ref_parse_rtp(&b) {
                Ok(rp) => match refc::cmp_rtp(&p, &rp) {
                    None => run.count("rtp_parse_agrees_with_ref"),
                    Some(d) => f.push((format!("codec:rtp:{}:{d}", if from_ref { "parse-of-ref-bytes" } else { "ref-disagree" }), format!("{:?}", rp.header))),
                },
                Err(e) => run.count(if e.starts_with("panic") { "rtp_parse_ref_panics" } else { "rtp_parse_ref_stricter" }),
            } }
            format!("ok {} {}", show_pkt(&p), res_hex(m))
        }
    };
    (out, f)
}

fn hdr_with(ext: Option<RtpHeaderExtension>) -> RtpHeader { let mut h = RtpHeader::new(0, 0, 0, 0); h.extension = ext; h }

pub fn s_ext_get(_run: &mut Run, e: &str, id: &str) -> (String, Fails) {
    let ext = parse_ext(e); let id: u8 = id.parse().unwrap();
    let h = hdr_with(ext.clone());
    let mut f = vec![];
    let h2 = h.clone();
    let out = match catch(move || h2.get_extension(id)) {
        Err(p) => { f.push(("panic:get_extension".into(), p)); "panic".into() }
        Ok(v) => {
            if let Some(x) = &ext { if let Some(el) = spec_elems(x.profile, &x.data) {
                let maxid = if x.profile == 0xBEDE { 14 } else { 255 };
                // RFC 8285 §4.3: the low four "appbits" of the two-byte profile are to be ignored
                let want = if id >= 1 && id <= maxid { el.iter().find(|(i, _)| *i == id).map(|(_, d)| d.clone()) } else { None };
                if id >= 1 && v.as_deref() != want.as_deref() { f.push((format!("codec:ext:get:{:#x}", x.profile), format!("want {:?} got {:?}", want, v))); }
            } }
            match v { None => "none".into(), Some(d) => format!("some:{}", hex(&d)) }
        }
    };
    (out, f)
}

pub fn s_ext_set(run: &mut Run, e: &str, id: &str, d: &str) -> (String, Fails) {
    let ext = parse_ext(e); let id: u8 = id.parse().unwrap(); let data = unhex(d);
    let h0 = hdr_with(ext.clone());
    let mut f = vec![];
    let (mut h, data2) = (h0.clone(), data.clone());
    let r = catch(move || { let r = h.set_extension(id, &data2); (r, h) });
    let out = match r {
        Err(p) => { run.count("ext_set_panics");
            f.push(("panic:set_extension".into(), p)); "panic".into() }
        Ok((Err(e), h1)) => {
            if h1 != h0 { f.push(("codec:ext:error-mutates-header".into(), show_ext(&h1.extension))); }
            // RFC 8285 §4.2: the one-byte form carries ids 1..14 with 1..16 data bytes (L = len-1 = 0..15) — on a header without
            // extension or with a well-formed one-byte block such an element must be accepted
            let one_byte_ok = ext.as_ref().map_or(true, |x| x.profile == 0xBEDE && spec_elems(x.profile, &x.data).is_some());
            if (1..=14).contains(&id) && (1..=16).contains(&data.len()) && one_byte_ok {
                f.push(("codec:ext:set-refuses-valid-element".into(), format!("id {id}, {} data bytes: {e:?}", data.len()))); }
            format!("err:{}", match e { rustrtc::errors::RtpError::InvalidHeader(m) => m.replace(' ', "_"), o => format!("{o:?}") })
        }
        Ok((Ok(()), h1)) => {
            if h1.get_extension(id).as_deref() != Some(&data[..]) { f.push(("codec:ext:get-after-set".into(), format!("{:?}", h1.get_extension(id)))); }
            for o in 0..=15u8 { if o != id && h1.get_extension(o) != h0.get_extension(o) {
                f.push(("codec:ext:set-disturbs-other".into(), format!("id {o}: {:?} -> {:?}", h0.get_extension(o), h1.get_extension(o)))); } }
            if h1.extension.as_ref().map_or(true, |x| x.data.len() % 4 != 0) { f.push(("codec:ext:set-unaligned".into(), String::new())); }
            // independent implementation reads the same elements back
            let wellformed = ext.as_ref().map_or(true, |x| spec_elems(x.profile, &x.data).is_some());
            if wellformed {
                let p = RtpPacket { header: h1.clone(), payload: Bytes::from_static(b"x"), padding_len: 0 };
                if let Ok(b) = p.marshal() { match refc::ref_parse_rtp(&b) {
                    Ok(rp) => {
                        if rp.header.get_extension(id).as_deref() != Some(&data[..]) { f.push(("codec:ext:ref-after-set".into(), format!("{:?}", rp.header.extensions))); }
                        for o in 1..=14u8 { if o != id && rp.header.get_extension(o) != h0.get_extension(o) {
                            f.push(("codec:ext:ref-after-set-other".into(), format!("id {o}"))); } }
                        run.count("ext_set_checked_by_ref"); }
                    Err(e) => f.push(("codec:ext:ref-rejects-after-set".into(), e)),
                } }
            }
            format!("ok {}", show_ext(&h1.extension))
        }
    };
    (out, f)
}

fn parse_c(b: &[u8]) -> Result<Result<Vec<RtcpPacket>, rustrtc::errors::RtpError>, String> {
    let v = b.to_vec();
    catch(move || parse_rtcp_packets(&v, None))
}

pub fn s_rtcp_marshal(run: &mut Run, toks: &[&str]) -> (String, Fails) {
    let ps: Vec<RtcpPacket> = toks.iter().map(|t| parse_rtcp(t)).collect();
    let mut f = vec![];
    let ps2 = ps.clone();
    let r = match catch(move || marshal_rtcp_packets(&ps2)) { Ok(r) => r, Err(p) => { f.push(("panic:rtcp_marshal".into(), p)); return ("panic".into(), f); } };
    let classes: Vec<Option<&str>> = ps.iter().map(range_class).collect();
    let all_in = classes.iter().all(|c| c.is_none());
    // what the wire can carry at all (everything else must be an error) and what must come back
    let spec: Vec<Result<RtcpPacket, &'static str>> = ps.iter().map(spec_roundtrip).collect();
    let must_reject = spec.iter().zip(&ps).find_map(|(r, p)| r.as_ref().err().map(|c| (kind(p), *c)));
    match &r {
        Err(e) => { if must_reject.is_none() { f.push((format!("codec:{}:marshal-rejects-representable", kind(&ps[0])), show_err(e))); } }
        Ok(b) => {
            if !b.is_empty() && !is_rtcp(b) { f.push(("codec:rtcp:is_rtcp-misses-own-output".into(), hex(&b[..b.len().min(8)]))); }
            if let Some((k, c)) = must_reject { f.push((format!("codec:{k}:marshal-accepts:{c}"), format!("{} bytes written", b.len()))); }
            else {
                let want: Vec<RtcpPacket> = spec.iter().map(|r| r.clone().unwrap()).collect();
                // RFC layout of every packet of the compound, by octet offsets
                { let mut off = 0;
                  for w in &want {
                    if off + 4 > b.len() { f.push((format!("codec:{}:rfc-layout", kind(w)), "compound shorter than its packets".into())); break; }
                    let l = (be16(b, off + 2) as usize + 1) * 4;
                    if off + l > b.len() { f.push((format!("codec:{}:rfc-layout", kind(w)), "length field beyond the datagram".into())); break; }
                    if let Some(d) = rfc_layout(w, &b[off..off + l]) { f.push((format!("codec:{}:rfc-layout", kind(w)), d)); } else { run.count("rtcp_rfc_layout_ok"); }
                    off += l; } }
                match parse_c(b) {
                    Err(p) => f.push(("panic:rtcp_parse".into(), p)),
                    Ok(Err(e)) => f.push((format!("codec:{}:framing", kind(&ps[0])), format!("own output unparsable: {}", show_err(&e)))),
                    Ok(Ok(back)) => {
                        if back.len() != want.len() || back.iter().zip(&want).any(|(a, b)| kind(a) != kind(b) || cardinality(a) != cardinality(b)) {
                            f.push((format!("codec:{}:framing", kind(&ps[0])), format!("sent {} packets, parsed {}: {}", ps.len(), back.len(), show_rtcps(&back))));
                        } else if let Some(((w, q), c)) = want.iter().zip(&back).zip(&classes).find(|((a, b), _)| a != b) {
                            f.push((format!("codec:{}:roundtrip{}", kind(w), c.map_or(String::new(), |c| format!(":{c}"))), show_rtcp(q)));
                        }
                    }
                }
            }
            if all_in && ps.iter().all(|p| ref_comparable(p, false)) {
                // an independent implementation parses the same fields …
                match refc::ref_parse_rtcp(b) {
                    Ok(texts) => {
                        if texts.len() != ps.len() { f.push((format!("codec:{}:ref-parse:count", kind(&ps[0])), format!("{}", texts.len()))); }
                        else { for (p, t) in ps.iter().zip(&texts) { match t {
                            Some(t) => { if *t != refc::expect_ref_text(&norm(p)) { f.push((format!("codec:{}:ref-parse", kind(p)), t.clone())); } else { run.count("rtcp_ref_parse_agrees"); } }
                            None => run.count("rtcp_ref_not_comparable"),
                        } } }
                    }
                    Err(e) => {
                        // the reference insists on RFC-conformant item types / counts it models; everything generated in range is conformant
                        if e.starts_with("panic") { run.count("rtcp_ref_panics_on_own_limits"); } else { f.push((format!("codec:{}:ref-rejects", kind(&ps[0])), e)); }
                    }
                }
                // … and vice versa: what the reference serialises for the same logical packets
                let rp: Option<Vec<_>> = ps.iter().map(refc::to_ref).collect();
                if let Some(rp) = rp { if let Some(rb) = refc::ref_marshal_rtcp(rp) {
                    run.count(if rb == *b { "rtcp_bytes_equal_ref" } else { "rtcp_bytes_differ_from_ref" });
                    match parse_c(&rb) {
                        Ok(Ok(back)) => {
                            let want: Vec<RtcpPacket> = ps.iter().map(|p| match norm(p) {
                                RtcpPacket::Goodbye(g) if g.reason.is_none() => RtcpPacket::Goodbye(Goodbye { reason: Some(String::new()), ..g }),
                                o => o }).collect();
                            if back != want { f.push((format!("codec:{}:parse-of-ref-bytes", kind(&ps[0])), show_rtcps(&back))); }
                        }
                        Ok(Err(e)) => f.push((format!("codec:{}:parse-of-ref-bytes:rejected", kind(&ps[0])), show_err(&e))),
                        Err(p) => f.push(("panic:rtcp_parse".into(), p)),
                    }
                } }
            }
        }
    }
    (res_hex(r), f)
}

/// RFC 3550 §6.4.1: padding is not part of the packet's content. If every padded packet of `b` carries a
/// padding that is valid and a multiple of four octets, returns the same compound WITHOUT the padding
/// (P bit cleared, length field reduced) — written from the RFC, no knowledge of the packet types.
fn without_padding(b: &[u8]) -> Option<Vec<u8>> {
    let (mut off, mut out, mut any) = (0, vec![], false);
    while off + 4 <= b.len() {
        let l = (be16(b, off + 2) as usize + 1) * 4;
        if off + l > b.len() || b[off] >> 6 != 2 { return None; }
        if b[off] & 0x20 != 0 {
            let pad = b[off + l - 1] as usize;
            if pad == 0 || pad > l - 4 || pad % 4 != 0 { return None; }
            any = true;
            let words = (l - pad) / 4 - 1;
            out.extend([b[off] & !0x20, b[off + 1], (words >> 8) as u8, words as u8]); out.extend(&b[off + 4..off + l - pad]);
        } else { out.extend(&b[off..off + l]); }
        off += l;
    }
    if any && off == b.len() { Some(out) } else { None }
}

/// "The stack parses what an independent implementation serialises": a datagram every packet of which is, by the RFC text,
/// a complete packet of its type (V=2, length field inside the datagram, valid padding count, body at least the fixed part
/// plus what its count field announces — RFC 3550 §6.4.1/§6.4.2 allow profile-specific extension words behind the report
/// blocks) MUST be accepted. `Some(kind of the first packet)` = must accept; `None` = no verdict (SDES grammar, feedback
/// formats / application feedback the stack does not know, trailing octets).
fn rfc_must_accept_rtcp(b: &[u8]) -> Option<&'static str> {
    let (mut off, mut first) = (0, None);
    if b.len() < 4 { return None; }
    while off < b.len() {
        if off + 4 > b.len() || b[off] >> 6 != 2 { return None; }
        let l = (be16(b, off + 2) as usize + 1) * 4;
        if off + l > b.len() { return None; }
        let mut body = l - 4;
        if b[off] & 0x20 != 0 { let pad = b[off + l - 1] as usize; if pad == 0 || pad > body { return None; } body -= pad; }
        let (cnt, o) = ((b[off] & 0x1F) as usize, off + 4);
        let k = match (b[off + 1], cnt) {
            (200, rc) => { if body < 24 + 24 * rc { return None; } "sr" }
            (201, rc) => { if body < 4 + 24 * rc { return None; } "rr" }
            (203, sc) => { if body < 4 * sc { return None; } if body > 4 * sc { let n = b[o + 4 * sc] as usize; if 4 * sc + 1 + n > body { return None; } } "bye" }
            (205, 1) => { if body < 8 { return None; } "nack" }
            (205, 15) => { if body < 16 { return None; } "twcc" }
            (206, 1) => { if body < 8 { return None; } "pli" }
            (206, 4) => { if body < 8 { return None; } "fir" }
            (206, 15) => { if body < 16 || &b[o + 8..o + 12] != b"REMB" || body < 16 + 4 * b[o + 12] as usize { return None; } "remb" }
            (202, _) | (205, _) | (206, _) => return None,
            _ => "skipped-type",
        };
        first.get_or_insert(k);
        off += l;
    }
    first
}

/// the same for RTP (RFC 3550 §5.1, §5.3.1): V=2, CSRC list, extension and padding inside the datagram
fn rfc_must_accept_rtp(b: &[u8]) -> bool {
    if b.len() < 12 || b[0] >> 6 != 2 { return false; }
    let mut h = 12 + 4 * (b[0] & 0x0F) as usize;
    if h > b.len() { return false; }
    if b[0] & 0x10 != 0 { if h + 4 > b.len() { return false; } h += 4 + 4 * be16(b, h + 2) as usize; if h > b.len() { return false; } }
    if b[0] & 0x20 != 0 { if b.len() == h { return false; } let p = b[b.len() - 1] as usize; if p == 0 || p > b.len() - h { return false; } }
    true
}

pub fn s_rtcp_parse(run: &mut Run, hx: &str) -> (String, Fails) {
    let b = unhex(hx);
    let mut f = vec![];
    // padding is transparent: the padded compound parses exactly like the unpadded one (all types and formats)
    if let Some(u) = without_padding(&b) {
        run.count("rtcp_padding_metamorphic_checked");
        if let (Ok(a), Ok(c)) = (parse_c(&b), parse_c(&u)) {
            let same = match (&a, &c) { (Ok(x), Ok(y)) => x == y, (Err(_), Err(_)) => true, _ => false };
            if !same { let k = match (&a, &c) { (Ok(x), Ok(y)) => x.iter().zip(y.iter()).find(|(p, q)| p != q).map(|(p, _)| kind(p)).or(x.first().map(kind)).unwrap_or("compound"),
                                                 (Ok(x), _) => x.first().map_or("compound", kind), (_, Ok(y)) => y.first().map_or("compound", kind), _ => "compound" };
                f.push((format!("codec:{k}:padding-not-transparent"), format!("unpadded {} parses as {}", hex(&u), match &c { Ok(y) => show_rtcps(y), Err(e) => show_err(e) }))); }
        }
    }
    let out = match parse_c(&b) {
        Err(p) => { f.push(("panic:rtcp_parse".into(), p)); "panic".into() }
        Ok(Err(e)) => {
            // a refusal is judged too: what the RFC text makes a complete compound must be accepted …
            if let Some(k) = rfc_must_accept_rtcp(&b) { f.push((format!("codec:{k}:parse-refuses-rfc-valid"), show_err(&e))); }
            // … and so must what the independent implementation accepts as packets of the types the stack knows
            else if let Ok(texts) = refc::ref_parse_rtcp(&b) { if !texts.is_empty() && texts.iter().all(|t| t.is_some()) { run.count("rtcp_parse_rejected_but_ref_accepts"); } }
            show_err(&e) }
        Ok(Ok(ps)) => {
            // parse direction, RFC level: walk the datagram by its length fields; every packet of a type the stack knows
            // must have been returned with the fields the RFC diagrams put at their offsets
            { let (mut off, mut k, mut ok) = (0, 0, true);
              while off + 4 <= b.len() {
                let l = (be16(&b, off + 2) as usize + 1) * 4; if off + l > b.len() { ok = false; break; }
                let (pt, fmt) = (b[off + 1], b[off] & 0x1F);
                let known = matches!(pt, 200..=203) || (pt == 205 && (fmt == 1 || fmt == 15)) || (pt == 206 && (fmt == 1 || fmt == 4 || fmt == 15));
                if known { match ps.get(k) { None => { ok = false; break; }
                    Some(p) => { if let Some(d) = rfc_fields_of_parsed(p, &b[off..off + l]) { f.push((format!("codec:{}:parse-rfc-fields", kind(p)), d)); } else { run.count("rtcp_parse_rfc_fields_ok"); } } }
                    k += 1; }
                off += l; }
              if !ok || k != ps.len() { f.push(("codec:compound:parse-rfc-framing".into(), format!("{} packets returned, {k} known packets on the wire", ps.len()))); } }
            let ps2 = ps.clone();
            let m = match catch(move || marshal_rtcp_packets(&ps2)) { Ok(m) => m, Err(p) => { f.push(("panic:rtcp_marshal".into(), p)); return ("panic".into(), f); } };
            // ill-formed UTF-8 on the wire is replaced by U+FFFD (3 bytes each) and can push a text beyond the
            // 255-byte field: such input is not a well-formed packet and is outside the stability oracle
            let expanded = ps.iter().any(|p| matches!(range_class(p), Some("text>255") | Some("reason>255")));
            if expanded { run.count("rtcp_parse_lossy_expansion_beyond_255"); }
            else if let Ok(mb) = &m {
                // serialising a parsed packet and parsing again gives the same logical packets (NACK: same set)
                let tag = |p: &RtcpPacket| format!("codec:{}:semantic-stable{}", kind(p), range_class(p).map_or(String::new(), |c| format!(":{c}")));
                match parse_c(mb) {
                    Ok(Ok(back)) => {
                        let want: Vec<RtcpPacket> = ps.iter().map(norm).collect();
                        if back != want {
                            let p = want.iter().zip(back.iter()).find(|(a, b)| a != b).map(|(a, _)| a).or(want.first()).or(back.first());
                            f.push((p.map_or("codec:compound:semantic-stable".into(), tag), show_rtcps(&back)));
                        } else { run.count("rtcp_semantic_stable"); }
                    }
                    Ok(Err(e)) => f.push((ps.first().map_or("codec:compound:semantic-stable".into(), tag), show_err(&e))),
                    Err(p) => f.push(("panic:rtcp_parse".into(), p)),
                }
            } else if ps.iter().all(|p| range_class(p).is_none()) {
                f.push((format!("codec:{}:parsed-not-marshalable", ps.first().map_or("compound", kind)), res_hex(m.clone())));
            }
            let padded = { let mut off = 0; let mut any = false; while off + 4 <= b.len() { any |= b[off] & 0x20 != 0; off += (u16::from_be_bytes([b[off + 2], b[off + 3]]) as usize + 1) * 4; } any };
            // (the reference does not strip RTCP padding from NACK / REMB / FIR bodies)
            if padded && !ps.iter().all(|p| matches!(p, RtcpPacket::TransportWideCc(_) | RtcpPacket::Goodbye(_) | RtcpPacket::SenderReport(_) | RtcpPacket::ReceiverReport(_))) { run.count("rtcp_parse_ref_skipped_padding"); }
            else if !ps.iter().all(|p| ref_comparable(p, true)) { run.count("rtcp_parse_ref_skipped_not_comparable"); }
            else if let Err(e) = refc::ref_parse_rtcp(&b) { run.count("rtcp_parse_ref_stricter"); run.count(&format!("rtcp_parse_ref_stricter:{}", e.chars().take(48).collect::<String>().replace(' ', "_"))); }
            else if let Ok(texts) = refc::ref_parse_rtcp(&b) {
                // packets of types this stack skips (XR, APP, unknown types, feedback formats it does not know — errors
                // aside) are packets the reference returns as raw/other packets: they are left out on both sides
                let texts: Vec<Option<String>> = if texts.len() != ps.len() && texts.iter().flatten().count() == ps.len() { run.count("rtcp_parse_ref_extra_packets_skipped_by_stack"); texts.into_iter().filter(|t| t.is_some()).collect() } else { texts };
                if texts.len() == ps.len() {
                    for (p, t) in ps.iter().zip(&texts) { if let Some(t) = t {
                        // compare only where the text is valid UTF-8 and the SDES types are the reference's
                        let want = refc::expect_ref_text(p);
                        if *t == want { run.count("rtcp_parse_agrees_with_ref"); }
                        else if !lossy_involved(p) { f.push((format!("codec:{}:ref-disagree", kind(p)), format!("ref {t} vs {want}"))); }
                    } }
                } else { run.count(&format!("rtcp_parse_ref_different_count:ref={}({} comparable):own={}", texts.len(), texts.iter().flatten().count(), ps.len()));
                    if std::env::var("C15_DEBUG").is_ok() { eprintln!("DIFFCOUNT {hx} own={}", show_rtcps(&ps)); } }
            }
            format!("ok {} | {}", show_rtcps(&ps), res_hex(m))
        }
    };
    (out, f)
}

fn lossy_involved(p: &RtcpPacket) -> bool {
    match p {
        RtcpPacket::SourceDescription(s) => s.chunks.iter().any(|c| c.items.iter().any(|i| i.text.contains('\u{FFFD}') || !(1..=8).contains(&i.ty))),
        RtcpPacket::Goodbye(b) => b.reason.as_ref().map_or(false, |r| r.contains('\u{FFFD}')),
        _ => false,
    }
}

pub fn s_utf8(_run: &mut Run, hx: &str) -> (String, Fails) {
    let b = unhex(hx);
    let s = String::from_utf8_lossy(&b).to_string();
    let mut f = vec![];
    if std::str::from_utf8(&b).is_ok() && s.as_bytes() != &b[..] { f.push(("codec:utf8:lossy-changes-valid".into(), hex(s.as_bytes()))); }
    (hex(s.as_bytes()), f)
}

pub fn s_rtx_wrap(_run: &mut Run, t: &str, ssrc: &str, pt: &str, seq: &str) -> (String, Fails) {
    let p = parse_pkt(t);
    let cfg = rustrtc::rtx::RtxSenderConfig { rtx_ssrc: ssrc.parse().unwrap(), rtx_payload_type: pt.parse().unwrap() };
    let w = rustrtc::rtx::wrap_rtx_packet(&p, &cfg, seq.parse().unwrap());
    let mut f = vec![];
    match rustrtc::rtx::unwrap_rtx_packet(&w, p.header.ssrc, p.header.payload_type) {
        None => f.push(("codec:rtx:unwrap-of-wrap-fails".into(), show_pkt(&w))),
        Some(u) => {
            if u.header.sequence_number != p.header.sequence_number || u.header.timestamp != p.header.timestamp
                || u.header.marker != p.header.marker || u.payload != p.payload || u.header.ssrc != p.header.ssrc
                || u.header.payload_type != p.header.payload_type {
                f.push(("codec:rtx:restore".into(), show_pkt(&u)));
            }
        }
    }
    // through the wire as well (RTX packets are ordinary RTP packets)
    if p.header.payload_type < 128 && cfg.rtx_payload_type < 128 {
        match w.marshal().ok().and_then(|b| RtpPacket::parse(&b).ok()) {
            Some(w2) if w2 == w => {}
            other => f.push(("codec:rtx:wire".into(), format!("{:?}", other.map(|x| show_pkt(&x))))),
        }
    }
    (show_pkt(&w), f)
}

pub fn s_rtx_unwrap(_run: &mut Run, t: &str, ssrc: &str, pt: &str) -> (String, Fails) {
    let p = parse_pkt(t);
    let u = rustrtc::rtx::unwrap_rtx_packet(&p, ssrc.parse().unwrap(), pt.parse().unwrap());
    let mut f = vec![];
    if u.is_none() != (p.payload.len() < 2) { f.push(("codec:rtx:unwrap-short".into(), String::new())); }
    (match u { None => "none".into(), Some(u) => format!("some {}", show_pkt(&u)) }, f)
}

pub fn s_apt(_run: &mut Run, hx: &str) -> (String, Fails) {
    let b = unhex(hx);
    let t = String::from_utf8(b).expect("utf-8");
    let r = rustrtc::rtx::parse_apt(&t);
    let mut f = vec![];
    // RFC 4588 §8.1 / RFC 4566 fmtp: `apt=<pt>` is one parameter of a `;`-separated list; the first one decides
    if let Some(want) = spec_apt(&t) { if r != want { f.push(("codec:rtx:apt".into(), format!("{r:?}, RFC 4588 reading {want:?}"))); } }
    (match r { None => "none".into(), Some(v) => format!("some:{v}") }, f)
}

/// `Some(expected)` for the inputs the RFC syntax decides: a `;`-separated parameter list (white space around a
/// parameter insignificant) whose parameters are all of the form `name=value`, `name` or empty, where an `apt`
/// value is a decimal payload type; `None` (no verdict) for anything else (signs, leading zeros, inner spaces …)
pub fn spec_apt_pub(t: &str) -> Option<Option<u8>> { spec_apt(t) }
fn spec_apt(t: &str) -> Option<Option<u8>> {
    if !t.is_ascii() { return None; }
    for part in t.split(';') {
        let part = part.trim_matches(|c: char| c == ' ' || c == '\t' || c == '\r' || c == '\n');
        let (name, val) = match part.split_once('=') { Some((n, v)) => (n, Some(v)), None => (part, None) };
        if name.chars().any(|c| c.is_ascii_whitespace()) { return None; }
        if name == "apt" {
            let v = val?;
            if v.is_empty() || !v.bytes().all(|c| c.is_ascii_digit()) || (v.len() > 1 && v.starts_with('0')) || v.len() > 4 { return None; }
            return Some(v.parse::<u32>().ok().filter(|n| *n <= 255).map(|n| n as u8));
        }
        if name.eq_ignore_ascii_case("apt") || name.to_ascii_lowercase().contains("apt") { return None; }
    }
    Some(None)
}

pub fn s_aptmap(_run: &mut Run, toks: &[&str]) -> (String, Fails) {
    let attrs: Vec<(String, Option<String>)> = toks.iter().map(|t| match t.split_once('=') {
        None => (String::from_utf8(unhex(t)).unwrap(), None),
        Some((k, v)) => (String::from_utf8(unhex(k)).unwrap(), Some(String::from_utf8(unhex(v)).unwrap())) }).collect();
    let m = rustrtc::rtx::extract_rtx_apt_map(&attrs);
    let mut v: Vec<(u8, u8)> = m.iter().map(|(a, b)| (*a, *b)).collect(); v.sort();
    let mut f = vec![];
    // RFC 4588 §8.6: `a=fmtp:<rtx pt> apt=<primary pt>[;…]` associates the two; the map is exactly what the fmtp
    // lines the RFC reading decides say (a later line for the same payload type replaces an earlier one)
    let mut want: Option<std::collections::BTreeMap<u8, u8>> = Some(Default::default());
    for (k, val) in &attrs { if k == "fmtp" { if let Some(val) = val { match val.split_once(' ') {
        Some((a, rest)) if !a.is_empty() && a.bytes().all(|c| c.is_ascii_digit()) && !(a.len() > 1 && a.starts_with('0')) && a.len() <= 3 && !rest.starts_with(' ') => {
            match (a.parse::<u8>().ok(), spec_apt(rest)) {
                (Some(pt), Some(Some(p))) => { if let Some(w) = want.as_mut() { w.insert(pt, p); } }
                (_, Some(None)) | (None, _) => {}
                _ => want = None } }
        None if val.bytes().all(|c| c.is_ascii_digit()) => {}
        _ => want = None } } } }
    if let Some(w) = want { let got: std::collections::BTreeMap<u8, u8> = m.iter().map(|(a, b)| (*a, *b)).collect();
        if got != w { f.push(("codec:rtx:aptmap".into(), format!("{got:?}, RFC 4588 reading {w:?}"))); } }
    (show_list(v.iter().map(|(a, b)| format!("{a}:{b}")).collect(), ";"), f)
}

pub fn s_apt_append(_run: &mut Run, a: &[&str]) -> (String, Fails) {
    let (prim, rtx, clock): (u8, u8, u32) = (a[0].parse().unwrap(), a[1].parse().unwrap(), a[2].parse().unwrap());
    let mut formats: Vec<String> = list_of(a[3], ';').iter().map(|x| String::from_utf8(unhex(x)).unwrap()).collect();
    let mut attrs: Vec<rustrtc::sdp::Attribute> = a[4..].iter().map(|t| match t.split_once('=') {
        None => rustrtc::sdp::Attribute::new(String::from_utf8(unhex(t)).unwrap(), None),
        Some((k, v)) => rustrtc::sdp::Attribute::new(String::from_utf8(unhex(k)).unwrap(), Some(String::from_utf8(unhex(v)).unwrap())) }).collect();
    let before = rustrtc::rtx::extract_rtx_apt_map_from_attrs(&attrs);
    let had_rtpmap = attrs.iter().any(|x| x.key == "rtpmap" && x.value.as_deref() == Some(format!("{rtx} rtx/{clock}").as_str()));
    rustrtc::rtx::append_rtx_to_section(&mut formats, &mut attrs, prim, rtx, clock);
    let m = rustrtc::rtx::extract_rtx_apt_map_from_attrs(&attrs);
    let got = rustrtc::rtx::rtx_pt_for_primary(&m, prim);
    let mut cands: Vec<u8> = m.iter().filter(|(_, p)| **p == prim).map(|(r, _)| *r).collect(); cands.sort();
    let mut f = vec![];
    // what was appended is read back: the RTX payload type is associated with the primary one
    if !had_rtpmap && m.get(&rtx) != Some(&prim) { f.push(("codec:rtx:append-not-read-back".into(), format!("{:?}", m.get(&rtx)))); }
    if had_rtpmap && m != before { f.push(("codec:rtx:append-not-idempotent".into(), String::new())); }
    if !formats.iter().any(|x| *x == rtx.to_string()) { f.push(("codec:rtx:append-format-missing".into(), String::new())); }
    match got { Some(g) => if !cands.contains(&g) { f.push(("codec:rtx:pt-for-primary".into(), format!("{g} not associated with {prim}"))); },
                None => if !cands.is_empty() { f.push(("codec:rtx:pt-for-primary".into(), "none although associated".into())); } }
    if cands.len() == 1 && got != Some(cands[0]) { f.push(("codec:rtx:pt-for-primary".into(), format!("{got:?}"))); }
    let mut mv: Vec<(u8, u8)> = m.iter().map(|(a, b)| (*a, *b)).collect(); mv.sort();
    let out = format!("{}|{}|{}|{}", show_list(formats.iter().map(|x| hex(x.as_bytes())).collect(), ";"),
        show_list(attrs.iter().map(|x| match &x.value { None => hex(x.key.as_bytes()), Some(v) => format!("{}={}", hex(x.key.as_bytes()), hex(v.as_bytes())) }).collect(), ","),
        show_list(mv.iter().map(|(a, b)| format!("{a}:{b}")).collect(), ";"), show_list(cands.iter().map(|x| x.to_string()).collect(), ";"));
    (out, f)
}

/// `rtx_rx <apt> <rtx ssrc|-> <primary ssrc> <packet>`: the receive-side `maybe_unwrap_rtx` (via hook)
pub fn s_rtx_rx(_run: &mut Run, a: &[&str]) -> (String, Fails) {
    let apt: Vec<(u8, u8)> = list_of(a[0], ';').iter().map(|x| { let (p, q) = x.split_once(':').unwrap(); (p.parse().unwrap(), q.parse().unwrap()) }).collect();
    let rtx_ssrc: Option<u32> = if a[1] == "-" { None } else { Some(a[1].parse().unwrap()) };
    let ssrc: u32 = a[2].parse().unwrap();
    let p = parse_pkt(a[3]);
    let rx = rustrtc::peer_connection::RtpReceiver::new(rustrtc::MediaKind::Video, 0, vec![]);
    rx.verif_set_rtx_state(apt.clone(), rtx_ssrc, ssrc);
    let r = rx.verif_maybe_unwrap_rtx(p.clone());
    let mut f = vec![];
    // documented behaviour: a packet that is neither on an RTX payload type nor on the RTX SSRC passes unchanged
    let mapped = apt.iter().find(|(k, _)| *k == p.header.payload_type).map(|(_, v)| *v);
    if mapped.is_none() && rtx_ssrc != Some(p.header.ssrc) && r.as_ref() != Some(&p) { f.push(("codec:rtx:rx-primary-not-passed".into(), String::new())); }
    // … and a packet on a negotiated RTX payload type IS a retransmission: restored whenever the primary SSRC is known
    // and the OSN is there (with or without a negotiated RTX SSRC — `apt=` alone suffices), dropped otherwise
    if mapped.is_some() && ssrc != 0 && p.payload.len() >= 2 && r.is_none() { f.push(("codec:rtx:rx-retransmission-dropped".into(), format!("rtx ssrc {rtx_ssrc:?}"))); }
    if mapped.is_some() && (ssrc == 0 || p.payload.len() < 2) && r.is_some() { f.push(("codec:rtx:rx-unrestorable-not-dropped".into(), String::new())); }
    if mapped.is_none() && rtx_ssrc == Some(p.header.ssrc) && r.is_some() { f.push(("codec:rtx:rx-unmapped-on-rtx-ssrc-not-dropped".into(), String::new())); }
    if let (Some(ppt), Some(u)) = (mapped, &r) {
        if u.header.ssrc != ssrc || u.header.payload_type != ppt || p.payload.len() < 2 || u.payload[..] != p.payload[2..]
            || u.header.sequence_number != u16::from_be_bytes([p.payload[0], p.payload[1]]) || u.header.timestamp != p.header.timestamp || u.header.marker != p.header.marker {
            f.push(("codec:rtx:rx-restore".into(), show_pkt(u))); } }
    (match r { None => "none".into(), Some(u) => format!("some {}", show_pkt(&u)) }, f)
}

pub fn s_is_rtcp(_run: &mut Run, hx: &str) -> (String, Fails) {
    let b = unhex(hx);
    let r = is_rtcp(&b);
    let mut f = vec![];
    // RFC 5761 §4 with this stack's packet types, numbers written here: second octet 200..=207 is RTCP the stack itself emits and
    // must be recognised; an RTP second octet (M | PT) is taken for RTCP at most for M=1, PT 64..=80 (the known collision)
    if b.len() >= 2 {
        if (200..=207).contains(&b[1]) && !r { f.push(("codec:rtcp:is_rtcp-misses-rtcp-type".into(), format!("{}", b[1]))); }
        if r && !(b[1] & 0x80 != 0 && (64..=80).contains(&(b[1] & 0x7F))) { f.push(("codec:rtcp:is_rtcp-takes-rtp".into(), format!("M={} PT={}", b[1] >> 7, b[1] & 0x7F))); }
    } else if r { f.push(("codec:rtcp:is_rtcp-takes-rtp".into(), "shorter than two octets".into())); }
    ((r as u8).to_string(), f)
}

pub fn s_osn(_run: &mut Run, hx: &str) -> (String, Fails) {
    let b = unhex(hx);
    let mut f = vec![];
    let out = match rustrtc::rtx::decode_osn(&b) {
        None => { if b.len() >= 2 { f.push(("codec:rtx:osn".into(), "none for ≥ 2 bytes".into())); } "none".to_string() }
        Some(v) => { let e = rustrtc::rtx::encode_osn(v);
            if b.len() < 2 || e != [b[0], b[1]] || rustrtc::rtx::decode_osn(&e) != Some(v) { f.push(("codec:rtx:osn".into(), format!("{v}"))); }
            format!("some:{v}:{}", hex(&e)) }
    };
    (out, f)
}

pub fn s_rtx_alloc(_run: &mut Run, us: &str) -> (String, Fails) {
    let used: Vec<u8> = list_of(us, ';').iter().map(|x| x.parse().unwrap()).collect();
    let r = rustrtc::rtx::allocate_rtx_payload_type(&used);
    let mut f = vec![];
    match r {
        Some(pt) => if !(96..=127).contains(&pt) || used.contains(&pt) || (96..pt).any(|q| !used.contains(&q)) { f.push(("codec:rtx:alloc".into(), format!("{pt}"))); }
        None => if (96..=127u8).any(|q| !used.contains(&q)) { f.push(("codec:rtx:alloc".into(), "none although a dynamic PT is free".into())); }
    }
    (match r { None => "none".into(), Some(v) => format!("some:{v}") }, f)
}

/// run one case given as `<stream> <input…>` (also the replay entry point)
pub fn exec(run: &mut Run, case: &str) -> (String, String, String, Fails) {
    let toks: Vec<&str> = case.split_whitespace().collect();
    let (stream, a) = (toks[0], &toks[1..]);
    let (out, f) = match stream {
        "rtp_marshal" => s_rtp_marshal(run, a[0]),
        "rtp_parse" => s_rtp_parse(run, a[0], false),
        "rtp_parse_ref" => s_rtp_parse(run, a[0], true),
        "ext_get" => s_ext_get(run, a[0], a[1]),
        "ext_set" => s_ext_set(run, a[0], a[1], a[2]),
        "rtcp_marshal" => s_rtcp_marshal(run, a),
        "rtcp_parse" | "rtcp_parse_ref" => s_rtcp_parse(run, a[0]),
        "utf8" => s_utf8(run, a[0]),
        "rtx_wrap" => s_rtx_wrap(run, a[0], a[1], a[2], a[3]),
        "rtx_unwrap" => s_rtx_unwrap(run, a[0], a[1], a[2]),
        "apt" => s_apt(run, a[0]),
        "apt_append" => s_apt_append(run, a),
        "rtx_rx" => s_rtx_rx(run, a),
        "rtx_sdp" => rtxrx::s_rtx_sdp(run, a, rtxrx::SdpPath::NewFromOffer),
        "rtx_sdp_existing" => rtxrx::s_rtx_sdp(run, a, rtxrx::SdpPath::ExistingFromOffer),
        "rtx_sdp_answer" => rtxrx::s_rtx_sdp(run, a, rtxrx::SdpPath::AnswerToOurOffer),
        "rtx_sender" => rtxrx::s_rtx_sender(run, a),
        "rtx_loop" => rtxrx::s_rtx_loop(run, a),
        "aptmap" => s_aptmap(run, a),
        "is_rtcp" => s_is_rtcp(run, a[0]),
        "osn" => s_osn(run, a[0]),
        "rtx_alloc" => s_rtx_alloc(run, a[0]),
        "nackbuf" => nackh::s_nackbuf(run, a),
        "gap" => nackh::s_gap(run, a),
        x => panic!("unknown stream {x}"),
    };
    (stream.to_string(), a.join(" "), out, f)
}

fn emit(run: &mut Run, case: String, nontrivial_hint: bool) {
    // a panic anywhere in a case (implementation or the oracles' own indexing of implementation output) must surface as a
    // failing INPUT with a replay, never as a crashed run
    let (stream, input, out, fails) = match catch(std::panic::AssertUnwindSafe(|| exec(run, &case))) {
        Ok(r) => r,
        Err(p) => { let (st, inp) = case.split_once(' ').unwrap_or((case.as_str(), ""));
            (st.to_string(), inp.to_string(), "panic".to_string(), vec![(format!("panic:case:{st}"), p)]) }
    };
    run.count(&format!("stream:{stream}"));
    let cls = if out.starts_with("ok") || out.starts_with("some") { "ok" } else if out.starts_with("err") { "err" }
              else if out.starts_with("panic") { "panic" } else { "val" };
    run.count(&format!("outcome:{stream}:{cls}"));
    if out.starts_with("err") { run.count(&format!("error_kind:{}", out.split(':').take(3).collect::<Vec<_>>().join(":").chars().take(60).collect::<String>())); }
    let nontrivial = nontrivial_hint && cls != "err";
    run.case(&stream, &input, &out, nontrivial);
    for (sig, detail) in fails { run.fail(&sig, &case, &detail); }
}

pub fn run(args: &Args) {
    let mut run = Run::new("c15", &args.out);
    if let Some(case) = &args.replay {
        const STREAMS: [&str; 26] = ["rtx_sdp", "rtx_sdp_existing", "rtx_sdp_answer", "rtx_sender", "rtx_loop", "apt_append", "rtx_rx", "apt", "aptmap", "rtp_marshal", "rtp_parse", "rtp_parse_ref", "ext_get", "ext_set", "rtcp_marshal", "rtcp_parse",
            "rtcp_parse_ref", "utf8", "rtx_wrap", "rtx_unwrap", "nackbuf", "gap", "is_rtcp", "osn", "rtx_alloc", "-"];
        let first = case.split_whitespace().next().unwrap_or("-");
        // replay files written for a model/implementation disagreement carry the input without its
        // stream name: try every stream the input is well-formed for
        let cands: Vec<String> = if STREAMS.contains(&first) { vec![case.clone()] } else { STREAMS[..25].iter().map(|s| format!("{s} {case}")).collect() };
        for c in cands {
            let c2 = c.clone();
            let dir = format!("{}/replay", args.out);
            let r = catch(move || { let mut run = Run::new("c15", &dir); exec(&mut run, &c2) });
            if let Ok((stream, input, out, fails)) = r {
                println!("case: {stream} {input}");
                println!("impl: {out}");
                for (s, d) in fails { println!("ORACLE-FAIL {s} {d}"); }
            }
        }
        return;
    }
    let mut rng = Rng::new(args.seed);
    let scale: u64 = if args.tier_thorough { 40 } else { 1 };

    // committed corpus first (one case per line)
    if let Ok(rd) = std::fs::read_dir(concat!(env!("CARGO_MANIFEST_DIR"), "/../corpus/C15")) {
        let mut files: Vec<_> = rd.filter_map(|e| e.ok()).map(|e| e.path()).collect(); files.sort();
        for p in files { if let Ok(s) = std::fs::read_to_string(&p) { for l in s.lines() { let l = l.trim();
            if !l.is_empty() && !l.starts_with('#') { emit(&mut run, l.to_string(), true); run.count("corpus_cases"); } } } }
    }

    // ---- RTP: logical packets → marshal (+ round trip, + reference), their bytes → parse, mutations → parse
    for i in 0..4000 * scale {
        let valid = i % 10 < 8;
        let q = gens::rtp_packet(&mut rng, valid);
        if valid { run.count("rtp_logical_valid"); } else { run.count("rtp_logical_out_of_range"); }
        run.count(&format!("rtp_csrcs:{}", match q.header.csrcs.len() { 0 => "0", 1 => "1", 15 => "15", 2..=14 => "2-14", _ => ">15" }));
        run.count(&format!("rtp_padding:{}", match q.padding_len { 0 => "0", 1 => "1", 255 => "255", _ => "2-254" }));
        run.count(&format!("rtp_ext:{}", match &q.header.extension { None => "none".to_string(), Some(e) => format!("{:#x}", e.profile) }));
        emit(&mut run, format!("rtp_marshal {}", show_pkt(&q)), true);
        if let Ok(b) = q.marshal() {
            if i % 2 == 0 { emit(&mut run, format!("rtp_parse {}", hex(&b)), true); }
            if i % 3 == 0 { let m = gens::mutate(&mut rng, &b); emit(&mut run, format!("rtp_parse {}", hex(&m)), true); run.count("rtp_mutated"); }
            if i % 97 == 0 { for k in 0..b.len().min(40) { emit(&mut run, format!("rtp_parse {}", hex(&b[..k])), false); run.count("rtp_truncations"); } }
            // padding written by others: arbitrary filler bytes, count in the last byte
            if i % 7 == 0 && q.padding_len == 0 { let mut v = b.clone(); v[0] |= 0x20; let k = rng.range(1, 9) as usize; for _ in 1..k { v.push(rng.next() as u8); } v.push(k as u8);
                emit(&mut run, format!("rtp_parse {}", hex(&v)), true); run.count("rtp_foreign_padding"); }
        }
    }
    for b0 in 0..=255u8 { emit(&mut run, format!("rtp_parse {}", hex(&[b0])), false); emit(&mut run, format!("rtcp_parse {}", hex(&[b0])), false); }
    emit(&mut run, "rtp_parse -".into(), false); emit(&mut run, "rtcp_parse -".into(), false);
    if args.tier_thorough {
        // every byte string of length 2, and every 4-byte RTCP header with an empty body
        for a in 0..=255u8 { for b in 0..=255u8 { emit(&mut run, format!("rtp_parse {}", hex(&[a, b])), false); emit(&mut run, format!("rtcp_parse {}", hex(&[a, b])), false); } }
        for a in 0..=255u8 { for b in 0..=255u8 { emit(&mut run, format!("rtcp_parse {}", hex(&[a, b, 0, 0])), true); } }
        run.count_n("exhaustive_len2_and_empty_rtcp_headers", 3 * 65536);
    }
    for _ in 0..300 * scale { let n = rng.range(12, 40) as usize; let mut v = rng.bytes(n); v[0] = 0x80 | (v[0] & 0x3F);
        emit(&mut run, format!("rtp_parse {}", hex(&v)), true); run.count("rtp_random_v2"); }
    // bytes serialised by the reference implementation (one-/two-byte extensions, padding)
    for _ in 0..1500 * scale {
        let mut h = rtp::header::Header { version: 2, marker: rng.chance(1, 2), payload_type: rng.below(128) as u8, sequence_number: gens::g16(&mut rng),
            timestamp: gens::g32(&mut rng), ssrc: gens::g32(&mut rng), ..Default::default() };
        h.csrc = (0..pk!(rng, [0usize, 0, 1, 15, 3])).map(|_| gens::g32(&mut rng)).collect();
        h.padding = rng.chance(1, 4);
        match rng.below(4) {
            0 => {}
            1 => { let (_, el) = gens::one_byte_block(&mut rng); h.extension_profile = 0xBEDE; for (id, d) in el { let _ = h.set_extension(id, Bytes::from(d)); } }
            2 => { let (_, el) = gens::two_byte_block(&mut rng); h.extension_profile = 0x1000; h.extension = true; for (id, d) in el { let _ = h.set_extension(id, Bytes::from(d)); } }
            _ => { h.extension = true; h.extension_profile = 0x4321; let n = 4 * rng.below(4) as usize; h.extensions = vec![rtp::header::Extension { id: 0, payload: Bytes::from(rng.bytes(n)) }]; }
        }
        let rp = rtp::packet::Packet { header: h, payload: Bytes::from(gens::payload(&mut rng)) };
        if let Some(b) = refc::ref_marshal_rtp(&rp) {
            // only well-formed reference output is a fair test of "vice versa"
            if refc::ref_parse_rtp(&b).is_ok() { emit(&mut run, format!("rtp_parse_ref {}", hex(&b)), true); run.count("rtp_from_reference"); }
        }
    }

    // ---- header extensions
    for i in 0..3000 * scale {
        let (e, well) = match rng.below(10) {
            0 => (None, true),
            1..=5 => (Some(RtpHeaderExtension::new(0xBEDE, gens::one_byte_block(&mut rng).0)), true),
            6 => (Some(RtpHeaderExtension::new(0x1000 + pk!(rng, [0u16, 0, 1, 7, 15]), gens::two_byte_block(&mut rng).0)), true),
            7 => (Some(RtpHeaderExtension::new(pk!(rng, [0u16, 0x1001, 0xBEDF]), rng.bytes(8))), true),
            _ => (Some(RtpHeaderExtension::new(pk!(rng, [0xBEDEu16, 0xBEDE, 0x1000]), gens::bad_block(&mut rng))), false),
        };
        run.count(if well { "ext_block_wellformed" } else { "ext_block_malformed" });
        let et = show_ext(&e);
        let ids: Vec<u8> = if i % 50 == 0 { (0..=16).collect() } else { vec![rng.range(0, 15) as u8, pk!(rng, [1u8, 2, 14, 15, 0, 16, 255])] };
        for id in ids {
            emit(&mut run, format!("ext_get {et} {id}"), true);
            let n = pk!(rng, [1usize, 1, 2, 3, 4, 16, 0, 17, rng.range(1, 16) as usize]);
            emit(&mut run, format!("ext_set {et} {id} {}", hex(&rng.bytes(n))), true);
        }
    }
    emit(&mut run, "ext_set 48862:1f000000 2 aa".into(), true);
    if args.tier_thorough {
        // every one-byte-header block of length ≤ 2 (all header bytes, all overrun shapes) × three ids
        for a in 0..=255u8 { for b in 0..=255u8 { for id in [1u8, 2, 15] {
            let e = format!("48862:{}", hex(&[a, b]));
            emit(&mut run, format!("ext_get {e} {id}"), false);
            emit(&mut run, format!("ext_set {e} {id} 7f"), false);
        } } }
        run.count_n("exhaustive_ext_blocks_len2", 65536 * 6);
    }

    // ---- RTCP: logical compound packets → marshal (+ round trip, framing, reference), bytes → parse, mutations
    for i in 0..6000 * scale {
        let in_range = i % 10 < 8;
        let n = pk!(rng, [1usize, 1, 1, 2, 3, 4]);
        let mut ps: Vec<RtcpPacket> = vec![];
        for k in 0..n { let ty = rng.below(9); ps.push(gens::rtcp_packet(&mut rng, ty, in_range || k > 0)); }
        for p in &ps { run.count(&format!("rtcp_logical:{}:{}", kind(p), range_class(p).unwrap_or("in-range"))); }
        let line = show_rtcps(&ps);
        if line.len() > 200_000 { continue; }
        emit(&mut run, format!("rtcp_marshal {line}"), true);
        if let Ok(b) = marshal_rtcp_packets(&ps) {
            if i % 2 == 0 { emit(&mut run, format!("rtcp_parse {}", hex(&b)), true); }
            if i % 3 == 0 { let m = gens::mutate(&mut rng, &b); emit(&mut run, format!("rtcp_parse {}", hex(&m)), true); run.count("rtcp_mutated"); }
            if i % 211 == 0 { for k in 0..b.len().min(60) { emit(&mut run, format!("rtcp_parse {}", hex(&b[..k])), false); run.count("rtcp_truncations"); } }
            if i % 5 == 0 && b.len() >= 8 {
                // RTCP padding on the last packet: P bit, k bytes, count in the last byte
                let mut v = b.clone(); let k = 4 * rng.range(1, 3) as usize;
                // … on the last packet or (every other time) on the first one of a compound of several: padding is a property of
                // the individual packet, a receiver honours the P bit wherever the packet sits (this stack pads TWCC in place)
                let first = i % 10 == 0;
                let mut off = 0; if !first { loop { let l = (u16::from_be_bytes([v[off + 2], v[off + 3]]) as usize + 1) * 4; if off + l >= v.len() { break; } off += l; } }
                let l = (u16::from_be_bytes([v[off + 2], v[off + 3]]) as usize + 1) * 4;
                let words = u16::from_be_bytes([v[off + 2], v[off + 3]]) as usize + k / 4;
                if words <= 65535 && v[off] & 0x20 == 0 { v[off] |= 0x20; v[off + 2] = (words >> 8) as u8; v[off + 3] = words as u8;
                    let mut padb = vec![0u8; k - 1]; padb.push(k as u8); let tail = v.split_off(off + l); v.extend(padb); v.extend(tail);
                    emit(&mut run, format!("rtcp_parse {}", hex(&v)), true); run.count(if first && off + l + k < v.len() { "rtcp_padded_not_last" } else { "rtcp_padded" }); }
            }
        }
        // the reference's serialisation of the same logical packets
        if in_range && i % 2 == 1 {
            let rp: Option<Vec<_>> = ps.iter().map(refc::to_ref).collect();
            if let Some(rb) = rp.and_then(refc::ref_marshal_rtcp) { emit(&mut run, format!("rtcp_parse_ref {}", hex(&rb)), true); run.count("rtcp_from_reference"); }
        }
    }
    // TWCC feedback as browsers / the reference send it: payload of any length, aligned by RTCP padding
    for _ in 0..300 * scale {
        let n = rng.below(14) as usize;
        let mut body = vec![]; body.extend(gens::g32(&mut rng).to_be_bytes()); body.extend(gens::g32(&mut rng).to_be_bytes());
        body.extend(gens::g16(&mut rng).to_be_bytes()); body.extend(gens::g16(&mut rng).to_be_bytes());
        body.extend(rng.bytes(4)); body.extend(rng.bytes(n));
        let pad = (4 - body.len() % 4) % 4;
        let mut v = vec![0x80 | 15 | if pad != 0 { 0x20 } else { 0 }, 205, 0, 0];
        if pad != 0 { for _ in 1..pad { body.push(0); } body.push(pad as u8); }
        let words = body.len() / 4; v[2] = (words >> 8) as u8; v[3] = words as u8; v.extend(body);
        emit(&mut run, format!("rtcp_parse {}", hex(&v)), true); run.count("rtcp_twcc_padded_wire");
    }
    // the 16-bit length fields: largest bodies / extensions that fit, and the first that do not
    {
        let fir = |n: usize| RtcpPacket::FullIntraRequest(FullIntraRequest { sender_ssrc: 1, requests: (0..n).map(|k| FirRequest { ssrc: k as u32, sequence_number: k as u8 }).collect() });
        let twcc = |n: usize| RtcpPacket::TransportWideCc(TransportWideCc { sender_ssrc: 1, media_ssrc: 2, base_sequence: 3, packet_status_count: 4,
            reference_time_64ms: 5, feedback_packet_count: 6, payload: vec![0xAB; n] });
        let sdes = |n: usize| RtcpPacket::SourceDescription(SourceDescription { chunks: vec![SdesChunk { ssrc: 9,
            items: (0..n).map(|_| SdesItem { ty: 1, text: "a".repeat(255) }).collect() }] });
        for p in [fir(32_766), fir(32_767), twcc(262_124), twcc(262_125), twcc(262_121), sdes(1019), sdes(1020), sdes(1021)] {
            emit(&mut run, format!("rtcp_marshal {}", show_rtcp(&p)), true); run.count("rtcp_length_field_boundary");
        }
        for words in [65_535usize, 65_536] {
            let mut h = RtpHeader::new(96, 1, 2, 3); h.extension = Some(RtpHeaderExtension::new(0x4321, vec![0x5A; words * 4]));
            emit(&mut run, format!("rtp_marshal {}", show_pkt(&RtpPacket { header: h, payload: Bytes::from_static(b"xy"), padding_len: 0 })), true);
            run.count("rtp_ext_length_field_boundary");
        }
    }
    // TWCC feedback built and serialised by the reference implementation (run-length and status-vector chunks,
    // small and large deltas, its own RTCP padding): the stack must read the same header fields and payload
    {
        use rtcp::transport_feedbacks::transport_layer_cc::*;
        for _ in 0..300 * scale {
            let n = rng.range(1, 12) as u16;
            let mut chunks = vec![]; let mut deltas = vec![];
            if rng.chance(1, 2) {
                let sym = pk!(rng, [SymbolTypeTcc::PacketReceivedSmallDelta, SymbolTypeTcc::PacketReceivedLargeDelta, SymbolTypeTcc::PacketNotReceived]);
                chunks.push(PacketStatusChunk::RunLengthChunk(RunLengthChunk { type_tcc: StatusChunkTypeTcc::RunLengthChunk, packet_status_symbol: sym, run_length: n }));
                if sym != SymbolTypeTcc::PacketNotReceived { for k in 0..n { deltas.push(RecvDelta { type_tcc_packet: sym,
                    delta: if sym == SymbolTypeTcc::PacketReceivedSmallDelta { 250 * (k as i64 % 200) } else { 250 * (300 + k as i64) * if k % 2 == 0 { 1 } else { -1 } } }); } }
            } else {
                let m = n.min(7);
                let syms: Vec<SymbolTypeTcc> = (0..7).map(|k| if k < m && k % 2 == 0 { SymbolTypeTcc::PacketReceivedSmallDelta } else { SymbolTypeTcc::PacketNotReceived }).collect();
                for sy in &syms { if *sy == SymbolTypeTcc::PacketReceivedSmallDelta { deltas.push(RecvDelta { type_tcc_packet: *sy, delta: 250 * rng.below(200) as i64 }); } }
                chunks.push(PacketStatusChunk::StatusVectorChunk(StatusVectorChunk { type_tcc: StatusChunkTypeTcc::StatusVectorChunk, symbol_size: SymbolSizeTypeTcc::TwoBit, symbol_list: syms }));
            }
            let t = TransportLayerCc { sender_ssrc: gens::g32(&mut rng), media_ssrc: gens::g32(&mut rng), base_sequence_number: gens::g16(&mut rng),
                packet_status_count: n, reference_time: (rng.next() as u32) & 0x00FF_FFFF, fb_pkt_count: gens::g8(&mut rng), packet_chunks: chunks, recv_deltas: deltas };
            let v: Vec<Box<dyn rtcp::packet::Packet + Send + Sync>> = vec![Box::new(t)];
            if let Some(rb) = refc::ref_marshal_rtcp(v) {
                if refc::ref_parse_rtcp(&rb).is_ok() { emit(&mut run, format!("rtcp_parse_ref {}", hex(&rb)), true); run.count("rtcp_twcc_from_reference"); }
            }
        }
    }
    // boundary NACK sets: every subset of a window straddling 65535 → 0
    let w: u32 = if args.tier_thorough { 20 } else { 11 };
    for mask in 1u32..(1 << w) {
        let lost: Vec<String> = (0..w).filter(|k| mask >> k & 1 == 1).map(|k| (65_530u16.wrapping_add((k * 3 % w) as u16 + (k / 4) as u16 * 5)).to_string()).collect();
        emit(&mut run, format!("rtcp_marshal NACK,1,2,{}", lost.join(";")), true);
    }
    run.count_n("nack_window_subsets", (1u64 << w) - 1);
    // NACK FCI as received: PIDs next to the wrap with arbitrary bitmasks (expansion must wrap 65535 → 0)
    for _ in 0..300 * scale {
        let n = rng.range(1, 4) as usize;
        let mut v = vec![0x81u8, 205, 0, (2 + n) as u8, 0, 0, 0, 1, 0, 0, 0, 2];
        for _ in 0..n { let pid = pk!(rng, [65_535u16, 65_534, 65_520, 65_519, 0, 32_767, rng.next() as u16]);
            let blp = pk!(rng, [0u16, 1, 0x8000, 0xFFFF, 0x8001, rng.next() as u16]);
            v.extend(pid.to_be_bytes()); v.extend(blp.to_be_bytes()); }
        emit(&mut run, format!("rtcp_parse {}", hex(&v)), true); run.count("rtcp_nack_fci_near_wrap");
    }
    // unknown packet types, XR, feedback formats, SDES without terminator, text that is not UTF-8
    for _ in 0..600 * scale {
        let pt = pk!(rng, [192u8, 199, 200, 201, 202, 203, 204, 205, 206, 207, 208, 0, 255]);
        let fmt = pk!(rng, [0u8, 1, 2, 4, 5, 15, 31, rng.below(32) as u8]);
        let words = rng.below(8) as usize;
        let mut v = vec![0x80 | fmt, pt, 0, words as u8]; v.extend(rng.bytes(words * 4));
        if rng.chance(1, 3) && words >= 4 { v[12..16].copy_from_slice(b"REMB"); }
        emit(&mut run, format!("rtcp_parse {}", hex(&v)), true); run.count("rtcp_raw_typed");
    }
    for _ in 0..400 * scale {
        let n = pk!(rng, [0usize, 1, 2, 3, 4, 5, 8, 16, rng.below(24) as usize]);
        let mut b = rng.bytes(n);
        if rng.chance(1, 2) { for x in b.iter_mut() { if rng.chance(1, 2) { *x = pk!(rng, [0xC2u8, 0xE0, 0xED, 0xF0, 0xF4, 0x80, 0xBF, 0xA0, 0x9F, 0x90, 0x8F, 0x41, 0xFF, 0xC0, 0xEF]); } } }
        emit(&mut run, format!("utf8 {}", hex(&b)), true);
    }
    for a in 0..=255u8 { emit(&mut run, format!("utf8 {}", hex(&[a])), false); }
    if args.tier_thorough { for a in 0xC0..=0xFFu8 { for b in 0x70..=0xC8u8 { emit(&mut run, format!("utf8 {}", hex(&[a, b, 0x80, 0x80, 0x41])), false); } } }

    // ---- RTX
    for _ in 0..1500 * scale {
        let mut p = gens::rtp_packet(&mut rng, true);
        if rng.chance(1, 3) { let n = rng.below(3) as usize; p.payload = Bytes::from(rng.bytes(n)); }
        emit(&mut run, format!("rtx_wrap {} {} {} {}", show_pkt(&p), gens::g32(&mut rng), rng.below(128), gens::g16(&mut rng)), true);
        emit(&mut run, format!("rtx_unwrap {} {} {}", show_pkt(&p), gens::g32(&mut rng), rng.below(128)), true);
    }

    // ---- small helpers: is_rtcp (every second byte), OSN codec, RTX payload-type allocation
    for b1 in 0..=255u8 { emit(&mut run, format!("is_rtcp {}", hex(&[0x80, b1, 0, 0])), true); emit(&mut run, format!("is_rtcp {}", hex(&[0x80, b1])), false); }
    for n in 0..2usize { emit(&mut run, format!("is_rtcp {}", hex(&vec![200u8; n])), false); }
    for _ in 0..200 * scale { let n = rng.below(5) as usize; emit(&mut run, format!("osn {}", hex(&rng.bytes(n))), true); }
    for _ in 0..300 * scale {
        let mut used: Vec<u8> = match rng.below(4) { 0 => (96..=127).collect(), 1 => (96..(96 + rng.below(33) as u8)).collect(), _ => vec![] };
        for _ in 0..rng.below(12) { used.push(pk!(rng, [95u8, 96, 97, 100, 126, 127, 128, 0, 255, rng.range(90, 130) as u8])); }
        if rng.chance(1, 4) && !used.is_empty() { let k = rng.below(used.len() as u64) as usize; used.remove(k); }
        emit(&mut run, format!("rtx_alloc {}", show_list(used.iter().map(|x| x.to_string()).collect(), ";")), true);
    }

    // ---- RTX apt association (ASCII fmtp values: what append_rtx_to_section writes, variants, malformed)
    let piece = |rng: &mut Rng| -> String {
        let n = pk!(rng, [96u32, 0, 255, 256, 97, 127, 1000, rng.below(300) as u32]);
        let num = match rng.below(6) { 0 => format!("+{n}"), 1 => format!("0{n}"), 2 => format!("-{n}"), 3 => format!("{n}x"), _ => n.to_string() };
        match rng.below(12) {
            0 => format!("apt={num}"), 1 => format!(" apt={num} "), 2 => format!("APT={num}"), 3 => format!("apt= {num}"), 4 => format!("Apt={num}"),
            5 => "rtx-time=3000".into(), 6 => "apt=".into(), 7 => format!("apt ={num}"), 8 => String::new(), 9 => format!("\tapt={num}\r"),
            10 => format!("xapt={num}"), _ => format!("apt={num}") } };
    for _ in 0..600 * scale {
        let k = rng.range(1, 3); let parts: Vec<String> = (0..k).map(|_| piece(&mut rng)).collect();
        emit(&mut run, format!("apt {}", hex(parts.join(";").as_bytes())), true);
    }
    for pt in 0..=255u32 { emit(&mut run, format!("apt {}", hex(format!("apt={pt}").as_bytes())), true); }
    for _ in 0..300 * scale {
        let n = rng.range(1, 5);
        let toks: Vec<String> = (0..n).map(|_| {
            let key = pk!(rng, ["fmtp", "fmtp", "fmtp", "rtpmap", "FMTP", "fmtp "]);
            let val = match rng.below(8) { 0 => None, 1 => Some(format!("{}", rng.below(130))), 2 => Some(format!("{} VP8/90000", rng.below(130))),
                3 => Some(format!("{}  {}", 96 + rng.below(4), piece(&mut rng))), _ => Some(format!("{} {}", pk!(rng, [96u64, 97, 97, 98, 300, rng.below(130)]), piece(&mut rng))) };
            match val { None => hex(key.as_bytes()), Some(v) => format!("{}={}", hex(key.as_bytes()), hex(v.as_bytes())) } }).collect();
        emit(&mut run, format!("aptmap {}", toks.join(" ")), true);
    }

    // apt values with Unicode white space around the parts (str::trim strips White_Space, not only ASCII)
    for _ in 0..200 * scale {
        let ws = |rng: &mut Rng| pk!(rng, ["", " ", "\u{a0}", "\u{85}", "\u{2003}", "\u{2028}", "\u{3000}", "\u{1680}", "\u{205f}", "\u{200b}", "\u{feff}", "é"]);
        let n = rng.below(300);
        let t = format!("{}apt={}{}{};x=1", ws(&mut rng), ws(&mut rng), n, ws(&mut rng));
        emit(&mut run, format!("apt {}", hex(t.as_bytes())), true); run.count("apt_unicode_space");
    }
    // append_rtx_to_section → extract_rtx_apt_map_from_attrs → rtx_pt_for_primary
    for _ in 0..400 * scale {
        let prim = pk!(rng, [96u8, 97, 100, 111, 0, 255, rng.below(128) as u8]);
        let rtx = pk!(rng, [97u8, 98, 101, 127, 9, 255, rng.below(128) as u8]);
        let clock = pk!(rng, [90_000u32, 48_000, 8_000, 0, u32::MAX]);
        let nf = rng.below(4);
        let fmts: Vec<String> = (0..nf).map(|_| pk!(rng, [prim, rtx, 96, 100]).to_string()).collect();
        let na = rng.below(5);
        let attrs: Vec<String> = (0..na).map(|_| { let (k, v) = match rng.below(6) {
            0 => ("rtpmap".to_string(), Some(format!("{prim} VP8/90000"))), 1 => ("rtpmap".to_string(), Some(format!("{rtx} rtx/{clock}"))),
            2 => ("fmtp".to_string(), Some(format!("{} apt={}", pk!(rng, [rtx, 98u8, 99]), pk!(rng, [prim, 96u8, 100])))),
            3 => ("fmtp".to_string(), Some(format!("{prim} max-fs=1200"))), 4 => ("sendrecv".to_string(), None), _ => ("mid".to_string(), Some("0".into())) };
            match v { None => hex(k.as_bytes()), Some(v) => format!("{}={}", hex(k.as_bytes()), hex(v.as_bytes())) } }).collect();
        emit(&mut run, format!("apt_append {prim} {rtx} {clock} {} {}", show_list(fmts.iter().map(|x| hex(x.as_bytes())).collect(), ";"), attrs.join(" ")).trim_end().to_string(), true);
    }
    // receive side: RTX packets produced by the real wrap, primary packets, unmapped payload types, unlatched SSRC
    for _ in 0..800 * scale {
        let orig = { let mut p = gens::rtp_packet(&mut rng, true); p.header.payload_type = pk!(rng, [96u8, 100, 111]); p.header.ssrc = pk!(rng, [1111u32, 2222, 0]); p };
        let cfg = rustrtc::rtx::RtxSenderConfig { rtx_ssrc: pk!(rng, [9999u32, 9999, 1111]), rtx_payload_type: pk!(rng, [97u8, 97, 101, 96]) };
        let apt = pk!(rng, ["97:96", "97:96;101:100", "-", "97:100", "101:111;97:96"]);
        let rs = pk!(rng, ["9999", "9999", "-", "1111"]);
        let latched = pk!(rng, [1111u32, 1111, 2222, 0]);
        let pkt = match rng.below(4) { 0 => orig.clone(), 1 => { let mut w = rustrtc::rtx::wrap_rtx_packet(&orig, &cfg, gens::g16(&mut rng)); w.payload = Bytes::from(w.payload[..rng.below(3) as usize].to_vec()); w }
            _ => rustrtc::rtx::wrap_rtx_packet(&orig, &cfg, gens::g16(&mut rng)) };
        emit(&mut run, format!("rtx_rx {apt} {rs} {latched} {}", show_pkt(&pkt)), true);
    }

    // the same through the production writers: remote SDP → set_remote_description → receiver state → maybe_unwrap_rtx
    for _ in 0..260 * scale.min(8) {
        let orig = { let mut p = gens::rtp_packet(&mut rng, true); p.header.payload_type = pk!(rng, [96u8, 96, 100]); p.header.ssrc = pk!(rng, [1111u32, 1111, 2222]); p };
        let rtx_pt = pk!(rng, [97u8, 97, 101, 120]);
        let cfg = rustrtc::rtx::RtxSenderConfig { rtx_ssrc: pk!(rng, [9999u32, 9999, 1111]), rtx_payload_type: pk!(rng, [rtx_pt, rtx_pt, rtx_pt, 96, 98]) };
        let fmtp = pk!(rng, ["apt=96", "apt=96", "apt=96;rtx-time=3000", "rtx-time=3000;apt=96", "apt=100", "rtx-time=3000", "apt=96; rtx-time=200", "APT=96", "apt=300", "apt=", "apt=96,rtx-time=1"]);
        let fid = pk!(rng, ["-", "1111:9999", "1111:9999", "2222:9999"]);
        let ssrcs = pk!(rng, ["1111;9999", "1111;9999", "1111", "-", "9999;1111", "2222;1111"]);
        let pkt = match rng.below(4) { 0 => orig.clone(), 1 => { let mut w = rustrtc::rtx::wrap_rtx_packet(&orig, &cfg, gens::g16(&mut rng)); w.payload = Bytes::from(w.payload[..rng.below(3) as usize].to_vec()); w }
            _ => rustrtc::rtx::wrap_rtx_packet(&orig, &cfg, gens::g16(&mut rng)) };
        let stream = pk!(rng, ["rtx_sdp", "rtx_sdp", "rtx_sdp_existing", "rtx_sdp_answer"]);
        emit(&mut run, format!("{stream} {rtx_pt} {} {fid} {ssrcs} {}", hex(fmtp.as_bytes()), show_pkt(&pkt)), true); run.count(&format!("rtx_via_{stream}"));
    }
    // the sender side of the same negotiation: add_track + create_offer → RtpSender::set_rtx
    for (p, r) in [(96u8, 97u8), (96, 101), (100, 120), (111, 97), (96, 127)] { emit(&mut run, format!("rtx_sender {p} {r}"), true); run.count("rtx_sender_negotiation"); }
    // … and through the receiver's run loop (set_rtx_ssrc / set_rtx_apt_map / set_transport, packets into its channel,
    // the SSRC latch): primary packets latch the SSRC that later retransmissions are restored with
    for _ in 0..300 * scale.min(8) {
        let apt = pk!(rng, ["97:96", "97:96", "97:96;101:100", "-", "97:100", "101:111;97:96"]);
        let rs = pk!(rng, ["9999", "9999", "-", "1111"]);
        let ssrc0 = pk!(rng, [0u32, 0, 1111, 2222]);
        let n = rng.range(1, 5);
        let mut toks = vec![];
        for _ in 0..n {
            let orig = { let mut p = gens::rtp_packet(&mut rng, true); p.header.payload_type = pk!(rng, [96u8, 96, 100, 111]); p.header.ssrc = pk!(rng, [1111u32, 1111, 2222, 3333]); p };
            let cfg = rustrtc::rtx::RtxSenderConfig { rtx_ssrc: pk!(rng, [9999u32, 9999, 1111]), rtx_payload_type: pk!(rng, [97u8, 97, 101, 96]) };
            let pkt = match rng.below(5) { 0 | 1 => orig.clone(), 2 => { let mut w = rustrtc::rtx::wrap_rtx_packet(&orig, &cfg, gens::g16(&mut rng)); w.payload = Bytes::from(w.payload[..rng.below(3) as usize].to_vec()); w }
                _ => rustrtc::rtx::wrap_rtx_packet(&orig, &cfg, gens::g16(&mut rng)) };
            toks.push(show_pkt(&pkt));
        }
        emit(&mut run, format!("rtx_loop {apt} {rs} {ssrc0} {}", toks.join(" ")), true); run.count("rtx_via_run_loop");
    }

    // ---- NACK send buffer and receiver gap detection
    nackh::generate(&mut run, &mut rng, scale, &mut |run, case| emit(run, case, true));

    run.notes.insert("scope".into(), serde_json::json!(
        "streams: rtp_marshal(+marshal_into)/rtp_parse(+reference bytes)/ext_get/ext_set/rtcp_marshal/rtcp_parse(+reference bytes, +RTCP padding)/utf8/rtx_wrap/rtx_unwrap/rtx_rx/rtx_sdp/rtx_loop/apt/aptmap/apt_append/is_rtcp/osn/rtx_alloc/nackbuf/gap; NACK window subsets exhaustive"));
    run.finish();
}
