//! NACK send buffer (`DefaultRtpSenderNackHandler`) and receiver gap detection
//! (`DefaultRtpReceiverNackHandler`) — public API plus the hooks `verif_pending_len`, `verif_set_rtx_state`, `verif_maybe_unwrap_rtx`.
use super::Fails;
use crate::pk;
use crate::{Rng, Run};
use bytes::Bytes;
use rustrtc::peer_connection::{DefaultRtpReceiverNackHandler, DefaultRtpSenderNackHandler, NackStats, RtpReceiverInterceptor, RtpSenderInterceptor};
use rustrtc::rtp::{RtcpPacket, RtpHeader, RtpPacket};
use std::collections::{HashMap, VecDeque};
use std::net::SocketAddr;
use std::time::{Duration, Instant};

fn addr() -> SocketAddr { "127.0.0.1:9".parse().unwrap() }

/// records every packet the transport is asked to put on the wire (plaintext, before SRTP)
struct Egress(parking_lot::Mutex<Vec<RtpPacket>>);
impl rustrtc::peer_connection::RtpObserver for Egress {
    fn on_egress(&self, p: &RtpPacket, _dst: SocketAddr) { self.0.lock().push(p.clone()); }
}
const RTX_PT: u8 = 97;
fn pkt(ssrc: u32, seq: u16, tag: u32) -> RtpPacket {
    RtpPacket { header: RtpHeader::new(96, seq, tag, ssrc), payload: Bytes::from_static(b"p"), padding_len: 0 }
}
fn lst(s: &str) -> Vec<u16> { if s == "-" { vec![] } else { s.split(';').map(|x| x.parse().unwrap()).collect() } }

/// `nackbuf <max> s:<seq>:<tag> … q:<ms>:<seqs> …`
pub fn s_nackbuf(_run: &mut Run, a: &[&str]) -> (String, Fails) {
    let max: usize = a[0].parse().unwrap();
    let cap = max.max(1);
    let h = DefaultRtpSenderNackHandler::new(max);
    let base = Instant::now();
    let mut out = vec![]; let mut f: Fails = vec![];
    // independent bookkeeping of the documented behaviour: bounded FIFO of distinct sequence numbers,
    // newest version per sequence number, 25 ms per-sequence resend cooldown
    let mut fifo: VecDeque<u16> = VecDeque::new(); let mut latest: HashMap<u16, u32> = HashMap::new();
    let mut accepted: HashMap<u16, u64> = HashMap::new();
    let mut rtx: u32 = 0;          // `rtx_ssrc_fast`
    let mut rtx_on = false;        // `rtx_config.is_some()`: `set_rtx(Some{rtx_ssrc: 0, ..})` enables wrapping although the fast SSRC is 0
    // a transport without a socket: `send_rtp` fails after the egress observers have seen the packet
    let (_stx, srx) = tokio::sync::watch::channel::<Option<rustrtc::transports::ice::IceSocketWrapper>>(None);
    let tr = std::sync::Arc::new(rustrtc::transports::rtp::RtpTransport::new(rustrtc::transports::ice::conn::IceConn::new(srx, addr(), None), false));
    let egress = std::sync::Arc::new(Egress(parking_lot::Mutex::new(vec![])));
    tr.add_observer(egress.clone());
    let mut rtx_base: Option<u16> = None;
    let (mut monotone, mut last_t) = (true, 0u64);
    let mut rtx_sent: u16 = 0;
    for op in &a[1..] {
        let g: Vec<&str> = op.split(':').collect();
        match g[0] {
            "r" | "R" => {
                rtx = g[1].parse().unwrap();
                rtx_on = g[0] == "R" || rtx != 0;
                h.set_rtx(if rtx_on { Some(rustrtc::rtx::RtxSenderConfig { rtx_ssrc: rtx, rtx_payload_type: RTX_PT }) } else { None });
                if h.rtx_config().map(|c| c.rtx_ssrc) != (if rtx_on { Some(rtx) } else { None }) { f.push(("nackbuf:rtx-config".into(), String::new())); }
                out.push(format!("l{}", h.buffered_packet_count()));
            }
            "s" | "x" => {
                let (ssrc, seq, tag): (u32, u16, u32) = if g[0] == "s" { (7, g[1].parse().unwrap(), g[2].parse().unwrap()) }
                    else { (g[1].parse().unwrap(), g[2].parse().unwrap(), g[3].parse().unwrap()) };
                futures::executor::block_on(h.on_packet_sent(&pkt(ssrc, seq, tag), addr(), addr()));
                // RTX retransmissions (packets carrying the RTX SSRC) are never stored
                if rtx != 0 && ssrc == rtx { /* skipped */ }
                else if latest.insert(seq, tag).is_none() { fifo.push_back(seq); while fifo.len() > cap { let o = fifo.pop_front().unwrap(); latest.remove(&o); } }
                let n = h.buffered_packet_count();
                if n > cap { f.push(("nackbuf:exceeds-capacity".into(), format!("{n} > {cap}"))); }
                if n != fifo.len() { f.push(("nackbuf:count".into(), format!("{n} vs {}", fifo.len()))); }
                out.push(format!("l{n}"));
            }
            "n" => {
                // the production path: `on_rtcp_received(GenericNack)` → packets_for_nack → (RTX wrap) → transport.send_rtp.
                // The handler reads its own clock (`Instant::now()`): the trace's time stamp only orders the ops, and
                // a sleep longer than the cooldown separates this NACK from every earlier resend.
                let seqs = lst(g[2]);
                if seqs.iter().any(|q| accepted.contains_key(q)) { std::thread::sleep(Duration::from_millis(27)); }
                let nack = RtcpPacket::GenericNack(rustrtc::rtp::GenericNack { sender_ssrc: 1, media_ssrc: 7, lost_packets: seqs.clone() });
                egress.0.lock().clear();
                futures::executor::block_on(h.on_rtcp_received(&nack, tr.clone()));
                let sent: Vec<RtpPacket> = egress.0.lock().drain(..).collect();
                let mut items = vec![]; let mut seen = vec![];
                for p in &sent {
                    if rtx_on {
                        // an RFC 4588 retransmission: RTX SSRC and PT, own sequence space, OSN + original payload
                        if p.header.ssrc != rtx || p.header.payload_type != RTX_PT || p.payload.len() < 2 { f.push(("nackbuf:rtx-wrap".into(), format!("{:?}", p.header))); continue; }
                        let osn = u16::from_be_bytes([p.payload[0], p.payload[1]]);
                        let base = *rtx_base.get_or_insert(p.header.sequence_number);
                        if latest.get(&osn) != Some(&p.header.timestamp) || &p.payload[2..] != b"p" { f.push(("nackbuf:rtx-wrap".into(), format!("osn {osn} ts {}", p.header.timestamp))); }
                        // … which the receive side of this stack restores to the stored packet
                        let rx = rustrtc::peer_connection::RtpReceiver::new(rustrtc::MediaKind::Video, 0, vec![]);
                        rx.verif_set_rtx_state(vec![(RTX_PT, 96)], Some(rtx), 7);
                        match rx.verif_maybe_unwrap_rtx(p.clone()) {
                            Some(u) if u.header.ssrc == 7 && u.header.payload_type == 96 && u.header.sequence_number == osn && u.header.timestamp == p.header.timestamp && &u.payload[..] == b"p" => {}
                            other => f.push(("nackbuf:rtx-not-restored".into(), format!("{:?}", other.map(|u| u.header)))),
                        }
                        // RFC 4588 §4: the retransmission stream has its own sequence number space, advanced by one per packet
                        let off = p.header.sequence_number.wrapping_sub(base);
                        if off != rtx_sent { f.push(("nackbuf:rtx-seq-not-consecutive".into(), format!("packet {rtx_sent} of the RTX stream carries offset {off}"))); }
                        rtx_sent = rtx_sent.wrapping_add(1);
                        items.push(format!("{osn}:{}:{}", p.header.timestamp, off));
                        seen.push(osn);
                    } else {
                        if latest.get(&p.header.sequence_number) != Some(&p.header.timestamp) { f.push(("nackbuf:plain-resend".into(), format!("{:?}", p.header))); }
                        items.push(format!("{}:{}:-", p.header.sequence_number, p.header.timestamp));
                        seen.push(p.header.sequence_number);
                    }
                }
                // every requested packet still stored is retransmitted exactly once (the sleep rules the cooldown out)
                let mut uniq = seqs.clone(); uniq.dedup(); let mut want: Vec<u16> = vec![]; for q in &seqs { if latest.contains_key(q) && !want.contains(q) { want.push(*q); } }
                let _ = uniq;
                if seen != want { f.push(("nackbuf:nack-response".into(), format!("resent {seen:?}, stored+requested {want:?}"))); }
                let t: u64 = g[1].parse().unwrap();
                for q in &seen { accepted.insert(*q, t); }
                out.push(format!("r{}", if items.is_empty() { "-".to_string() } else { items.join(";") }));
            }
            _ => {
                let (t, seqs): (u64, Vec<u16>) = (g[1].parse().unwrap(), lst(g[2]));
                // the cooldown clauses below are stated for a clock that does not run backwards (with a backwards step the
                // bounded cooldown map may already have dropped an entry; the model covers that case)
                if t < last_t { monotone = false; }
                last_t = t;
                let got = h.packets_for_nack(&seqs, base + Duration::from_millis(t));
                let mut seen = vec![];
                for p in &got {
                    let s = p.header.sequence_number;
                    if !seqs.contains(&s) { f.push(("nackbuf:unrequested".into(), format!("{s}"))); }
                    if seen.contains(&s) { f.push(("nackbuf:duplicate-resend".into(), format!("{s}"))); }
                    seen.push(s);
                    if latest.get(&s) != Some(&p.header.timestamp) { f.push(("nackbuf:stale-or-evicted-packet".into(), format!("{s}:{}", p.header.timestamp))); }
                }
                for s in &seqs {
                    let cooling = accepted.get(s).map_or(false, |l| t.saturating_sub(*l) < 25);
                    if monotone && latest.contains_key(s) && !cooling && !seen.contains(s) { f.push(("nackbuf:retained-packet-not-resent".into(), format!("{s}"))); }
                    if monotone && cooling && seen.contains(s) { f.push(("nackbuf:cooldown-ignored".into(), format!("{s}"))); }
                }
                for s in &seen { accepted.insert(*s, t); }
                out.push(format!("g{}", if got.is_empty() { "-".to_string() } else {
                    got.iter().map(|p| format!("{}:{}", p.header.sequence_number, p.header.timestamp)).collect::<Vec<_>>().join(";") }));
            }
        }
    }
    (out.join(" "), f)
}

/// `gap <ssrc>:<seq> …` → per packet `n` (no NACK) or `k<lost list>`
pub fn s_gap(_run: &mut Run, a: &[&str]) -> (String, Fails) {
    let h = DefaultRtpReceiverNackHandler::new();
    let mut out = vec![]; let mut f: Fails = vec![];
    // bookkeeping for the oracle: highest sequence number accepted so far on the current SSRC
    let mut cur: Option<(u32, u16)> = None; let mut nacked: Vec<u16> = vec![];
    let mut plen_before = 0usize;
    let mut last_step: Option<(Vec<u16>, bool)> = None;     // (lost list of the last NACK, did that step evict)
    for t in a {
        let (s, q) = t.split_once(':').unwrap();
        let (ssrc, seq): (u32, u16) = (s.parse().unwrap(), q.parse().unwrap());
        let r = futures::executor::block_on(h.on_packet_received(&pkt(ssrc, seq, 0), addr(), addr()));
        let lost = match &r { Some(RtcpPacket::GenericNack(n)) => {
            if n.media_ssrc != ssrc { f.push(("gap:media-ssrc".into(), format!("{}", n.media_ssrc))); } Some(n.lost_packets.clone()) }
            Some(_) => { f.push(("gap:not-a-nack".into(), String::new())); None } None => None };
        // what the documentation promises
        // (SSRC 0 is the handler's "not yet known" sentinel: the stream identity is learnt from the first
        //  packet and on every detected switch, and a remembered 0 never counts as a switch)
        let fresh = match cur { Some((c, _)) => c != 0 && c != ssrc, None => false };
        if cur.is_none() || fresh {
            if lost.is_some() { f.push(("gap:nack-on-first-or-switched-stream".into(), format!("{t}"))); }
            cur = Some((ssrc, seq)); nacked.clear();
        } else if let Some(i) = nacked.iter().position(|x| *x == seq) {
            if lost.is_some() { f.push(("gap:nack-on-recovered-packet".into(), format!("{t}"))); }
            nacked.remove(i);
        } else {
            let last = cur.unwrap().1;
            let d = seq.wrapping_sub(last);
            if d > 1 && d < 32768 {
                let gap = d as usize - 1; let n = gap.min(128);
                let want: Vec<u16> = (0..n).map(|k| seq.wrapping_sub((n - k) as u16)).collect();
                if lost.as_ref() != Some(&want) { f.push(("gap:lost-list-not-exact".into(), format!("last {last} seq {seq}: {:?}", lost))); }
                for x in want { if !nacked.contains(&x) { nacked.push(x); } }
                cur = Some((cur.unwrap().0, seq));
            } else {
                if lost.is_some() { f.push(("gap:spurious-nack".into(), format!("last {last} seq {seq}"))); }
                if d < 32768 { cur = Some((cur.unwrap().0, seq)); }
            }
        }
        let plen = h.verif_pending_len();
        // "bound pending set similarly to the gap cap": an eviction leaves exactly MAX_RECEIVER_NACK_GAP entries
        if lost.is_some() && plen < plen_before && plen != 128 { f.push(("gap:pending-eviction-size".into(), format!("{plen_before} -> {plen}"))); }
        last_step = lost.clone().map(|l| (l, plen < plen_before));
        plen_before = plen;
        // the pending set is bounded: it never exceeds twice the NACK cap, and a step that would is cut back to the cap
        if plen > 256 { f.push(("gap:pending-unbounded".into(), format!("{plen}"))); }
        out.push(format!("{}#{plen}", match lost { None => "n".to_string(), Some(l) => format!("k{}", if l.is_empty() { "-".into() } else { l.iter().map(|x| x.to_string()).collect::<Vec<_>>().join(";") }) }));
    }
    // After an eviction the code keeps 128 entries "in HashSet order" (unspecified, so the model stops here). One thing
    // is still checked, statistically: the eviction is meant for OLDER entries — if the gap just NACKed has ≥ 64 entries,
    // an order-independent choice of the 128 survivors keeps at least one of them with probability > 1 - 2^-60, so at
    // least one retransmission of the newest gap must still be recognised as recovered.
    if let Some((newest, true)) = last_step {
        if newest.len() >= 64 {
            let before = h.get_recovered_count();
            for s in &newest { let _ = futures::executor::block_on(h.on_packet_received(&pkt(cur.map_or(0, |c| c.0), *s, 0), addr(), addr())); }
            if h.get_recovered_count() == before { f.push(("gap:eviction-forgets-the-newest-gap".into(), format!("none of {} just-NACKed packets is recognised when it arrives", newest.len()))); }
        }
    }
    (out.join(" "), f)
}

pub fn generate(run: &mut Run, rng: &mut Rng, scale: u64, emit: &mut dyn FnMut(&mut Run, String)) {
    // send buffer: small capacities, sequence numbers from a small pool (re-pushes) and runs across the wrap
    for i in 0..800 * scale {
        let max = pk!(rng, [0usize, 1, 2, 3, 4, 8, 16]);
        let n = rng.range(1, 40);
        let mut seq = pk!(rng, [0u16, 65_530, 100, 32_767]);
        let mut t = 0u64; let mut tag = 1u32; let mut ops = vec![];
        for _ in 0..n {
            if rng.chance(3, 4) {
                seq = if rng.chance(4, 5) { seq.wrapping_add(1) } else { seq.wrapping_sub(rng.below(4) as u16) };
                if rng.chance(1, 5) { ops.push(format!("x:{}:{seq}:{tag}", pk!(rng, [9u32, 9, 9, 7, 0]))); }
                else { ops.push(format!("s:{seq}:{tag}")); }
                tag += 1;
                if rng.chance(1, 8) { ops.push(format!("{}:{}", pk!(rng, ["r", "r", "r", "R"]), pk!(rng, [9u32, 9, 9, 0, 7]))); }
            } else {
                // (time occasionally runs backwards: `duration_since` saturates, pruned cooldown entries stop suppressing)
                if rng.chance(1, 10) { t = t.saturating_sub(pk!(rng, [1u64, 30, 200])); } else { t += pk!(rng, [0u64, 1, 24, 25, 26, 100]); }
                let k = rng.range(1, 6);
                let qs: Vec<String> = (0..k).map(|_| seq.wrapping_sub(rng.below(8) as u16).wrapping_add(rng.below(2) as u16).to_string()).collect();
                ops.push(format!("q:{t}:{}", qs.join(";")));
            }
        }
        emit(run, format!("nackbuf {max} {}", ops.join(" ")));
        if i == 0 { run.count("nackbuf_traces"); } else { run.count("nackbuf_traces"); }
    }
    // NACK feedback through the production path (on_rtcp_received → RTX wrap → transport), no synthetic clock
    for _ in 0..60 * scale {
        let max = pk!(rng, [2usize, 4, 8, 16]);
        let mut seq = pk!(rng, [0u16, 65_530, 100]);
        let mut t = 0u64; let mut tag = 1u32; let mut ops = vec![];
        if rng.chance(2, 3) { ops.push("r:9".to_string()); }
        for _ in 0..rng.range(3, 25) {
            match rng.below(10) {
                0..=5 => { seq = seq.wrapping_add(1); if rng.chance(1, 8) { ops.push(format!("x:9:{seq}:{tag}")); } else { ops.push(format!("s:{seq}:{tag}")); } tag += 1; }
                6 => ops.push(format!("{}:{}", pk!(rng, ["r", "r", "R"]), pk!(rng, [9u32, 9, 0]))),
                _ => { t += 30; let k = rng.range(1, 5);
                    let qs: Vec<String> = (0..k).map(|_| seq.wrapping_sub(rng.below(6) as u16).to_string()).collect();
                    ops.push(format!("n:{t}:{}", qs.join(";"))); }
            }
        }
        emit(run, format!("nackbuf {max} {}", ops.join(" "))); run.count("nackbuf_production_path_traces");
    }
    // receiver: steps +1, gaps of boundary sizes, reordering, duplicates, old packets, SSRC switches, wrap
    for _ in 0..1200 * scale {
        let mut ssrc = pk!(rng, [5u32, 5, 5, 0, 9]);
        let mut seq = pk!(rng, [0u16, 65_500, 65_535, 1000, 32_700]);
        let n = rng.range(1, 30);
        let mut toks = vec![]; let mut budget = 0usize; let mut last = seq;
        for k in 0..n {
            let r = rng.below(100);
            let s = if k == 0 { seq } else if r < 50 { seq.wrapping_add(1) }
                else if r < 70 { seq.wrapping_add(pk!(rng, [2u16, 3, 5, 17, 128, 129, 130, 200, 129, 200])) }
                else if r < 80 { seq.wrapping_sub(pk!(rng, [1u16, 2, 3, 10, 127, 128, 129])) }
                else if r < 85 { seq }
                else if r < 90 { seq.wrapping_add(pk!(rng, [32_767u16, 32_768, 32_769, 40_000])) }
                else if r < 95 { ssrc = pk!(rng, [5u32, 6, 9, 0]); seq.wrapping_add(rng.below(50) as u16) }
                else { seq.wrapping_add(rng.below(300) as u16) };
            let d = s.wrapping_sub(last);
            if d > 1 && d < 32768 { budget += (d as usize - 1).min(128); }
            // beyond 256 pending entries the code evicts in HashSet order: the step that overflows is still compared
            // (lost list, pending size cut back to 128), then the trace ends
            if budget > 256 { toks.push(format!("{ssrc}:{s}")); break; }
            if d < 32768 { last = s; seq = s; }
            toks.push(format!("{ssrc}:{s}"));
        }
        if !toks.is_empty() { emit(run, format!("gap {}", toks.join(" "))); run.count("gap_traces"); }
    }
}
