//! Two real `SctpTransport`s joined by a harness link (hook H1): every packet an endpoint emits is
//! taken from its outgoing channel, classified by the chunk types it carries, run through a fault
//! script (drop / duplicate / delay / late duplicate, addressed by side, chunk type and ordinal) and
//! pushed into the peer's incoming channel.  Each endpoint's own trace (hook) records the exact order
//! in which its single run-loop task processed and emitted packets.
use bytes::Bytes;
use parking_lot::Mutex;
use rustrtc::RtcConfiguration;
use rustrtc::transports::dtls::{DtlsTransport, generate_certificate};
use rustrtc::transports::ice::conn::IceConn;
use rustrtc::transports::sctp::{DataChannel, DataChannelConfig, DataChannelEvent, SctpTransport};
use rustrtc::verif_hooks::sctp as hook;
use std::sync::{Arc, Weak};
use std::time::{Duration, Instant};
use tokio::sync::mpsc;

pub const CT_NAMES: [(&str, u8); 13] = [
    ("TSN", 254),
    ("DATA", 0), ("INIT", 1), ("INITACK", 2), ("SACK", 3), ("HB", 4), ("HBACK", 5), ("ABORT", 6),
    ("COOKIEECHO", 10), ("COOKIEACK", 11), ("RECONFIG", 130), ("FWDTSN", 192), ("ANY", 255),
];
pub fn ct_name(t: u8) -> String {
    CT_NAMES.iter().find(|(_, v)| *v == t).map(|(n, _)| n.to_string()).unwrap_or(format!("T{t}"))
}
pub fn ct_code(n: &str) -> Option<u8> {
    CT_NAMES.iter().find(|(k, _)| *k == n).map(|(_, v)| *v).or_else(|| n.strip_prefix('T').and_then(|x| x.parse().ok()))
}

/// harness' own SCTP reader: (type, flags, value) of every chunk of a packet (no checksum check)
pub fn chunks_of(p: &[u8]) -> Vec<(u8, u8, Vec<u8>)> {
    let mut out = vec![];
    if p.len() < 12 { return out; }
    let mut i = 12;
    while i + 4 <= p.len() {
        let len = u16::from_be_bytes([p[i + 2], p[i + 3]]) as usize;
        if len < 4 || i + len > p.len() { break; }
        out.push((p[i], p[i + 1], p[i + 4..i + len].to_vec()));
        i += len + (4 - len % 4) % 4;
    }
    out
}

#[derive(Clone, Copy, Debug, PartialEq, Eq)]
pub enum Action { Drop, Dup, Delay(u32), Late(u32), DropN(u32) }

#[derive(Clone, Debug, PartialEq, Eq)]
pub struct Fault { pub side: usize, pub ctype: u8, pub ordinal: u32, pub action: Action }

impl Fault {
    pub fn text(&self) -> String {
        let a = match self.action { Action::Drop => "drop".to_string(), Action::Dup => "dup".into(),
            Action::Delay(k) => format!("delay{k}"), Action::Late(k) => format!("late{k}"), Action::DropN(k) => format!("dropn{k}") };
        format!("{}.{}.{}.{}", if self.side == 0 { "A" } else { "B" }, ct_name(self.ctype), self.ordinal, a)
    }
    pub fn parse(s: &str) -> Option<Fault> {
        let f: Vec<&str> = s.split('.').collect();
        if f.len() != 4 { return None; }
        let action = if f[3] == "drop" { Action::Drop } else if f[3] == "dup" { Action::Dup }
            else if let Some(k) = f[3].strip_prefix("dropn") { Action::DropN(k.parse().ok()?) }
            else if let Some(k) = f[3].strip_prefix("delay") { Action::Delay(k.parse().ok()?) }
            else if let Some(k) = f[3].strip_prefix("late") { Action::Late(k.parse().ok()?) } else { return None; };
        Some(Fault { side: if f[0] == "A" { 0 } else { 1 }, ctype: ct_code(f[1])?, ordinal: f[2].parse().ok()?, action })
    }
}
pub fn faults_text(fs: &[Fault]) -> String {
    if fs.is_empty() { "-".into() } else { fs.iter().map(|f| f.text()).collect::<Vec<_>>().join("+") }
}
pub fn faults_parse(s: &str) -> Vec<Fault> {
    if s == "-" { vec![] } else { s.split('+').filter_map(Fault::parse).collect() }
}

#[derive(Clone, Debug)]
pub struct ChanSpec {
    pub id: u16,
    pub ordered: bool,
    pub negotiated: bool,
    pub max_retransmits: Option<u16>,
    pub max_lifetime: Option<u16>,
    pub label: String,
    pub protocol: String,
    pub max_payload: Option<usize>,
}
impl ChanSpec {
    pub fn reliable(id: u16) -> Self {
        ChanSpec { id, ordered: true, negotiated: true, max_retransmits: None, max_lifetime: None,
            label: format!("c{id}"), protocol: String::new(), max_payload: None }
    }
    pub fn config(&self) -> DataChannelConfig {
        DataChannelConfig { label: self.label.clone(), protocol: self.protocol.clone(), ordered: self.ordered,
            max_retransmits: self.max_retransmits, max_packet_life_time: self.max_lifetime,
            max_payload_size: self.max_payload, negotiated: if self.negotiated { Some(self.id) } else { None } }
    }
}

#[derive(Clone, Debug)]
pub struct EpCfg {
    pub rwnd: usize,
    pub rto_initial_ms: u64,
    pub rto_min_ms: u64,
    pub rto_max_ms: u64,
    pub max_burst: usize,
    pub max_cwnd: usize,
    pub max_buffered: usize,
    pub seed_tsn: Option<u32>,
    pub seed_tag: Option<u32>,
    /// `sctp_heartbeat_interval` (the library default is 15 s: longer than any run)
    pub heartbeat_ms: u64,
}
impl Default for EpCfg {
    fn default() -> Self {
        EpCfg { rwnd: 128 * 1024, rto_initial_ms: 120, rto_min_ms: 60, rto_max_ms: 400, max_burst: 0,
            max_cwnd: 256 * 1024, max_buffered: 256 * 1024, seed_tsn: None, seed_tag: None, heartbeat_ms: 15_000 }
    }
}

pub struct Endpoint {
    pub port: u16,
    pub sctp: Arc<SctpTransport>,
    pub dtls: Arc<DtlsTransport>,
    pub in_tx: mpsc::UnboundedSender<Bytes>,
    pub out_rx: mpsc::UnboundedReceiver<Bytes>,
    pub channels: Arc<Mutex<Vec<Weak<DataChannel>>>>,
    /// strong refs to the channels this side created, in `channels` order
    pub dcs: Vec<Arc<DataChannel>>,
    pub new_dc_rx: mpsc::UnboundedReceiver<Arc<DataChannel>>,
    /// per channel id: events received by the application, in order
    pub events: Arc<Mutex<Vec<(u16, DataChannelEvent)>>>,
    pub runner: tokio::task::JoinHandle<()>,
}

/// move every event already delivered to the application side of `dc` into `log` (never blocks)
fn drain_channel(dc: &Arc<DataChannel>, log: &Arc<Mutex<Vec<(u16, DataChannelEvent)>>>) {
    use futures::FutureExt;
    // `unconstrained`: tokio's cooperative budget would otherwise make `recv` report Pending after 128 events
    while let Some(Some(ev)) = tokio::task::unconstrained(dc.recv()).now_or_never() {
        log.lock().push((dc.id, ev));
    }
}

impl Endpoint {
    pub async fn new(port: u16, remote_port: u16, is_client: bool, cfg: &EpCfg, chans: &[ChanSpec]) -> Endpoint {
        let (socket_tx, _) = tokio::sync::watch::channel(None);
        let ice = IceConn::new(socket_tx.subscribe(), "127.0.0.1:5000".parse().unwrap(), None);
        let cert = generate_certificate().unwrap();
        let (dtls, _dtls_in, _dtls_runner) = DtlsTransport::new(ice, cert, is_client, 100, None).await.unwrap();
        let mut rc = RtcConfiguration::default();
        rc.sctp_rto_initial = Duration::from_millis(cfg.rto_initial_ms);
        rc.sctp_rto_min = Duration::from_millis(cfg.rto_min_ms);
        rc.sctp_rto_max = Duration::from_millis(cfg.rto_max_ms);
        rc.sctp_receive_window = cfg.rwnd;
        rc.sctp_max_burst = cfg.max_burst;
        rc.sctp_max_cwnd = cfg.max_cwnd;
        rc.sctp_max_buffered_amount = cfg.max_buffered;
        rc.sctp_heartbeat_interval = Duration::from_millis(cfg.heartbeat_ms);
        hook::clear(port);
        hook::set_seeds(port, hook::Seeds { tag: cfg.seed_tag, tsn: cfg.seed_tsn });
        hook::trace_enable(port);
        let (in_tx, in_rx) = mpsc::unbounded_channel();
        let (out_tx, out_rx) = mpsc::unbounded_channel();
        let (new_dc_tx, new_dc_rx) = mpsc::unbounded_channel();
        let channels: Arc<Mutex<Vec<Weak<DataChannel>>>> = Arc::new(Mutex::new(Vec::new()));
        let events = Arc::new(Mutex::new(Vec::new()));
        let mut dcs = vec![];
        for c in chans {
            let dc = Arc::new(DataChannel::new(c.id, c.config()));
            channels.lock().push(Arc::downgrade(&dc));
            dcs.push(dc);
        }
        let (sctp, runner) = SctpTransport::new_verif_link(dtls.clone(), in_rx, out_tx, channels.clone(), port, remote_port,
            Some(new_dc_tx), is_client, &rc);
        let runner = tokio::spawn(runner);
        Endpoint { port, sctp, dtls, in_tx, out_rx, channels, dcs, new_dc_rx, events, runner }
    }
    pub fn start(&self) { self.dtls.verif_force_state(DtlsTransport::verif_null_session()); }
    /// adopt channels created from DCEP OPENs
    pub fn adopt_new(&mut self) {
        while let Ok(dc) = self.new_dc_rx.try_recv() {
            self.dcs.push(dc);
        }
    }
    /// collect the application events delivered so far
    pub fn drain_events(&self) {
        for dc in &self.dcs { drain_channel(dc, &self.events); }
    }
    pub fn shutdown(&self) {
        self.sctp.close();
        self.runner.abort();
        hook::clear(self.port);
    }
}

struct Held { pkt: Bytes, countdown: u32 }

/// one direction of the link
pub struct Dir {
    pub counts: std::collections::HashMap<u8, u32>,
    held: Vec<Held>,
    pub forwarded: u64,
    pub log: Vec<String>,
}
impl Dir {
    fn new() -> Self { Dir { counts: Default::default(), held: vec![], forwarded: 0, log: vec![] } }
}

pub struct Link {
    pub faults: Vec<Fault>,
    pub used: Vec<bool>,
    /// for `TSN` faults: how many more copies to drop
    remaining: Vec<u32>,
    /// initial TSN announced by each side
    pub init_tsn: [Option<u32>; 2],
    pub dirs: [Dir; 2],
    /// every datagram put on the wire by either side, in emission order: (side, bytes)
    pub wire: Vec<(usize, Bytes)>,
}

impl Link {
    pub fn new(faults: Vec<Fault>) -> Self {
        let n = faults.len();
        let remaining = faults.iter().map(|f| if let Action::DropN(k) = f.action { k } else { 0 }).collect();
        Link { faults, used: vec![false; n], remaining, init_tsn: [None, None], dirs: [Dir::new(), Dir::new()], wire: vec![] }
    }
    pub fn exhausted(&self) -> bool { self.used.iter().all(|u| *u) && self.dirs.iter().all(|d| d.held.is_empty()) }
    /// nothing is being held back (faults whose ordinal was never reached cannot fire without new traffic)
    pub fn quiet(&self) -> bool { self.dirs.iter().all(|d| d.held.is_empty()) }
    /// a packet emitted by `side`; returns the packets to deliver to the peer now, in order
    pub fn forward(&mut self, side: usize, pkt: Bytes) -> Vec<Bytes> {
        self.wire.push((side, pkt.clone()));
        let parsed = chunks_of(&pkt);
        let types: Vec<u8> = { let mut t: Vec<u8> = parsed.iter().map(|c| c.0).collect(); t.dedup(); t };
        for (t, _f, v) in &parsed {
            if (*t == 1 || *t == 2) && v.len() >= 16 && self.init_tsn[side].is_none() {
                self.init_tsn[side] = Some(u32::from_be_bytes([v[12], v[13], v[14], v[15]]));
            }
        }
        let mut action = None;
        // TSN-addressed faults: drop the first n copies of the chunk `initial TSN + ordinal`
        if let Some(t0) = self.init_tsn[side] {
            for (i, f) in self.faults.iter().enumerate() {
                if f.ctype == 254 && f.side == side && !self.used[i]
                    && parsed.iter().any(|(t, _, v)| *t == 0 && v.len() >= 4 && u32::from_be_bytes([v[0], v[1], v[2], v[3]]) == t0.wrapping_add(f.ordinal)) {
                    self.remaining[i] -= 1;
                    if self.remaining[i] == 0 { self.used[i] = true; }
                    action = Some(Action::Drop);
                    break;
                }
            }
        }
        if action.is_none() {
            let d = &mut self.dirs[side];
            let mut seen = vec![];
            for t in types.iter().chain(std::iter::once(&255u8)) {
                if seen.contains(t) { continue; }
                seen.push(*t);
                *d.counts.entry(*t).or_insert(0) += 1;
            }
            for (i, f) in self.faults.iter().enumerate() {
                if !self.used[i] && f.ctype != 254 && f.side == side && (types.contains(&f.ctype) || f.ctype == 255)
                    && d.counts.get(&f.ctype).copied().unwrap_or(0) == f.ordinal {
                    self.used[i] = true;
                    action = Some(f.action);
                    break;
                }
            }
        }
        let d = &mut self.dirs[side];
        let mut out = vec![];
        match action {
            None => out.push(pkt),
            Some(Action::Drop) | Some(Action::DropN(_)) => {}
            Some(Action::Dup) => { out.push(pkt.clone()); out.push(pkt); }
            Some(Action::Delay(k)) => d.held.push(Held { pkt, countdown: k + 1 }),
            Some(Action::Late(k)) => { out.push(pkt.clone()); d.held.push(Held { pkt, countdown: k + 1 }); }
        }
        // release held packets whose countdown expires with this packet
        let mut i = 0;
        while i < d.held.len() {
            d.held[i].countdown -= 1;
            if d.held[i].countdown == 0 { out.push(d.held.remove(i).pkt); } else { i += 1; }
        }
        d.forwarded += out.len() as u64;
        out
    }
    /// nothing moved for a while: release everything still held
    pub fn flush(&mut self, side: usize) -> Vec<Bytes> {
        let d = &mut self.dirs[side];
        let out: Vec<Bytes> = d.held.drain(..).map(|h| h.pkt).collect();
        d.forwarded += out.len() as u64;
        out
    }
}

/// A message to submit: (sending side, channel id, payload), submitted in list order per side.
#[derive(Clone, Debug)]
pub struct Msg { pub side: usize, pub chan: u16, pub data: Vec<u8>, pub phase: u8, pub task: u8 }

pub struct Case {
    pub cfg: [EpCfg; 2],
    /// channels created on side A / side B before the association starts
    pub chans: [Vec<ChanSpec>; 2],
    pub msgs: Vec<Msg>,
    pub faults: Vec<Fault>,
    /// stop this long after the last progress once everything was delivered / or give up after `deadline`
    pub deadline: Duration,
    pub settle: Duration,
    /// channels to close with `close_data_channel` once everything was delivered: (side, channel id)
    pub closes: Vec<(usize, u16)>,
    /// how the run ends after everything (incl. `closes`) is done
    pub end: End,
}

/// teardown at the end of a run
#[derive(Clone, Copy, Debug, PartialEq)]
pub enum End {
    /// just stop observing
    None,
    /// `SctpTransport::close()` on this side
    LocalClose(usize),
    /// a datagram with one chunk of this type (6 ABORT, 7 SHUTDOWN, 8 SHUTDOWN-ACK, 14 SHUTDOWN-COMPLETE) handed to this side
    Inject(usize, u8),
    /// a scripted sequence of datagrams a (foreign) peer could send, handed to this side; the association stays up:
    /// 1 = more out-of-order chunks than the receive queue's cap, then the missing one; 2 = a second DCEP ACK for
    /// channel 2 in a new DATA chunk; 3 = first fragment on (unordered) channel 2, a FORWARD-TSN over the next TSN
    /// that names only stream 1, then the last fragment; 4-7 = further FORWARD-TSN scripts (see run_case)
    Script(usize, u8),
}
/// number of chunks queued out of order by script 1 (the code's MAX_RECEIVED_QUEUE_SIZE is 512)
pub const FLOOD_N: usize = 530;
impl End {
    pub fn text(&self) -> String { match self { End::None => "-".into(), End::LocalClose(s) => format!("close{}", ["A", "B"][*s]), End::Inject(s, t) => format!("inject{}{t}", ["A", "B"][*s]),
        End::Script(s, n) => format!("script{}{n}", ["A", "B"][*s]) } }
    pub fn parse(t: &str) -> End {
        if let Some(r) = t.strip_prefix("close") { return End::LocalClose(if r == "A" { 0 } else { 1 }); }
        if let Some(r) = t.strip_prefix("script") { let side = if r.starts_with('A') { 0 } else { 1 }; return End::Script(side, r[1..].parse().unwrap_or(1)); }
        if let Some(r) = t.strip_prefix("inject") { let side = if r.starts_with('A') { 0 } else { 1 }; return End::Inject(side, r[1..].parse().unwrap_or(6)); }
        End::None
    }
    /// the association is expected to be Closed on this side afterwards
    pub fn closes_side(&self, side: usize) -> bool { match self { End::LocalClose(s) => *s == side, End::Inject(s, t) => *s == side && [6u8, 8, 14].contains(t), End::None | End::Script(..) => false } }
}

/// the same case with the two endpoints' roles exchanged: what A did (configuration, channels it creates, messages, faults
/// on its packets, closes, teardown) B does and vice versa. Side 0 stays the SCTP client, so the mirrored case makes the
/// *server* the bulk sender / in-band creator / lossy partially reliable sender.
pub fn mirror(c: &Case) -> Case {
    let flip = |s: usize| (s / 2) * 2 + (1 - s % 2);
    Case {
        cfg: [c.cfg[1].clone(), c.cfg[0].clone()], chans: [c.chans[1].clone(), c.chans[0].clone()],
        msgs: c.msgs.iter().map(|m| Msg { side: 1 - m.side, ..m.clone() }).collect(),
        faults: c.faults.iter().map(|f| Fault { side: 1 - f.side, ..f.clone() }).collect(),
        deadline: c.deadline, settle: c.settle, closes: c.closes.iter().map(|(s, id)| (flip(*s), *id)).collect(),
        end: match c.end { End::None => End::None, End::LocalClose(s) => End::LocalClose(1 - s), End::Inject(s, t) => End::Inject(1 - s, t), End::Script(s, n) => End::Script(1 - s, n) },
    }
}

/// an SCTP datagram carrying one empty chunk of type `t` (correct CRC-32C; ports / tag as given)
pub fn control_packet(src: u16, dst: u16, tag: u32, t: u8) -> Bytes {
    let mut p = vec![];
    p.extend_from_slice(&src.to_be_bytes()); p.extend_from_slice(&dst.to_be_bytes()); p.extend_from_slice(&tag.to_be_bytes());
    p.extend_from_slice(&[0, 0, 0, 0]); p.extend_from_slice(&[t, 0, 0, 4]);
    let c = crc32c::crc32c(&p).to_le_bytes();
    p[8..12].copy_from_slice(&c);
    Bytes::from(p)
}

/// an SCTP datagram with one DATA chunk
#[allow(clippy::too_many_arguments)]
pub fn data_packet(src: u16, dst: u16, tag: u32, tsn: u32, flags: u8, sid: u16, ssn: u16, ppid: u32, payload: &[u8]) -> Bytes {
    let mut p = vec![];
    p.extend_from_slice(&src.to_be_bytes()); p.extend_from_slice(&dst.to_be_bytes()); p.extend_from_slice(&tag.to_be_bytes()); p.extend_from_slice(&[0; 4]);
    p.extend_from_slice(&[0, flags]); p.extend_from_slice(&((16 + payload.len()) as u16).to_be_bytes());
    p.extend_from_slice(&tsn.to_be_bytes()); p.extend_from_slice(&sid.to_be_bytes()); p.extend_from_slice(&ssn.to_be_bytes()); p.extend_from_slice(&ppid.to_be_bytes());
    p.extend_from_slice(payload); while p.len() % 4 != 0 { p.push(0); }
    let c = crc32c::crc32c(&p).to_le_bytes(); p[8..12].copy_from_slice(&c);
    Bytes::from(p)
}
/// an SCTP datagram with one FORWARD-TSN chunk
pub fn fwd_packet(src: u16, dst: u16, tag: u32, new_cum: u32, pairs: &[(u16, u16)]) -> Bytes {
    let mut p = vec![];
    p.extend_from_slice(&src.to_be_bytes()); p.extend_from_slice(&dst.to_be_bytes()); p.extend_from_slice(&tag.to_be_bytes()); p.extend_from_slice(&[0; 4]);
    p.extend_from_slice(&[192, 0]); p.extend_from_slice(&((8 + 4 * pairs.len()) as u16).to_be_bytes()); p.extend_from_slice(&new_cum.to_be_bytes());
    for (a, b) in pairs { p.extend_from_slice(&a.to_be_bytes()); p.extend_from_slice(&b.to_be_bytes()); }
    let c = crc32c::crc32c(&p).to_le_bytes(); p[8..12].copy_from_slice(&c);
    Bytes::from(p)
}
pub fn flood_payload(i: usize) -> Vec<u8> { let mut v = b"FLOOD".to_vec(); v.extend_from_slice(&(i as u32).to_be_bytes()); v }

#[derive(Clone, Debug)]
pub struct ChanFinal { pub id: u16, pub state: usize, pub negotiated: bool, pub ordered: bool, pub max_retransmits: Option<u16>,
    pub max_lifetime: Option<u16>, pub label: String, pub protocol: String }

pub struct Outcome {
    pub traces: [Vec<hook::Ev>; 2],
    pub wire: Vec<(usize, Bytes)>,
    /// per side: application events (channel id, event) in order
    pub events: [Vec<(u16, DataChannelEvent)>; 2],
    pub snaps: [hook::Snapshot; 2],
    pub chans_final: [Vec<ChanFinal>; 2],
    pub faults_used: Vec<bool>,
    pub send_errors: Vec<String>,
    pub elapsed_ms: u128,
    pub connected: bool,
    /// the end action was carried out (the run did not hit its deadline before)
    pub ended: bool,
}

fn count_msgs(ev: &[(u16, DataChannelEvent)]) -> usize {
    ev.iter().filter(|(_, e)| matches!(e, DataChannelEvent::Message(_))).count()
}

/// run one case to completion on the current (current-thread) runtime
pub async fn run_case(c: &Case, port_base: u16) -> Outcome {
    let t0 = Instant::now();
    let (pa, pb) = (port_base, port_base + 1);
    let mut a = Endpoint::new(pa, pb, true, &c.cfg[0], &c.chans[0]).await;
    let mut b = Endpoint::new(pb, pa, false, &c.cfg[1], &c.chans[1]).await;
    let mut link = Link::new(c.faults.clone());
    b.start();
    a.start();
    let send_errors = Arc::new(Mutex::new(Vec::<String>::new()));
    let mut started0 = [false, false];
    let mut early_done = false;
    let mut eager_started = false;
    let mut phase1_started = false;
    let mut closes_done = c.closes.is_empty();
    let has_phase1 = c.msgs.iter().any(|m| m.phase == 1);
    let mut sender_handles: Vec<tokio::task::JoinHandle<()>> = vec![];
    let mut last_activity = Instant::now();
    let mut last_progress = Instant::now();
    let mut progress_mark = (0usize, 0u32, 0u32, 0u32, 0u32);
    let mut connected = false;
    let total_expected: usize = c.msgs.len();
    use rustrtc::transports::sctp::SctpState;
    loop {
        let mut moved = false;
        for side in 0..2 {
            loop {
                let pkt = { let ep = if side == 0 { &mut a } else { &mut b }; ep.out_rx.try_recv() };
                let Ok(pkt) = pkt else { break };
                moved = true;
                for p in link.forward(side, pkt) {
                    let peer = if side == 0 { &b } else { &a };
                    let _ = peer.in_tx.send(p);
                }
            }
        }
        a.adopt_new();
        b.adopt_new();
        a.drain_events();
        b.drain_events();
        let st = [a.sctp.verif_snapshot().state, b.sctp.verif_snapshot().state];
        connected = connected || (st[0] == SctpState::Connected && st[1] == SctpState::Connected);
        let all_started0 = started0[0] && started0[1];
        let phase0_quiet = all_started0 && sender_handles.iter().all(|h| h.is_finished()) && link.quiet()
            && last_activity.elapsed() > c.settle;
        // each side's application starts sending as soon as its own association is up; a message is
        // submitted once its channel exists on that side
        let mut to_start: Vec<(usize, u8)> = vec![];
        for side in 0..2 { if !started0[side] && st[side] == SctpState::Connected { started0[side] = true; to_start.push((side, 0)); } }
        // eager tasks (id ≥ 200) do not wait for anything: they call send from the first moment on
        if !eager_started { eager_started = true; to_start.push((0, 200)); to_start.push((1, 200)); }
        // closes marked early (side + 2) are issued at the phase boundary, before the phase-1 traffic
        let early_pending = has_phase1 && !phase1_started && phase0_quiet && !early_done && c.closes.iter().any(|(s, _)| *s >= 2);
        if early_pending {
            early_done = true;
            for (side, id) in c.closes.iter().filter(|(s, _)| *s >= 2) {
                let ep = if *side % 2 == 0 { &a } else { &b };
                if let Err(e) = ep.sctp.close_data_channel(*id).await { send_errors.lock().push(format!("close ch{id}: {e}")); }
            }
            last_activity = Instant::now();
        }
        if has_phase1 && !phase1_started && phase0_quiet && !early_pending { phase1_started = true; last_activity = Instant::now(); to_start.push((0, 1)); to_start.push((1, 1)); }
        for (side, ph) in to_start {
            let eager = ph == 200;
            let ph = if eager { 0 } else { ph };
            let mut tasks: Vec<u8> = c.msgs.iter().filter(|m| m.side == side && m.phase == ph && (m.task >= 200) == eager).map(|m| m.task).collect();
            tasks.sort(); tasks.dedup();
            for task in tasks {
                let msgs: Vec<Msg> = c.msgs.iter().filter(|m| m.side == side && m.phase == ph && m.task == task).cloned().collect();
                let ep = if side == 0 { &a } else { &b };
                let sctp = ep.sctp.clone();
                let chans = ep.channels.clone();
                let errs = send_errors.clone();
                sender_handles.push(tokio::spawn(async move {
                    for m in msgs {
                        let t = Instant::now();
                        if eager {
                            // an impatient application: calls send at once and again until it is accepted; whatever
                            // send accepted (Ok) on a reliable channel has to arrive
                            loop {
                                match sctp.send_data(m.chan, &m.data).await {
                                    Ok(()) => break,
                                    Err(e) if t.elapsed() > Duration::from_secs(5) => { errs.lock().push(format!("send ch{}: {e}", m.chan)); return; }
                                    Err(_) => tokio::time::sleep(Duration::from_millis(1)).await,
                                }
                            }
                            tokio::task::yield_now().await;
                            continue;
                        }
                        // like an application: send only on a channel that has announced Open
                        while !chans.lock().iter().any(|w| w.upgrade().map(|d| d.id == m.chan
                            && d.state.load(std::sync::atomic::Ordering::SeqCst) == 1).unwrap_or(false)) {
                            if t.elapsed() > Duration::from_secs(5) { errs.lock().push(format!("channel {} never opened", m.chan)); return; }
                            tokio::time::sleep(Duration::from_millis(1)).await;
                        }
                        if let Err(e) = sctp.send_data(m.chan, &m.data).await {
                            errs.lock().push(format!("send ch{}: {e}", m.chan));
                            break;
                        }
                        tokio::task::yield_now().await;
                    }
                }));
            }
        }
        if moved { last_activity = Instant::now(); }
        let delivered = count_msgs(&a.events.lock()) + count_msgs(&b.events.lock());
        let idle = last_activity.elapsed();
        // quiet link: release packets still held by delay faults
        if idle > Duration::from_millis(30) {
            for side in 0..2 {
                for p in link.flush(side) {
                    let peer = if side == 0 { &b } else { &a };
                    let _ = peer.in_tx.send(p);
                    last_activity = Instant::now();
                }
            }
        }
        let senders_done = all_started0 && (phase1_started || !has_phase1) && sender_handles.iter().all(|h| h.is_finished());
        let sa = a.sctp.verif_snapshot();
        let sb = b.sctp.verif_snapshot();
        let all_acked = sa.sent_queue.is_empty() && sb.sent_queue.is_empty() && sa.outbound_queue.is_empty() && sb.outbound_queue.is_empty();
        let _ = (delivered, total_expected);
        let done = senders_done && all_acked && link.quiet() && idle > c.settle;
        if done && !closes_done {
            closes_done = true;
            for (side, id) in c.closes.iter().filter(|(s, _)| *s < 2) {
                let ep = if *side == 0 { &a } else { &b };
                if let Err(e) = ep.sctp.close_data_channel(*id).await { send_errors.lock().push(format!("close ch{id}: {e}")); }
            }
            last_activity = Instant::now();
            continue;
        }
        if done { break; }
        // give up at the deadline only if nothing has progressed for a while (a loaded machine is slow, not stalled)
        let mark = (delivered, sa.next_tsn, sb.next_tsn, sa.cumulative_tsn_ack, sb.cumulative_tsn_ack);
        if mark != progress_mark { progress_mark = mark; last_progress = Instant::now(); }
        if t0.elapsed() > c.deadline && (last_progress.elapsed() > Duration::from_secs(4) || t0.elapsed() > 4 * c.deadline) { break; }
        tokio::time::sleep(Duration::from_millis(1)).await;
    }
    for h in &sender_handles { h.abort(); }
    // teardown, observed: the run loop leaves, the cleanup guard announces Close on the channels
    let mut ended = false;
    if c.end != End::None && closes_done {
        ended = true;
        match c.end {
            End::LocalClose(side) => { if side == 0 { a.sctp.close() } else { b.sctp.close() } }
            End::Inject(side, t) => {
                let (ep, peer) = if side == 0 { (&a, &b) } else { (&b, &a) };
                let _ = ep.in_tx.send(control_packet(peer.port, ep.port, ep.sctp.verif_snapshot().local_tag, t));
            }
            End::Script(side, n) => {
                let (ep, peer) = if side == 0 { (&a, &b) } else { (&b, &a) };
                let snap = ep.sctp.verif_snapshot();
                let (tag, cum) = (snap.local_tag, snap.cumulative_tsn_ack);
                let mut pk = vec![];
                match n {
                    1 => {
                        for i in 1..=FLOOD_N { pk.push(data_packet(peer.port, ep.port, tag, cum.wrapping_add(1 + i as u32), 7, 1, 0, 53, &flood_payload(i))); }
                        pk.push(data_packet(peer.port, ep.port, tag, cum.wrapping_add(1), 7, 1, 0, 53, &flood_payload(0)));
                    }
                    2 => { for i in 1..=2u32 { pk.push(data_packet(peer.port, ep.port, tag, cum.wrapping_add(i), 7, 2, 0, 50, &[2])); } }
                    // FORWARD-TSN scripts on channel 2 (flags: 4 = unordered, 2 = B, 1 = E). The first fragment [1] is in the
                    // reassembly buffer when the FORWARD-TSN arrives; nothing may ever be completed from it.
                    3 => { // skipped TSN never received, nothing queued behind it; names only stream 1
                        pk.push(data_packet(peer.port, ep.port, tag, cum.wrapping_add(1), 6, 2, 0, 53, &[1]));
                        pk.push(fwd_packet(peer.port, ep.port, tag, cum.wrapping_add(2), &[(1, 0)]));
                        pk.push(data_packet(peer.port, ep.port, tag, cum.wrapping_add(3), 5, 2, 0, 53, &[3]));
                    }
                    4 => { // the last fragment already queued behind the gap: drained right after the FORWARD-TSN
                        pk.push(data_packet(peer.port, ep.port, tag, cum.wrapping_add(1), 6, 2, 0, 53, &[1]));
                        pk.push(data_packet(peer.port, ep.port, tag, cum.wrapping_add(3), 5, 2, 0, 53, &[3]));
                        pk.push(fwd_packet(peer.port, ep.port, tag, cum.wrapping_add(2), &[(2, 0)]));
                        pk.push(data_packet(peer.port, ep.port, tag, cum.wrapping_add(4), 7, 2, 0, 53, &[9, 9]));
                    }
                    5 => { // a received middle fragment is among the skipped ones (thrown out of the receive queue), one is not
                        pk.push(data_packet(peer.port, ep.port, tag, cum.wrapping_add(1), 6, 2, 0, 53, &[1]));
                        pk.push(data_packet(peer.port, ep.port, tag, cum.wrapping_add(3), 4, 2, 0, 53, &[3]));
                        pk.push(fwd_packet(peer.port, ep.port, tag, cum.wrapping_add(3), &[(2, 0)]));
                        pk.push(data_packet(peer.port, ep.port, tag, cum.wrapping_add(4), 5, 2, 0, 53, &[4]));
                        pk.push(data_packet(peer.port, ep.port, tag, cum.wrapping_add(5), 7, 2, 0, 53, &[9, 9]));
                    }
                    6 => { // no pairs at all
                        pk.push(data_packet(peer.port, ep.port, tag, cum.wrapping_add(1), 6, 2, 0, 53, &[1]));
                        pk.push(fwd_packet(peer.port, ep.port, tag, cum.wrapping_add(2), &[]));
                        pk.push(data_packet(peer.port, ep.port, tag, cum.wrapping_add(3), 5, 2, 0, 53, &[3]));
                        pk.push(data_packet(peer.port, ep.port, tag, cum.wrapping_add(4), 7, 2, 0, 53, &[9, 9]));
                    }
                    _ => { // the same on the ordered channel 1 (SSN 7 skipped): first fragment buffered, FORWARD-TSN, last fragment
                        let ssn = ep.sctp.verif_snapshot().inbound_streams.iter().find(|s| s.0 == 1).map(|s| s.1).unwrap_or(0);
                        pk.push(data_packet(peer.port, ep.port, tag, cum.wrapping_add(1), 2, 1, ssn, 53, &[1]));
                        pk.push(fwd_packet(peer.port, ep.port, tag, cum.wrapping_add(2), &[(1, ssn)]));
                        pk.push(data_packet(peer.port, ep.port, tag, cum.wrapping_add(3), 1, 1, ssn, 53, &[3]));
                        pk.push(data_packet(peer.port, ep.port, tag, cum.wrapping_add(4), 3, 1, ssn.wrapping_add(1), 53, &[9, 9]));
                    }
                }
                for p in pk { let _ = ep.in_tx.send(p); }
            }
            End::None => {}
        }
        let t1 = Instant::now();
        let pump = if matches!(c.end, End::Script(_, 1)) { 600 } else if matches!(c.end, End::Script(..)) { 150 } else { 60 };
        while t1.elapsed() < Duration::from_millis(pump) {
            for side in 0..2 {
                loop {
                    let pkt = { let ep = if side == 0 { &mut a } else { &mut b }; ep.out_rx.try_recv() };
                    let Ok(pkt) = pkt else { break };
                    for p in link.forward(side, pkt) { let peer = if side == 0 { &b } else { &a }; let _ = peer.in_tx.send(p); }
                }
            }
            tokio::time::sleep(Duration::from_millis(1)).await;
        }
    }
    a.adopt_new();
    b.adopt_new();
    a.drain_events();
    b.drain_events();
    let snaps = [a.sctp.verif_snapshot(), b.sctp.verif_snapshot()];
    let traces = [hook::trace_take(pa), hook::trace_take(pb)];
    let fin = |ep: &Endpoint| -> Vec<ChanFinal> { ep.channels.lock().iter().filter_map(|w| w.upgrade()).map(|d| ChanFinal {
        id: d.id, state: d.state.load(std::sync::atomic::Ordering::SeqCst), negotiated: d.negotiated, ordered: d.ordered,
        max_retransmits: d.max_retransmits, max_lifetime: d.max_packet_life_time, label: d.label.clone(), protocol: d.protocol.clone() }).collect() };
    let chans_final = [fin(&a), fin(&b)];
    let events = [a.events.lock().clone(), b.events.lock().clone()];
    a.shutdown();
    b.shutdown();
    Outcome { traces, wire: link.wire, events, snaps, chans_final, faults_used: link.used, send_errors: send_errors.lock().clone(),
        elapsed_ms: t0.elapsed().as_millis(), connected, ended }
}
